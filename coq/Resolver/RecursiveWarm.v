(* Resolver/RecursiveWarm.v -- C07 with a WARM cache: C07_correct_chain (RecursiveChain.v) generalised
   from the empty cache to any cache that is CONSISTENT with the universe.

     cache_consistent u hints c
        every record read from the cache (at a record type, not a QTYPE-only code) is a record of the
        universe -- same owner, type and data as a record in the cuts, the glue or the data of one of
        its zones -- (sound);  every nameserver host named by a cached NS record can be resolved in the
        fast pass: the hints hold an A record for it or the cache does (closed);  a non-empty cached
        RRset of a type other than NS at a name that is not a nameserver host holds the data of EVERY
        record of that name and type in the data of the universe's zones (complete).

   (a) the empty cache is consistent;
   (b) the resolution of a plain question started in a consistent cache ends in a consistent cache
       (every insert_all is given the filter result on a reply of [serve]: a referral's NS set and
       glue, or the answer RRset);
   (c) from a consistent cache the plain question still yields [auth_answer]: either straight from
       the cache -- the cached RRset, which has exactly the data of the authoritative one (TTLs and
       order are the cache's), no exchange -- or over the network, starting at the deepest zone of
       the question's delegation chain whose NS set is cached (the root hints if none), one exchange
       per zone from there on, returning exactly [auth_answer].

   The cache is abstract, with four laws about ONE insert_all into ANY cache (shape, sound, monotone,
   complete); they are proved for SimpleCache and for the real cache model at a fixed instant.

   Not covered: nameserver hosts without glue, aliases (RecursiveAlias.v), the v6 modes, servers
   authoritative for several zones of one chain, faults, questions for NS / CNAME / ANY and questions
   about a nameserver host. *)
From Coq Require Import Permutation.
From RV Require Import Base.Prelude Name.NameModel Name.NameSpec Name.NameProofs
     Wire.WireTypes Wire.WireModel Wire.WireGrammar Wire.WireEncodeProofs Wire.WireDecodeProofs
     Zone.ZoneModel Zone.ZoneFlat Zone.ZoneProofs
     Resolver.LocalModel Resolver.LocalSpec Resolver.LocalProofs
     Resolver.ValidateModel Resolver.ValidateSpec Resolver.ValidateProofs
     Resolver.TransportModel Resolver.RecursiveModel Resolver.ForwardingModel
     Resolver.RecursiveProofs Resolver.ForwardingProofs
     Resolver.Universe Resolver.ResolverFacts Resolver.RecursiveCorrect Resolver.RecursiveDepth1
     Resolver.RecursiveChain.
Set Default Timeout 120.

(* ====================================================================== *)
(* 1. record types, and the four laws of the cache                          *)
(* ====================================================================== *)

(* a record type proper: not ANY and not one of the QTYPE-only codes AXFR MAILB MAILA *)
Definition concrete (t : N) : Prop :=
  t <> QT_Wildcard /\ existsb (fun p : N * list N => fst p =? t) qtype_table = false.

Lemma concrete_A : concrete RT_A. Proof. split; [discriminate|reflexivity]. Qed.
Lemma concrete_NS : concrete RT_NS. Proof. split; [discriminate|reflexivity]. Qed.
Lemma concrete_CNAME : concrete RT_CNAME. Proof. split; [discriminate|reflexivity]. Qed.

Lemma concrete_matches t qt : concrete qt -> rtype_matches t qt = true -> t = qt.
Proof. intros [H _]. apply rtype_matches_concrete, H. Qed.

Lemma concrete_matches_refl t : concrete t -> rtype_matches t t = true.
Proof.
  intros [H1 H2]. unfold rtype_matches. apply N.eqb_neq in H1. rewrite H1, H2. apply N.eqb_refl.
Qed.

Section CacheLaws.
  Variable cache : Type.
  Variable cache_get : cache -> dname -> N -> list rr.
  Variable cache_insert_all : cache -> list rr -> cache.

  Record cache_laws : Prop := {
    (* what is read at (n, t) is owned by n, of type t, class IN *)
    L_shape : forall c n t x, concrete t -> In x (cache_get c n t) ->
      rr_name x = n /\ rr_type x = t /\ rr_class x = RC_IN;
    (* what is read after an insert_all was read before or was given to it *)
    L_sound : forall c rrs n t x, concrete t -> In x (cache_get (cache_insert_all c rrs) n t) ->
      In x (cache_get c n t) \/ exists r, In r rrs /\ rr_name r = n /\ rr_type r = t /\ rr_data r = rr_data x /\ 0 < rr_ttl r;
    (* what was read before can be read after (the TTL may be that of a record given anew) *)
    L_mono : forall c rrs n t x, concrete t -> In x (cache_get c n t) ->
      exists x', In x' (cache_get (cache_insert_all c rrs) n t) /\ rr_data x' = rr_data x;
    (* what is given with a positive TTL can be read *)
    L_complete : forall c rrs r, In r rrs -> concrete (rr_type r) -> 0 < rr_ttl r ->
      exists x, In x (cache_get (cache_insert_all c rrs) (rr_name r) (rr_type r)) /\ rr_data x = rr_data r }.
End CacheLaws.

(* ====================================================================== *)
(* 2. SimpleCache meets the laws                                            *)
(* ====================================================================== *)

Definition sc_vals (c : scache) (k : dname * N) : list (rdata * N) :=
  match alookup sc_key_eqb k c with Some v => v | None => [] end.

Lemma sc_get_concrete c n t : concrete t ->
  sc_get c n t = filter (fun r => 0 <? rr_ttl r) (sc_to_rrs (n, t) (sc_vals c (n, t))).
Proof.
  intros [H1 H2]. unfold sc_get, sc_vals. apply N.eqb_neq in H1. rewrite H1, H2.
  destruct (alookup sc_key_eqb (n, t) c); reflexivity.
Qed.

Lemma sc_get_in c n t x : concrete t ->
  (In x (sc_get c n t) <->
   exists e, In e (sc_vals c (n, t)) /\ 0 < snd e /\
             x = {| rr_name := n; rr_type := t; rr_class := RC_IN; rr_ttl := snd e; rr_data := fst e |}).
Proof.
  intro Hc. rewrite (sc_get_concrete c n t Hc), filter_In. unfold sc_to_rrs. rewrite in_map_iff. split.
  - intros [(e & <- & He) Hpos]. apply N.ltb_lt in Hpos. exists e. auto.
  - intros (e & He & Hpos & ->). split; [exists e; auto|apply N.ltb_lt; exact Hpos].
Qed.

Lemma nth_error_swap_remove {A} (e : A) : forall i l, In e l -> In e (swap_remove_at i l) \/ nth_error l i = Some e.
Proof.
  induction i as [|i IH]; intros [|y l] H; try destruct H; cbn [swap_remove_at nth_error].
  - right. subst. reflexivity.
  - left. destruct (exists_last (l := l)) as (l' & z & ->); [intro E; subst; destruct H|].
    rewrite rev_app_distr. cbn [rev app]. rewrite removelast_last.
    apply in_app_or in H as [H|[H|[]]]; [right; exact H|left; exact H].
  - subst. left. left. reflexivity.
  - destruct (IH l H) as [H1|H1]; [left; right; exact H1|right; exact H1].
Qed.

Lemma find_index_nth {A} (p : A -> bool) : forall l i y, find_index p l = Some i -> nth_error l i = Some y -> p y = true.
Proof.
  induction l as [|x l IH]; intros i y H Hn; cbn [find_index] in H; [discriminate|].
  destruct (p x) eqn:E.
  - inversion H; subst. cbn in Hn. inversion Hn; subst. exact E.
  - destruct (find_index p l) as [j|] eqn:Ej; [|discriminate]. cbn in H. inversion H; subst.
    cbn in Hn. exact (IH j y eq_refl Hn).
Qed.

(* an entry survives an upsert, or is replaced by the new entry of the same data *)
Lemma sc_upsert_keep vals d ttl e : In e vals -> In e (sc_upsert vals d ttl) \/ fst e = d.
Proof.
  intro H. unfold sc_upsert. destruct (find_index _ vals) as [i|] eqn:Ei.
  - destruct (nth_error_swap_remove e i vals H) as [H1|H1].
    + left. apply in_or_app. left. exact H1.
    + right. pose proof (find_index_nth _ _ _ _ Ei H1) as Hp. cbv beta in Hp. apply rdata_eqb_eq in Hp. exact Hp.
  - left. apply in_or_app. left. exact H.
Qed.

Lemma sc_vals_insert c r k :
  sc_vals (sc_insert c r) k =
  if (0 <? rr_ttl r) && sc_key_eqb k (rr_name r, rr_type r)
  then sc_upsert (sc_vals c k) (rr_data r) (rr_ttl r)
  else sc_vals c k.
Proof.
  unfold sc_insert. destruct (0 <? rr_ttl r); [|reflexivity]. cbn [andb].
  destruct (sc_key_eqb k (rr_name r, rr_type r)) eqn:Ek.
  - apply sc_key_eqb_eq in Ek. subst k. unfold sc_vals at 2.
    destruct (alookup sc_key_eqb (rr_name r, rr_type r) c) as [old|] eqn:El.
    + unfold sc_vals. rewrite (alookup_areplace_same sc_key_eqb _ old _ _ El). reflexivity.
    + unfold sc_vals. rewrite (alookup_app_new sc_key_eqb sc_key_eqb_eq _ _ _ El). reflexivity.
  - assert (Hne : k <> (rr_name r, rr_type r)).
    { intro E. apply sc_key_eqb_eq in E. congruence. }
    unfold sc_vals. destruct (alookup sc_key_eqb (rr_name r, rr_type r) c) as [old|].
    + rewrite (alookup_areplace_other sc_key_eqb sc_key_eqb_eq) by exact Hne. reflexivity.
    + rewrite (alookup_app_other sc_key_eqb sc_key_eqb_eq) by exact Hne. reflexivity.
Qed.

(* a positive entry read after one insert was there before, or is the inserted record *)
Lemma sc_insert_sound c r k e : In e (sc_vals (sc_insert c r) k) ->
  In e (sc_vals c k) \/ (k = (rr_name r, rr_type r) /\ e = (rr_data r, rr_ttl r) /\ 0 < rr_ttl r).
Proof.
  rewrite sc_vals_insert. destruct (0 <? rr_ttl r) eqn:Ht; [|left; assumption]. cbn [andb].
  destruct (sc_key_eqb k (rr_name r, rr_type r)) eqn:Ek; [|left; assumption].
  intro H. apply in_sc_upsert in H as [H| ->]; [left; exact H|].
  right. apply sc_key_eqb_eq in Ek. apply N.ltb_lt in Ht. auto.
Qed.

Lemma sc_insert_mono c r k e : In e (sc_vals c k) -> 0 < snd e ->
  exists e', In e' (sc_vals (sc_insert c r) k) /\ fst e' = fst e /\ 0 < snd e'.
Proof.
  intros H Hpos. rewrite sc_vals_insert. destruct (0 <? rr_ttl r) eqn:Ht; [|exists e; auto]. cbn [andb].
  destruct (sc_key_eqb k (rr_name r, rr_type r)); [|exists e; auto].
  destruct (sc_upsert_keep _ (rr_data r) (rr_ttl r) e H) as [H1|H1]; [exists e; auto|].
  exists (rr_data r, rr_ttl r). split; [apply sc_upsert_last|]. split; [symmetry; exact H1|apply N.ltb_lt; exact Ht].
Qed.

Lemma sc_insert_all_sound : forall rrs c k e, In e (sc_vals (sc_insert_all c rrs) k) ->
  In e (sc_vals c k) \/ exists r, In r rrs /\ k = (rr_name r, rr_type r) /\ e = (rr_data r, rr_ttl r) /\ 0 < rr_ttl r.
Proof.
  unfold sc_insert_all. induction rrs as [|r rrs IH]; intros c k e H; cbn [fold_left] in H; [left; exact H|].
  destruct (IH _ _ _ H) as [H1|(r' & Hr' & H1)].
  - destruct (sc_insert_sound _ _ _ _ H1) as [H2|H2]; [left; exact H2|]. right. exists r. split; [left; reflexivity|exact H2].
  - right. exists r'. split; [right; exact Hr'|exact H1].
Qed.

Lemma sc_insert_all_mono : forall rrs c k e, In e (sc_vals c k) -> 0 < snd e ->
  exists e', In e' (sc_vals (sc_insert_all c rrs) k) /\ fst e' = fst e /\ 0 < snd e'.
Proof.
  unfold sc_insert_all. induction rrs as [|r rrs IH]; intros c k e H Hpos; cbn [fold_left]; [exists e; auto|].
  destruct (sc_insert_mono c r k e H Hpos) as (e1 & H1 & E1 & P1).
  destruct (IH _ _ _ H1 P1) as (e2 & H2 & E2 & P2). exists e2. split; [exact H2|]. split; [congruence|exact P2].
Qed.

Lemma sc_insert_all_complete : forall rrs c r, In r rrs -> 0 < rr_ttl r ->
  exists e, In e (sc_vals (sc_insert_all c rrs) (rr_name r, rr_type r)) /\ fst e = rr_data r /\ 0 < snd e.
Proof.
  induction rrs as [|x rrs IH]; intros c r Hin Hpos; [destruct Hin|].
  change (sc_insert_all c (x :: rrs)) with (sc_insert_all (sc_insert c x) rrs).
  destruct Hin as [->|Hin]; [|apply IH; assumption].
  assert (H0 : In (rr_data r, rr_ttl r) (sc_vals (sc_insert c r) (rr_name r, rr_type r))).
  { rewrite sc_vals_insert. apply N.ltb_lt in Hpos. rewrite Hpos.
    replace (sc_key_eqb (rr_name r, rr_type r) (rr_name r, rr_type r)) with true by (symmetry; apply sc_key_eqb_eq; reflexivity).
    cbn [andb]. apply sc_upsert_last. }
  destruct (sc_insert_all_mono rrs _ _ _ H0 Hpos) as (e' & H1 & E1 & P1). exists e'. auto.
Qed.

Theorem sc_cache_laws : cache_laws scache sc_get sc_insert_all.
Proof.
  constructor.
  - intros c n t x Hc H. apply (sc_get_in c n t x Hc) in H as (e & _ & _ & ->). auto.
  - intros c rrs n t x Hc H. apply (sc_get_in _ n t x Hc) in H as (e & He & Hpos & ->).
    destruct (sc_insert_all_sound _ _ _ _ He) as [H1|(r & Hr & Hk & -> & Hp)].
    + left. apply (sc_get_in c n t _ Hc). exists e. auto.
    + right. exists r. inversion Hk; subst. cbn [rr_data fst]. auto.
  - intros c rrs n t x Hc H. apply (sc_get_in c n t x Hc) in H as (e & He & Hpos & ->).
    destruct (sc_insert_all_mono rrs c _ _ He Hpos) as (e' & H1 & E1 & P1).
    eexists. split; [apply (sc_get_in _ n t _ Hc); exists e'; split; [exact H1|split; [exact P1|reflexivity]]|]. exact E1.
  - intros c rrs r Hin Hc Hpos. destruct (sc_insert_all_complete rrs c r Hin Hpos) as (e & He & E & P).
    eexists. split; [apply (sc_get_in _ _ _ _ Hc); exists e; split; [exact He|split; [exact P|reflexivity]]|]. exact E.
Qed.

(* ====================================================================== *)
(* 3. consistency of a cache with a universe; what is asked of a question   *)
(* ====================================================================== *)

Section WarmDefs.
  Variable u : universe.
  Variable hints : list rr.

  (* a record of the universe: in the cuts, the glue or the data (SOA included) of one of its zones *)
  Definition u_record (r : rr) : Prop :=
    exists z, In z (u_zones u) /\ In r (uz_cuts z ++ uz_glue z ++ zone_data z).

  (* [h] is named by an NS record of the universe owned by [n] / by some NS record of the universe *)
  Definition ns_host_any (n h : dname) : Prop := exists r, u_record r /\ rr_name r = n /\ is_ns_rr r = Some h.
  Definition ns_host_name (h : dname) : Prop := exists r, u_record r /\ is_ns_rr r = Some h.

  (* delegation points hold NS records only; NS records name a host *)
  Definition universe_ns_ok : Prop :=
    (forall z r, In z (u_zones u) -> In r (uz_cuts z) -> rr_type r = RT_NS)
    /\ (forall r, u_record r -> rr_type r = RT_NS -> exists h, rr_data r = RD_Name h).

  Section Consistent.
    Variable cache : Type.
    Variable cache_get : cache -> dname -> N -> list rr.

    (* the fast pass finds an address for the host: in the hints or in the cache *)
    Definition host_ready (c : cache) (h : dname) : Prop :=
      wf_name h /\ ((exists x, hint_match hints h RT_A x) \/ cache_get c h RT_A <> []).

    Definition cache_consistent (c : cache) : Prop :=
      (* sound: what is cached is a record of the universe (up to TTL and class) *)
      (forall n t x, concrete t -> In x (cache_get c n t) ->
         exists r, u_record r /\ rr_name r = n /\ rr_type r = t /\ rr_data r = rr_data x)
      (* closed: the hosts of a cached NS set are resolvable in the fast pass *)
      /\ (forall n x h, In x (cache_get c n RT_NS) -> is_ns_rr x = Some h -> host_ready c h)
      (* complete: a cached RRset (not NS, not at a nameserver host) has all the data of the universe *)
      /\ (forall n t, concrete t -> t <> RT_NS -> cache_get c n t <> [] -> ~ ns_host_name n ->
            forall z r, In z (u_zones u) -> In r (zone_data z) -> rr_name r = n -> rr_type r = t ->
              exists x, In x (cache_get c n t) /\ rr_data x = rr_data r).

    (* (a) a cache that answers nothing is consistent *)
    Lemma empty_consistent c : (forall n t, cache_get c n t = []) -> cache_consistent c.
    Proof.
      intro H. split; [|split].
      - intros n t x _ Hx. rewrite H in Hx. destruct Hx.
      - intros n x h Hx. rewrite H in Hx. destruct Hx.
      - intros n t _ _ Hne. rewrite H in Hne. congruence.
    Qed.
  End Consistent.

  Section Question.
    Variable q : question.

    (* every nameserver host the universe names for the apex of [zc] has a well-formed name, and every
       A record the universe or the hints hold for it is the address of a server whose closest zone
       for the question name is [zc] *)
    Definition ns_hosts_ok (zc : uzone) : Prop :=
      forall h, ns_host_any (uz_apex zc) h ->
        wf_name h /\
        (forall r, u_record r -> rr_name r = h -> rr_type r = RT_A ->
           exists a, rr_data r = RD_A a /\ serves_owner u (inl a) zc q) /\
        (forall g a, In g hints -> labels (rr_name g) = labels h -> rr_type g = RT_A -> rr_data g = RD_A a ->
           serves_owner u (inl a) zc q).

    (* chain_link of RecursiveChain.v with the address clause over the whole universe (the cache may
       hold any of its records): [zc] is delegated from [zp] on the way to the question name with A glue *)
    Definition wlink (zp zc : uzone) : Prop :=
      In zp (u_zones u)
      /\ cut_owner zp (q_name q) = Some (uz_apex zc)
      /\ llen (labels (uz_apex zp)) < llen (labels (uz_apex zc))
      /\ (forall r, In r (uz_glue zp ++ uz_rrs zp) -> rr_name r <> q_name q)
      /\ (forall h, ns_host_of zp (uz_apex zc) h ->
            exists g, In g (uz_glue zp ++ uz_rrs zp) /\ rr_name g = h /\ rr_type g = RT_A /\ 0 < rr_ttl g)
      /\ ns_hosts_ok zc.

    (* the delegation chain from [z] down to [zk] *)
    Fixpoint wchain (zk z : uzone) (rest : list uzone) : Prop :=
      match rest with
      | [] => z = zk
      | zc :: rest' => wlink z zc /\ wchain zk zc rest'
      end.

    (* what the walk down the delegation chain needs of a question (plain or alias):
       zroot :: rest is the delegation chain of its name, zk (the last zone) owns the name *)
    Record walk_question (zroot : uzone) (rest : list uzone) (zk : uzone) : Prop := {
      wk_wf : wf_name (q_name q);
      wk_type : concrete (q_type q) /\ q_type q <> RT_NS /\ q_type q <> RT_CNAME;
      wk_root : uz_apex zroot = root_domain;
      wk_hints : hints_for u zroot hints q;
      wk_chain : wchain zk zroot rest;
      (* the name is not a nameserver host *)
      wk_nothost : ~ ns_host_name (q_name q);
      (* no alias strictly above the name *)
      wk_nocname : forall r, u_record r -> rr_type r = RT_CNAME -> In (labels (rr_name r)) (suffixes (labels (q_name q))) ->
        labels (rr_name r) = labels (q_name q);
      (* the owners of NS records at or above the name are the root and the apexes of the chain *)
      wk_onchain : forall r, u_record r -> rr_type r = RT_NS -> In (labels (rr_name r)) (suffixes (labels (q_name q))) ->
        labels (rr_name r) = [[]] \/ exists zi, In zi rest /\ rr_name r = uz_apex zi }.

    (* the name is owned plainly by zk: no alias at it, no glue for it anywhere, data for it only in
       zk; the answer records have TTL > 0 *)
    Record plain_at (zk : uzone) : Prop := {
      pa_owner : answering_zone u zk q;
      pa_noglue : forall z r, In z (u_zones u) -> In r (uz_glue z) -> rr_name r <> q_name q;
      pa_sole : forall z r, In z (u_zones u) -> In r (zone_data z) -> rr_name r = q_name q -> In r (zone_data zk);
      pa_ttl : forall r, In r (zone_data zk) -> rr_name r = q_name q -> rr_type r = q_type q -> 0 < rr_ttl r;
      pa_nocname : forall r, u_record r -> rr_type r = RT_CNAME -> rr_name r <> q_name q }.

    (* a plain question of the universe, for a resolver whose cache may be warm *)
    Definition warm_question (zroot : uzone) (rest : list uzone) (zk : uzone) : Prop :=
      walk_question zroot rest zk /\ plain_at zk.
  End Question.
End WarmDefs.

(* ====================================================================== *)
(* 4. consistency is kept by the two kinds of insert_all                    *)
(* ====================================================================== *)

Lemma in_suffixes {A} (pre l : list A) : l <> [] -> In l (suffixes (pre ++ l)).
Proof.
  intro Hne. induction pre as [|x pre IH]; cbn [app].
  - destruct l; [congruence|]. left. reflexivity.
  - cbn [suffixes]. right. exact IH.
Qed.

Section Keep.
  Variable cache : Type.
  Variable cache_get : cache -> dname -> N -> list rr.
  Variable cache_insert_all : cache -> list rr -> cache.
  Hypothesis LAWS : cache_laws cache cache_get cache_insert_all.
  Variable u : universe.
  Variable hints : list rr.
  Variable q : question.

  Notation consistent := (cache_consistent u hints cache cache_get).
  Notation ready := (host_ready hints cache cache_get).

  Lemma ready_mono c rrs h : ready c h -> ready (cache_insert_all c rrs) h.
  Proof.
    intros [Hwf [Hh|Hc]]; split; try exact Hwf; [left; exact Hh|right].
    destruct (cache_get c h RT_A) as [|x l] eqn:E; [congruence|].
    destruct (L_mono _ _ _ LAWS c rrs h RT_A x concrete_A) as (x' & Hx' & _); [rewrite E; left; reflexivity|].
    intro E'. rewrite E' in Hx'. destruct Hx'.
  Qed.

  Lemma ne_in {A} (l : list A) : l <> [] -> exists x, In x l.
  Proof. destruct l as [|x l]; [congruence|]. exists x. left. reflexivity. Qed.

  (* the general step: the new records are records of the universe; the hosts of the new NS records
     are ready afterwards; the new records of other types are at nameserver hosts, or they hold all
     the data of their name and type, with positive TTLs *)
  Lemma consistent_insert c rrs :
    consistent c ->
    (forall r, In r rrs -> u_record u r) ->
    (forall r h, In r rrs -> is_ns_rr r = Some h -> ready (cache_insert_all c rrs) h) ->
    (forall r, In r rrs -> rr_type r <> RT_NS -> concrete (rr_type r) -> ~ ns_host_name u (rr_name r) ->
       forall z r', In z (u_zones u) -> In r' (zone_data z) -> rr_name r' = rr_name r -> rr_type r' = rr_type r ->
         In r' rrs /\ 0 < rr_ttl r') ->
    consistent (cache_insert_all c rrs).
  Proof.
    intros (S1 & S2 & S3) Hrec Hns Hall. split; [|split].
    - intros n t x Hc Hx. destruct (L_sound _ _ _ LAWS c rrs n t x Hc Hx) as [H|(r & Hr & H1 & H2 & H3 & _)].
      + exact (S1 n t x Hc H).
      + exists r. split; [exact (Hrec r Hr)|auto].
    - intros n x h Hx Hh. destruct (L_sound _ _ _ LAWS c rrs n RT_NS x concrete_NS Hx) as [H|(r & Hr & H1 & H2 & H3 & _)].
      + apply ready_mono. exact (S2 n x h H Hh).
      + apply (Hns r h Hr). apply is_ns_rr_spec in Hh as [_ Hd]. apply is_ns_rr_spec. split; [exact H2|congruence].
    - intros n t Hc Hns' Hne Hnot z r' Hz Hr' Hn' Ht'.
      destruct (ne_in _ Hne) as [x Hx].
      destruct (L_sound _ _ _ LAWS c rrs n t x Hc Hx) as [H|(r & Hr & H1 & H2 & H3 & _)].
      + assert (Hne0 : cache_get c n t <> []) by (intro E; rewrite E in H; destruct H).
        destruct (S3 n t Hc Hns' Hne0 Hnot z r' Hz Hr' Hn' Ht') as (x0 & Hx0 & Hd0).
        destruct (L_mono _ _ _ LAWS c rrs n t x0 Hc Hx0) as (x1 & Hx1 & Hd1). exists x1. split; [exact Hx1|congruence].
      + rewrite <- H2 in Hns', Hc. rewrite <- H1 in Hnot.
        destruct (Hall r Hr Hns' Hc Hnot z r' Hz Hr' ltac:(congruence) ltac:(congruence)) as [Hin Hpos].
        assert (Hc' : concrete (rr_type r')) by (rewrite Ht', <- H2; exact Hc).
        destruct (L_complete _ _ _ LAWS c rrs r' Hin Hc' Hpos) as (x1 & Hx1 & Hd1).
        rewrite Hn', Ht' in Hx1. exists x1. auto.
  Qed.

  Variable zk : uzone.
  Hypothesis Hqc : concrete (q_type q).
  Hypothesis Hqns : q_type q <> RT_NS.
  Hypothesis PA : plain_at u q zk.

  Lemma zk_in : In zk (u_zones u).
  Proof.
    destruct (pa_owner _ _ _ PA) as ((Hb & _) & _). apply best_zone_spec in Hb as [Hb|[Hb _]]; [discriminate|exact Hb].
  Qed.

  Lemma answer_rrs : aa_rrs (auth_answer u q) = filter (fun r => rtype_matches (rr_type r) (q_type q)) (rrs_at zk (q_name q)).
  Proof.
    destruct (pa_owner _ _ _ PA) as ((Hb & Hc & Hn) & _).
    unfold auth_answer. change CHAIN_FUEL with (S 63). rewrite auth_chain_S, Hb, Hc. cbv zeta. rewrite Hn.
    destruct (filter _ _); reflexivity.
  Qed.

  (* the answer RRset *)
  Lemma consistent_insert_answer c : consistent c -> consistent (cache_insert_all c (aa_rrs (auth_answer u q))).
  Proof.
    intro HC.
    assert (Hin : forall r, In r (aa_rrs (auth_answer u q)) ->
              In r (zone_data zk) /\ rr_name r = q_name q /\ rr_type r = q_type q).
    { intros r Hr. rewrite answer_rrs in Hr. apply filter_In in Hr as [Hr Hm]. apply rrs_at_in in Hr as [Hr Hn].
      apply dname_eqb_eq in Hn. split; [exact Hr|]. split; [exact Hn|exact (concrete_matches _ _ Hqc Hm)]. }
    apply consistent_insert; [exact HC| | |].
    - intros r Hr. exists zk. split; [exact zk_in|]. apply in_or_app. right. apply in_or_app. right. exact (proj1 (Hin r Hr)).
    - intros r h Hr Hh. exfalso. apply is_ns_rr_spec in Hh as [Ht _]. destruct (Hin r Hr) as (_ & _ & Ht'). congruence.
    - intros r Hr _ _ _ z r' Hz Hr' Hn' Ht'. destruct (Hin r Hr) as (_ & Hn & Ht).
      assert (Hzk : In r' (zone_data zk)) by (apply (pa_sole _ _ _ PA z r' Hz Hr'); congruence).
      split.
      + rewrite answer_rrs. apply filter_In. split.
        * unfold rrs_at. apply filter_In. split; [exact Hzk|]. apply dname_eqb_eq. congruence.
        * rewrite Ht', Ht. apply concrete_matches_refl, Hqc.
      + apply (pa_ttl _ _ _ PA r' Hzk); congruence.
  Qed.

  (* the records of a referral: the NS set of the cut and the glue of its hosts *)
  Lemma consistent_insert_referral c z zc names :
    universe_ns_ok u -> consistent c -> wlink u hints q z zc ->
    (forall h, In h names <-> ns_host_of z (uz_apex zc) h) ->
    consistent (cache_insert_all c (referral_ins z zc names)).
  Proof.
    intros (Ucut & Uns) HC (Hz & Hcut & Hdeep & Hnoglue & Hglue & Hhosts) Hnames.
    assert (Hfrom : forall r, In r (referral_ins z zc names) ->
              (exists h, is_ns_rr r = Some h /\ In h names /\ In r (uz_cuts z) /\ rr_name r = uz_apex zc)
              \/ (is_ns_rr r = None /\ address_rr r /\ In (rr_name r) names /\ In r (uz_glue z ++ uz_rrs z))).
    { intros r Hr. unfold referral_ins in Hr. apply in_app_or in Hr as [Hr|Hr]; apply filter_In in Hr as [Hr Hf].
      - apply ns_glue_filter_true in Hf as [(h & Hns & _ & Hn & Hh)|(_ & Hfalse & _)]; [|discriminate]. left. exists h.
        split; [apply is_ns_rr_spec, Hns|]. split; [exact Hh|]. unfold referral in Hr. cbn [sr_authority] in Hr.
        apply filter_In in Hr as [Hr _]. auto.
      - unfold referral in Hr. cbn [sr_additional] in Hr. apply filter_In in Hr as [Hr _].
        destruct (is_ns_rr r) as [h|] eqn:En.
        + exfalso. unfold ns_glue_filter in Hf. rewrite En in Hf. discriminate Hf.
        + apply ns_glue_filter_true in Hf as [(h & Hns & Hfalse & _)|(Ha & _ & Hh)]; [discriminate|]. right. auto. }
    assert (Hcutrec : forall r, In r (uz_cuts z) -> u_record u r).
    { intros r Hr. exists z. split; [exact Hz|]. apply in_or_app. left. exact Hr. }
    assert (Hhostname : forall h, In h names -> ns_host_name u h /\ ns_host_any u (uz_apex zc) h).
    { intros h Hh. apply Hnames in Hh as (r & Hr & Hn & Hh). split; exists r; auto using Hcutrec. }
    apply consistent_insert; [exact HC| | |].
    - intros r Hr. destruct (Hfrom r Hr) as [(h & _ & _ & Hc & _)|(_ & _ & _ & Hg)]; [exact (Hcutrec r Hc)|].
      exists z. split; [exact Hz|]. apply in_or_app. right. apply in_app_or in Hg as [Hg|Hg]; apply in_or_app; [left; exact Hg|].
      right. right. exact Hg.
    - intros r h Hr Hh. destruct (Hfrom r Hr) as [(h' & Hh' & Hin & _)|(Hnone & _)]; [|congruence].
      assert (h' = h) by congruence. subst h'.
      destruct (Hglue h (proj1 (Hnames h) Hin)) as (g & Hg & Hgn & Hgt & Hgttl).
      split; [exact (proj1 (Hhosts h (proj2 (Hhostname h Hin))))|]. right.
      assert (Hgin : In g (referral_ins z zc names)).
      { apply (referral_addr_in z zc names g h); try assumption. exact (proj1 (Hnames h) Hin). }
      destruct (L_complete _ _ _ LAWS c _ g Hgin) as (x & Hx & _); [rewrite Hgt; exact concrete_A|exact Hgttl|].
      rewrite Hgn, Hgt in Hx. intro E. rewrite E in Hx. destruct Hx.
    - intros r Hr Hnotns _ Hnothost. exfalso. destruct (Hfrom r Hr) as [(h & Hh & _)|(_ & _ & Hin & _)].
      + apply is_ns_rr_spec in Hh as [Ht _]. contradiction.
      + exact (Hnothost (proj1 (Hhostname _ Hin))).
  Qed.
End Keep.

(* ====================================================================== *)
(* 5. the resolution of a plain question from a consistent cache            *)
(* ====================================================================== *)

(* the two lists hold the same data: each record of one has a record of the other with the same
   owner, type and data (TTL, class and order aside) *)
Definition same_data (a b : list rr) : Prop :=
  (forall x, In x a -> exists r, In r b /\ rr_name r = rr_name x /\ rr_type r = rr_type x /\ rr_data r = rr_data x)
  /\ (forall r, In r b -> exists x, In x a /\ rr_name x = rr_name r /\ rr_type x = rr_type r /\ rr_data x = rr_data r).

Lemma same_data_refl a : same_data a a.
Proof. split; intros x Hx; exists x; auto. Qed.

Lemma ns_hostnames_of_in rrs h : In h (ns_hostnames_of rrs) <-> exists x, In x rrs /\ is_ns_rr x = Some h.
Proof.
  unfold ns_hostnames_of, is_ns_rr. rewrite in_flat_map. split.
  - intros (x & Hx & Hh). exists x. split; [exact Hx|]. destruct (rr_type x =? RT_NS); [|destruct Hh].
    destruct (rr_data x); try (destruct Hh; fail). destruct Hh as [->|[]]. reflexivity.
  - intros (x & Hx & Hh). exists x. split; [exact Hx|]. destruct (rr_type x =? RT_NS); [|discriminate].
    destruct (rr_data x); try discriminate. inversion Hh. left. reflexivity.
Qed.

Section Warm.
  Variable cache : Type.
  Variable cache_get : cache -> dname -> N -> list rr.
  Variable cache_insert_all : cache -> list rr -> cache.
  Hypothesis LAWS : cache_laws cache cache_get cache_insert_all.

  Variable sort_names : list dname -> list dname.
  Hypothesis Hsort : forall l, Permutation (sort_names l) l.

  Variable zs : zones.
  Variable hints : list rr.
  Hypothesis Hz : hints_zones zs hints.
  Hypothesis Hh : Forall hint_ok hints.

  Variable o : oracle.
  Variable port : N.
  Variable u : universe.
  Hypothesis UNS : universe_ns_ok u.

  Variable q : question.
  Variable zroot : uzone.
  Variable rest0 : list uzone.
  Variable zk : uzone.
  Hypothesis WK : walk_question u hints q zroot rest0 zk.
  Hypothesis Hdel : delivers_log o u port q.

  (* the questions under way when [q] is asked (none at the top; the alias questions when [q] is the
     target of an alias): none for NS, none about a nameserver host, none the hints answer *)
  Variable stk : list question.
  Hypothesis Hstk_len : (length stk + 1 < 32)%nat.
  Hypothesis Hstk_q : is_duplicate_question stk q = false.
  Hypothesis Hstk : Forall (fun s => q_type s <> RT_NS /\ ~ ns_host_name u (q_name s)
                                     /\ forall x, ~ hint_match hints (q_name s) (q_type s) x) stk.
  Notation istk := (stk ++ [q]).

  Notation rrn := (resolve_recursive_notimeout cache cache_get cache_insert_all sort_names zs o OnlyV4 port).
  Notation cloop := (candidate_loop cache cache_get cache_insert_all sort_names zs o OnlyV4 port).
  Notation cstep := (candidate_step cache cache_get cache_insert_all sort_names zs o OnlyV4 port).
  Notation rhi := (resolve_hostname_to_ip cache cache_get zs OnlyV4).
  Notation consistent := (cache_consistent u hints cache cache_get).
  Notation ready := (host_ready hints cache cache_get).
  Notation A := (auth_answer u q).

  Let Hq_nohint : forall x, ~ hint_match hints (q_name q) (q_type q) x :=
    hints_no_match u zroot hints q (wk_hints _ _ _ _ _ _ WK).
  Let Hq_wf : wf_name (q_name q) := wk_wf _ _ _ _ _ _ WK.

  Lemma Hq_any : q_type q <> QT_Wildcard.
  Proof. exact (proj1 (proj1 (wk_type _ _ _ _ _ _ WK))). Qed.

  Lemma limit_false (l : list question) : (length l < 32)%nat -> at_recursion_limit l = false.
  Proof. intro H. unfold at_recursion_limit, llen, RECURSION_LIMIT. apply N.eqb_neq. lia. Qed.
  Lemma Hlim_out : at_recursion_limit stk = false.
  Proof. apply limit_false. lia. Qed.
  Lemma Hlim_in : at_recursion_limit istk = false.
  Proof. apply limit_false. rewrite app_length. cbn [length]. lia. Qed.

  Lemma not_dup_istk q' :
    (forall s, In s istk -> q_name q' = q_name s -> q_type q' = q_type s -> False) -> is_duplicate_question istk q' = false.
  Proof.
    intro H. unfold is_duplicate_question. destruct (existsb (question_eqb q') istk) eqn:E; [|reflexivity]. exfalso.
    apply existsb_exists in E as (s & Hs & Hq). apply question_eqb_true in Hq as [H1 H2]. exact (H s Hs H1 H2).
  Qed.

  Lemma in_istk s : In s istk -> s = q \/ (q_type s <> RT_NS /\ ~ ns_host_name u (q_name s)
                                           /\ forall x, ~ hint_match hints (q_name s) (q_type s) x).
  Proof.
    intro H. apply in_app_or in H as [H|[H|[]]]; [right|left; auto]. exact (proj1 (Forall_forall _ _) Hstk s H).
  Qed.

  Lemma dup_host h : ns_host_name u h -> is_duplicate_question istk (mkq h RT_A RC_IN) = false.
  Proof.
    intro Hh'. apply not_dup_istk. intros s Hs Hn _. cbn [mkq q_name] in Hn.
    destruct (in_istk s Hs) as [->|(_ & H & _)]; [apply (wk_nothost _ _ _ _ _ _ WK)|apply H]; rewrite <- Hn; exact Hh'.
  Qed.

  Lemma dup_hint n t x : hint_match hints n t x -> is_duplicate_question istk (mkq n t RC_IN) = false.
  Proof.
    intro Hm. apply not_dup_istk. intros s Hs Hn Ht. cbn [mkq q_name q_type] in Hn, Ht.
    destruct (in_istk s Hs) as [->|(_ & _ & H)]; [apply (Hq_nohint x)|apply (H x)]; rewrite <- Hn, <- Ht; exact Hm.
  Qed.

  (* the candidate [h] resolves locally, in the cache [c], to the address of a server of [z] *)
  Definition wcand_ok (z : uzone) (c : cache) (h : dname) : Prop :=
    forall rec ts, exists a, rhi rec istk true h (c, ts) = (Val (Some (inl a)), (c, ts)) /\ serves_owner u (inl a) z q.

  Lemma host_cand_ok zc c h :
    consistent c -> ns_hosts_ok u hints q zc -> ns_host_any u (uz_apex zc) h -> ready c h -> wcand_ok zc c h.
  Proof.
    intros (S1 & _) Hok Hany (Hwf & Hready) rec ts.
    destruct (Hok h Hany) as (_ & Hu & Hhi).
    assert (Hdup : is_duplicate_question istk (mkq h RT_A RC_IN) = false).
    { apply dup_host. destruct Hany as (r & Hr & _ & Hh'). exists r. auto. }
    destruct (hint_match_dec zs hints h RT_A Hz Hwf ltac:(discriminate)) as [[x0 Hx0]|Hno].
    - destruct (rhi_hint cache cache_get zs hints Hz Hh rec istk h (c, ts) x0 Hlim_in Hdup Hwf Hx0)
        as (r' & a & Hr' & Hl' & Ht' & Hd' & E).
      exists a. split; [exact E|]. exact (Hhi r' a Hr' Hl' Ht' Hd').
    - destruct Hready as [[x Hx]|Hne]; [destruct (Hno x Hx)|].
      assert (Hfrom : forall x, In x (cache_get c h RT_A) ->
                rr_name x = h /\ rr_type x = RT_A /\ rr_class x = RC_IN /\
                exists a, rr_data x = RD_A a /\ serves_owner u (inl a) zc q).
      { intros x Hx. destruct (L_shape _ _ _ LAWS c h RT_A x concrete_A Hx) as (H1 & H2 & H3).
        repeat (split; [assumption|]).
        destruct (S1 h RT_A x concrete_A Hx) as (r & Hr & Hrn & Hrt & Hrd).
        destruct (Hu r Hr Hrn Hrt) as (a & Ha & Hsv). exists a. split; [congruence|exact Hsv]. }
      assert (Hall : Forall (addr_rr h) (cache_get c h RT_A)).
      { apply Forall_forall. intros x Hx. destruct (Hfrom x Hx) as (H1 & H2 & H3 & a & Ha & _). unfold addr_rr. eauto. }
      destruct (rhi_cached cache cache_get zs hints Hz rec istk h (c, ts) Hlim_in Hdup Hwf Hno Hne Hall)
        as (x & a & Hx & Hd & E).
      exists a. split; [exact E|]. destruct (Hfrom x Hx) as (_ & _ & _ & a' & Ha' & Hsv). congruence.
  Qed.

  Lemma cuts_ns z : In z (u_zones u) -> Forall (fun r => exists h, is_ns_rr r = Some h) (uz_cuts z).
  Proof.
    intro Hin. destruct UNS as (Ucut & Uns). apply Forall_forall. intros r Hr.
    pose proof (Ucut z r Hin Hr) as Ht.
    destruct (Uns r) as [h Hd]; [exists z; split; [exact Hin|apply in_or_app; left; exact Hr]|exact Ht|].
    exists h. apply is_ns_rr_spec. split; assumption.
  Qed.

  (* THE INDUCTION of RecursiveChain.chain_loop over a consistent cache, up to the last zone: the
     loop follows one referral per zone of [visited] and then stands at [zk], with candidates that
     resolve in the fast pass to servers of [zk], in a consistent cache *)
  Lemma warm_descend : forall rest z c mc cands f ts,
    wchain u hints q zk z rest -> consistent c ->
    cands <> [] -> (forall h, In h cands -> wcand_ok z c h) ->
    mc <= llen (labels (uz_apex z)) -> ts_elapsed ts <= BUDGET_MS ->
    exists c1 ts1 es mc1 cands1 visited,
      cloop (length rest + f) istk q [] mc cands [] true (c, ts) = cloop f istk q [] mc1 cands1 [] true (c1, ts1)
      /\ ts_rlog ts1 = rev es ++ ts_rlog ts
      /\ z :: rest = visited ++ [zk] /\ chain_log u port q visited es
      /\ consistent c1 /\ cands1 <> [] /\ (forall h, In h cands1 -> wcand_ok zk c1 h)
      /\ mc1 <= llen (labels (uz_apex zk)) /\ ts_elapsed ts1 <= BUDGET_MS.
  Proof.
    induction rest as [|zc rest IH]; intros z c mc cands f ts Hch HC Hne Hcok Hmc Hbud.
    - cbn [wchain] in Hch. subst z. exists c, ts, [], mc, cands, []. cbn [length Nat.add rev app].
      repeat (split; [first [reflexivity|assumption|constructor]|]). exact Hbud.
    - cbn [length Nat.add]. cbn [wchain] in Hch. destruct Hch as (Hlink & Hrest).
      pose proof Hlink as (Hzin & Hcut & Hdeep & Hnoglue & Hglue & Hhosts).
      destruct (pop_last_some _ Hne) as (cand & rest1 & Ep & Hc).
      destruct (Hcok cand Hc (rrn (length rest + f)) ts) as (a & Eh & Hsrv).
      rewrite cloop_S.
      destruct (referral_hop_log cache cache_get cache_insert_all sort_names zs o OnlyV4 port u (inl a) z (uz_apex zc) q
                  (rrn (length rest + f)) (cloop (length rest + f) istk q []) istk mc cands [] true (c, ts) cand rest1 (c, ts)
                  Hdel Hsrv Hcut (cuts_ns z Hzin) ltac:(lia) Hnoglue Ep Eh Hbud)
        as (names & ts1 & E1 & Hnames & Hbud1 & (e & Hlog & Hk & Ha & Hqe & Hrd)).
      cbn [fst snd] in E1, Hlog. rewrite E1. clear E1.
      fold (referral_ins z zc names).
      assert (Hnames' : forall h, In h names <-> ns_host_of z (uz_apex zc) h) by exact Hnames.
      pose proof (consistent_insert_referral cache cache_get cache_insert_all LAWS u hints q c z zc names UNS HC Hlink Hnames') as HC1.
      destruct (cut_owner_spec _ _ _ Hcut) as (_ & r0 & Hr0 & Hr0c).
      assert (Hnn : sort_names names <> []).
      { intro E. pose proof (Hsort names) as P. rewrite E in P. apply Permutation_nil in P.
        pose proof (cuts_ns z Hzin) as Hnsty. rewrite Forall_forall in Hnsty. destruct (Hnsty r0 Hr0) as [h0 Hh0].
        assert (Hx : In h0 names) by (apply Hnames; exists r0; auto). rewrite P in Hx. destruct Hx. }
      destruct (IH zc (cache_insert_all c (referral_ins z zc names)) (llen (labels (uz_apex zc))) (sort_names names) f ts1
                  Hrest HC1 Hnn) as (c' & ts' & es & mc1 & cands1 & visited & E & Hlog' & Hvis & Hes & HC' & Hne1 & Hok1 & Hmc1 & Hbud').
      { intros h Hin. apply (Permutation_in _ (Hsort _)) in Hin.
        destruct (proj1 (Hnames h) Hin) as (r & Hr & Hrn & Hrh).
        assert (Hany : ns_host_any u (uz_apex zc) h).
        { exists r. split; [exists z; split; [exact Hzin|apply in_or_app; left; exact Hr]|auto]. }
        apply host_cand_ok; [exact HC1|exact Hhosts|exact Hany|].
        destruct (Hglue h (proj1 (Hnames' h) Hin)) as (g & Hg & Hgn & Hgt & Hgttl).
        split; [exact (proj1 (Hhosts h Hany))|]. right.
        assert (Hgin : In g (referral_ins z zc names)).
        { apply (referral_addr_in z zc names g h); try assumption. exact (proj1 (Hnames' h) Hin). }
        destruct (L_complete _ _ _ LAWS c _ g Hgin) as (x & Hx & _); [rewrite Hgt; exact concrete_A|exact Hgttl|].
        rewrite Hgn, Hgt in Hx. intro E. rewrite E in Hx. destruct Hx. }
      { lia. }
      { exact Hbud1. }
      exists c', ts', (e :: es), mc1, cands1, (z :: visited). split; [exact E|].
      split; [rewrite Hlog', Hlog; cbn [rev]; rewrite <- app_assoc; reflexivity|].
      split; [cbn [app]; rewrite Hvis; reflexivity|].
      split; [constructor; [exists a; unfold query_to; auto|exact Hes]|].
      auto 10.
  Qed.

  (* ---- where the resolution starts ---- *)

  Lemma local_cache_hit stack q' st :
    at_recursion_limit stack = false -> is_duplicate_question stack q' = false ->
    wf_name (q_name q') -> q_type q' <> QT_Wildcard ->
    (forall x, ~ hint_match hints (q_name q') (q_type q') x) ->
    cache_get (fst st) (q_name q') (q_type q') <> [] ->
    local cache cache_get zs stack q' st
    = (Val (Some (LDone (NonAuthoritative (cache_get (fst st) (q_name q') (q_type q')) None))), st).
  Proof.
    intros. destruct local_fuel_S as [f Ef]. unfold local.
    rewrite Ef, (rl_cache zs hints Hz) by assumption. reflexivity.
  Qed.

  (* every root nameserver of the hints resolves, locally, to the address of a root server *)
  Lemma root_cand c rec rrs cand ts :
    (forall x, In x rrs <-> hint_match hints root_domain RT_NS x) -> In cand (ns_hostnames_of rrs) ->
    exists a, rhi rec istk true cand (c, ts) = (Val (Some (inl a)), (c, ts)) /\ serves_owner u (inl a) zroot q.
  Proof.
    pose proof (wk_hints _ _ _ _ _ _ WK) as HH. destruct HH as (_ & _ & Hroot_addr & Hroot_srv & _).
    intros Hin Hcand. apply ns_hostnames_of_in in Hcand. destruct Hcand as (x & Hx & Hxh).
    apply Hin in Hx. destruct Hx as (r & Hr & _ & _ & Ex). subst x.
    apply is_ns_rr_spec in Hxh. destruct Hxh as [Hm Hd]. cbn [rr_type rr_data] in Hm, Hd.
    destruct (Hroot_addr r cand Hr Hm Hd) as (Hwf & g & Hg & Hgl & Hgt).
    assert (Hm0 : hint_match hints cand RT_A
                    {| rr_name := cand; rr_type := rr_type g; rr_class := RC_IN; rr_ttl := rr_ttl g; rr_data := rr_data g |}).
    { exists g. split; [exact Hg|]. split; [exact Hgl|]. split; [rewrite Hgt; reflexivity|reflexivity]. }
    destruct (rhi_hint cache cache_get zs hints Hz Hh rec istk cand (c, ts) _ Hlim_in
                (dup_hint cand RT_A _ Hm0) Hwf Hm0) as (r' & a & Hr' & _ & Ht' & Hd' & E).
    exists a. split; [exact E|]. exact (Hroot_srv r' a Hr' Ht' Hd').
  Qed.

  Lemma ns_not_dup name : is_duplicate_question istk (mkq name RT_NS RC_IN) = false.
  Proof.
    apply not_dup_istk. intros s Hs _ Ht. cbn [mkq q_type] in Ht.
    destruct (in_istk s Hs) as [->|(H & _)]; [|congruence].
    destruct (wk_type _ _ _ _ _ _ WK) as (_ & Hns & _). congruence.
  Qed.

  (* candidate_nameservers from a consistent cache that holds no alias for the name itself: the root
     nameservers of the hints, or the cached NS set of a zone of the chain, whose hosts are all
     resolvable in the fast pass *)
  Lemma warm_cand_ns c ts : consistent c -> cache_get c (q_name q) RT_CNAME = [] ->
    forall front pre, labels (q_name q) = pre ++ front ++ [[]] -> wf_labels (front ++ [[]]) ->
    exists d, candidate_ns_loop cache cache_get zs istk (@suffixes label (front ++ [[]])) (c, ts) = (Val (Some d), (c, ts))
      /\ ns_hostnames d <> []
      /\ ((ns_name d = root_domain /\ exists rrs, ns_hostnames d = ns_hostnames_of rrs
                                       /\ forall x, In x rrs <-> hint_match hints root_domain RT_NS x)
          \/ (exists zi, In zi rest0 /\ ns_name d = uz_apex zi
                         /\ forall h, In h (ns_hostnames d) -> ns_host_any u (uz_apex zi) h /\ ready c h)).
  Proof.
    intros (S1 & S2 & S3) Hown.
    destruct (hints_root_ns u zroot hints q (wk_hints _ _ _ _ _ _ WK)) as [x0 Hx0].
    induction front as [|l front IH]; intros pre Hl Hwf; cbn [app suffixes candidate_ns_loop].
    - rewrite from_labels_root. destruct local_fuel_S as [f Ef].
      destruct (rl_hit zs hints Hz (cache_get c) f istk (mkq root_domain RT_NS RC_IN) x0 Hlim_in (ns_not_dup _) root_wf
                  ltac:(discriminate) Hx0) as (rrs & Hrl & Hne & Hin).
      pose proof (hint_ns_hosts hints Hh rrs Hne (fun x Hx => proj1 (Hin x) Hx)) as Hhosts.
      eexists. split; [|split; [|left; split; [|exists rrs; split; [|exact Hin]]]].
      + unfold rbind, local. cbn [fst]. rewrite Ef, Hrl. cbn [resolved_rrs].
        destruct (ns_hostnames_of rrs) eqn:E; [congruence|]. cbn [is_nil]. rewrite <- E. reflexivity.
      + exact Hhosts.
      + reflexivity.
      + reflexivity.
    - cbn [app] in Hwf. rewrite (from_labels_mkname _ Hwf).
      set (name' := mkname (l :: front ++ [[]])).
      assert (Hwfn : wf_name name') by (split; [exact Hwf|reflexivity]).
      assert (Hsuf : In (labels name') (suffixes (labels (q_name q)))).
      { rewrite Hl. cbn [name' mkname labels]. apply (in_suffixes pre (l :: front ++ [[]])). discriminate. }
      assert (Hnoh : forall x, ~ hint_match hints name' RT_NS x).
      { intros x (r & Hr & Hlr & Hm & _). apply rtype_matches_ns in Hm.
        destruct (proj1 (Forall_forall _ _) Hh r Hr) as [_ [(_ & Hl' & _)|(Ht & _)]]; [|rewrite Ht in Hm; discriminate Hm].
        rewrite Hl' in Hlr. cbn [name' mkname labels] in Hlr. inversion Hlr. destruct front; discriminate. }
      destruct (cache_get c name' RT_NS) as [|x1 l1] eqn:Ens.
      + assert (Hcn : cache_get c name' RT_CNAME = []).
        { destruct (cache_get c name' RT_CNAME) as [|y l2] eqn:Ecn; [reflexivity|]. exfalso.
          destruct (S1 name' RT_CNAME y concrete_CNAME) as (r & Hr & Hrn & Hrt & _); [rewrite Ecn; left; reflexivity|].
          assert (Hsame : labels name' = labels (q_name q)).
          { rewrite <- Hrn. apply (wk_nocname _ _ _ _ _ _ WK r Hr Hrt). rewrite Hrn. exact Hsuf. }
          assert (name' = q_name q) by (apply wf_name_eq; assumption).
          rewrite H, Hown in Ecn. discriminate Ecn. }
        assert (Hnone : local cache cache_get zs istk (mkq name' RT_NS RC_IN) (c, ts) = (Val None, (c, ts))).
        { apply (local_miss cache cache_get zs hints Hz); try assumption; cbn [mkq q_name q_type fst];
            [exact Hlim_in|apply ns_not_dup|discriminate]. }
        unfold rbind at 1. rewrite Hnone. cbn [is_nil].
        apply (IH (pre ++ [l])).
        * rewrite Hl, <- app_assoc. reflexivity.
        * apply (wf_labels_suffix [l] (front ++ [[]])); [exact Hwf|]. destruct front; discriminate.
      + assert (Hhit : local cache cache_get zs istk (mkq name' RT_NS RC_IN) (c, ts)
                       = (Val (Some (LDone (NonAuthoritative (cache_get c name' RT_NS) None))), (c, ts))).
        { apply (local_cache_hit istk (mkq name' RT_NS RC_IN) (c, ts)); cbn [mkq q_name q_type fst];
            [exact Hlim_in|apply ns_not_dup|exact Hwfn|discriminate|exact Hnoh|rewrite Ens; discriminate]. }
        unfold rbind at 1. rewrite Hhit. cbn [resolved_rrs].
        (* the cached NS records name hosts *)
        assert (Hrec : forall x, In x (cache_get c name' RT_NS) ->
                  exists r h, u_record u r /\ rr_name r = name' /\ rr_type r = RT_NS /\ is_ns_rr r = Some h /\ is_ns_rr x = Some h).
        { intros x Hx. destruct (L_shape _ _ _ LAWS c name' RT_NS x concrete_NS Hx) as (_ & Hxt & _).
          destruct (S1 name' RT_NS x concrete_NS Hx) as (r & Hr & Hrn & Hrt & Hrd).
          destruct (proj2 UNS r Hr Hrt) as [h Hd]. exists r, h. repeat (split; [assumption|]).
          split; apply is_ns_rr_spec; split; congruence. }
        assert (Hx1 : In x1 (cache_get c name' RT_NS)) by (rewrite Ens; left; reflexivity).
        destruct (Hrec x1 Hx1) as (r1 & h1 & Hr1 & Hr1n & Hr1t & Hr1h & Hx1h).
        assert (Hhne : ns_hostnames_of (cache_get c name' RT_NS) <> []).
        { intro E. assert (Hin : In h1 (ns_hostnames_of (cache_get c name' RT_NS))) by (apply ns_hostnames_of_in; eauto).
          rewrite E in Hin. destruct Hin. }
        assert (Hnil : is_nil (ns_hostnames_of (cache_get c name' RT_NS)) = false)
          by (destruct (ns_hostnames_of (cache_get c name' RT_NS)); [congruence|reflexivity]).
        rewrite Hnil.
        eexists. split; [reflexivity|]. cbn [ns_hostnames ns_name]. split; [exact Hhne|]. right.
        destruct (wk_onchain _ _ _ _ _ _ WK r1 Hr1 Hr1t) as [Hroot|(zi & Hzi & Hapex)].
        { rewrite Hr1n. exact Hsuf. }
        { exfalso. rewrite Hr1n in Hroot. cbn [name' mkname labels] in Hroot. inversion Hroot. destruct front; discriminate. }
        exists zi. split; [exact Hzi|]. split; [congruence|].
        intros h Hin. apply ns_hostnames_of_in in Hin as (x & Hx & Hxh).
        destruct (Hrec x Hx) as (r & h' & Hr & Hrn & Hrt & Hrh & Hxh'). assert (h' = h) by congruence. subst h'.
        split; [exists r; split; [exact Hr|]; split; [congruence|exact Hrh]|exact (S2 name' x h Hx Hxh)].
  Qed.

  Lemma wchain_split : forall rest z, wchain u hints q zk z rest -> forall zi, In zi rest ->
    exists pre post, z :: rest = pre ++ zi :: post /\ wchain u hints q zk zi post /\ ns_hosts_ok u hints q zi
                     /\ (length post < length rest)%nat.
  Proof.
    induction rest as [|zc rest IH]; intros z Hch zi Hin; [destruct Hin|]. cbn [wchain] in Hch. destruct Hch as (Hlink & Hrest).
    destruct Hin as [->|Hin].
    - exists [z], rest. split; [reflexivity|]. split; [exact Hrest|]. split; [exact (proj2 (proj2 (proj2 (proj2 (proj2 Hlink)))))|]. cbn [length]. lia.
    - destruct (IH zc Hrest zi Hin) as (pre & post & E & Hpost & Hok & Hlen). exists (z :: pre), post.
      split; [cbn [app]; rewrite E; reflexivity|]. split; [exact Hpost|]. split; [exact Hok|]. cbn [length]. lia.
  Qed.

  (* when the cache holds neither records of the asked type nor an alias at the name, the resolution
     walks down a suffix [visited ++ [zk]] of the delegation chain -- one logged exchange per zone of
     [visited] -- and then stands in the candidate loop at [zk], with [f0] fuel left, candidates that
     resolve in the fast pass to servers of [zk], a consistent cache *)
  Lemma warm_reach c f ts :
    consistent c -> ts_elapsed ts <= BUDGET_MS -> (length rest0 <= f)%nat ->
    cache_get c (q_name q) (q_type q) = [] -> cache_get c (q_name q) RT_CNAME = [] ->
    exists f0 c1 ts1 es mc1 cands1 pre visited,
      rrn (S f) stk q (c, ts) = cloop f0 istk q [] mc1 cands1 [] true (c1, ts1)
      /\ (f <= f0 + length rest0)%nat
      /\ ts_rlog ts1 = rev es ++ ts_rlog ts
      /\ zroot :: rest0 = pre ++ visited ++ [zk] /\ chain_log u port q visited es
      /\ consistent c1 /\ cands1 <> [] /\ (forall h, In h cands1 -> wcand_ok zk c1 h)
      /\ mc1 <= llen (labels (uz_apex zk)) /\ ts_elapsed ts1 <= BUDGET_MS.
  Proof.
    intros HC Hbud Hf Eget Hcn.
    cbn [resolve_recursive_notimeout]. unfold recursive_body.
    rewrite Hlim_out, Hstk_q.
    unfold rbind at 1.
    rewrite (local_miss cache cache_get zs hints Hz stk q (c, ts) Hlim_out Hstk_q Hq_wf Hq_any Hq_nohint Eget Hcn).
    unfold rbind at 1. unfold candidate_nameservers.
    destruct (proj1 Hq_wf) as (front & Hlq & _).
    destruct (warm_cand_ns c ts HC Hcn front [] ltac:(rewrite Hlq; reflexivity) ltac:(rewrite <- Hlq; exact (proj1 Hq_wf)))
      as (d & Hd & Hdne & Hcases).
    rewrite Hlq, Hd.
    assert (Hs : sort_names (ns_hostnames d) <> []).
    { intro E. pose proof (Hsort (ns_hostnames d)) as P. rewrite E in P. apply Permutation_nil in P. exact (Hdne P). }
    destruct Hcases as [(Hdn & rrs & Ehosts & Hin)|(zi & Hzi & Hdn & Hhosts)].
    - replace f with (length rest0 + (f - length rest0))%nat by lia.
      destruct (warm_descend rest0 zroot c (ns_match_count d) (sort_names (ns_hostnames d)) (f - length rest0) ts
                  (wk_chain _ _ _ _ _ _ WK) HC Hs)
        as (c1 & ts1 & es & mc1 & cands1 & visited & E & Hlog & Hvis & Hes & HC1 & Hne1 & Hok1 & Hmc1 & Hbud1).
      { intros h Hc0 rec ts0. apply (Permutation_in _ (Hsort _)) in Hc0. rewrite Ehosts in Hc0.
        exact (root_cand c rec rrs h ts0 Hin Hc0). }
      { unfold ns_match_count. rewrite Hdn, (wk_root _ _ _ _ _ _ WK). lia. }
      { exact Hbud. }
      exists (f - length rest0)%nat, c1, ts1, es, mc1, cands1, [], visited.
      split; [exact E|]. split; [lia|]. split; [exact Hlog|]. split; [exact Hvis|]. auto 10.
    - destruct (wchain_split rest0 zroot (wk_chain _ _ _ _ _ _ WK) zi Hzi) as (pre & post & Esplit & Hpost & Hok & Hlen).
      replace f with (length post + (f - length post))%nat by lia.
      destruct (warm_descend post zi c (ns_match_count d) (sort_names (ns_hostnames d)) (f - length post) ts Hpost HC Hs)
        as (c1 & ts1 & es & mc1 & cands1 & visited & E & Hlog & Hvis & Hes & HC1 & Hne1 & Hok1 & Hmc1 & Hbud1).
      { intros h Hc0. apply (Permutation_in _ (Hsort _)) in Hc0. destruct (Hhosts h Hc0) as [Hany Hrdy].
        exact (host_cand_ok zi c h HC Hok Hany Hrdy). }
      { unfold ns_match_count. rewrite Hdn. lia. }
      { exact Hbud. }
      exists (f - length post)%nat, c1, ts1, es, mc1, cands1, pre, visited.
      split; [exact E|]. split; [lia|]. split; [exact Hlog|]. split; [rewrite Esplit, Hvis; reflexivity|]. auto 10.
  Qed.

  (* ---- the plain question: the last hop and the whole resolution ---- *)
  Section Plain.
    Hypothesis PA : plain_at u q zk.

    (* the last hop, saying what is inserted *)
    Lemma last_hop_warm z rec loop stack mc cands next locally st candidate rest a st1 :
      owns_plainly u z q -> serves_owner u a z q ->
      q_type q <> RT_CNAME -> q_type q <> QT_Wildcard ->
      Forall (fun r => rr_is_unknown r = false) (zone_data z) ->
      rr_type (uz_soa z) = RT_SOA -> rr_name (uz_soa z) = uz_apex z -> mc <= llen (labels (uz_apex z)) ->
      pop_last cands = Some (candidate, rest) ->
      rhi rec stack locally candidate st = (Val (Some a), st1) -> ts_elapsed (snd st1) <= BUDGET_MS ->
      exists ts',
        cstep rec loop stack q [] mc cands next locally st
        = (Val (ROk (NonAuthoritative (aa_rrs A) (aa_soa A))), (cache_insert_all (fst st1) (aa_rrs A), ts'))
        /\ one_udp (a, port) q (snd st1) ts'.
    Proof.
      intros Ho Hs Hq1 Hq2 Hknown Hsoat Hsoan Hmc Ep Eh Hbud.
      destruct (serve_is_auth_answer u a z q Ho Hs) as (_ & Hrrs & Hcases).
      destruct Hcases as [(Hne & Hsoa & Hserve)|(Hnil & Hsoa & rcode & Hrc & Hserve)].
      - assert (Hplain : Forall (plain_rr q) (aa_rrs A)).
        { rewrite Hrrs. apply Forall_forall. intros r Hr. apply filter_In in Hr. destruct Hr as [Hin Hm].
          apply rrs_at_in in Hin. destruct Hin as [Hin Hn]. apply dname_eqb_eq in Hn.
          split; [eapply Forall_forall in Hknown; [exact Hknown|exact Hin]|]. split; [exact Hn|]. split; [exact Hm|].
          rewrite (rtype_matches_concrete _ _ Hq2 Hm). exact Hq1. }
        pose proof (validate_plain_answer q true RCODE_NoError _ [] [] mc Hplain Hne) as Hv.
        destruct (qav_delivered_log cache o port u a q _ mc st1 _ Hdel Hbud Hserve (msg_matches _ _ _ _ _ _ (or_introl eq_refl)) Hv)
          as (ts' & Eq & _ & Hlog).
        exists ts'. split; [|exact Hlog].
        rewrite (cstep_answer cache cache_get cache_insert_all sort_names zs o OnlyV4 port _ _ _ _ _ _ _ _ _ _ _ _ _ _ _ _ _ Ep Eh Eq) by (intros r0 Hr0; apply owned_elsewhere_qname; eapply Forall_forall in Hplain; [|exact Hr0]; exact (proj1 (proj2 Hplain))).
        rewrite merge_nil_l, Hsoa. reflexivity.
      - destruct Ho as (Hb & _).
        apply best_zone_spec in Hb. destruct Hb as [Hb|[_ Hsub]]; [discriminate|].
        assert (Hv : validate_nameserver_response q (msg q true rcode [] [uz_soa z] []) mc = Ok (Some (NRAnswer [] (Some (uz_soa z))))).
        { apply validate_denial; [exact Hrc|exact Hsoat|rewrite Hsoan; exact Hsub|rewrite Hsoan; exact Hmc]. }
        destruct (qav_delivered_log cache o port u a q _ mc st1 _ Hdel Hbud Hserve (msg_matches _ _ _ _ _ _ Hrc) Hv)
          as (ts' & Eq & _ & Hlog).
        exists ts'. split; [|exact Hlog].
        rewrite (cstep_answer cache cache_get cache_insert_all sort_names zs o OnlyV4 port _ _ _ _ _ _ _ _ _ _ _ _ _ _ _ _ _ Ep Eh Eq) by (intros r0 []).
        rewrite merge_nil_l, Hnil, Hsoa. reflexivity.
    Qed.

    Lemma answer_soa_none : aa_rrs A <> [] -> aa_soa A = None.
    Proof.
      destruct (pa_owner _ _ _ PA) as ((Hb & Hc & Hn) & _).
      unfold auth_answer. change CHAIN_FUEL with (S 63). rewrite auth_chain_S, Hb, Hc. cbv zeta. rewrite Hn.
      destruct (filter _ _); cbn [is_nil negb aa_rrs aa_soa]; [congruence|reflexivity].
    Qed.

    Lemma plain_no_cached_alias c : consistent c -> cache_get c (q_name q) RT_CNAME = [].
    Proof.
      intros (S1 & _). destruct (cache_get c (q_name q) RT_CNAME) as [|y l2] eqn:Ecn; [reflexivity|]. exfalso.
      destruct (S1 (q_name q) RT_CNAME y concrete_CNAME) as (r & Hr & Hrn & Hrt & _); [rewrite Ecn; left; reflexivity|].
      exact (pa_nocname _ _ _ PA r Hr Hrt Hrn).
    Qed.

    (* a non-empty cached RRset for the question has exactly the authoritative data (and the
       authoritative answer is then not a denial) *)
    Lemma cached_same_data c : consistent c -> cache_get c (q_name q) (q_type q) <> [] ->
      same_data (cache_get c (q_name q) (q_type q)) (aa_rrs A) /\ aa_soa A = None.
    Proof.
      intros HC Hne. pose proof HC as (S1 & S2 & S3).
      destruct (wk_type _ _ _ _ _ _ WK) as (Hqc & Hqns & Hqcn).
      assert (Hsame : same_data (cache_get c (q_name q) (q_type q)) (aa_rrs A)).
      { split.
        - intros x Hx. destruct (L_shape _ _ _ LAWS c _ _ x Hqc Hx) as (Hxn & Hxt & _).
          destruct (S1 _ _ x Hqc Hx) as (r & (z & Hzin & Hr) & Hrn & Hrt & Hrd).
          exists r. split; [|split; [congruence|split; congruence]].
          rewrite (answer_rrs u q zk PA). apply filter_In. split.
          + unfold rrs_at. apply filter_In. split; [|apply dname_eqb_eq; exact Hrn].
            apply in_app_or in Hr as [Hr|Hr].
            * exfalso. apply Hqns. rewrite <- Hrt. exact (proj1 UNS z r Hzin Hr).
            * apply in_app_or in Hr as [Hr|Hr]; [exfalso; exact (pa_noglue _ _ _ PA z r Hzin Hr Hrn)|].
              exact (pa_sole _ _ _ PA z r Hzin Hr Hrn).
          + rewrite Hrt. apply concrete_matches_refl, Hqc.
        - intros r Hr. rewrite (answer_rrs u q zk PA) in Hr. apply filter_In in Hr as [Hr Hm].
          apply rrs_at_in in Hr as [Hr Hn]. apply dname_eqb_eq in Hn. pose proof (concrete_matches _ _ Hqc Hm) as Ht.
          destruct (S3 _ _ Hqc Hqns Hne (wk_nothost _ _ _ _ _ _ WK) zk r (zk_in u q zk PA) Hr Hn Ht) as (x & Hx & Hd).
          destruct (L_shape _ _ _ LAWS c _ _ x Hqc Hx) as (Hxn & Hxt & _).
          exists x. split; [exact Hx|]. split; [congruence|]. split; [congruence|exact Hd]. }
      split; [exact Hsame|]. apply answer_soa_none.
      destruct (ne_in _ Hne) as [y0 Hy0]. destruct (proj1 Hsame y0 Hy0) as (r & Hr & _). intro E. rewrite E in Hr. destruct Hr.
    Qed.

    (* (b) + (c): the resolution of the question from a consistent cache *)
    Theorem warm_resolve c f ts :
      consistent c -> ts_elapsed ts <= BUDGET_MS -> (length rest0 < f)%nat ->
      exists rrs c' ts' es,
        rrn (S f) stk q (c, ts) = (Val (ROk (NonAuthoritative rrs (aa_soa A))), (c', ts'))
        /\ ts_rlog ts' = rev es ++ ts_rlog ts
        /\ consistent c'
        /\ ((es = [] /\ c' = c /\ rrs = cache_get c (q_name q) (q_type q) /\ rrs <> [] /\ same_data rrs (aa_rrs A))
            \/ (rrs = aa_rrs A /\ cache_get c (q_name q) (q_type q) = []
                /\ exists pre used, zroot :: rest0 = pre ++ used /\ used <> [] /\ chain_log u port q used es)).
    Proof.
      intros HC Hbud Hf. pose proof HC as (S1 & S2 & S3).
      destruct (wk_type _ _ _ _ _ _ WK) as (Hqc & Hqns & Hqcn).
      destruct (cache_get c (q_name q) (q_type q)) as [|y0 l0] eqn:Eget.
      - (* not cached: over the network *)
        destruct (warm_reach c f ts HC Hbud ltac:(lia) Eget (plain_no_cached_alias c HC))
          as (f0 & c1 & ts1 & es & mc1 & cands1 & pre & visited & E & Hf0 & Hlog & Hvis & Hes & HC1 & Hne1 & Hok1 & Hmc1 & Hbud1).
        rewrite E. destruct f0 as [|f0]; [lia|].
        destruct (pa_owner _ _ _ PA) as (Hown & Hknown & Hsoat & Hsoan).
        destruct (pop_last_some _ Hne1) as (cand & rest1 & Ep & Hc).
        destruct (Hok1 cand Hc (rrn f0) ts1) as (a & Eh & Hsrv).
        rewrite cloop_S.
        destruct (last_hop_warm zk (rrn f0) (cloop f0 istk q []) istk mc1 cands1 [] true (c1, ts1) cand rest1 (inl a) (c1, ts1)
                    Hown Hsrv Hqcn Hq_any Hknown Hsoat Hsoan Hmc1 Ep Eh Hbud1)
          as (ts' & E' & (e & Hlog' & Hk & Ha & Hqe & Hrd)).
        exists (aa_rrs A). eexists. exists ts', (es ++ [e]). split; [exact E'|].
        split; [cbn [snd] in Hlog'; rewrite Hlog', Hlog, rev_app_distr; reflexivity|].
        split; [cbn [fst]; exact (consistent_insert_answer cache cache_get cache_insert_all LAWS u hints q zk Hqc Hqns PA c1 HC1)|].
        right. split; [reflexivity|]. split; [reflexivity|]. exists pre, (visited ++ [zk]).
        split; [exact Hvis|]. split; [destruct visited; discriminate|].
        apply Forall2_app; [exact Hes|]. constructor; [|constructor]. exists a. unfold query_to. auto.
      - (* cached: the answer comes from the cache *)
        assert (Hne : cache_get c (q_name q) (q_type q) <> []) by (rewrite Eget; discriminate).
        rewrite <- Eget.
        cbn [resolve_recursive_notimeout]. unfold recursive_body.
        rewrite Hlim_out, Hstk_q.
        unfold rbind at 1.
        rewrite (local_cache_hit stk q (c, ts) Hlim_out Hstk_q Hq_wf Hq_any Hq_nohint Hne).
        cbn [fst].
        destruct (cached_same_data c HC Hne) as (Hsame & Hsoa).
        exists (cache_get c (q_name q) (q_type q)), c, ts, []. rewrite Hsoa.
        split; [reflexivity|]. split; [reflexivity|]. split; [exact HC|]. left. auto.
    Qed.
  End Plain.
End Warm.

(* ====================================================================== *)
(* 6. the statement for [resolve], the universe oracle and the built hints  *)
(* ====================================================================== *)

Section FinalWarm.
  Variable cache : Type.
  Variable cache_get : cache -> dname -> N -> list rr.
  Variable cache_insert_all : cache -> list rr -> cache.
  Hypothesis LAWS : cache_laws cache cache_get cache_insert_all.
  Variable sort_names : list dname -> list dname.
  Hypothesis Hsort : forall l, Permutation (sort_names l) l.
  Variable port : N.
  Variable u : universe.
  Hypothesis UNS : universe_ns_ok u.
  Variable hints : list rr.
  Variable hz : zone.
  Hypothesis Hbuilt : zone_build root_domain None (hint_ops hints) = Ok hz.

  (* what a resolution of [q] from the cache [c] must look like *)
  Definition warm_outcome (q : question) (zroot : uzone) (rest : list uzone) (c : cache)
             (r : res rerror resolved * rstate cache) : Prop :=
    exists rrs c' ts',
      r = (Ok (NonAuthoritative rrs (aa_soa (auth_answer u q))), (c', ts'))
      /\ cache_consistent u hints cache cache_get c'
      /\ ((* straight from the cache: the cached RRset, with the data of the authoritative one *)
          (ts_log ts' = [] /\ c' = c /\ rrs = cache_get c (q_name q) (q_type q) /\ rrs <> []
           /\ same_data rrs (aa_rrs (auth_answer u q)))
          \/ (* over the network, from the deepest zone of the chain whose NS set is cached *)
          (rrs = aa_rrs (auth_answer u q) /\ cache_get c (q_name q) (q_type q) = []
           /\ exists pre used, zroot :: rest = pre ++ used /\ used <> [] /\ chain_log u port q used (ts_log ts'))).

  Theorem warm_correct_abstract q zroot rest zk c fuel :
    warm_question u hints q zroot rest zk -> plain_question u q ->
    cache_consistent u hints cache cache_get c -> (length rest + 2 <= fuel)%nat ->
    warm_outcome q zroot rest c
      (resolve cache cache_get cache_insert_all sort_names (ModeRecursive OnlyV4) port (zones_insert [] hz)
               (universe_oracle u []) fuel q (c, tstate_init)).
  Proof.
    intros (WK & PA) Hq HC Hfuel.
    pose proof (wk_hints _ _ _ _ _ _ WK) as Hhints. destruct Hhints as (Hok & _).
    destruct Hq as (Hwf & Hq1 & Hq2 & Hreq & Hfits).
    destruct fuel as [|f]; [lia|].
    destruct (warm_resolve cache cache_get cache_insert_all LAWS sort_names Hsort (zones_insert [] hz) hints
                (hints_zones_built hints hz Hok Hbuilt) Hok (universe_oracle u []) port u UNS q zroot rest zk WK
                (universe_oracle_delivers_log u port q Hwf Hreq Hfits) [] ltac:(cbn; lia) eq_refl (Forall_nil _) PA c f tstate_init HC)
      as (rrs & c' & ts' & es & E & Hlog & HC' & Hcases).
    { cbn. lia. }
    { lia. }
    exists rrs, c', ts'. split; [|split; [exact HC'|]].
    - unfold resolve, resolve_recursive. rewrite E. reflexivity.
    - assert (Hl : ts_log ts' = es).
      { unfold ts_log. rewrite Hlog. cbn [tstate_init ts_rlog]. rewrite app_nil_r, rev_involutive. reflexivity. }
      rewrite Hl. destruct Hcases as [(H1 & H2)|(H1 & H2 & H3)]; [left; auto|right; auto].
  Qed.
End FinalWarm.

(* for SimpleCache: what the model driver runs *)
Theorem warm_correct sort_names (Hsort : forall l, Permutation (sort_names l) l) port u hints hz q zroot rest zk c fuel :
  universe_ns_ok u -> zone_build root_domain None (hint_ops hints) = Ok hz ->
  warm_question u hints q zroot rest zk -> plain_question u q ->
  cache_consistent u hints scache sc_get c -> (length rest + 2 <= fuel)%nat ->
  warm_outcome scache sc_get port u hints q zroot rest c
    (resolve scache sc_get sc_insert_all sort_names (ModeRecursive OnlyV4) port (zones_insert [] hz)
             (universe_oracle u []) fuel q (c, tstate_init)).
Proof.
  intros UNS Hb. exact (warm_correct_abstract scache sc_get sc_insert_all sc_cache_laws sort_names Hsort port u UNS hints hz Hb q zroot rest zk c fuel).
Qed.

Lemma sc_empty_consistent u hints : cache_consistent u hints scache sc_get sc_empty.
Proof. apply empty_consistent. exact sc_empty_get. Qed.

(* ====================================================================== *)
(* 7. the real cache model (Cache/CacheModel.v) meets the laws              *)
(* ====================================================================== *)
From RV Require Import Cache.CacheFacts Cache.CacheModel Cache.CacheSpec Cache.CacheInsert Cache.CacheProofs
     Resolver.ResolverCacheInstance.

Lemma concrete_codes t : concrete t -> t <> QT_Wildcard /\ t <> QT_AXFR /\ t <> QT_MAILB /\ t <> QT_MAILA.
Proof.
  intros [H1 H2]. split; [exact H1|]. unfold qtype_table in H2. cbn [existsb fst] in H2.
  rewrite !orb_false_iff in H2. destruct H2 as (Ha & Hb & Hc & _). apply N.eqb_neq in Ha, Hb, Hc.
  repeat split; intro E; subst t; [apply Ha|apply Hb|apply Hc]; reflexivity.
Qed.

Lemma concrete_qmatch t ty : concrete t -> (cache_qmatch t ty <-> ty = t).
Proof.
  intro Hc. destruct (concrete_codes t Hc) as (H1 & H2 & H3 & H4). unfold cache_qmatch. split.
  - intros [H|(H & _)]; [contradiction|auto].
  - intros ->. right. auto.
Qed.

Section RealCacheWarm.
  Variable now : N.

  Lemma a_insert_all_src : forall rs m k e, a_insert_all m now rs k = Some e ->
    m k = Some e \/ exists r, In r rs /\ 0 < rr_ttl r /\ key_eqb (rr_key r) k = true.
  Proof.
    induction rs as [|r rs IH]; intros m k e H; cbn [a_insert_all] in H; [left; exact H|].
    destruct (IH _ _ _ H) as [H1|(r' & H1 & H2)].
    - unfold a_insert in H1. destruct ((0 <? rr_ttl r) && key_eqb (rr_key r) k) eqn:E.
      + right. exists r. apply andb_prop in E as [E1 E2]. apply N.ltb_lt in E1. split; [left; reflexivity|auto].
      + left. exact H1.
    - right. exists r'. split; [right; exact H1|exact H2].
  Qed.

  Lemma remaining_live e : 1 <= remaining e now -> now + NS_PER_S <= e.
  Proof.
    unfold remaining. intro H.
    assert (H1 : 0 < (e - now) / NS_PER_S) by (pose proof (N.le_min_l ((e - now) / NS_PER_S) U32_MAX); lia).
    apply N.div_str_pos_iff in H1; [|unfold NS_PER_S; lia]. unfold NS_PER_S in *. lia.
  Qed.

  Lemma live_remaining e : now + NS_PER_S <= e -> 1 <= remaining e now.
  Proof.
    intro H. unfold remaining. apply N.min_glb; [|unfold U32_MAX; lia].
    apply N.div_le_lower_bound; [unfold NS_PER_S; lia|]. lia.
  Qed.

  Theorem rc_cache_laws : cache_laws rcache (rc_get now) (rc_insert_all now).
  Proof.
    constructor.
    - intros c n t x Hc H. apply rc_get_in in H as (H1 & H2 & H3 & _). apply (concrete_qmatch t _ Hc) in H3. auto.
    - intros c rrs n t x Hc H. apply rc_get_in in H as (H1 & H2 & H3 & e & H4 & H5 & H6).
      rewrite rc_abs_insert_all in H4. destruct (a_insert_all_src _ _ _ _ H4) as [H7|(r & Hr & Hpos & Hk)].
      + left. apply rc_get_in. repeat (split; [assumption|]). exists e. auto.
      + right. exists r. apply key_eqb_eq in Hk. unfold rr_key in Hk. inversion Hk.
        apply (concrete_qmatch t _ Hc) in H3. repeat split; congruence.
    - intros c rrs n t x Hc H. apply rc_get_in in H as (H1 & H2 & H3 & e & H4 & H5 & H6).
      destruct (a_insert_all_live now rrs (abs_map (proj1_sig c)) (rr_key x)) as (e' & He' & Hlive).
      { left. exists e. split; [exact H4|]. apply remaining_live. rewrite <- H5. exact H6. }
      exists {| rr_name := rr_name x; rr_type := rr_type x; rr_class := rr_class x; rr_ttl := remaining e' now; rr_data := rr_data x |}.
      split; [|reflexivity]. apply rc_get_in. cbn [rr_name rr_class rr_type rr_ttl].
      repeat (split; [assumption|]). exists e'. split; [|split; [reflexivity|apply live_remaining, Hlive]].
      rewrite rc_abs_insert_all. exact He'.
    - intros c rrs r Hin Hc Hpos.
      destruct (a_insert_all_live now rrs (abs_map (proj1_sig c)) (rr_key r)) as (e & He & Hlive).
      { right. exists r. auto. }
      exists {| rr_name := rr_name r; rr_type := rr_type r; rr_class := RC_IN; rr_ttl := remaining e now; rr_data := rr_data r |}.
      split; [|reflexivity]. apply rc_get_in. cbn [rr_name rr_class rr_type rr_ttl].
      split; [reflexivity|]. split; [reflexivity|]. split; [apply (concrete_qmatch _ _ Hc); reflexivity|].
      exists e. split; [|split; [reflexivity|apply live_remaining, Hlive]].
      rewrite rc_abs_insert_all. exact He.
  Qed.

  Lemma rc_new_consistent u hints : cache_consistent u hints rcache (rc_get now) rc_new.
  Proof. apply empty_consistent. exact (rc_empty_get now). Qed.

  (* the warm theorem for the real cache model at the instant [now] *)
  Theorem warm_correct_real_cache sort_names (Hsort : forall l, Permutation (sort_names l) l) port u hints hz q zroot rest zk c fuel :
    universe_ns_ok u -> zone_build root_domain None (hint_ops hints) = Ok hz ->
    warm_question u hints q zroot rest zk -> plain_question u q ->
    cache_consistent u hints rcache (rc_get now) c -> (length rest + 2 <= fuel)%nat ->
    warm_outcome rcache (rc_get now) port u hints q zroot rest c
      (resolve rcache (rc_get now) (rc_insert_all now) sort_names (ModeRecursive OnlyV4) port (zones_insert [] hz)
               (universe_oracle u []) fuel q (c, tstate_init)).
  Proof.
    intros UNS Hb. exact (warm_correct_abstract rcache (rc_get now) (rc_insert_all now) rc_cache_laws sort_names Hsort port u UNS hints hz Hb q zroot rest zk c fuel).
  Qed.
End RealCacheWarm.

(* ====================================================================== *)
(* 8. a worked universe: the depth-3 chain of RecursiveChain.v with two     *)
(*    cross-zone aliases                                                    *)
(*       alias.example.com. CNAME www.sub.example.com.   (in example.com.)  *)
(*       ext.com.           CNAME alias.example.com.     (in com.)          *)
(* ====================================================================== *)

Definition c4_l_alias : label := [97; 108; 105; 97; 115].
Definition c4_l_ext : label := [101; 120; 116].
Definition c4_n_alias := c3_nm [c4_l_alias; c3_l_example; c3_l_com].
Definition c4_n_ext := c3_nm [c4_l_ext; c3_l_com].

Definition c4_cn_alias : rr := c3_rr c4_n_alias RT_CNAME 300 (RD_Name c3_n_www).
Definition c4_cn_ext : rr := c3_rr c4_n_ext RT_CNAME 300 (RD_Name c4_n_alias).

Definition c4_root : uzone := c3_root.
Definition c4_com : uzone :=
  {| uz_apex := c3_n_com; uz_soa := uz_soa c3_com; uz_rrs := uz_rrs c3_com ++ [c4_cn_ext];
     uz_cuts := uz_cuts c3_com; uz_glue := uz_glue c3_com |}.
Definition c4_ex : uzone :=
  {| uz_apex := c3_n_ex; uz_soa := uz_soa c3_ex; uz_rrs := uz_rrs c3_ex ++ [c4_cn_alias];
     uz_cuts := uz_cuts c3_ex; uz_glue := uz_glue c3_ex |}.
Definition c4_sub : uzone := c3_sub.

Definition c4_universe : universe :=
  {| u_zones := [c4_root; c4_com; c4_ex; c4_sub];
     u_servers := [(inl c3_ip0, [root_domain]); (inl c3_ip1, [c3_n_com]); (inl c3_ip2, [c3_n_ex]); (inl c3_ip3, [c3_n_sub])] |}.

Lemma c4_consistent : consistentb c4_universe = true.
Proof. vm_compute. reflexivity. Qed.

(* all the records of a universe, as one list *)
Definition u_all (u : universe) : list rr := flat_map (fun z => uz_cuts z ++ uz_glue z ++ zone_data z) (u_zones u).

Lemma u_record_all u r : u_record u r <-> In r (u_all u).
Proof.
  unfold u_record, u_all. rewrite in_flat_map. split; intros (z & H1 & H2); exists z; auto.
Qed.

(* case analysis over a concrete list membership *)
Ltac in_cases H := repeat (destruct H as [H|H]; [subst|]); try (destruct H; fail).

Lemma c4_universe_ns_ok : universe_ns_ok c4_universe.
Proof.
  split.
  - intros z r Hz Hr. cbn [c4_universe u_zones] in Hz. in_cases Hz; cbn in Hr; in_cases Hr; reflexivity.
  - intros r Hr Ht. apply u_record_all in Hr. vm_compute in Hr. in_cases Hr; try (vm_compute in Ht; discriminate Ht); eexists; reflexivity.
Qed.

(* four questions: www.sub.example.com. A and MX (plain; RecursiveChain.v), and the two aliases *)
Definition c4_q_alias : question := {| q_name := c4_n_alias; q_type := RT_A; q_class := RC_IN |}.
Definition c4_q_ext : question := {| q_name := c4_n_ext; q_type := RT_A; q_class := RC_IN |}.
Definition c4_qs : list question := [c3_q; c3_q_mx; c4_q_alias; c4_q_ext].

(* case analysis over a concrete list of tuples *)
Ltac tup_cases H := repeat (destruct H as [H|H]; [inversion H; subst; clear H|]); try (destruct H; fail).
Ltac in_solve := cbn [In]; repeat (first [left; reflexivity | right]).

(* (question, zone, address): a server at the address has the zone as its closest for the name *)
Definition c4_triples : list (question * uzone * N) :=
  [(c3_q, c4_root, c3_ip0); (c3_q, c4_com, c3_ip1); (c3_q, c4_ex, c3_ip2); (c3_q, c4_sub, c3_ip3);
   (c3_q_mx, c4_root, c3_ip0); (c3_q_mx, c4_com, c3_ip1); (c3_q_mx, c4_ex, c3_ip2); (c3_q_mx, c4_sub, c3_ip3);
   (c4_q_alias, c4_root, c3_ip0); (c4_q_alias, c4_com, c3_ip1); (c4_q_alias, c4_ex, c3_ip2);
   (c4_q_ext, c4_root, c3_ip0); (c4_q_ext, c4_com, c3_ip1)].

Lemma c4_serves q z a : In (q, z, a) c4_triples -> serves_owner c4_universe (inl a) z q.
Proof. intro H. unfold c4_triples in H. tup_cases H; eexists; split; vm_compute; reflexivity. Qed.

Lemma c4_hints_for q : In q c4_qs -> hints_for c4_universe c4_root c3_hints q.
Proof.
  intro Hq. split; [|split; [|split; [|split]]].
  - apply Forall_cons; [|apply Forall_cons; [|apply Forall_nil]]; (split; [apply wf_name_b_sound; vm_compute; reflexivity|]).
    + left. split; [reflexivity|]. split; [reflexivity|]. eexists. reflexivity.
    + right. split; [reflexivity|]. eexists. reflexivity.
  - eexists. split; [left; reflexivity|reflexivity].
  - intros r h [<-|[<-|[]]] Ht Hd; [|discriminate Ht]. inversion Hd; subst h.
    split; [apply wf_name_b_sound; vm_compute; reflexivity|].
    eexists. split; [right; left; reflexivity|]. split; reflexivity.
  - intros g a [<-|[<-|[]]] Ht Hd; [discriminate Ht|]. inversion Hd; subst a.
    apply c4_serves. unfold c4_qs in Hq. in_cases Hq; unfold c4_triples; in_solve.
  - intros r [<-|[<-|[]]] Hl; unfold c4_qs in Hq; in_cases Hq; vm_compute in Hl; discriminate Hl.
Qed.

Lemma c4_serve_fits q : In q c4_qs -> serve_fits c4_universe q.
Proof.
  intros Hq a m H. unfold serve, zones_of_server in H. cbn [c4_universe u_servers find fst] in H.
  destruct (ip_eqb (inl c3_ip0) a);
    [|destruct (ip_eqb (inl c3_ip1) a); [|destruct (ip_eqb (inl c3_ip2) a); [|destruct (ip_eqb (inl c3_ip3) a); [|discriminate]]]];
    unfold c4_qs in Hq; in_cases Hq; inversion H; subst; (split; [apply wf_message_b_sound; vm_compute; reflexivity|]);
    eexists; (split; [vm_compute; reflexivity|vm_compute; discriminate]).
Qed.

Lemma c4_plain_question_in q : In q c4_qs -> plain_question c4_universe q.
Proof.
  intro Hq. split; [|split; [|split; [|split]]].
  - apply wf_question_b_sound. unfold c4_qs in Hq. in_cases Hq; vm_compute; reflexivity.
  - unfold c4_qs in Hq. in_cases Hq; discriminate.
  - unfold c4_qs in Hq. in_cases Hq; discriminate.
  - intros req E. unfold c4_qs in Hq. in_cases Hq; vm_compute in E; inversion E; subst; vm_compute; discriminate.
  - apply c4_serve_fits, Hq.
Qed.

Lemma c4_plain_question q : (q = c3_q \/ q = c3_q_mx) -> plain_question c4_universe q.
Proof. intros [-> | ->]; apply c4_plain_question_in; unfold c4_qs; in_solve. Qed.

(* the nameserver hosts of a zone, and where their addresses lead *)
Lemma c4_ns_hosts_ok q zc ipc : In (q, zc, ipc) c4_triples -> ns_hosts_ok c4_universe c3_hints q zc.
Proof.
  intros Hcase h (r & Hr & Hn & Hh).
  pose proof (c4_serves q zc ipc Hcase) as Hsrv.
  apply u_record_all in Hr. vm_compute in Hr.
  unfold c4_triples in Hcase. tup_cases Hcase;
    in_cases Hr; try (vm_compute in Hn; discriminate Hn); try (vm_compute in Hh; discriminate Hh);
    vm_compute in Hh; inversion Hh; subst h; clear Hh Hn;
    (split; [apply wf_name_b_sound; vm_compute; reflexivity|]); (split;
     [intros g Hg Hgn Hgt; apply u_record_all in Hg; vm_compute in Hg; in_cases Hg;
        try (vm_compute in Hgn; discriminate Hgn); try (vm_compute in Hgt; discriminate Hgt);
        eexists; (split; [reflexivity|exact Hsrv])
     |intros g a Hg Hl Hgt Hgd; unfold c3_hints in Hg; in_cases Hg;
        try (vm_compute in Hl; discriminate Hl); try (vm_compute in Hgt; discriminate Hgt);
        vm_compute in Hgd; inversion Hgd; subst a; exact Hsrv]).
Qed.

(* (question, parent, child, an address of the child's server) *)
Definition c4_links : list (question * uzone * uzone * N) :=
  [(c3_q, c4_root, c4_com, c3_ip1); (c3_q, c4_com, c4_ex, c3_ip2); (c3_q, c4_ex, c4_sub, c3_ip3);
   (c3_q_mx, c4_root, c4_com, c3_ip1); (c3_q_mx, c4_com, c4_ex, c3_ip2); (c3_q_mx, c4_ex, c4_sub, c3_ip3);
   (c4_q_alias, c4_root, c4_com, c3_ip1); (c4_q_alias, c4_com, c4_ex, c3_ip2);
   (c4_q_ext, c4_root, c4_com, c3_ip1)].

Lemma c4_wlink q zp zc ipc : In (q, zp, zc, ipc) c4_links -> wlink c4_universe c3_hints q zp zc.
Proof.
  intro Hcase. split; [|split; [|split; [|split; [|split]]]].
  - unfold c4_links in Hcase. tup_cases Hcase; cbn; auto.
  - unfold c4_links in Hcase. tup_cases Hcase; vm_compute; reflexivity.
  - unfold c4_links in Hcase. tup_cases Hcase; vm_compute; reflexivity.
  - intros r Hr Hn. unfold c4_links in Hcase. tup_cases Hcase; cbn in Hr; in_cases Hr; vm_compute in Hn; discriminate Hn.
  - intros h' (r & Hr & _ & Hh'). unfold c4_links in Hcase. tup_cases Hcase; cbn in Hr; in_cases Hr;
      vm_compute in Hh'; inversion Hh'; eexists; (split; [left; reflexivity|]); (split; [reflexivity|]);
      (split; [reflexivity|vm_compute; reflexivity]).
  - apply (c4_ns_hosts_ok q zc ipc). unfold c4_links in Hcase. tup_cases Hcase; unfold c4_triples; in_solve.
Qed.

(* (question, the zones of its delegation chain below the root, the zone owning its name) *)
Definition c4_chains : list (question * list uzone * uzone) :=
  [(c3_q, [c4_com; c4_ex; c4_sub], c4_sub); (c3_q_mx, [c4_com; c4_ex; c4_sub], c4_sub);
   (c4_q_alias, [c4_com; c4_ex], c4_ex); (c4_q_ext, [c4_com], c4_com)].

Lemma c4_walk q rest zk : In (q, rest, zk) c4_chains -> walk_question c4_universe c3_hints q c4_root rest zk.
Proof.
  intro Hcase. constructor.
  - apply wf_name_b_sound. unfold c4_chains in Hcase. tup_cases Hcase; vm_compute; reflexivity.
  - unfold c4_chains in Hcase. tup_cases Hcase; (split; [split; [discriminate|reflexivity]|split; discriminate]).
  - reflexivity.
  - apply c4_hints_for. unfold c4_chains in Hcase. tup_cases Hcase; unfold c4_qs; in_solve.
  - unfold c4_chains in Hcase. tup_cases Hcase; cbn [wchain];
      repeat (split; [eapply c4_wlink; unfold c4_links; in_solve|]); reflexivity.
  - intros (r & Hr & Hh). apply u_record_all in Hr. vm_compute in Hr.
    unfold c4_chains in Hcase. tup_cases Hcase; in_cases Hr; vm_compute in Hh; discriminate Hh.
  - intros r Hr Ht Hin. apply u_record_all in Hr. vm_compute in Hr.
    unfold c4_chains in Hcase. tup_cases Hcase; in_cases Hr; try (vm_compute in Ht; discriminate Ht);
      try (vm_compute; reflexivity);
      exfalso; vm_compute in Hin; repeat (destruct Hin as [Hin|Hin]; [discriminate Hin|]); exact Hin.
  - intros r Hr Ht Hin. apply u_record_all in Hr. vm_compute in Hr.
    unfold c4_chains in Hcase. tup_cases Hcase; in_cases Hr; try (vm_compute in Ht; discriminate Ht);
      try (left; reflexivity);
      try (right; exists c4_com; split; [cbn; auto|reflexivity]);
      try (right; exists c4_ex; split; [cbn; auto|reflexivity]);
      try (right; exists c4_sub; split; [cbn; auto|reflexivity]);
      exfalso; vm_compute in Hin; repeat (destruct Hin as [Hin|Hin]; [discriminate Hin|]); exact Hin.
Qed.

Lemma c4_plain_at q : (q = c3_q \/ q = c3_q_mx) -> plain_at c4_universe q c4_sub.
Proof.
  intro Hq. constructor.
  - split; [|split; [vm_compute; repeat constructor|split; reflexivity]].
    c3_q_cases Hq; repeat split; vm_compute; reflexivity.
  - intros z r Hz Hr Hn. cbn [c4_universe u_zones] in Hz. in_cases Hz; cbn in Hr; in_cases Hr;
      c3_q_cases Hq; vm_compute in Hn; discriminate Hn.
  - intros z r Hz Hr Hn. cbn [c4_universe u_zones] in Hz. in_cases Hz; cbn in Hr; in_cases Hr;
      c3_q_cases Hq; try (vm_compute in Hn; discriminate Hn); cbn; auto 10.
  - intros r Hr Hn Ht. cbn in Hr. in_cases Hr; c3_q_cases Hq; try (vm_compute in Hn; discriminate Hn);
      try (vm_compute in Ht; discriminate Ht); vm_compute; reflexivity.
  - intros r Hr Ht Hn. apply u_record_all in Hr. vm_compute in Hr.
    in_cases Hr; try (vm_compute in Ht; discriminate Ht); c3_q_cases Hq; vm_compute in Hn; discriminate Hn.
Qed.

Lemma c4_warm_question q : (q = c3_q \/ q = c3_q_mx) ->
  warm_question c4_universe c3_hints q c4_root [c4_com; c4_ex; c4_sub] c4_sub.
Proof.
  intro Hq. split; [|exact (c4_plain_at q Hq)].
  apply c4_walk. destruct Hq as [-> | ->]; unfold c4_chains; in_solve.
Qed.

Notation c4_run q c :=
  (resolve scache sc_get sc_insert_all sort_names_ord (ModeRecursive OnlyV4) 53 (zones_insert [] c3_hz)
           (universe_oracle c4_universe []) 5%nat q (c, tstate_init)).

(* the cache after www.sub.example.com. A was resolved from the empty cache *)
Definition c4_cache1 : scache := fst (snd (c4_run c3_q sc_empty)).

(* the hypotheses are satisfiable, and what the theorem then says: the cache left by the first
   question is consistent; asked from it, www.sub.example.com. MX is denied with the SOA of
   sub.example.com. after ONE exchange (with the server of sub.example.com., whose NS set and glue
   are cached), and www.sub.example.com. A is answered from the cache without any exchange *)
Example warm_example_depth3 :
  cache_consistent c4_universe c3_hints scache sc_get c4_cache1
  /\ warm_outcome scache sc_get 53 c4_universe c3_hints c3_q_mx c4_root [c4_com; c4_ex; c4_sub] c4_cache1 (c4_run c3_q_mx c4_cache1)
  /\ warm_outcome scache sc_get 53 c4_universe c3_hints c3_q c4_root [c4_com; c4_ex; c4_sub] c4_cache1 (c4_run c3_q c4_cache1).
Proof.
  assert (HC : cache_consistent c4_universe c3_hints scache sc_get c4_cache1).
  { destruct (warm_correct sort_names_ord sort_names_ord_perm 53 c4_universe c3_hints c3_hz c3_q c4_root [c4_com; c4_ex; c4_sub] c4_sub
                sc_empty 5%nat c4_universe_ns_ok c3_hz_built (c4_warm_question _ (or_introl eq_refl))
                (c4_plain_question _ (or_introl eq_refl)) (sc_empty_consistent _ _) (le_n 5)) as (rrs & c' & ts' & E & HC & _).
    unfold c4_cache1. rewrite E. exact HC. }
  split; [exact HC|]. split.
  - exact (warm_correct sort_names_ord sort_names_ord_perm 53 c4_universe c3_hints c3_hz c3_q_mx c4_root [c4_com; c4_ex; c4_sub] c4_sub
             c4_cache1 5%nat c4_universe_ns_ok c3_hz_built (c4_warm_question _ (or_intror eq_refl))
             (c4_plain_question _ (or_intror eq_refl)) HC (le_n 5)).
  - exact (warm_correct sort_names_ord sort_names_ord_perm 53 c4_universe c3_hints c3_hz c3_q c4_root [c4_com; c4_ex; c4_sub] c4_sub
             c4_cache1 5%nat c4_universe_ns_ok c3_hz_built (c4_warm_question _ (or_introl eq_refl))
             (c4_plain_question _ (or_introl eq_refl)) HC (le_n 5)).
Qed.

(* the same runs evaluated inside Coq: results and the addresses asked *)
Example warm_example_depth3_eval :
  let r2 := c4_run c3_q_mx c4_cache1 in
  let r3 := c4_run c3_q c4_cache1 in
  fst r2 = Ok (NonAuthoritative [] (Some (uz_soa c4_sub)))
  /\ map x_addr (ts_log (snd (snd r2))) = [(inl c3_ip3, 53)]
  /\ fst r3 = Ok (NonAuthoritative [c3_rr c3_n_www RT_A 300 (RD_A 3221225985)] None)
  /\ ts_log (snd (snd r3)) = []
  /\ consistentb c4_universe = true.
Proof. vm_compute. repeat split. Qed.
