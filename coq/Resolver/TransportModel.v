(* Resolver/TransportModel.v -- executable model of the upstream transport:
   crates/dns-resolver/src/util/nameserver.rs (query_nameserver, the UDP and the
   TCP attempt with their 5 s time-outs) and util/net.rs (send_udp_bytes,
   send_tcp_bytes, read_tcp_bytes), run over the mock sockets of
   crates/dns-resolver/src/verif.rs (hook H3).  Definitions only.

   The peer is an ORACLE, a function of the exchange number and the request,
   answering exactly like verif::net::Reply:
     - UDP: one call per datagram sent (send -> handler);
     - TCP: one call with the EMPTY request for the connection attempt, then a
       second call (same exchange number) with the request once the length
       prefix and the request have been written;  the reply bytes are the raw
       stream, length prefix included; close = false leaves the stream open and
       silent after those bytes.

   Time is a cost semantics in milliseconds (DESIGN 3.2): an exchange costs
   min(delay, 5000); a reply delayed by MORE than 5000 ms is a time-out -- at an
   exact tie the reply wins, because tokio's Timeout polls the inner future
   before its own deadline (observed on the mock under the paused clock; the
   random generators avoid exact ties, the corpus has them);  the 60 s wrapper of
   resolve_recursive / resolve_forwarding is the check in [charge]: when the
   time spent would exceed the budget the computation is abandoned at that
   instant with [Abort ATimeout] -- everything done before (log, cache inserts)
   stays done.

   The request id is fixed ([REQUEST_ID]); the real code draws it at random, the
   mock echoes it, and the correspondence ignores ids. *)
From RV Require Import Base.Prelude Name.NameModel Wire.WireTypes Wire.WireModel
     Resolver.LocalModel Resolver.ValidateModel.

Inductive proto := Udp | Tcp.

(* IpAddr: inl = V4 (u32), inr = V6 (8 x u16); SocketAddr = (ip, port) *)
Definition ip := (N + list N)%type.
Definition addr := (ip * N)%type.

Definition ip_eqb (a b : ip) : bool :=
  match a, b with
  | inl x, inl y => x =? y
  | inr x, inr y => leqb x y
  | _, _ => false
  end.
Definition addr_eqb (a b : addr) : bool := ip_eqb (fst a) (fst b) && (snd a =? snd b).
Definition ip_is_v4 (a : ip) : bool := match a with inl _ => true | inr _ => false end.

(* verif::net::Reply *)
Record treply := { t_bytes : option (list byte); t_delay_ms : N; t_close : bool; t_refuse : bool }.

Definition oracle := nat -> proto -> addr -> list byte -> treply.

(* one call of the mock handler, as logged *)
Inductive ekind := KUdp | KTcpConnect | KTcp.
Record exchange := {
  x_time : N;                 (* ms since the start of this resolution *)
  x_kind : ekind;
  x_addr : addr;
  x_question : question;      (* the question of the request (for KTcpConnect: of the request about to be written) *)
  x_rd : bool;
  x_num : nat;                (* exchange number given to the oracle *)
  x_reply : treply }.         (* what the oracle said *)

(* transport state: the log is kept NEWEST FIRST *)
Record tstate := { ts_rlog : list exchange; ts_elapsed : N; ts_nexch : nat }.

Definition ts_log (s : tstate) : list exchange := rev (ts_rlog s).

(* why a computation was abandoned *)
Inductive abort := ATimeout | APanic | AFuel.
Inductive out (A : Type) : Type := Val (a : A) | Abort (w : abort).
Arguments Val {A} a.
Arguments Abort {A} w.

Definition TM (A : Type) : Type := tstate -> out A * tstate.

(* The three time-outs are read from the Rust source by tools/tables.py
   (Generated/Tables.v, exported by Base/Prelude.v):
     UDP_TIMEOUT_MS      nameserver.rs query_nameserver_udp: Duration::from_secs(5)
     TCP_TIMEOUT_MS      nameserver.rs query_nameserver_tcp: Duration::from_secs(5)
     RESOLVE_TIMEOUT_MS  recursive.rs / forwarding.rs: Duration::from_mins(1) *)
Definition BUDGET_MS : N := RESOLVE_TIMEOUT_MS.
Definition UDP_RECV_BUF : N := 512.        (* vec![0u8; 512] *)
Definition REQUEST_ID : N := 0.

(* time passes; the 60 s wrapper fires when the budget would be exceeded *)
Definition charge (c : N) : TM unit := fun s =>
  if BUDGET_MS <? ts_elapsed s + c
  then (Abort ATimeout, {| ts_rlog := ts_rlog s; ts_elapsed := BUDGET_MS; ts_nexch := ts_nexch s |})
  else (Val tt, {| ts_rlog := ts_rlog s; ts_elapsed := ts_elapsed s + c; ts_nexch := ts_nexch s |}).

Definition log_call (k : ekind) (a : addr) (q : question) (rd : bool) (n : nat) (r : treply) (s : tstate) : tstate :=
  {| ts_rlog := {| x_time := ts_elapsed s; x_kind := k; x_addr := a; x_question := q; x_rd := rd;
                   x_num := n; x_reply := r |} :: ts_rlog s;
     ts_elapsed := ts_elapsed s; ts_nexch := ts_nexch s |}.
Definition next_exchange (s : tstate) : tstate :=
  {| ts_rlog := ts_rlog s; ts_elapsed := ts_elapsed s; ts_nexch := S (ts_nexch s) |}.

(* bytes[2] &= 0b1111_1101 / bytes[2] |= 0b0000_0010 (callers have checked len >= 12) *)
Definition map_byte2 (f : N -> N) (bs : list byte) : list byte :=
  match bs with
  | a :: b :: c :: t => a :: b :: f c :: t
  | _ => bs
  end.
Definition clear_tc (bs : list byte) : list byte := map_byte2 (fun b => N.land b 253) bs.
Definition set_tc (bs : list byte) : list byte := map_byte2 (fun b => N.lor b 2) bs.

(* Message::from_octets(..).ok() inside an Option-returning async fn *)
Definition decode_opt (ob : option (list byte)) : out (option message) :=
  match ob with
  | None => Val None
  | Some bs => match decode bs with
               | Ok m => Val (Some m)
               | Err _ => Val None
               | Panic => Abort APanic
               | OutOfFuel => Abort AFuel
               end
  end.

(* ---- UDP ---- *)

(* what the 5 s time-out around send + recv makes of the oracle's reply:
   (time spent, datagram as received into the 512-byte buffer) *)
Definition udp_outcome (r : treply) : N * option (list byte) :=
  if t_refuse r then (0, None)                                   (* send fails: .ok()? *)
  else match t_bytes r with
       | None => (UDP_TIMEOUT_MS, None)                          (* recv never completes *)
       | Some b => if UDP_TIMEOUT_MS <? t_delay_ms r then (UDP_TIMEOUT_MS, None)
                   else (t_delay_ms r, Some (firstn (N.to_nat UDP_RECV_BUF) b))
       end.

(* query_nameserver_udp: returns the reply (if any) and the request buffer as
   send_udp_bytes left it (it is a &mut [u8] shared with the TCP attempt) *)
Definition udp_exchange (o : oracle) (a : addr) (q : question) (rd : bool) (req : list byte)
  : TM (option message * list byte) := fun s =>
  if 512 <? llen req then (Val (None, req), s)                   (* serialised_request.len() > 512 *)
  else if llen req <? 12 then (Abort APanic, s)                  (* send_udp_bytes: panic!("expected complete message") *)
  else
    let req' := clear_tc req in
    let n := ts_nexch s in
    let r := o n Udp a req' in
    let s1 := next_exchange (log_call KUdp a q rd n r s) in
    let '(cost, dgram) := udp_outcome r in
    match charge cost s1 with
    | (Abort w, s2) => (Abort w, s2)
    | (Val _, s2) =>
      match decode_opt dgram with
      | Val om => (Val (om, req'), s2)
      | Abort w => (Abort w, s2)
      end
    end.

(* ---- TCP ---- *)

(* read_tcp_bytes over the mock stream.  None = blocks for ever (open and
   silent), Some None = Err (short stream), Some (Some bs) = Ok(bytes).
   BytesMut::with_capacity(expected) bounds every read_buf by the space left,
   so exactly [expected] octets are taken even if the peer sent more. *)
Definition read_tcp_stream (stream : list byte) (close : bool) : option (option (list byte)) :=
  match stream with
  | hi :: lo :: rest =>
    let expected := u16_be hi lo in
    if expected <=? llen rest then Some (Some (firstn (N.to_nat expected) rest))
    else if close then Some None else None
  | _ => if close then Some None else None                       (* read_u16 *)
  end.

(* what the 5 s time-out around connect + send + read makes of the oracle's reply
   to the request *)
Definition tcp_outcome (r : treply) : N * option (list byte) :=
  if TCP_TIMEOUT_MS <? t_delay_ms r then (TCP_TIMEOUT_MS, None)
  else match read_tcp_stream (match t_bytes r with Some b => b | None => [] end) (t_close r) with
       | None => (TCP_TIMEOUT_MS, None)
       | Some None => (t_delay_ms r, None)
       | Some (Some bs) => (t_delay_ms r, Some bs)
       end.

(* send_tcp_bytes: (what is written after the 2-byte prefix, the buffer afterwards) *)
Definition tcp_request (req : list byte) : list byte * list byte :=
  if llen req <? 65536 then (clear_tc req, clear_tc req)
  else (firstn (N.to_nat 65535) (set_tc req), set_tc req).

(* query_nameserver_tcp *)
Definition tcp_exchange (o : oracle) (a : addr) (q : question) (rd : bool) (req : list byte)
  : TM (option message) := fun s =>
  let n := ts_nexch s in
  let r0 := o n Tcp a [] in                                      (* TcpStream::connect *)
  let s1 := next_exchange (log_call KTcpConnect a q rd n r0 s) in
  if t_refuse r0 then (Val None, s1)
  else if llen req <? 12 then (Abort APanic, s1)                 (* send_tcp_bytes: panic! *)
  else
    let sent := fst (tcp_request req) in
    let r := o n Tcp a sent in
    let s2 := log_call KTcp a q rd n r s1 in
    let '(cost, bytes) := tcp_outcome r in
    match charge cost s2 with
    | (Abort w, s3) => (Abort w, s3)
    | (Val _, s3) =>
      match decode_opt bytes with
      | Val om => (Val om, s3)
      | Abort w => (Abort w, s3)
      end
    end.

(* ---- query_nameserver ---- *)

Definition make_request (q : question) (rd : bool) : message :=
  let m := from_question REQUEST_ID q in
  {| m_header := {| h_id := h_id (m_header m); h_qr := h_qr (m_header m); h_opcode := h_opcode (m_header m);
                    h_aa := h_aa (m_header m); h_tc := h_tc (m_header m); h_rd := rd;
                    h_ra := h_ra (m_header m); h_rcode := h_rcode (m_header m) |};
     m_questions := m_questions m; m_answers := m_answers m; m_authority := m_authority m;
     m_additional := m_additional m |}.

Definition gate (request : message) (om : option message) : option message :=
  match om with
  | Some response => if response_matches_request request response then Some response else None
  | None => None
  end.

Definition query_nameserver (o : oracle) (a : addr) (q : question) (rd : bool) : TM (option message) := fun s =>
  let request := make_request q rd in
  match encode request with
  | Ok req =>
    match udp_exchange o a q rd req s with
    | (Abort w, s1) => (Abort w, s1)
    | (Val (om, req1), s1) =>
      match gate request om with
      | Some response => (Val (Some response), s1)
      | None =>
        match tcp_exchange o a q rd req1 s1 with
        | (Abort w, s2) => (Abort w, s2)
        | (Val om2, s2) => (Val (gate request om2), s2)
        end
      end
    end
  | Err _ => (Val None, s)                                       (* could not serialise message *)
  | Panic => (Abort APanic, s)
  | OutOfFuel => (Abort AFuel, s)
  end.

Definition tstate_init : tstate := {| ts_rlog := []; ts_elapsed := 0; ts_nexch := O |}.
(* a new resolution on the same transport: the clock and the log start again, the
   exchange counter goes on *)
Definition tstate_next (s : tstate) : tstate := {| ts_rlog := []; ts_elapsed := 0; ts_nexch := ts_nexch s |}.
