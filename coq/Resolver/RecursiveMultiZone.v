(* Resolver/RecursiveMultiZone.v -- C07 with servers AUTHORITATIVE FOR SEVERAL ZONES of one
   delegation chain.

   Universe.serve answers from the server's closest zone for the question name.  When the server the
   resolver asks for the zone [zi] of the chain also holds a zone [zj] further down the chain, its
   reply is [zj]'s: the referral to z(j+1), or the answer itself when zj owns the name.  The hops
   zi+1 .. zj are skipped: the result is unchanged, the log gets shorter (one exchange per zone of a
   SUBSEQUENCE of the chain), the NS sets of the skipped zones are not cached.

   The inductions of RecursiveModes.v and RecursiveGlueless.v carry the flag [multi]; with
   [multi = true] the address clause of the hypotheses is the WEAKENED one ([lands]):

       every address record of a nameserver host of the zone zi leads to a server whose closest zone
       for the question name is zi OR A ZONE OF THE CHAIN BELOW zi.

   This file states the theorems for [multi = true], shows that the weakened hypotheses follow from
   the strict ones (so these theorems subsume C07_correct_modes / _glueless up to the shape of the
   log), and gives a worked universe. *)
From Coq Require Import Permutation.
From RV Require Import Base.Prelude Name.NameModel Name.NameSpec Name.NameProofs
     Wire.WireTypes Wire.WireModel Wire.WireGrammar Wire.WireEncodeProofs Wire.WireDecodeProofs
     Zone.ZoneModel Zone.ZoneFlat Zone.ZoneProofs
     Resolver.LocalModel Resolver.LocalSpec Resolver.LocalProofs
     Resolver.ValidateModel Resolver.ValidateSpec Resolver.ValidateProofs
     Resolver.TransportModel Resolver.RecursiveModel Resolver.ForwardingModel
     Resolver.RecursiveProofs Resolver.ForwardingProofs
     Resolver.Universe Resolver.ResolverFacts Resolver.RecursiveCorrect Resolver.RecursiveDepth1
     Resolver.RecursiveChain Resolver.RecursiveWarm Resolver.RecursiveModes Resolver.RecursiveGlueless.
Set Default Timeout 120.

(* ====================================================================== *)
(* 1. the weakened hypotheses follow from the strict ones                   *)
(* ====================================================================== *)

Section Weaken.
  Variable u : universe.
  Variable hints : list rr.
  Variable mode : protocol_mode.
  Variable G : dname -> Prop.
  Variable q : question.

  Lemma lands_weaken a z below : lands u false q a z below -> lands u true q a z below.
  Proof. unfold lands. intro H. exists z. split; [left; reflexivity|exact H]. Qed.

  Lemma host_okm_weaken z below h : host_okm u hints false q z below h -> host_okm u hints true q z below h.
  Proof.
    intros (H1 & H2 & H3 & H4). split; [exact H1|]. split; [|split; [|exact H4]].
    - intros r Hr Hn Ht. destruct (H2 r Hr Hn Ht) as (a & Ha & Hl). exists a. split; [exact Ha|apply lands_weaken, Hl].
    - intros g Hg Hl Ht. destruct (H3 g Hg Hl Ht) as (a & Ha & Hl'). exists a. split; [exact Ha|apply lands_weaken, Hl'].
  Qed.

  Lemma hosts_okm_weaken z below : hosts_okm u hints false q z below -> hosts_okm u hints true q z below.
  Proof. intros H h Hh. apply host_okm_weaken, H, Hh. Qed.

  Lemma wlinkm_weaken zp zc below : wlinkm u hints mode false G q zp zc below -> wlinkm u hints mode true G q zp zc below.
  Proof.
    intros (H1 & H2 & H3 & H4 & H5 & H6). repeat (split; [assumption|]). apply hosts_okm_weaken, H6.
  Qed.

  Lemma wchainm_weaken zk : forall rest z, wchainm u hints mode false G q zk z rest -> wchainm u hints mode true G q zk z rest.
  Proof.
    induction rest as [|zc rest IH]; intros z H; cbn [wchainm] in *; [exact H|].
    destruct H as [Hl Hr]. split; [apply wlinkm_weaken, Hl|apply IH, Hr].
  Qed.

  Lemma walkm_weaken zroot rest zk : walkm u hints mode false G q zroot rest zk -> walkm u hints mode true G q zroot rest zk.
  Proof.
    intros [H1 H2 H3 H4 H5 H6 H7 H8]. constructor; try assumption.
    - apply hosts_okm_weaken, H5.
    - apply wchainm_weaken, H6.
  Qed.

  Lemma warm_questionm_weaken zroot rest zk :
    warm_questionm u hints mode false G q zroot rest zk -> warm_questionm u hints mode true G q zroot rest zk.
  Proof. intros (H1 & H2 & H3). split; [apply walkm_weaken, H1|auto]. Qed.
End Weaken.

Lemma subseq_length {A} (l1 l2 : list A) : subseq l1 l2 -> (length l1 <= length l2)%nat.
Proof. intro H. induction H; cbn [length]; lia. Qed.

Lemma chain_logm_length u port q used es : chain_logm u port q used es -> length es = length used.
Proof. intro H. induction H; cbn [length]; [reflexivity|]. rewrite IHForall2. reflexivity. Qed.

(* ====================================================================== *)
(* 2. a worked universe: the depth-3 chain with the server of com. also      *)
(*    holding example.com.                                                   *)
(* ====================================================================== *)

Definition z3_universe : universe :=
  {| u_zones := [c3_root; c3_com; c3_ex; c3_sub];
     u_servers := [(inl c3_ip0, [root_domain]); (inl c3_ip1, [c3_n_com; c3_n_ex]); (inl c3_ip2, [c3_n_ex]); (inl c3_ip3, [c3_n_sub])] |}.

Lemma z3_consistent : consistentb z3_universe = true.
Proof. vm_compute. reflexivity. Qed.

Lemma z3_universe_ns_ok : universe_ns_ok z3_universe.
Proof.
  split.
  - intros z r Hz Hr. cbn [z3_universe u_zones] in Hz. in_cases Hz; cbn in Hr; in_cases Hr; reflexivity.
  - intros r Hr Ht. apply u_record_all in Hr. vm_compute in Hr. in_cases Hr; try (vm_compute in Ht; discriminate Ht); eexists; reflexivity.
Qed.

(* (zone asked for, address, the server's closest zone for www.sub.example.com.) *)
Definition z3_triples : list (uzone * N * uzone) :=
  [(c3_root, c3_ip0, c3_root); (c3_com, c3_ip1, c3_ex); (c3_ex, c3_ip2, c3_ex); (c3_sub, c3_ip3, c3_sub)].

Lemma z3_serves q z a z' : (q = c3_q \/ q = c3_q_mx) -> In (z, a, z') z3_triples -> serves_owner z3_universe (inl a) z' q.
Proof. intros Hq H. unfold z3_triples in H. tup_cases H; c3_q_cases Hq; eexists; split; vm_compute; reflexivity. Qed.

Lemma z3_serve_fits q : (q = c3_q \/ q = c3_q_mx) -> serve_fits z3_universe q.
Proof.
  intros Hq a m H. unfold serve, zones_of_server in H. cbn [z3_universe u_servers find fst] in H.
  repeat match type of H with
         | context [ip_eqb ?x a] => destruct (ip_eqb x a)
         end; try discriminate H;
    c3_q_cases Hq; inversion H; subst; (split; [apply wf_message_b_sound; vm_compute; reflexivity|]);
    eexists; (split; [vm_compute; reflexivity|vm_compute; discriminate]).
Qed.

Lemma z3_plain_question q : (q = c3_q \/ q = c3_q_mx) -> plain_question z3_universe q.
Proof.
  intro Hq. split; [|split; [|split; [|split]]].
  - apply wf_question_b_sound. c3_q_cases Hq; vm_compute; reflexivity.
  - c3_q_cases Hq; discriminate.
  - c3_q_cases Hq; discriminate.
  - intros req E. c3_q_cases Hq; vm_compute in E; inversion E; subst; vm_compute; discriminate.
  - apply z3_serve_fits, Hq.
Qed.

Section Z3.
  Variable q : question.
  Hypothesis Hq : q = c3_q \/ q = c3_q_mx.
  Notation nobody := (fun _ : dname => False).

  (* (zone, the zones of the chain below it) *)
  Definition z3_belows : list (uzone * list uzone) :=
    [(c3_root, [c3_com; c3_ex; c3_sub]); (c3_com, [c3_ex; c3_sub]); (c3_ex, [c3_sub]); (c3_sub, [])].

  Lemma z3_lands z below a z' : In (z, below) z3_belows -> In (z, a, z') z3_triples -> lands z3_universe true q (inl a) z below.
  Proof.
    intros Hb Ht. exists z'. split; [|exact (z3_serves q z a z' Hq Ht)].
    unfold z3_belows in Hb. unfold z3_triples in Ht. tup_cases Hb; tup_cases Ht; cbn; auto.
  Qed.

  Lemma z3_hosts_ok z below : In (z, below) z3_belows -> hosts_okm z3_universe c3_hints true q z below.
  Proof.
    intros Hz h (r & Hr & Hn & Hh).
    assert (Hsrv : forall a z', In (z, a, z') z3_triples -> lands z3_universe true q (inl a) z below).
    { intros a z' Ha. exact (z3_lands z below a z' Hz Ha). }
    apply u_record_all in Hr. vm_compute in Hr.
    unfold z3_belows in Hz. tup_cases Hz; in_cases Hr; try (vm_compute in Hn; discriminate Hn); try (vm_compute in Hh; discriminate Hh);
      vm_compute in Hh; inversion Hh; subst h; clear Hh Hn;
      (split; [apply wf_name_b_sound; vm_compute; reflexivity|]);
      (split; [intros g Hg Hgn Hgt; apply u_record_all in Hg; vm_compute in Hg; in_cases Hg;
                 try (vm_compute in Hgn; discriminate Hgn); try (destruct Hgt as [Hgt|Hgt]; vm_compute in Hgt; discriminate Hgt);
                 eexists; (split; [left; split; [reflexivity|eexists; split; reflexivity]
                                  |eapply Hsrv; unfold z3_triples; in_solve])|]);
      (split; [intros g Hg Hl Hgt; unfold c3_hints in Hg; in_cases Hg;
                 try (vm_compute in Hl; discriminate Hl); try (destruct Hgt as [Hgt|Hgt]; vm_compute in Hgt; discriminate Hgt);
                 eexists; (split; [left; split; [reflexivity|eexists; split; reflexivity]
                                  |eapply Hsrv; unfold z3_triples; in_solve])|]);
      intros g Hg Hgn Hgt; apply u_record_all in Hg; vm_compute in Hg; in_cases Hg;
        try (vm_compute in Hgn; discriminate Hgn); vm_compute in Hgt; discriminate Hgt.
  Qed.

  Definition z3_links : list (uzone * uzone * list uzone) :=
    [(c3_root, c3_com, [c3_ex; c3_sub]); (c3_com, c3_ex, [c3_sub]); (c3_ex, c3_sub, [])].

  Lemma z3_wlink zp zc below : In (zp, zc, below) z3_links -> wlinkm z3_universe c3_hints OnlyV4 true nobody q zp zc below.
  Proof.
    intro Hcase. split; [|split; [|split; [|split; [|split]]]].
    - unfold z3_links in Hcase. tup_cases Hcase; cbn; auto.
    - unfold z3_links in Hcase. tup_cases Hcase; c3_q_cases Hq; vm_compute; reflexivity.
    - unfold z3_links in Hcase. tup_cases Hcase; vm_compute; reflexivity.
    - intros r Hr Hn. unfold z3_links in Hcase. tup_cases Hcase; cbn in Hr; in_cases Hr; c3_q_cases Hq; vm_compute in Hn; discriminate Hn.
    - intros h' (r & Hr & _ & Hh'). left. unfold z3_links in Hcase. tup_cases Hcase; cbn in Hr; in_cases Hr;
        vm_compute in Hh'; inversion Hh';
        eexists; (split; [cbn; left; reflexivity|]); (split; [reflexivity|]); (split; [left; reflexivity|vm_compute; reflexivity]).
    - apply z3_hosts_ok. unfold z3_links in Hcase. tup_cases Hcase; unfold z3_belows; in_solve.
  Qed.

  Lemma z3_walk : walkm z3_universe c3_hints OnlyV4 true nobody q c3_root [c3_com; c3_ex; c3_sub] c3_sub.
  Proof.
    constructor.
    - apply wf_name_b_sound. c3_q_cases Hq; vm_compute; reflexivity.
    - c3_q_cases Hq; (split; [split; [discriminate|reflexivity]|split; discriminate]).
    - reflexivity.
    - split; [|split; [|split]].
      + repeat (apply Forall_cons; [split; [apply wf_name_b_sound; vm_compute; reflexivity|]|]); [| |apply Forall_nil].
        * left. split; [reflexivity|]. split; [reflexivity|]. eexists. reflexivity.
        * right. left. split; [reflexivity|]. eexists. reflexivity.
      + eexists. split; [left; reflexivity|reflexivity].
      + intros r h Hr Ht Hd. unfold c3_hints in Hr. in_cases Hr; try discriminate Ht. inversion Hd; subst h. split.
        * exists (c3_rr root_domain RT_NS 3600 (RD_Name c3_n_a)). split; [exists c3_root; split; [cbn; auto|cbn; in_solve]|]. split; reflexivity.
        * eexists. split; [right; left; reflexivity|]. split; [reflexivity|left; reflexivity].
      + intros r Hr Hl. unfold c3_hints in Hr. in_cases Hr; c3_q_cases Hq; vm_compute in Hl; discriminate Hl.
    - apply z3_hosts_ok. unfold z3_belows; in_solve.
    - cbn [wchainm]. repeat (split; [apply z3_wlink; unfold z3_links; in_solve|]). reflexivity.
    - intros r Hr Ht Hin. apply u_record_all in Hr. vm_compute in Hr. in_cases Hr; vm_compute in Ht; discriminate Ht.
    - intros r Hr Ht Hin. apply u_record_all in Hr. vm_compute in Hr.
      in_cases Hr; try (vm_compute in Ht; discriminate Ht);
        try (left; reflexivity);
        try (right; exists c3_com; split; [cbn; auto|reflexivity]);
        try (right; exists c3_ex; split; [cbn; auto|reflexivity]);
        try (right; exists c3_sub; split; [cbn; auto|reflexivity]).
  Qed.

  Lemma z3_plain_at : plain_at z3_universe q c3_sub.
  Proof.
    constructor.
    - split; [|split; [vm_compute; repeat constructor|split; reflexivity]].
      c3_q_cases Hq; repeat split; vm_compute; reflexivity.
    - intros z r Hz Hr Hn. cbn [z3_universe u_zones] in Hz. in_cases Hz; cbn in Hr; in_cases Hr;
        c3_q_cases Hq; vm_compute in Hn; discriminate Hn.
    - intros z r Hz Hr Hn. cbn [z3_universe u_zones] in Hz. in_cases Hz; cbn in Hr; in_cases Hr;
        c3_q_cases Hq; try (vm_compute in Hn; discriminate Hn); cbn; auto 10.
    - intros r Hr Hn Ht. cbn in Hr. in_cases Hr; c3_q_cases Hq; try (vm_compute in Hn; discriminate Hn);
        try (vm_compute in Ht; discriminate Ht); vm_compute; reflexivity.
    - intros r Hr Ht Hn. apply u_record_all in Hr. vm_compute in Hr.
      in_cases Hr; vm_compute in Ht; discriminate Ht.
  Qed.

  Lemma z3_warm_question : warm_questionm z3_universe c3_hints OnlyV4 true nobody q c3_root [c3_com; c3_ex; c3_sub] c3_sub.
  Proof.
    split; [exact z3_walk|]. split; [exact z3_plain_at|].
    intros (r & Hr & Hh). apply u_record_all in Hr. vm_compute in Hr. in_cases Hr; c3_q_cases Hq; vm_compute in Hh; discriminate Hh.
  Qed.
End Z3.

Notation z3_run q c :=
  (resolve scache sc_get sc_insert_all sort_names_ord (ModeRecursive OnlyV4) 53 (zones_insert [] c3_hz)
           (universe_oracle z3_universe []) 5%nat q (c, tstate_init)).

(* the hypotheses are satisfiable (the strict ones are not: 10.0.0.2, the address of ns.com., is a
   server whose closest zone for the name is example.com., not com.), and what the theorem then says *)
Example multizone_example :
  outcomem scache sc_get 53 z3_universe c3_hints OnlyV4 true c3_q c3_root [c3_com; c3_ex; c3_sub] c3_sub sc_empty (z3_run c3_q sc_empty)
  /\ ~ serves_owner z3_universe (inl c3_ip1) c3_com c3_q.
Proof.
  split.
  - exact (modes_correct sort_names_ord sort_names_ord_perm 53 z3_universe c3_hints c3_hz OnlyV4 true c3_q c3_root [c3_com; c3_ex; c3_sub] c3_sub
             sc_empty 5%nat z3_universe_ns_ok c3_hz_built (z3_warm_question _ (or_introl eq_refl))
             (z3_plain_question _ (or_introl eq_refl)) (emptym_consistent _ _ _ _ _ _ sc_empty sc_empty_get) (le_n 5)).
  - intros (zs & Hz & Hb). vm_compute in Hz. inversion Hz; subst zs. vm_compute in Hb. discriminate Hb.
Qed.

(* the same run evaluated inside Coq: three exchanges instead of four -- the root server, then
   10.0.0.2 (asked as a server of com., it answers from example.com.: the referral to sub.example.com.),
   then 10.0.0.4; the answer is the same; the NS set of example.com. was never cached *)
Example multizone_example_eval :
  let r := z3_run c3_q sc_empty in
  fst r = Ok (NonAuthoritative [c3_rr c3_n_www RT_A 300 (RD_A 3221225985)] None)
  /\ map x_addr (ts_log (snd (snd r))) = [(inl c3_ip0, 53); (inl c3_ip1, 53); (inl c3_ip3, 53)]
  /\ sc_get (fst (snd r)) c3_n_ex RT_NS = [] /\ sc_get (fst (snd r)) c3_n_sub RT_NS <> []
  /\ consistentb z3_universe = true.
Proof. vm_compute. repeat split. discriminate. Qed.
