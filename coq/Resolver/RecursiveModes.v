(* Resolver/RecursiveModes.v -- C07 for ALL FOUR protocol modes (only-v4, prefer-v4, prefer-v6,
   only-v6): the warm-cache chain theorem of RecursiveWarm.v generalised over [mode].

   What changes with the mode is resolve_hostname_to_ip: it tries the record types of
   [rtypes_of_mode mode] in order, and the first type for which the fast (local) pass finds an
   address -- in the root hints or in the cache -- wins.  So:
     - the root hints may hold AAAA records ([hint_okm]);
     - a nameserver host is READY when SOME type of the mode has a hint or a cached RRset for it;
     - a delegation is glue-complete FOR THE MODE when every nameserver host of the cut has glue of a
       family the mode can use ([mode_usable]);
     - EVERY address record (A or AAAA) the universe or the hints hold for a host of a zone must lead
       to a server of that zone (whichever family is found first is used), and a host owns no alias.

   The development is also parametric in two things the later files instantiate:
     [G]      a predicate on host names: hosts that need NOT be ready because the slow pass can
              resolve them (RecursiveGlueless.v); here, for the theorems of this file, G = nobody;
     [multi]  false: the address of a host of a zone leads to a server whose closest zone for the
              question name is THAT zone (as in RecursiveWarm.v); true: to a server whose closest
              zone is that zone or one BELOW it in the chain -- servers authoritative for several
              zones of one chain (RecursiveMultiZone.v): hops are skipped, the log gets shorter.

   Contents: 1. root hints with AAAA records; 2. definitions (ready, consistent, links, chains);
   3. the fast pass; 4. consistency is kept by the inserts; 5. the two hops; 6. the induction down
   the chain; 7. where the resolution starts; 8. the whole resolution; 9. the statement for
   [resolve]; 10. a worked universe with a v6-only nameserver. *)
From Coq Require Import Permutation.
From RV Require Import Base.Prelude Name.NameModel Name.NameSpec Name.NameProofs
     Wire.WireTypes Wire.WireModel Wire.WireGrammar Wire.WireEncodeProofs Wire.WireDecodeProofs
     Zone.ZoneModel Zone.ZoneFlat Zone.ZoneProofs
     Resolver.LocalModel Resolver.LocalSpec Resolver.LocalProofs
     Resolver.ValidateModel Resolver.ValidateSpec Resolver.ValidateProofs
     Resolver.TransportModel Resolver.RecursiveModel Resolver.ForwardingModel
     Resolver.RecursiveProofs Resolver.ForwardingProofs
     Resolver.Universe Resolver.ResolverFacts Resolver.RecursiveCorrect Resolver.RecursiveDepth1
     Resolver.RecursiveChain Resolver.RecursiveWarm.
Set Default Timeout 120.

(* ====================================================================== *)
(* 1. root hints with AAAA records                                          *)
(* ====================================================================== *)

(* a root hint: an NS record of the root, or an A or AAAA record of a host *)
Definition hint_okm (r : rr) : Prop :=
  wf_name (rr_name r) /\
  ((rr_type r = RT_NS /\ labels (rr_name r) = [[]] /\ exists h, rr_data r = RD_Name h)
   \/ (rr_type r = RT_A /\ exists a, rr_data r = RD_A a)
   \/ (rr_type r = RT_AAAA /\ exists a, rr_data r = RD_AAAA a)).

Lemma hint_ok_okm r : hint_ok r -> hint_okm r.
Proof. intros [Hwf [H|H]]; split; auto. Qed.

Lemma hint_opm_ok r : hint_okm r -> op_ok (hint_op r).
Proof.
  intros [Hwf [(Ht & _ & h & Hd)|[(Ht & a & Hd)|(Ht & a & Hd)]]]; split; try exact Hwf;
    cbn [hint_op op_data op_type]; rewrite Ht, Hd; reflexivity.
Qed.

Lemma hint_opsm_ok hints : Forall hint_okm hints -> Forall op_ok (hint_ops hints).
Proof. intro H. unfold hint_ops. apply Forall_map. eapply Forall_impl; [|exact H]. exact hint_opm_ok. Qed.

Section HintsM.
  Variable hints : list rr.
  Hypothesis Hhints : Forall hint_okm hints.
  Let fz := flat_of_ops root_domain None (hint_ops hints).

  Lemma hintm_norm p rec :
    In (p, rec) (f_norm fz) <->
    exists r, In r hints /\ rel_path [[]] (rr_name r) = Some p
              /\ rec = {| zr_type := rr_type r; zr_data := rr_data r; zr_ttl := rr_ttl r |}.
  Proof.
    split.
    - intro H. apply (flat_of_ops_sound root_domain None (hint_ops hints) false) in H.
      destruct H as [(_ & _ & so & Hso & _)|(o & Ho & _ & Hp & Hr)]; [discriminate|].
      unfold hint_ops in Ho. apply in_map_iff in Ho as (r & <- & Hr0). exists r. split; [exact Hr0|]. split; [exact Hp|].
      rewrite Hr. reflexivity.
    - intros (r & Hr & Hp & ->).
      apply (flat_of_ops_complete root_domain None (hint_ops hints) (hint_op r) p).
      + unfold hint_ops. apply in_map, Hr.
      + exact Hp.
  Qed.

  Lemma hintm_wild p rec : ~ In (p, rec) (f_wild fz).
  Proof.
    intro H. apply (flat_of_ops_sound root_domain None (hint_ops hints) true) in H.
    destruct H as [(Hw & _)|(o & Ho & Hw & _)]; [discriminate|].
    unfold hint_ops in Ho. apply in_map_iff in Ho as (r & <- & _). discriminate.
  Qed.

  Lemma hintm_no_ns c : c <> [] -> recs_at (f_norm fz) c RT_NS = [].
  Proof.
    intro Hc. destruct (recs_at (f_norm fz) c RT_NS) as [|x l] eqn:E; [reflexivity|]. exfalso.
    assert (Hx : In x (recs_at (f_norm fz) c RT_NS)) by (rewrite E; left; reflexivity).
    apply In_recs_at in Hx as [Hin Ht]. apply hintm_norm in Hin as (r & Hr & Hp & ->). cbn [zr_type] in Ht.
    rewrite Forall_forall in Hhints. destruct (Hhints r Hr) as [_ [(_ & Hl & _)|[(Ht' & _)|(Ht' & _)]]].
    - apply rel_path_some in Hp. rewrite Hl in Hp. destruct c as [|a c]; [contradiction|].
      cbn [app] in Hp. inversion Hp. destruct c; discriminate.
    - rewrite Ht' in Ht. discriminate.
    - rewrite Ht' in Ht. discriminate.
  Qed.

  Lemma hintm_no_cname p : recs_at (f_norm fz) p RT_CNAME = [].
  Proof.
    destruct (recs_at (f_norm fz) p RT_CNAME) as [|x l] eqn:E; [reflexivity|]. exfalso.
    assert (Hx : In x (recs_at (f_norm fz) p RT_CNAME)) by (rewrite E; left; reflexivity).
    apply In_recs_at in Hx as [Hin Ht]. apply hintm_norm in Hin as (r & Hr & Hp & ->). cbn [zr_type] in Ht.
    rewrite Forall_forall in Hhints. destruct (Hhints r Hr) as [_ [(Ht' & _)|[(Ht' & _)|(Ht' & _)]]]; rewrite Ht' in Ht; discriminate.
  Qed.

  Lemma hintm_no_occlusion : no_occlusion fz.
  Proof.
    intros c rns Hc Hin Ht. exfalso.
    assert (Hx : In rns (recs_at (f_norm fz) c RT_NS)) by (apply In_recs_at; auto).
    rewrite (hintm_no_ns c Hc) in Hx. destruct Hx.
  Qed.

  (* a lookup in the hints zone: no record of the zone matches, or exactly the matching hints *)
  Lemma hintsm_zone_resolve hz name qt :
    zone_build root_domain None (hint_ops hints) = Ok hz -> wf_name name -> qt <> QT_Wildcard ->
    exists zr, zone_resolve hz name qt = Some (Ok zr) /\
      ((zr = ZNameError /\ forall x, ~ hint_match hints name qt x) \/
       (exists rrs, zr = ZAnswer rrs /\ forall x, In x rrs <-> hint_match hints name qt x)).
  Proof.
    intros Hb Hname Hqt.
    destruct (resolve_refines_flat root_domain None (hint_ops hints) name qt root_wf (hint_opsm_ok _ Hhints) Hname)
      as (z & Hb' & H).
    rewrite Hb in Hb'. inversion Hb'; subst z. clear Hb'.
    destruct (proj1 Hname) as (front & Hl & Hfront & Hsum).
    change (labels root_domain) with ([[]] : list label) in H.
    rewrite (rel_path_intro [[]] name front Hl) in H. destruct H as (zr & Hzr & H).
    destruct (H hintm_no_occlusion) as [_ Heq]. specialize (Heq Hqt). fold fz in Heq.
    exists zr. split; [exact Hzr|]. subst zr. unfold flat_resolve.
    rewrite find_none_all.
    2:{ intros c Hc. apply In_ancestors in Hc as [Hc _]. apply is_cut_no_ns, hintm_no_ns, Hc. }
    destruct (exists_nodeb fz front) eqn:Eex.
    - right. rewrite classify_answer by (right; rewrite of_type_all_at; apply hintm_no_cname).
      eexists. split; [reflexivity|]. intro x. rewrite in_map_iff. split.
      + intros (rec & <- & Hrec). apply filter_In in Hrec as [Hrec Hm]. apply In_all_at, hintm_norm in Hrec as (r & Hr & Hp & ->).
        exists r. split; [exact Hr|]. split; [apply (hint_rel_path name front Hl), Hp|]. split; [exact Hm|reflexivity].
      + intros (r & Hr & Hlr & Hm & ->).
        exists {| zr_type := rr_type r; zr_data := rr_data r; zr_ttl := rr_ttl r |}. split; [reflexivity|].
        apply filter_In. split; [|exact Hm]. apply In_all_at, hintm_norm. exists r. split; [exact Hr|].
        split; [apply (hint_rel_path name front Hl), Hlr|reflexivity].
    - left. split.
      + destruct (wild_source fz front) as [[l e]|]; [|reflexivity].
        destruct (has_wild fz e) eqn:Ew; [|reflexivity]. apply has_wild_spec in Ew as [r Hr]. destruct (hintm_wild _ _ Hr).
      + intros x (r & Hr & Hlr & _). apply exists_nodeb_false in Eex. apply Eex. right.
        exists front, {| zr_type := rr_type r; zr_data := rr_data r; zr_ttl := rr_ttl r |}. split; [|apply is_suffix_refl].
        unfold entries. apply in_or_app. left. apply hintm_norm. exists r. split; [exact Hr|].
        split; [apply (hint_rel_path name front Hl), Hlr|reflexivity].
  Qed.
End HintsM.

Lemma hintsm_zones_built hints hz :
  Forall hint_okm hints -> zone_build root_domain None (hint_ops hints) = Ok hz ->
  hints_zones (zones_insert [] hz) hints.
Proof.
  intros Hh Hb.
  destruct (zone_build_R root_domain None (hint_ops hints) root_wf (Forall_op_names _ (hint_opsm_ok _ Hh)))
    as (z & Hb' & Ha & Hs & _).
  rewrite Hb in Hb'. inversion Hb'; subst z. clear Hb'.
  split.
  { apply no_auth_of_all. unfold zones_insert, ainsert. cbn [alookup app]. intros n z [E|[]]. inversion E; subst.
    unfold zone_is_authoritative. rewrite Hs. reflexivity. }
  intros name qt Hname Hqt.
  destruct (hintsm_zone_resolve hints Hh hz name qt Hb Hname Hqt) as (zr & Hzr & Hcases).
  exists hz, zr. split; [|split; [|exact Hcases]].
  - unfold zones_resolve, zones_insert, ainsert. cbn [alookup app]. rewrite Ha. unfold zones_get.
    destruct (proj1 Hname) as (front & Hl & _). rewrite Hl, zones_get_root, Hzr. reflexivity.
  - unfold zone_soa_rr. rewrite Hs. reflexivity.
Qed.

(* ====================================================================== *)
(* 2. definitions                                                           *)
(* ====================================================================== *)

(* the record types resolve_hostname_to_ip asks for in the mode, in order *)
Definition mode_usable (mode : protocol_mode) (t : N) : Prop := In t (rtypes_of_mode mode).

Definition addr_type (t : N) : Prop := t = RT_A \/ t = RT_AAAA.

Lemma mode_usable_addr mode t : mode_usable mode t -> addr_type t.
Proof. unfold mode_usable, addr_type. destruct mode; cbn; intuition. Qed.

Lemma addr_type_concrete t : addr_type t -> concrete t.
Proof. intros [-> | ->]; (split; [discriminate|reflexivity]). Qed.

Lemma addr_type_not_any t : addr_type t -> t <> QT_Wildcard.
Proof. intros [-> | ->]; discriminate. Qed.

(* [a] is the address the record [r] holds: an A record its v4 address, an AAAA record its v6 address *)
Definition addr_of (r : rr) (a : ip) : Prop :=
  (rr_type r = RT_A /\ exists x, rr_data r = RD_A x /\ a = inl x)
  \/ (rr_type r = RT_AAAA /\ exists s, rr_data r = RD_AAAA s /\ a = inr s).

Lemma addr_of_fun r a b : addr_of r a -> addr_of r b -> a = b.
Proof.
  intros [(T1 & x & D1 & ->)|(T1 & x & D1 & ->)] [(T2 & y & D2 & ->)|(T2 & y & D2 & ->)]; congruence.
Qed.

Lemma addr_of_same r r' a : rr_type r = rr_type r' -> rr_data r = rr_data r' -> addr_of r a -> addr_of r' a.
Proof. unfold addr_of. intros <- <-. auto. Qed.

(* one logged exchange: a UDP query about [q] to port [port] of the v4 or v6 address [a] *)
Definition query_toi (port : N) (q : question) (a : ip) (e : exchange) : Prop :=
  x_kind e = KUdp /\ x_addr e = (a, port) /\ x_question e = q /\ x_rd e = false.

(* one exchange per zone of [chain], each with a server whose closest zone for the name is that zone *)
Definition chain_logm (u : universe) (port : N) (q : question) (chain : list uzone) (es : list exchange) : Prop :=
  Forall2 (fun z e => exists a, query_toi port q a e /\ serves_owner u a z q) chain es.

Lemma chain_log_logm u port q chain es : chain_log u port q chain es -> chain_logm u port q chain es.
Proof.
  intro H. induction H as [|z e l l' (a & (H1 & H2 & H3 & H4) & Hs) _ IH]; constructor; [|exact IH].
  exists (inl a). unfold query_toi. auto.
Qed.

(* [l1] is [l2] with some elements left out *)
Inductive subseq {A : Type} : list A -> list A -> Prop :=
| ss_nil : subseq [] []
| ss_take x l1 l2 : subseq l1 l2 -> subseq (x :: l1) (x :: l2)
| ss_skip x l1 l2 : subseq l1 l2 -> subseq l1 (x :: l2).

Lemma subseq_refl {A} (l : list A) : subseq l l.
Proof. induction l; constructor; assumption. Qed.

Lemma subseq_app_skip {A} (pre l1 l2 : list A) : subseq l1 l2 -> subseq l1 (pre ++ l2).
Proof. intro H. induction pre; cbn [app]; [exact H|constructor; assumption]. Qed.

Section ModeDefs.
  Variable u : universe.
  Variable hints : list rr.
  Variable mode : protocol_mode.
  (* servers may be authoritative for several zones of one chain *)
  Variable multi : bool.
  (* hosts that need not be ready: the slow pass resolves them (nobody, in this file's theorems) *)
  Variable G : dname -> Prop.

  Section Cache.
    Variable cache : Type.
    Variable cache_get : cache -> dname -> N -> list rr.

    (* the fast pass finds an address for the host: for some record type of the mode, in the hints
       or in the cache *)
    Definition readym (c : cache) (h : dname) : Prop :=
      wf_name h /\ exists t, mode_usable mode t /\ ((exists x, hint_match hints h t x) \/ cache_get c h t <> []).

    (* cache_consistent of RecursiveWarm.v with the closed clause for the mode (and G) *)
    Definition consistentm (c : cache) : Prop :=
      (forall n t x, concrete t -> In x (cache_get c n t) ->
         exists r, u_record u r /\ rr_name r = n /\ rr_type r = t /\ rr_data r = rr_data x)
      /\ (forall n x h, In x (cache_get c n RT_NS) -> is_ns_rr x = Some h -> readym c h \/ G h)
      /\ (forall n t, concrete t -> t <> RT_NS -> cache_get c n t <> [] -> ~ ns_host_name u n ->
            forall z r, In z (u_zones u) -> In r (zone_data z) -> rr_name r = n -> rr_type r = t ->
              exists x, In x (cache_get c n t) /\ rr_data x = rr_data r).

    Lemma emptym_consistent c : (forall n t, cache_get c n t = []) -> consistentm c.
    Proof.
      intro H. split; [|split].
      - intros n t x _ Hx. rewrite H in Hx. destruct Hx.
      - intros n x h Hx. rewrite H in Hx. destruct Hx.
      - intros n t _ _ Hne. rewrite H in Hne. congruence.
    Qed.
  End Cache.

  Section Question.
    Variable q : question.

    (* where the address of a host of [z] may lead: to a server whose closest zone for the question
       name is [z] -- or, with [multi], [z] or a zone of the chain below it *)
    Definition lands (a : ip) (z : uzone) (below : list uzone) : Prop :=
      if multi then exists z', In z' (z :: below) /\ serves_owner u a z' q
      else serves_owner u a z q.

    (* the host [h] of [z]: a well-formed name; EVERY address record (A or AAAA) the universe or the
       hints hold for it holds an address of its type that leads to a server of [z]; no alias at it *)
    Definition host_okm (z : uzone) (below : list uzone) (h : dname) : Prop :=
      wf_name h
      /\ (forall r, u_record u r -> rr_name r = h -> addr_type (rr_type r) -> exists a, addr_of r a /\ lands a z below)
      /\ (forall g, In g hints -> labels (rr_name g) = labels h -> addr_type (rr_type g) -> exists a, addr_of g a /\ lands a z below)
      /\ (forall r, u_record u r -> rr_name r = h -> rr_type r <> RT_CNAME).

    Definition hosts_okm (z : uzone) (below : list uzone) : Prop :=
      forall h, ns_host_any u (uz_apex z) h -> host_okm z below h.

    (* wlink of RecursiveWarm.v for the mode: every nameserver host of the cut has glue of a family
       the mode can use (or is in G) *)
    Definition wlinkm (zp zc : uzone) (below : list uzone) : Prop :=
      In zp (u_zones u)
      /\ cut_owner zp (q_name q) = Some (uz_apex zc)
      /\ llen (labels (uz_apex zp)) < llen (labels (uz_apex zc))
      /\ (forall r, In r (uz_glue zp ++ uz_rrs zp) -> rr_name r <> q_name q)
      /\ (forall h, ns_host_of zp (uz_apex zc) h ->
            (exists g, In g (uz_glue zp ++ uz_rrs zp) /\ rr_name g = h /\ mode_usable mode (rr_type g) /\ 0 < rr_ttl g)
            \/ G h)
      /\ hosts_okm zc below.

    Fixpoint wchainm (zk z : uzone) (rest : list uzone) : Prop :=
      match rest with
      | [] => z = zk
      | zc :: rest' => wlinkm z zc rest' /\ wchainm zk zc rest'
      end.

    (* the root hints: NS records of the root, A and AAAA records; at least one NS record; every
       nameserver they name is a nameserver the universe lists for the root and has a hint of a
       family the mode can use; the hints do not answer the question themselves *)
    Definition hints_form : Prop :=
      Forall hint_okm hints
      /\ (exists r, In r hints /\ rr_type r = RT_NS)
      /\ (forall r h, In r hints -> rr_type r = RT_NS -> rr_data r = RD_Name h ->
            ns_host_any u root_domain h
            /\ exists g, In g hints /\ labels (rr_name g) = labels h /\ mode_usable mode (rr_type g))
      /\ (forall r, In r hints -> labels (rr_name r) = labels (q_name q) -> rtype_matches (rr_type r) (q_type q) = false).

    (* walk_question of RecursiveWarm.v for the mode (without "the name is not a nameserver host") *)
    Record walkm (zroot : uzone) (rest : list uzone) (zk : uzone) : Prop := {
      wm_wf : wf_name (q_name q);
      wm_type : concrete (q_type q) /\ q_type q <> RT_NS /\ q_type q <> RT_CNAME;
      wm_root : uz_apex zroot = root_domain;
      wm_hints : hints_form;
      wm_roothosts : hosts_okm zroot rest;
      wm_chain : wchainm zk zroot rest;
      wm_nocname : forall r, u_record u r -> rr_type r = RT_CNAME -> In (labels (rr_name r)) (suffixes (labels (q_name q))) ->
        labels (rr_name r) = labels (q_name q);
      wm_onchain : forall r, u_record u r -> rr_type r = RT_NS -> In (labels (rr_name r)) (suffixes (labels (q_name q))) ->
        labels (rr_name r) = [[]] \/ exists zi, In zi rest /\ rr_name r = uz_apex zi }.

    (* a plain question of the universe *)
    Definition warm_questionm (zroot : uzone) (rest : list uzone) (zk : uzone) : Prop :=
      walkm zroot rest zk /\ plain_at u q zk /\ ~ ns_host_name u (q_name q).

    (* a nameserver host of a zone of the chain *)
    Definition chain_host (zroot : uzone) (rest : list uzone) (h : dname) : Prop :=
      exists zi, In zi (zroot :: rest) /\ ns_host_any u (uz_apex zi) h.

    Lemma wchainm_at : forall pre zk z rest z' post,
      wchainm zk z rest -> z :: rest = pre ++ z' :: post -> wchainm zk z' post.
    Proof.
      induction pre as [|x pre IH]; intros zk z rest z' post Hch E; cbn [app] in E.
      - inversion E; subst. exact Hch.
      - inversion E; subst x. destruct rest as [|zc rest']; [destruct pre; discriminate|].
        cbn [wchainm] in Hch. destruct Hch as (_ & Hrest). exact (IH zk zc rest' z' post Hrest H1).
    Qed.

    Lemma wchainm_last : forall rest zk z, wchainm zk z rest -> exists pre, z :: rest = pre ++ [zk].
    Proof.
      induction rest as [|zc rest IH]; intros zk z Hch; cbn [wchainm] in Hch.
      - subst. exists []. reflexivity.
      - destruct Hch as (_ & Hrest). destruct (IH zk zc Hrest) as [pre E]. exists (z :: pre). cbn [app]. rewrite E. reflexivity.
    Qed.

    (* the depths along the chain increase *)
    Lemma wchainm_depth : forall rest zk z z', wchainm zk z rest -> In z' (z :: rest) ->
      llen (labels (uz_apex z)) <= llen (labels (uz_apex z')).
    Proof.
      induction rest as [|zc rest IH]; intros zk z z' Hch Hin.
      - destruct Hin as [<-|[]]. lia.
      - cbn [wchainm] in Hch. destruct Hch as ((_ & _ & Hd & _) & Hrest). destruct Hin as [<-|Hin]; [lia|].
        pose proof (IH zk zc z' Hrest Hin). lia.
    Qed.

    Lemma lands_split a z below : lands a z below ->
      exists pre z' post, z :: below = pre ++ z' :: post /\ serves_owner u a z' q /\ (multi = false -> pre = []).
    Proof.
      unfold lands. destruct multi.
      - intros (z' & Hin & Hs). apply in_split in Hin as (pre & post & E). exists pre, z', post. split; [exact E|].
        split; [exact Hs|discriminate].
      - intro Hs. exists [], z, below. auto.
    Qed.
  End Question.
End ModeDefs.

(* for only-v4 and G = nobody, [consistentm] is cache_consistent of RecursiveWarm.v *)
Lemma consistentm_v4 u hints cache cache_get c :
  consistentm u hints OnlyV4 (fun _ => False) cache cache_get c <-> cache_consistent u hints cache cache_get c.
Proof.
  unfold consistentm, cache_consistent, readym, host_ready, mode_usable. cbn [rtypes_of_mode In].
  split; intros (S1 & S2 & S3); (split; [exact S1|split; [|exact S3]]); intros n x h Hx Hh.
  - destruct (S2 n x h Hx Hh) as [(Hwf & t & [<-|[]] & H)|[]]. split; assumption.
  - destruct (S2 n x h Hx Hh) as (Hwf & H). left. split; [exact Hwf|]. exists RT_A. auto.
Qed.

(* ====================================================================== *)
(* 3. the fast pass of resolve_hostname_to_ip, any mode                     *)
(* ====================================================================== *)

(* address records of the host [h], of type [t] *)
Definition addr_rrm (h : dname) (t : N) (r : rr) : Prop :=
  rr_name r = h /\ rr_type r = t /\ rr_class r = RC_IN /\ exists a, addr_of r a.

Lemma get_ip_addrm h t rrs : addr_type t -> rrs <> [] -> Forall (addr_rrm h t) rrs ->
  exists r a, In r rrs /\ addr_of r a /\ get_ip rrs h t = Ok (Some a).
Proof.
  intros Ht Hne Hall. unfold get_ip.
  assert (Hplain : Forall (plain_rr (mkq h QT_Wildcard RC_IN)) rrs).
  { eapply Forall_impl; [|exact Hall]. intros r (Hn & Hty & Hc & _). unfold plain_rr. cbn [mkq q_name q_type].
    unfold rr_is_unknown. rewrite Hty, Hc. destruct Ht as [-> | ->]; repeat split; try exact Hn; discriminate. }
  pose proof (follow_plain _ rrs Hplain Hne) as Hf. cbn [mkq q_name q_type] in Hf. rewrite Hf.
  destruct rrs as [|r l]; [congruence|]. inversion Hall as [|? ? (Hn & Hty & Hc & a & Ha) _]; subst.
  unfold get_record. cbn [find]. rewrite N.eqb_refl, dname_eqb_refl. cbn [andb].
  exists r, a. split; [left; reflexivity|]. split; [exact Ha|].
  destruct Ha as [(_ & x & -> & ->)|(_ & x & -> & ->)]; reflexivity.
Qed.

Section FastPass.
  Variable cache : Type.
  Variable cache_get : cache -> dname -> N -> list rr.
  Variable zs : zones.
  Variable hints : list rr.
  Hypothesis Hz : hints_zones zs hints.
  Hypothesis Hh : Forall hint_okm hints.

  Notation htry := (hostname_try cache cache_get zs).
  Notation hloop := (hostname_loop cache cache_get zs).

  Lemma htry_miss rec stack h t st :
    at_recursion_limit stack = false -> wf_name h -> addr_type t ->
    (forall x, ~ hint_match hints h t x) -> cache_get (fst st) h t = [] -> cache_get (fst st) h RT_CNAME = [] ->
    htry rec stack true h t st = (Val None, st).
  Proof.
    intros Hlim Hwf Ht Hno Hc Hcn. unfold hostname_try, rbind.
    destruct (is_duplicate_question stack (mkq h t RC_IN)) eqn:Ed.
    - rewrite (local_dup cache cache_get zs stack _ st Hlim Ed). reflexivity.
    - rewrite (local_miss cache cache_get zs hints Hz stack (mkq h t RC_IN) st Hlim Ed Hwf (addr_type_not_any t Ht) Hno Hc Hcn).
      reflexivity.
  Qed.

  Lemma htry_hit rec stack h t st rrs a :
    resolve_local zs (cache_get (fst st)) LOCAL_FUEL stack (mkq h t RC_IN) = Ok (LDone (NonAuthoritative rrs None)) ->
    get_ip rrs h t = Ok (Some a) ->
    htry rec stack true h t st = (Val (Some a), st).
  Proof.
    intros Hrl Hip. unfold hostname_try, rbind, RecursiveModel.local. rewrite Hrl. cbn [resolved_rrs]. rewrite Hip. reflexivity.
  Qed.

  (* the hints answer for (h, t): the address of one of the matching hints *)
  Lemma htry_hint rec stack h t st x0 :
    at_recursion_limit stack = false -> is_duplicate_question stack (mkq h t RC_IN) = false ->
    wf_name h -> addr_type t -> hint_match hints h t x0 ->
    exists g a, In g hints /\ labels (rr_name g) = labels h /\ rr_type g = t /\ addr_of g a /\
      htry rec stack true h t st = (Val (Some a), st).
  Proof.
    intros Hlim Hdup Hwf Ht Hm0. destruct local_fuel_S as [f Ef].
    destruct (rl_hit zs hints Hz (cache_get (fst st)) f stack (mkq h t RC_IN) x0 Hlim Hdup Hwf (addr_type_not_any t Ht) Hm0)
      as (rrs & Hrl & Hne & Hin). cbn [mkq q_name q_type] in Hin.
    assert (Hfrom : forall x, In x rrs -> exists g, In g hints /\ labels (rr_name g) = labels h /\ rr_type g = t
                                /\ rr_name x = h /\ rr_type x = t /\ rr_class x = RC_IN /\ rr_data x = rr_data g
                                /\ exists a, addr_of g a).
    { intros x Hx. apply Hin in Hx as (g & Hg & Hl & Hm & ->). apply (rtype_matches_concrete _ _ (addr_type_not_any t Ht)) in Hm.
      exists g. cbn [rr_name rr_type rr_class rr_data]. split; [exact Hg|]. split; [exact Hl|]. split; [exact Hm|].
      split; [reflexivity|]. split; [exact Hm|]. split; [reflexivity|]. split; [reflexivity|].
      rewrite Forall_forall in Hh. destruct (Hh g Hg) as [_ [(Ht' & _)|[(Ht' & a & Hd)|(Ht' & a & Hd)]]].
      - exfalso. rewrite Hm in Ht'. destruct Ht as [-> | ->]; discriminate.
      - exists (inl a). left. eauto.
      - exists (inr a). right. eauto. }
    assert (Hall : Forall (addr_rrm h t) rrs).
    { apply Forall_forall. intros x Hx. destruct (Hfrom x Hx) as (g & _ & _ & Hgt & H1 & H2 & H3 & H4 & a & Ha).
      unfold addr_rrm. repeat (split; [assumption|]). exists a. apply (addr_of_same g x a); congruence. }
    destruct (get_ip_addrm h t rrs Ht Hne Hall) as (x & a & Hx & Ha & Hip).
    destruct (Hfrom x Hx) as (g & Hg & Hl & Hgt & H1 & H2 & H3 & H4 & _).
    exists g, a. repeat (split; [assumption|]). split; [apply (addr_of_same x g a); congruence|].
    rewrite <- Ef in Hrl. eapply htry_hit; eassumption.
  Qed.

  (* the hints do not know (h, t), the cache has address records for it *)
  Lemma htry_cached rec stack h t st :
    at_recursion_limit stack = false -> is_duplicate_question stack (mkq h t RC_IN) = false ->
    wf_name h -> addr_type t -> (forall x, ~ hint_match hints h t x) ->
    cache_get (fst st) h t <> [] -> Forall (addr_rrm h t) (cache_get (fst st) h t) ->
    exists r a, In r (cache_get (fst st) h t) /\ addr_of r a /\ htry rec stack true h t st = (Val (Some a), st).
  Proof.
    intros Hlim Hdup Hwf Ht Hno Hne Hall. destruct local_fuel_S as [f Ef].
    pose proof (rl_cache zs hints Hz (cache_get (fst st)) f stack (mkq h t RC_IN) Hlim Hdup Hwf (addr_type_not_any t Ht) Hno Hne) as Hrl.
    cbn [mkq q_name q_type] in Hrl.
    destruct (get_ip_addrm h t _ Ht Hne Hall) as (x & a & Hx & Ha & Hip).
    exists x, a. split; [exact Hx|]. split; [exact Ha|]. rewrite <- Ef in Hrl. eapply htry_hit; eassumption.
  Qed.

  (* THE FAST PASS over the record types of a mode: the first type with a hint or a cached RRset
     gives the address; [P] holds of every address the hints or the cache hold for the host *)
  Lemma hloop_fast rec stack h st (P : ip -> Prop) :
    at_recursion_limit stack = false -> wf_name h ->
    (forall t, addr_type t -> is_duplicate_question stack (mkq h t RC_IN) = false) ->
    cache_get (fst st) h RT_CNAME = [] ->
    (forall t x, addr_type t -> In x (cache_get (fst st) h t) -> addr_rrm h t x /\ forall a, addr_of x a -> P a) ->
    (forall g a, In g hints -> labels (rr_name g) = labels h -> addr_type (rr_type g) -> addr_of g a -> P a) ->
    forall types, Forall addr_type types ->
      (exists t, In t types /\ ((exists x, hint_match hints h t x) \/ cache_get (fst st) h t <> [])) ->
      exists a, hloop rec stack true h types st = (Val (Some a), st) /\ P a.
  Proof.
    intros Hlim Hwf Hdup Hcn Hcache Hhint. induction types as [|t types IH]; intros Hty (t0 & Hin & Hr); [destruct Hin|].
    inversion Hty as [|? ? Ht Hty']; subst. cbn [hostname_loop]. unfold rbind at 1.
    destruct (hint_match_dec zs hints h t Hz Hwf (addr_type_not_any t Ht)) as [[x0 Hx0]|Hno].
    - destruct (htry_hint rec stack h t st x0 Hlim (Hdup t Ht) Hwf Ht Hx0) as (g & a & Hg & Hl & Hgt & Ha & E).
      rewrite E. exists a. split; [reflexivity|]. apply (Hhint g a Hg Hl); [rewrite Hgt; exact Ht|exact Ha].
    - destruct (cache_get (fst st) h t) as [|y l] eqn:Ec.
      + rewrite (htry_miss rec stack h t st Hlim Hwf Ht Hno Ec Hcn).
        apply IH; [exact Hty'|]. destruct Hin as [<-|Hin].
        * exfalso. destruct Hr as [[x Hx]|Hne]; [exact (Hno x Hx)|congruence].
        * exists t0. auto.
      + assert (Hne : cache_get (fst st) h t <> []) by (rewrite Ec; discriminate).
        assert (Hall : Forall (addr_rrm h t) (cache_get (fst st) h t)).
        { apply Forall_forall. intros x Hx. exact (proj1 (Hcache t x Ht Hx)). }
        destruct (htry_cached rec stack h t st Hlim (Hdup t Ht) Hwf Ht Hno Hne Hall) as (x & a & Hx & Ha & E).
        rewrite E. exists a. split; [reflexivity|]. exact (proj2 (Hcache t x Ht Hx) a Ha).
  Qed.

  (* ... and when no type of the mode has a hint or a cached RRset the fast pass finds nothing *)
  Lemma hloop_fast_none rec stack h st :
    at_recursion_limit stack = false -> wf_name h -> cache_get (fst st) h RT_CNAME = [] ->
    forall types, Forall addr_type types ->
      (forall t, In t types -> (forall x, ~ hint_match hints h t x) /\ cache_get (fst st) h t = []) ->
      hloop rec stack true h types st = (Val None, st).
  Proof.
    intros Hlim Hwf Hcn. induction types as [|t types IH]; intros Hty Hnone; [reflexivity|].
    inversion Hty as [|? ? Ht Hty']; subst. cbn [hostname_loop]. unfold rbind at 1.
    destruct (Hnone t (or_introl eq_refl)) as [Hno Hc].
    rewrite (htry_miss rec stack h t st Hlim Hwf Ht Hno Hc Hcn). apply IH; [exact Hty'|].
    intros t' Hin. apply Hnone. right. exact Hin.
  Qed.
End FastPass.

(* ====================================================================== *)
(* 4. consistency is kept by the two kinds of insert_all                    *)
(* ====================================================================== *)

(* the address records (of either family) of the referral for the host [h] *)
Lemma referral_addr_inm z zc names g h :
  In g (uz_glue z ++ uz_rrs z) -> rr_name g = h -> addr_type (rr_type g) -> In h names ->
  ns_host_of z (uz_apex zc) h -> In g (referral_ins z zc names).
Proof.
  intros Hg Hn Ht Hnames (r & Hr & Hrc & Hrh). unfold referral_ins. apply in_or_app. right. apply filter_In. split.
  - unfold referral. cbn [sr_additional]. apply filter_In. split; [exact Hg|].
    apply andb_true_intro. split.
    + unfold is_addr_rr. destruct Ht as [E|E]; rewrite E; reflexivity.
    + apply existsb_exists. exists h. split; [|apply dname_eqb_eq; exact Hn].
      apply in_flat_map. exists r. split.
      * apply filter_In. split; [exact Hr|apply dname_eqb_eq; exact Hrc].
      * change (ns_target r) with (is_ns_rr r). rewrite Hrh. left. reflexivity.
  - unfold ns_glue_filter, is_ns_rr. destruct Ht as [E|E]; rewrite E; cbn [N.eqb orb andb]; rewrite Hn; apply set_mem_in; exact Hnames.
Qed.

Section KeepM.
  Variable cache : Type.
  Variable cache_get : cache -> dname -> N -> list rr.
  Variable cache_insert_all : cache -> list rr -> cache.
  Hypothesis LAWS : cache_laws cache cache_get cache_insert_all.
  Variable u : universe.
  Variable hints : list rr.
  Variable mode : protocol_mode.
  Variable multi : bool.
  Variable G : dname -> Prop.
  Variable q : question.

  Notation consistent := (consistentm u hints mode G cache cache_get).
  Notation ready := (readym hints mode cache cache_get).

  Lemma readym_mono c rrs h : ready c h -> ready (cache_insert_all c rrs) h.
  Proof.
    intros (Hwf & t & Ht & [Hh|Hc]); split; try exact Hwf; exists t; (split; [exact Ht|]); [left; exact Hh|right].
    destruct (cache_get c h t) as [|x l] eqn:E; [congruence|].
    destruct (L_mono _ _ _ LAWS c rrs h t x (addr_type_concrete t (mode_usable_addr mode t Ht))) as (x' & Hx' & _); [rewrite E; left; reflexivity|].
    intro E'. rewrite E' in Hx'. destruct Hx'.
  Qed.

  Lemma consistentm_insert c rrs :
    consistent c ->
    (forall r, In r rrs -> u_record u r) ->
    (forall r h, In r rrs -> is_ns_rr r = Some h -> ready (cache_insert_all c rrs) h \/ G h) ->
    (forall r, In r rrs -> rr_type r <> RT_NS -> concrete (rr_type r) -> ~ ns_host_name u (rr_name r) ->
       forall z r', In z (u_zones u) -> In r' (zone_data z) -> rr_name r' = rr_name r -> rr_type r' = rr_type r ->
         In r' rrs /\ 0 < rr_ttl r') ->
    consistent (cache_insert_all c rrs).
  Proof.
    intros (S1 & S2 & S3) Hrec Hns Hall. split; [|split].
    - intros n t x Hc Hx. destruct (L_sound _ _ _ LAWS c rrs n t x Hc Hx) as [H|(r & Hr & H1 & H2 & H3 & _)].
      + exact (S1 n t x Hc H).
      + exists r. split; [exact (Hrec r Hr)|auto].
    - intros n x h Hx Hh. destruct (L_sound _ _ _ LAWS c rrs n RT_NS x concrete_NS Hx) as [H|(r & Hr & H1 & H2 & H3 & _)].
      + destruct (S2 n x h H Hh) as [Hr|Hg]; [left; apply readym_mono; exact Hr|right; exact Hg].
      + apply (Hns r h Hr). apply is_ns_rr_spec in Hh as [_ Hd]. apply is_ns_rr_spec. split; [exact H2|congruence].
    - intros n t Hc Hns' Hne Hnot z r' Hz Hr' Hn' Ht'.
      destruct (ne_in _ Hne) as [x Hx].
      destruct (L_sound _ _ _ LAWS c rrs n t x Hc Hx) as [H|(r & Hr & H1 & H2 & H3 & _)].
      + assert (Hne0 : cache_get c n t <> []) by (intro E; rewrite E in H; destruct H).
        destruct (S3 n t Hc Hns' Hne0 Hnot z r' Hz Hr' Hn' Ht') as (x0 & Hx0 & Hd0).
        destruct (L_mono _ _ _ LAWS c rrs n t x0 Hc Hx0) as (x1 & Hx1 & Hd1). exists x1. split; [exact Hx1|congruence].
      + rewrite <- H2 in Hns', Hc. rewrite <- H1 in Hnot.
        destruct (Hall r Hr Hns' Hc Hnot z r' Hz Hr' ltac:(congruence) ltac:(congruence)) as [Hin Hpos].
        assert (Hc' : concrete (rr_type r')) by (rewrite Ht', <- H2; exact Hc).
        destruct (L_complete _ _ _ LAWS c rrs r' Hin Hc' Hpos) as (x1 & Hx1 & Hd1).
        rewrite Hn', Ht' in Hx1. exists x1. auto.
  Qed.

  (* the answer RRset of the zone [zk] that owns the name *)
  Section Answer.
    Variable zk : uzone.
    Hypothesis Hqc : concrete (q_type q).
    Hypothesis Hqns : q_type q <> RT_NS.
    Hypothesis AZ : answering_zone u zk q.
    (* completeness is owed only at names that are not nameserver hosts *)
    Hypothesis HS3 : ~ ns_host_name u (q_name q) -> plain_at u q zk.

    Lemma zk_inm : In zk (u_zones u).
    Proof.
      destruct AZ as ((Hb & _) & _). apply best_zone_spec in Hb as [Hb|[Hb _]]; [discriminate|exact Hb].
    Qed.

    Lemma answer_rrsm : aa_rrs (auth_answer u q) = filter (fun r => rtype_matches (rr_type r) (q_type q)) (rrs_at zk (q_name q)).
    Proof.
      destruct AZ as ((Hb & Hc & Hn) & _).
      unfold auth_answer. change CHAIN_FUEL with (S 63). rewrite auth_chain_S, Hb, Hc. cbv zeta. rewrite Hn.
      destruct (filter _ _); reflexivity.
    Qed.

    Lemma answer_soa_nonem : aa_rrs (auth_answer u q) <> [] -> aa_soa (auth_answer u q) = None.
    Proof.
      destruct AZ as ((Hb & Hc & Hn) & _).
      unfold auth_answer. change CHAIN_FUEL with (S 63). rewrite auth_chain_S, Hb, Hc. cbv zeta. rewrite Hn.
      destruct (filter _ _); cbn [is_nil negb aa_rrs aa_soa]; [congruence|reflexivity].
    Qed.

    Lemma answer_inm r : In r (aa_rrs (auth_answer u q)) -> In r (zone_data zk) /\ rr_name r = q_name q /\ rr_type r = q_type q.
    Proof.
      intro Hr. rewrite answer_rrsm in Hr. apply filter_In in Hr as [Hr Hm]. apply rrs_at_in in Hr as [Hr Hn].
      apply dname_eqb_eq in Hn. split; [exact Hr|]. split; [exact Hn|exact (concrete_matches _ _ Hqc Hm)].
    Qed.

    Lemma consistentm_insert_answer c : consistent c -> consistent (cache_insert_all c (aa_rrs (auth_answer u q))).
    Proof.
      intro HC. apply consistentm_insert; [exact HC| | |].
      - intros r Hr. exists zk. split; [exact zk_inm|]. apply in_or_app. right. apply in_or_app. right. exact (proj1 (answer_inm r Hr)).
      - intros r h Hr Hh. exfalso. apply is_ns_rr_spec in Hh as [Ht _]. destruct (answer_inm r Hr) as (_ & _ & Ht'). congruence.
      - intros r Hr _ _ Hnot z r' Hz Hr' Hn' Ht'. destruct (answer_inm r Hr) as (_ & Hn & Ht).
        rewrite Hn in Hnot. pose proof (HS3 Hnot) as PA.
        assert (Hzk : In r' (zone_data zk)) by (apply (pa_sole _ _ _ PA z r' Hz Hr'); congruence).
        split.
        + rewrite answer_rrsm. apply filter_In. split.
          * unfold rrs_at. apply filter_In. split; [exact Hzk|]. apply dname_eqb_eq. congruence.
          * rewrite Ht', Ht. apply concrete_matches_refl, Hqc.
        + apply (pa_ttl _ _ _ PA r' Hzk); congruence.
    Qed.
  End Answer.

  (* the records of a referral: the NS set of the cut and the glue (both families) of its hosts;
     afterwards every host of the cut is a host of the child that is ready or in G *)
  Lemma consistentm_insert_referral c z zc below names :
    universe_ns_ok u -> consistent c -> wlinkm u hints mode multi G q z zc below ->
    (forall h, In h names <-> ns_host_of z (uz_apex zc) h) ->
    consistent (cache_insert_all c (referral_ins z zc names))
    /\ forall h, In h names ->
         ns_host_any u (uz_apex zc) h /\ (ready (cache_insert_all c (referral_ins z zc names)) h \/ G h).
  Proof.
    intros (Ucut & Uns) HC (Hz & Hcut & Hdeep & Hnoglue & Hglue & Hhosts) Hnames.
    assert (Hfrom : forall r, In r (referral_ins z zc names) ->
              (exists h, is_ns_rr r = Some h /\ In h names /\ In r (uz_cuts z) /\ rr_name r = uz_apex zc)
              \/ (is_ns_rr r = None /\ address_rr r /\ In (rr_name r) names /\ In r (uz_glue z ++ uz_rrs z))).
    { intros r Hr. unfold referral_ins in Hr. apply in_app_or in Hr as [Hr|Hr]; apply filter_In in Hr as [Hr Hf].
      - apply ns_glue_filter_true in Hf as [(h & Hns & _ & Hn & Hh)|(_ & Hfalse & _)]; [|discriminate]. left. exists h.
        split; [apply is_ns_rr_spec, Hns|]. split; [exact Hh|]. unfold referral in Hr. cbn [sr_authority] in Hr.
        apply filter_In in Hr as [Hr _]. auto.
      - unfold referral in Hr. cbn [sr_additional] in Hr. apply filter_In in Hr as [Hr _].
        destruct (is_ns_rr r) as [h|] eqn:En.
        + exfalso. unfold ns_glue_filter in Hf. rewrite En in Hf. discriminate Hf.
        + apply ns_glue_filter_true in Hf as [(h & Hns & Hfalse & _)|(Ha & _ & Hh)]; [discriminate|]. right. auto. }
    assert (Hcutrec : forall r, In r (uz_cuts z) -> u_record u r).
    { intros r Hr. exists z. split; [exact Hz|]. apply in_or_app. left. exact Hr. }
    assert (Hhostname : forall h, In h names -> ns_host_name u h /\ ns_host_any u (uz_apex zc) h).
    { intros h Hh. apply Hnames in Hh as (r & Hr & Hn & Hh). split; exists r; auto using Hcutrec. }
    assert (Hready : forall h, In h names -> ready (cache_insert_all c (referral_ins z zc names)) h \/ G h).
    { intros h Hin. destruct (Hglue h (proj1 (Hnames h) Hin)) as [(g & Hg & Hgn & Hgt & Hgttl)|Hg]; [left|right; exact Hg].
      split; [exact (proj1 (Hhosts h (proj2 (Hhostname h Hin))))|]. exists (rr_type g). split; [exact Hgt|]. right.
      assert (Hgin : In g (referral_ins z zc names)).
      { apply (referral_addr_inm z zc names g h); try assumption; [exact (mode_usable_addr _ _ Hgt)|exact (proj1 (Hnames h) Hin)]. }
      destruct (L_complete _ _ _ LAWS c _ g Hgin (addr_type_concrete _ (mode_usable_addr _ _ Hgt)) Hgttl) as (x & Hx & _).
      rewrite Hgn in Hx. intro E. rewrite E in Hx. destruct Hx. }
    split.
    - apply consistentm_insert; [exact HC| | |].
      + intros r Hr. destruct (Hfrom r Hr) as [(h & _ & _ & Hc & _)|(_ & _ & _ & Hg)]; [exact (Hcutrec r Hc)|].
        exists z. split; [exact Hz|]. apply in_or_app. right. apply in_app_or in Hg as [Hg|Hg]; apply in_or_app; [left; exact Hg|].
        right. right. exact Hg.
      + intros r h Hr Hh. destruct (Hfrom r Hr) as [(h' & Hh' & Hin & _)|(Hnone & _)]; [|congruence].
        assert (h' = h) by congruence. subst h'. exact (Hready h Hin).
      + intros r Hr Hnotns _ Hnothost. exfalso. destruct (Hfrom r Hr) as [(h & Hh & _)|(_ & _ & Hin & _)].
        * apply is_ns_rr_spec in Hh as [Ht _]. contradiction.
        * exact (Hnothost (proj1 (Hhostname _ Hin))).
    - intros h Hin. split; [exact (proj2 (Hhostname h Hin))|exact (Hready h Hin)].
  Qed.
End KeepM.

(* ====================================================================== *)
(* 5. the resolution of a question from a consistent cache, any mode        *)
(* ====================================================================== *)

Lemma limit_falsem (l : list question) : (length l < 32)%nat -> at_recursion_limit l = false.
Proof. intro H. unfold at_recursion_limit, llen, RECURSION_LIMIT. apply N.eqb_neq. lia. Qed.

Lemma rtypes_addr mode : Forall addr_type (rtypes_of_mode mode).
Proof. destruct mode; cbn [rtypes_of_mode]; repeat (apply Forall_cons; [unfold addr_type; auto|]); apply Forall_nil. Qed.

(* the NS hosts a hints answer names *)
Lemma hintm_ns_hosts hints rrs : Forall hint_okm hints -> rrs <> [] ->
  (forall x, In x rrs -> hint_match hints root_domain RT_NS x) -> ns_hostnames_of rrs <> [].
Proof.
  intros Hh Hne Hin. destruct rrs as [|x l]; [congruence|].
  destruct (Hin x (or_introl eq_refl)) as (r & Hr & _ & Hm & ->). apply rtype_matches_ns in Hm.
  rewrite Forall_forall in Hh. destruct (Hh r Hr) as [_ [(_ & _ & h & Hd)|[(Ht & _)|(Ht & _)]]]; try (rewrite Hm in Ht; discriminate Ht).
  unfold ns_hostnames_of. cbn [flat_map rr_type rr_data]. rewrite Hm, Hd, N.eqb_refl. discriminate.
Qed.

Section WarmM.
  Variable cache : Type.
  Variable cache_get : cache -> dname -> N -> list rr.
  Variable cache_insert_all : cache -> list rr -> cache.
  Hypothesis LAWS : cache_laws cache cache_get cache_insert_all.

  Variable sort_names : list dname -> list dname.
  Hypothesis Hsort : forall l, Permutation (sort_names l) l.

  Variable zs : zones.
  Variable hints : list rr.
  Hypothesis Hz : hints_zones zs hints.
  Hypothesis Hh : Forall hint_okm hints.

  Variable o : oracle.
  Variable port : N.
  Variable u : universe.
  Hypothesis UNS : universe_ns_ok u.
  Variable mode : protocol_mode.
  Variable multi : bool.
  Variable G : dname -> Prop.

  Variable q : question.
  Variable zroot : uzone.
  Variable rest0 : list uzone.
  Variable zk : uzone.
  Hypothesis WK : walkm u hints mode multi G q zroot rest0 zk.
  Hypothesis Hdel : delivers_log o u port q.

  (* the questions under way when [q] is asked: none for NS; none about a nameserver host of a zone
     of the chain (nor is [q]) *)
  Variable stk : list question.
  Hypothesis Hstk_len : (length stk + 1 < 32)%nat.
  Hypothesis Hstk_q : is_duplicate_question stk q = false.
  Hypothesis Hstk : Forall (fun s => q_type s <> RT_NS) stk.
  Notation istk := (stk ++ [q]).
  Hypothesis Hfresh : forall s h, In s istk -> chain_host u zroot rest0 h -> q_name s <> h.

  Notation rrn := (resolve_recursive_notimeout cache cache_get cache_insert_all sort_names zs o mode port).
  Notation cloop := (candidate_loop cache cache_get cache_insert_all sort_names zs o mode port).
  Notation cstep := (candidate_step cache cache_get cache_insert_all sort_names zs o mode port).
  Notation rhi := (resolve_hostname_to_ip cache cache_get zs mode).
  Notation consistent := (consistentm u hints mode G cache cache_get).
  Notation ready := (readym hints mode cache cache_get).
  Notation A := (auth_answer u q).
  Notation landsq := (lands u multi q).
  Notation chost := (chain_host u zroot rest0).

  Lemma cloopm_S f stack q' combined mc cands next locally :
    cloop (S f) stack q' combined mc cands next locally
    = cstep (rrn f) (cloop f stack q' combined) stack q' combined mc cands next locally.
  Proof. reflexivity. Qed.

  Lemma Hq_nohintm : forall x, ~ hint_match hints (q_name q) (q_type q) x.
  Proof.
    destruct (wm_hints _ _ _ _ _ _ _ _ _ WK) as (_ & _ & _ & Hno). intros x (r & Hr & Hl & Hm & _).
    rewrite (Hno r Hr Hl) in Hm. discriminate.
  Qed.
  Let Hq_wf : wf_name (q_name q) := wm_wf _ _ _ _ _ _ _ _ _ WK.
  Lemma Hq_anym : q_type q <> QT_Wildcard.
  Proof. exact (proj1 (proj1 (wm_type _ _ _ _ _ _ _ _ _ WK))). Qed.
  Lemma Hlim_outm : at_recursion_limit stk = false.
  Proof. apply limit_falsem. lia. Qed.
  Lemma Hlim_inm : at_recursion_limit istk = false.
  Proof. apply limit_falsem. rewrite app_length. cbn [length]. lia. Qed.

  Lemma dup_hostm h t : chost h -> is_duplicate_question istk (mkq h t RC_IN) = false.
  Proof.
    intro Hc. apply not_dup_istk. intros s Hs Hn _. cbn [mkq q_name] in Hn.
    apply (Hfresh s h Hs Hc). symmetry. exact Hn.
  Qed.

  Lemma ns_not_dupm name : is_duplicate_question istk (mkq name RT_NS RC_IN) = false.
  Proof.
    apply not_dup_istk. intros s Hs _ Ht. cbn [mkq q_type] in Ht.
    apply in_app_or in Hs as [Hs|[<-|[]]].
    - apply (proj1 (Forall_forall _ _) Hstk s Hs). congruence.
    - destruct (wm_type _ _ _ _ _ _ _ _ _ WK) as (_ & Hns & _). congruence.
  Qed.

  Lemma chost_in zi h : In zi (zroot :: rest0) -> ns_host_any u (uz_apex zi) h -> chost h.
  Proof. intros H1 H2. exists zi. auto. Qed.

  (* the candidate [h] resolves in the fast pass, in the cache [c], to an address that leads to a
     server of [z] (or, with [multi], of a zone of [below]) *)
  Definition cand_okm (z : uzone) (below : list uzone) (c : cache) (h : dname) : Prop :=
    forall rec ts, exists a, rhi rec istk true h (c, ts) = (Val (Some a), (c, ts)) /\ landsq a z below.

  Lemma no_cached_cname c h : consistent c -> (forall r, u_record u r -> rr_name r = h -> rr_type r <> RT_CNAME) ->
    cache_get c h RT_CNAME = [].
  Proof.
    intros (S1 & _) Hnc. destruct (cache_get c h RT_CNAME) as [|y l] eqn:E; [reflexivity|]. exfalso.
    destruct (S1 h RT_CNAME y concrete_CNAME) as (r & Hr & Hrn & Hrt & _); [rewrite E; left; reflexivity|].
    exact (Hnc r Hr Hrn Hrt).
  Qed.

  (* what the cache holds for a host of a zone are address records that lead to its servers *)
  Lemma cached_addr_ok z below c h t x :
    consistent c -> host_okm u hints multi q z below h -> addr_type t -> In x (cache_get c h t) ->
    addr_rrm h t x /\ forall a, addr_of x a -> landsq a z below.
  Proof.
    intros (S1 & _) (_ & Hu & _) Ht Hx.
    destruct (L_shape _ _ _ LAWS c h t x (addr_type_concrete t Ht) Hx) as (H1 & H2 & H3).
    destruct (S1 h t x (addr_type_concrete t Ht) Hx) as (r & Hr & Hrn & Hrt & Hrd).
    destruct (Hu r Hr Hrn ltac:(rewrite Hrt; exact Ht)) as (a & Ha & Hl).
    assert (Hxa : addr_of x a) by (apply (addr_of_same r x a); congruence).
    split.
    - unfold addr_rrm. repeat (split; [assumption|]). exists a. exact Hxa.
    - intros a' Ha'. rewrite (addr_of_fun x a' a Ha' Hxa). exact Hl.
  Qed.

  Lemma host_cand_okm z below c h :
    consistent c -> host_okm u hints multi q z below h -> chost h -> ready c h -> cand_okm z below c h.
  Proof.
    intros HC Hok Hch (_ & t0 & Ht0 & Hr) rec ts. pose proof Hok as (Hwf & Hu & Hhi & Hnc).
    unfold resolve_hostname_to_ip.
    apply (hloop_fast cache cache_get zs hints Hz Hh rec istk h (c, ts) (fun a => landsq a z below) Hlim_inm Hwf).
    - intros t _. apply dup_hostm, Hch.
    - cbn [fst]. exact (no_cached_cname c h HC Hnc).
    - intros t x Ht Hx. cbn [fst] in Hx. exact (cached_addr_ok z below c h t x HC Hok Ht Hx).
    - intros g a Hg Hl Hgt Ha. destruct (Hhi g Hg Hl Hgt) as (a' & Ha' & Hl'). rewrite (addr_of_fun g a a' Ha Ha'). exact Hl'.
    - apply rtypes_addr.
    - exists t0. split; [exact Ht0|exact Hr].
  Qed.

  Lemma cuts_nsm z : In z (u_zones u) -> Forall (fun r => exists h, is_ns_rr r = Some h) (uz_cuts z).
  Proof.
    intro Hin. destruct UNS as (Ucut & Uns). apply Forall_forall. intros r Hr.
    pose proof (Ucut z r Hin Hr) as Ht.
    destruct (Uns r) as [h Hd]; [exists z; split; [exact Hin|apply in_or_app; left; exact Hr]|exact Ht|].
    exists h. apply is_ns_rr_spec. split; assumption.
  Qed.

  (* ---- the two hops, from ANY state of the candidate loop in which the popped candidate's address
     has been found (fast or slow pass) ---- *)

  (* a server whose closest zone [z'] has the delegation to [zc] on the way: the referral is
     followed; its NS set and glue are cached; the hosts of [zc] are the new candidates *)
  Lemma hop_referral z' zc below rec loop mc cands next locally st cand rest1 a c2 ts2 :
    wlinkm u hints mode multi G q z' zc below -> consistent c2 ->
    pop_last cands = Some (cand, rest1) ->
    rhi rec istk locally cand st = (Val (Some a), (c2, ts2)) -> serves_owner u a z' q ->
    mc < llen (labels (uz_apex zc)) -> ts_elapsed ts2 <= BUDGET_MS ->
    exists names ts3 e,
      cstep rec loop istk q [] mc cands next locally st
      = loop (llen (labels (uz_apex zc))) (sort_names names) [] true
             (cache_insert_all c2 (referral_ins z' zc names), ts3)
      /\ ts_elapsed ts3 <= BUDGET_MS /\ ts_rlog ts3 = e :: ts_rlog ts2 /\ query_toi port q a e
      /\ consistent (cache_insert_all c2 (referral_ins z' zc names))
      /\ sort_names names <> []
      /\ forall h, In h (sort_names names) ->
           ns_host_any u (uz_apex zc) h /\ (ready (cache_insert_all c2 (referral_ins z' zc names)) h \/ G h).
  Proof.
    intros Hlink HC Ep Eh Hsrv Hmc Hbud.
    pose proof Hlink as (Hzin & Hcut & Hdeep & Hnoglue & Hglue & Hhosts).
    destruct (referral_hop_log cache cache_get cache_insert_all sort_names zs o mode port u a z' (uz_apex zc) q
                rec loop istk mc cands next locally st cand rest1 (c2, ts2)
                Hdel Hsrv Hcut (cuts_nsm z' Hzin) Hmc Hnoglue Ep Eh Hbud)
      as (names & ts3 & E1 & Hnames & Hbud3 & (e & Hlog & Hk & Ha & Hqe & Hrd)).
    cbn [fst snd] in E1, Hlog. fold (referral_ins z' zc names) in E1.
    assert (Hnames' : forall h, In h names <-> ns_host_of z' (uz_apex zc) h) by exact Hnames.
    destruct (consistentm_insert_referral cache cache_get cache_insert_all LAWS u hints mode multi G q c2 z' zc below names
                UNS HC Hlink Hnames') as (HC3 & Hready).
    exists names, ts3, e. split; [exact E1|]. split; [exact Hbud3|]. split; [exact Hlog|].
    split; [unfold query_toi; auto|]. split; [exact HC3|]. split.
    - intro E. pose proof (Hsort names) as P. rewrite E in P. apply Permutation_nil in P.
      destruct (cut_owner_spec _ _ _ Hcut) as (_ & r0 & Hr0 & Hr0c).
      pose proof (cuts_nsm z' Hzin) as Hnsty. rewrite Forall_forall in Hnsty. destruct (Hnsty r0 Hr0) as [h0 Hh0].
      assert (Hx : In h0 names) by (apply Hnames; exists r0; auto). rewrite P in Hx. destruct Hx.
    - intros h Hin. apply (Permutation_in _ (Hsort _)) in Hin. exact (Hready h Hin).
  Qed.

  (* a server whose closest zone is the zone [zk] that owns the name: exactly the authoritative
     answer; its RRset is cached *)
  Lemma hop_last rec loop mc cands next locally st cand rest1 a c2 ts2 :
    answering_zone u zk q -> (~ ns_host_name u (q_name q) -> plain_at u q zk) ->
    consistent c2 -> pop_last cands = Some (cand, rest1) ->
    rhi rec istk locally cand st = (Val (Some a), (c2, ts2)) -> serves_owner u a zk q ->
    mc <= llen (labels (uz_apex zk)) -> ts_elapsed ts2 <= BUDGET_MS ->
    exists ts' e,
      cstep rec loop istk q [] mc cands next locally st
      = (Val (ROk (NonAuthoritative (aa_rrs A) (aa_soa A))), (cache_insert_all c2 (aa_rrs A), ts'))
      /\ ts_elapsed ts' <= BUDGET_MS /\ ts_rlog ts' = e :: ts_rlog ts2 /\ query_toi port q a e
      /\ consistent (cache_insert_all c2 (aa_rrs A)).
  Proof.
    intros AZ HS3 HC Ep Eh Hs Hmc Hbud.
    destruct (wm_type _ _ _ _ _ _ _ _ _ WK) as (Hqc & Hqns & Hqcn).
    pose proof AZ as (Ho & Hknown & Hsoat & Hsoan).
    pose proof (consistentm_insert_answer cache cache_get cache_insert_all LAWS u hints mode G q zk Hqc Hqns AZ HS3 c2 HC) as HC'.
    destruct (serve_is_auth_answer u a zk q Ho Hs) as (_ & Hrrs & Hcases).
    destruct Hcases as [(Hne & Hsoa & Hserve)|(Hnil & Hsoa & rcode & Hrc & Hserve)].
    - assert (Hplain : Forall (plain_rr q) (aa_rrs A)).
      { rewrite Hrrs. apply Forall_forall. intros r Hr. apply filter_In in Hr. destruct Hr as [Hin Hm].
        apply rrs_at_in in Hin. destruct Hin as [Hin Hn]. apply dname_eqb_eq in Hn.
        split; [eapply Forall_forall in Hknown; [exact Hknown|exact Hin]|]. split; [exact Hn|]. split; [exact Hm|].
        rewrite (rtype_matches_concrete _ _ Hq_anym Hm). exact Hqcn. }
      pose proof (validate_plain_answer q true RCODE_NoError _ [] [] mc Hplain Hne) as Hv.
      destruct (qav_delivered_log cache o port u a q _ mc (c2, ts2) _ Hdel Hbud Hserve (msg_matches _ _ _ _ _ _ (or_introl eq_refl)) Hv)
        as (ts' & Eq & Hbud' & (e & Hlog & Hk & Ha & Hqe & Hrd)).
      exists ts', e. split; [|split; [exact Hbud'|split; [exact Hlog|split; [unfold query_toi; auto|exact HC']]]].
      rewrite (cstep_answer cache cache_get cache_insert_all sort_names zs o mode port _ _ _ _ _ _ _ _ _ _ _ _ _ _ _ _ _ Ep Eh Eq) by (intros r0 Hr0; apply owned_elsewhere_qname; eapply Forall_forall in Hplain; [|exact Hr0]; exact (proj1 (proj2 Hplain))).
      rewrite merge_nil_l, Hsoa. reflexivity.
    - destruct Ho as (Hb & _).
      apply best_zone_spec in Hb. destruct Hb as [Hb|[_ Hsub]]; [discriminate|].
      assert (Hv : validate_nameserver_response q (msg q true rcode [] [uz_soa zk] []) mc = Ok (Some (NRAnswer [] (Some (uz_soa zk))))).
      { apply validate_denial; [exact Hrc|exact Hsoat|rewrite Hsoan; exact Hsub|rewrite Hsoan; exact Hmc]. }
      destruct (qav_delivered_log cache o port u a q _ mc (c2, ts2) _ Hdel Hbud Hserve (msg_matches _ _ _ _ _ _ Hrc) Hv)
        as (ts' & Eq & Hbud' & (e & Hlog & Hk & Ha & Hqe & Hrd)).
      exists ts', e. split; [|split; [exact Hbud'|split; [exact Hlog|split; [unfold query_toi; auto|exact HC']]]].
      rewrite (cstep_answer cache cache_get cache_insert_all sort_names zs o mode port _ _ _ _ _ _ _ _ _ _ _ _ _ _ _ _ _ Ep Eh Eq) by (intros r0 []).
      rewrite merge_nil_l, Hnil, Hsoa. reflexivity.
  Qed.

  (* ---- where the resolution starts ---- *)

  (* the root nameservers of the hints are nameservers of the universe's root, ready from the hints *)
  Lemma root_hosts_ready c rrs h :
    (forall x, In x rrs <-> hint_match hints root_domain RT_NS x) -> In h (ns_hostnames_of rrs) ->
    ns_host_any u (uz_apex zroot) h /\ ready c h.
  Proof.
    pose proof (wm_hints _ _ _ _ _ _ _ _ _ WK) as (_ & _ & Hroot & _).
    intros Hin Hcand. apply ns_hostnames_of_in in Hcand. destruct Hcand as (x & Hx & Hxh).
    apply Hin in Hx. destruct Hx as (r & Hr & _ & _ & Ex). subst x.
    apply is_ns_rr_spec in Hxh. destruct Hxh as [Hm Hd]. cbn [rr_type rr_data] in Hm, Hd.
    destruct (Hroot r h Hr Hm Hd) as (Hany & g & Hg & Hgl & Hgt).
    rewrite (wm_root _ _ _ _ _ _ _ _ _ WK). split; [exact Hany|].
    split.
    - rewrite <- (wm_root _ _ _ _ _ _ _ _ _ WK) in Hany. exact (proj1 (wm_roothosts _ _ _ _ _ _ _ _ _ WK h Hany)).
    - exists (rr_type g). split; [exact Hgt|]. left.
      exists {| rr_name := h; rr_type := rr_type g; rr_class := RC_IN; rr_ttl := rr_ttl g; rr_data := rr_data g |}.
      exists g. split; [exact Hg|]. split; [exact Hgl|]. split; [|reflexivity].
      apply concrete_matches_refl, addr_type_concrete, (mode_usable_addr mode), Hgt.
  Qed.

  (* candidate_nameservers from a consistent cache that holds no alias for the name itself: the root
     nameservers of the hints, or the cached NS set of a zone of the chain; the hosts are nameserver
     hosts of that zone, each ready or in G *)
  Lemma cand_nsm c ts : consistent c -> cache_get c (q_name q) RT_CNAME = [] ->
    forall front pre, labels (q_name q) = pre ++ front ++ [[]] -> wf_labels (front ++ [[]]) ->
    exists d, candidate_ns_loop cache cache_get zs istk (@suffixes label (front ++ [[]])) (c, ts) = (Val (Some d), (c, ts))
      /\ ns_hostnames d <> []
      /\ exists zi pre' post, zroot :: rest0 = pre' ++ zi :: post /\ ns_name d = uz_apex zi
           /\ (pre' = [] \/ cache_get c (uz_apex zi) RT_NS <> [])
           /\ forall h, In h (ns_hostnames d) -> ns_host_any u (uz_apex zi) h /\ (ready c h \/ G h).
  Proof.
    intros HC Hown. pose proof HC as (S1 & S2 & S3).
    pose proof (wm_hints _ _ _ _ _ _ _ _ _ WK) as (_ & (rns & Hrns & Hrnst) & _).
    assert (Hx0 : exists x0, hint_match hints root_domain RT_NS x0).
    { rewrite Forall_forall in Hh. destruct (Hh rns Hrns) as [_ [(_ & Hl & _)|[(Ht' & _)|(Ht' & _)]]]; try (rewrite Hrnst in Ht'; discriminate Ht').
      eexists. exists rns. split; [exact Hrns|]. split; [exact Hl|]. split; [rewrite Hrnst; reflexivity|reflexivity]. }
    destruct Hx0 as [x0 Hx0].
    induction front as [|l front IH]; intros pre Hl Hwf; cbn [app suffixes candidate_ns_loop].
    - rewrite from_labels_root. destruct local_fuel_S as [f Ef].
      destruct (rl_hit zs hints Hz (cache_get c) f istk (mkq root_domain RT_NS RC_IN) x0 Hlim_inm (ns_not_dupm _) root_wf
                  ltac:(discriminate) Hx0) as (rrs & Hrl & Hne & Hin).
      pose proof (hintm_ns_hosts hints rrs Hh Hne (fun x Hx => proj1 (Hin x) Hx)) as Hhosts.
      eexists. split; [|split; [|exists zroot, [], rest0; split; [reflexivity|split; [|split; [left; reflexivity|]]]]].
      + unfold rbind, local. cbn [fst]. rewrite Ef, Hrl. cbn [resolved_rrs].
        destruct (ns_hostnames_of rrs) eqn:E; [congruence|]. cbn [is_nil]. rewrite <- E. reflexivity.
      + exact Hhosts.
      + cbn [ns_name]. symmetry. exact (wm_root _ _ _ _ _ _ _ _ _ WK).
      + cbn [ns_hostnames]. intros h Hin'. destruct (root_hosts_ready c rrs h Hin Hin') as [H1 H2]. auto.
    - cbn [app] in Hwf. rewrite (from_labels_mkname _ Hwf).
      set (name' := mkname (l :: front ++ [[]])).
      assert (Hwfn : wf_name name') by (split; [exact Hwf|reflexivity]).
      assert (Hsuf : In (labels name') (suffixes (labels (q_name q)))).
      { rewrite Hl. cbn [name' mkname labels]. apply (in_suffixes pre (l :: front ++ [[]])). discriminate. }
      assert (Hnoh : forall x, ~ hint_match hints name' RT_NS x).
      { intros x (r & Hr & Hlr & Hm & _). apply rtype_matches_ns in Hm. rewrite Forall_forall in Hh.
        destruct (Hh r Hr) as [_ [(_ & Hl' & _)|[(Ht & _)|(Ht & _)]]]; try (rewrite Ht in Hm; discriminate Hm).
        rewrite Hl' in Hlr. cbn [name' mkname labels] in Hlr. inversion Hlr. destruct front; discriminate. }
      destruct (cache_get c name' RT_NS) as [|x1 l1] eqn:Ens.
      + assert (Hcn : cache_get c name' RT_CNAME = []).
        { destruct (cache_get c name' RT_CNAME) as [|y l2] eqn:Ecn; [reflexivity|]. exfalso.
          destruct (S1 name' RT_CNAME y concrete_CNAME) as (r & Hr & Hrn & Hrt & _); [rewrite Ecn; left; reflexivity|].
          assert (Hsame : labels name' = labels (q_name q)).
          { rewrite <- Hrn. apply (wm_nocname _ _ _ _ _ _ _ _ _ WK r Hr Hrt). rewrite Hrn. exact Hsuf. }
          assert (name' = q_name q) by (apply wf_name_eq; assumption).
          rewrite H, Hown in Ecn. discriminate Ecn. }
        assert (Hnone : local cache cache_get zs istk (mkq name' RT_NS RC_IN) (c, ts) = (Val None, (c, ts))).
        { apply (local_miss cache cache_get zs hints Hz); try assumption; cbn [mkq q_name q_type fst];
            [exact Hlim_inm|apply ns_not_dupm|discriminate]. }
        unfold rbind at 1. rewrite Hnone. cbn [is_nil].
        apply (IH (pre ++ [l])).
        * rewrite Hl, <- app_assoc. reflexivity.
        * apply (wf_labels_suffix [l] (front ++ [[]])); [exact Hwf|]. destruct front; discriminate.
      + assert (Hhit : local cache cache_get zs istk (mkq name' RT_NS RC_IN) (c, ts)
                       = (Val (Some (LDone (NonAuthoritative (cache_get c name' RT_NS) None))), (c, ts))).
        { apply (local_cache_hit cache cache_get zs hints Hz istk (mkq name' RT_NS RC_IN) (c, ts)); cbn [mkq q_name q_type fst];
            [exact Hlim_inm|apply ns_not_dupm|exact Hwfn|discriminate|exact Hnoh|rewrite Ens; discriminate]. }
        unfold rbind at 1. rewrite Hhit. cbn [resolved_rrs].
        assert (Hrec : forall x, In x (cache_get c name' RT_NS) ->
                  exists r h, u_record u r /\ rr_name r = name' /\ rr_type r = RT_NS /\ is_ns_rr r = Some h /\ is_ns_rr x = Some h).
        { intros x Hx. destruct (L_shape _ _ _ LAWS c name' RT_NS x concrete_NS Hx) as (_ & Hxt & _).
          destruct (S1 name' RT_NS x concrete_NS Hx) as (r & Hr & Hrn & Hrt & Hrd).
          destruct (proj2 UNS r Hr Hrt) as [h Hd]. exists r, h. repeat (split; [assumption|]).
          split; apply is_ns_rr_spec; split; congruence. }
        assert (Hx1 : In x1 (cache_get c name' RT_NS)) by (rewrite Ens; left; reflexivity).
        destruct (Hrec x1 Hx1) as (r1 & h1 & Hr1 & Hr1n & Hr1t & Hr1h & Hx1h).
        assert (Hhne : ns_hostnames_of (cache_get c name' RT_NS) <> []).
        { intro E. assert (Hin : In h1 (ns_hostnames_of (cache_get c name' RT_NS))) by (apply ns_hostnames_of_in; eauto).
          rewrite E in Hin. destruct Hin. }
        assert (Hnil : is_nil (ns_hostnames_of (cache_get c name' RT_NS)) = false)
          by (destruct (ns_hostnames_of (cache_get c name' RT_NS)); [congruence|reflexivity]).
        rewrite Hnil.
        eexists. split; [reflexivity|]. cbn [ns_hostnames ns_name]. split; [exact Hhne|].
        destruct (wm_onchain _ _ _ _ _ _ _ _ _ WK r1 Hr1 Hr1t) as [Hroot|(zi & Hzi & Hapex)].
        { rewrite Hr1n. exact Hsuf. }
        { exfalso. rewrite Hr1n in Hroot. cbn [name' mkname labels] in Hroot. inversion Hroot. destruct front; discriminate. }
        destruct (in_split zi rest0 Hzi) as (p1 & p2 & Esp).
        exists zi, (zroot :: p1), p2. split; [cbn [app]; rewrite Esp; reflexivity|]. split; [congruence|].
        split; [right; rewrite <- Hapex, Hr1n, Ens; discriminate|].
        intros h Hin. apply ns_hostnames_of_in in Hin as (x & Hx & Hxh).
        destruct (Hrec x Hx) as (r & h' & Hr & Hrn & Hrt & Hrh & Hxh'). assert (h' = h) by congruence. subst h'.
        split; [exists r; split; [exact Hr|]; split; [congruence|exact Hrh]|exact (S2 name' x h Hx Hxh)].
  Qed.
  (* ---- the induction down the chain: every nameserver host met is ready (G = nobody) ---- *)
  Section Plain.
    Hypothesis AZ : answering_zone u zk q.
    Hypothesis HS3 : ~ ns_host_name u (q_name q) -> plain_at u q zk.
    Hypothesis Hnocn : forall r, u_record u r -> rr_type r = RT_CNAME -> rr_name r <> q_name q.
    Hypothesis HG : forall h, ~ G h.

    (* THE INDUCTION.  The loop stands at the zone [z] of the chain, with candidates that resolve in
       the fast pass to servers of [z] (with [multi]: of [z] or a zone of the chain below it), in a
       consistent cache.  Then it returns exactly the authoritative answer, having logged one exchange
       per zone of [used], a subsequence of [z :: rest] that ends with [zk] (all of it without [multi]),
       and leaves a consistent cache. *)
    Lemma descendm : forall n rest z c mc cands f ts, (length rest <= n)%nat ->
      wchainm u hints mode multi G q zk z rest -> incl (z :: rest) (zroot :: rest0) ->
      consistent c -> cands <> [] -> (forall h, In h cands -> cand_okm z rest c h) ->
      mc <= llen (labels (uz_apex z)) -> ts_elapsed ts <= BUDGET_MS -> (length rest < f)%nat ->
      exists c' ts' es used,
        cloop f istk q [] mc cands [] true (c, ts) = (Val (ROk (NonAuthoritative (aa_rrs A) (aa_soa A))), (c', ts'))
        /\ ts_rlog ts' = rev es ++ ts_rlog ts /\ ts_elapsed ts' <= BUDGET_MS
        /\ subseq used (z :: rest) /\ (exists used0, used = used0 ++ [zk]) /\ (multi = false -> used = z :: rest)
        /\ chain_logm u port q used es /\ consistent c'.
    Proof.
      induction n as [|n IH]; intros rest z c mc cands f ts Hn Hch Hincl HC Hne Hcok Hmc Hbud Hf.
      - (* the chain is [z] alone *)
        destruct rest as [|? ?]; [|cbn [length] in Hn; lia]. cbn [wchainm] in Hch. subst z.
        destruct f as [|f]; [cbn [length] in Hf; lia|].
        destruct (pop_last_some _ Hne) as (cand & rest1 & Ep & Hc).
        destruct (Hcok cand Hc (rrn f) ts) as (a & Eh & Hland).
        destruct (lands_split u multi q a zk [] Hland) as (pre & z' & post & E & Hs & Hpre).
        assert (pre = [] /\ z' = zk /\ post = []) as (-> & -> & ->).
        { destruct pre as [|x pre]; cbn [app] in E; [inversion E; auto|]. inversion E. destruct pre; discriminate. }
        rewrite cloopm_S.
        destruct (hop_last (rrn f) (cloop f istk q []) mc cands [] true (c, ts) cand rest1 a c ts AZ HS3 HC Ep Eh Hs Hmc Hbud)
          as (ts' & e & E' & Hbud' & Hlog & Hq' & HC').
        exists (cache_insert_all c (aa_rrs A)), ts', [e], [zk]. split; [exact E'|]. split; [rewrite Hlog; reflexivity|].
        split; [exact Hbud'|]. split; [apply subseq_refl|]. split; [exists []; reflexivity|]. split; [reflexivity|].
        split; [|exact HC']. constructor; [|constructor]. exists a. auto.
      - destruct f as [|f]; [lia|].
        destruct (pop_last_some _ Hne) as (cand & rest1 & Ep & Hc).
        destruct (Hcok cand Hc (rrn f) ts) as (a & Eh & Hland).
        destruct (lands_split u multi q a z rest Hland) as (pre & z' & post & E & Hs & Hpre).
        pose proof (wchainm_at u hints mode multi G q pre zk z rest z' post Hch E) as Hch'.
        assert (Hz'in : In z' (z :: rest)) by (rewrite E; apply in_or_app; right; left; reflexivity).
        pose proof (wchainm_depth u hints mode multi G q rest zk z z' Hch Hz'in) as Hdep.
        assert (Hlen : length (z :: rest) = (length pre + S (length post))%nat).
        { rewrite E, app_length. reflexivity. }
        cbn [length] in Hlen.
        rewrite cloopm_S.
        destruct post as [|zc post].
        + (* the server's closest zone is the last zone: the answer *)
          cbn [wchainm] in Hch'. subst z'.
          destruct (hop_last (rrn f) (cloop f istk q []) mc cands [] true (c, ts) cand rest1 a c ts AZ HS3 HC Ep Eh Hs ltac:(lia) Hbud)
            as (ts' & e & E' & Hbud' & Hlog & Hq' & HC').
          exists (cache_insert_all c (aa_rrs A)), ts', [e], [zk]. split; [exact E'|]. split; [rewrite Hlog; reflexivity|].
          split; [exact Hbud'|]. split; [rewrite E; apply subseq_app_skip, subseq_refl|]. split; [exists []; reflexivity|].
          split; [intro Hm; rewrite E, (Hpre Hm); reflexivity|].
          split; [|exact HC']. constructor; [|constructor]. exists a. auto.
        + (* a delegation on the way: the referral, then the rest of the chain *)
          cbn [wchainm] in Hch'. destruct Hch' as (Hlink & Hrest).
          pose proof Hlink as (_ & _ & Hdeep & _ & _ & Hhosts).
          destruct (hop_referral z' zc post (rrn f) (cloop f istk q []) mc cands [] true (c, ts) cand rest1 a c ts
                      Hlink HC Ep Eh Hs ltac:(lia) Hbud)
            as (names & ts3 & e & E1 & Hbud3 & Hlog3 & Hq3 & HC3 & Hnn & Hnames).
          rewrite E1.
          assert (Hincl' : incl (zc :: post) (zroot :: rest0)).
          { intros x Hx. apply Hincl. rewrite E. apply in_or_app. right. right. exact Hx. }
          destruct (IH post zc (cache_insert_all c (referral_ins z' zc names)) (llen (labels (uz_apex zc))) (sort_names names) f ts3
                      ltac:(cbn [length] in Hlen; lia) Hrest Hincl' HC3 Hnn)
            as (c' & ts' & es & used & E' & Hlog' & Hbud' & Hsub & (used0 & Hused0) & Hall & Hes & HC').
          { intros h Hin. destruct (Hnames h Hin) as (Hany & [Hr|Hg]); [|destruct (HG h Hg)].
            apply host_cand_okm; [exact HC3|exact (Hhosts h Hany)| |exact Hr].
            apply (chost_in zc h); [apply Hincl'; left; reflexivity|exact Hany]. }
          { lia. }
          { exact Hbud3. }
          { cbn [length] in Hlen, Hf. lia. }
          exists c', ts', (e :: es), (z' :: used). split; [exact E'|].
          split; [rewrite Hlog', Hlog3; cbn [rev]; rewrite <- app_assoc; reflexivity|].
          split; [exact Hbud'|]. split; [rewrite E; apply subseq_app_skip; constructor; exact Hsub|].
          split; [exists (z' :: used0); rewrite Hused0; reflexivity|].
          split; [intro Hm; rewrite E, (Hpre Hm), (Hall Hm); reflexivity|].
          split; [|exact HC']. constructor; [exists a; auto|exact Hes].
    Qed.

    (* the whole resolution when the cache holds no RRset for the question: over the network, from
       the deepest zone of the chain whose NS set is cached (the root hints if none) *)
    Theorem resolve_netm c f ts :
      consistent c -> ts_elapsed ts <= BUDGET_MS -> (length rest0 < f)%nat ->
      cache_get c (q_name q) (q_type q) = [] ->
      exists c' ts' es used,
        rrn (S f) stk q (c, ts) = (Val (ROk (NonAuthoritative (aa_rrs A) (aa_soa A))), (c', ts'))
        /\ ts_rlog ts' = rev es ++ ts_rlog ts /\ ts_elapsed ts' <= BUDGET_MS
        /\ subseq used (zroot :: rest0) /\ (exists used0, used = used0 ++ [zk])
        /\ (multi = false -> exists pre, zroot :: rest0 = pre ++ used
               /\ (pre = [] \/ exists zi used', used = zi :: used' /\ cache_get c (uz_apex zi) RT_NS <> []))
        /\ chain_logm u port q used es /\ consistent c'.
    Proof.
      intros HC Hbud Hf Eget.
      assert (Hcn : cache_get c (q_name q) RT_CNAME = []).
      { apply no_cached_cname; [exact HC|]. intros r Hr Hn Ht. exact (Hnocn r Hr Ht Hn). }
      cbn [resolve_recursive_notimeout]. unfold recursive_body.
      rewrite Hlim_outm, Hstk_q.
      unfold rbind at 1.
      rewrite (local_miss cache cache_get zs hints Hz stk q (c, ts) Hlim_outm Hstk_q Hq_wf Hq_anym Hq_nohintm Eget Hcn).
      unfold rbind at 1. unfold candidate_nameservers.
      destruct (proj1 Hq_wf) as (front & Hlq & _).
      destruct (cand_nsm c ts HC Hcn front [] ltac:(rewrite Hlq; reflexivity) ltac:(rewrite <- Hlq; exact (proj1 Hq_wf)))
        as (d & Hd & Hdne & zi & pre & post & Esplit & Hdn & Hstart & Hhosts).
      rewrite Hlq, Hd.
      assert (Hs : sort_names (ns_hostnames d) <> []).
      { intro E. pose proof (Hsort (ns_hostnames d)) as P. rewrite E in P. apply Permutation_nil in P. exact (Hdne P). }
      pose proof (wchainm_at u hints mode multi G q pre zk zroot rest0 zi post (wm_chain _ _ _ _ _ _ _ _ _ WK) Esplit) as Hpost.
      assert (Hincl : incl (zi :: post) (zroot :: rest0)).
      { intros x Hx. rewrite Esplit. apply in_or_app. right. exact Hx. }
      assert (Hlen : length (zroot :: rest0) = (length pre + S (length post))%nat) by (rewrite Esplit, app_length; reflexivity).
      cbn [length] in Hlen.
      (* the hosts of [zi] *)
      assert (Hzi_hosts : hosts_okm u hints multi q zi post).
      { destruct pre as [|p0 pre]; cbn [app] in Esplit.
        - inversion Esplit; subst. exact (wm_roothosts _ _ _ _ _ _ _ _ _ WK).
        - inversion Esplit as [[E0 E1]]. subst p0.
          destruct (exists_last (l := zroot :: pre)) as (pre1 & zp & Epre); [discriminate|].
          assert (E2 : zroot :: rest0 = pre1 ++ zp :: zi :: post).
          { rewrite E1. change (zroot :: pre ++ zi :: post) with ((zroot :: pre) ++ zi :: post). rewrite Epre, <- app_assoc. reflexivity. }
          pose proof (wchainm_at u hints mode multi G q pre1 zk zroot rest0 zp (zi :: post) (wm_chain _ _ _ _ _ _ _ _ _ WK) E2) as Hzp.
          cbn [wchainm] in Hzp. exact (proj2 (proj2 (proj2 (proj2 (proj2 (proj1 Hzp)))))). }
      destruct (descendm (length post) post zi c (ns_match_count d) (sort_names (ns_hostnames d)) f ts (le_n _) Hpost Hincl HC Hs)
        as (c' & ts' & es & used & E & Hlog & Hbud' & Hsub & Hused0 & Hall & Hes & HC').
      { intros h Hc0. apply (Permutation_in _ (Hsort _)) in Hc0. destruct (Hhosts h Hc0) as [Hany [Hrdy|Hg]]; [|destruct (HG h Hg)].
        apply host_cand_okm; [exact HC|exact (Hzi_hosts h Hany)| |exact Hrdy].
        apply (chost_in zi h); [apply Hincl; left; reflexivity|exact Hany]. }
      { unfold ns_match_count. rewrite Hdn. lia. }
      { exact Hbud. }
      { lia. }
      exists c', ts', es, used. split; [exact E|]. split; [exact Hlog|]. split; [exact Hbud'|].
      split; [rewrite Esplit; apply subseq_app_skip; exact Hsub|]. split; [exact Hused0|].
      split; [|split; [exact Hes|exact HC']].
      intro Hm. exists pre. rewrite (Hall Hm). split; [exact Esplit|].
      destruct Hstart as [Hp|Hns]; [left; exact Hp|right; exists zi, post; auto].
    Qed.
  End Plain.

  (* ---- the plain question (not about a nameserver host): from the cache or over the network ---- *)
  Section PlainTop.
    Hypothesis PA : plain_at u q zk.
    Hypothesis Hnothost : ~ ns_host_name u (q_name q).
    Hypothesis HG : forall h, ~ G h.

    (* a non-empty cached RRset for the question has exactly the authoritative data (and the
       authoritative answer is then not a denial) *)
    Lemma cached_same_datam c : consistent c -> cache_get c (q_name q) (q_type q) <> [] ->
      same_data (cache_get c (q_name q) (q_type q)) (aa_rrs A) /\ aa_soa A = None.
    Proof.
      intros HC Hne. pose proof HC as (S1 & S2 & S3).
      destruct (wm_type _ _ _ _ _ _ _ _ _ WK) as (Hqc & Hqns & Hqcn).
      assert (Hsame : same_data (cache_get c (q_name q) (q_type q)) (aa_rrs A)).
      { split.
        - intros x Hx. destruct (L_shape _ _ _ LAWS c _ _ x Hqc Hx) as (Hxn & Hxt & _).
          destruct (S1 _ _ x Hqc Hx) as (r & (z & Hzin & Hr) & Hrn & Hrt & Hrd).
          exists r. split; [|split; [congruence|split; congruence]].
          rewrite (answer_rrs u q zk PA). apply filter_In. split.
          + unfold rrs_at. apply filter_In. split; [|apply dname_eqb_eq; exact Hrn].
            apply in_app_or in Hr as [Hr|Hr].
            * exfalso. apply Hqns. rewrite <- Hrt. exact (proj1 UNS z r Hzin Hr).
            * apply in_app_or in Hr as [Hr|Hr]; [exfalso; exact (pa_noglue _ _ _ PA z r Hzin Hr Hrn)|].
              exact (pa_sole _ _ _ PA z r Hzin Hr Hrn).
          + rewrite Hrt. apply concrete_matches_refl, Hqc.
        - intros r Hr. rewrite (answer_rrs u q zk PA) in Hr. apply filter_In in Hr as [Hr Hm].
          apply rrs_at_in in Hr as [Hr Hn]. apply dname_eqb_eq in Hn. pose proof (concrete_matches _ _ Hqc Hm) as Ht.
          destruct (S3 _ _ Hqc Hqns Hne Hnothost zk r (zk_in u q zk PA) Hr Hn Ht) as (x & Hx & Hd).
          destruct (L_shape _ _ _ LAWS c _ _ x Hqc Hx) as (Hxn & Hxt & _).
          exists x. split; [exact Hx|]. split; [congruence|]. split; [congruence|exact Hd]. }
      split; [exact Hsame|]. apply (answer_soa_nonem u q zk (pa_owner _ _ _ PA)).
      destruct (ne_in _ Hne) as [y0 Hy0]. destruct (proj1 Hsame y0 Hy0) as (r & Hr & _). intro E. rewrite E in Hr. destruct Hr.
    Qed.

    Theorem warm_resolvem c f ts :
      consistent c -> ts_elapsed ts <= BUDGET_MS -> (length rest0 < f)%nat ->
      exists rrs c' ts' es,
        rrn (S f) stk q (c, ts) = (Val (ROk (NonAuthoritative rrs (aa_soa A))), (c', ts'))
        /\ ts_rlog ts' = rev es ++ ts_rlog ts /\ ts_elapsed ts' <= BUDGET_MS
        /\ consistent c'
        /\ ((es = [] /\ c' = c /\ rrs = cache_get c (q_name q) (q_type q) /\ rrs <> [] /\ same_data rrs (aa_rrs A))
            \/ (rrs = aa_rrs A /\ cache_get c (q_name q) (q_type q) = []
                /\ exists used, subseq used (zroot :: rest0) /\ (exists used0, used = used0 ++ [zk])
                     /\ (multi = false -> exists pre, zroot :: rest0 = pre ++ used
                            /\ (pre = [] \/ exists zi used', used = zi :: used' /\ cache_get c (uz_apex zi) RT_NS <> []))
                     /\ chain_logm u port q used es)).
    Proof.
      intros HC Hbud Hf.
      destruct (cache_get c (q_name q) (q_type q)) as [|y0 l0] eqn:Eget.
      - destruct (resolve_netm (pa_owner _ _ _ PA) (fun _ => PA) (pa_nocname _ _ _ PA) HG c f ts HC Hbud Hf Eget)
          as (c' & ts' & es & used & E & Hlog & Hbud' & Hsub & Hused0 & Hall & Hes & HC').
        exists (aa_rrs A), c', ts', es. split; [exact E|]. split; [exact Hlog|]. split; [exact Hbud'|]. split; [exact HC'|].
        right. split; [reflexivity|]. split; [reflexivity|]. exists used. auto.
      - assert (Hne : cache_get c (q_name q) (q_type q) <> []) by (rewrite Eget; discriminate).
        rewrite <- Eget.
        cbn [resolve_recursive_notimeout]. unfold recursive_body.
        rewrite Hlim_outm, Hstk_q.
        unfold rbind at 1.
        rewrite (local_cache_hit cache cache_get zs hints Hz stk q (c, ts) Hlim_outm Hstk_q Hq_wf Hq_anym Hq_nohintm Hne).
        cbn [fst].
        destruct (cached_same_datam c HC Hne) as (Hsame & Hsoa).
        exists (cache_get c (q_name q) (q_type q)), c, ts, []. rewrite Hsoa.
        split; [reflexivity|]. split; [reflexivity|]. split; [exact Hbud|]. split; [exact HC|]. left. auto.
    Qed.
  End PlainTop.
End WarmM.

(* ====================================================================== *)
(* 6. the statement for [resolve], the universe oracle and the built hints  *)
(* ====================================================================== *)

Lemma chain_host_name u zroot rest h : chain_host u zroot rest h -> ns_host_name u h.
Proof. intros (zi & _ & r & Hr & _ & Hh). exists r. auto. Qed.

Section FinalM.
  Variable cache : Type.
  Variable cache_get : cache -> dname -> N -> list rr.
  Variable cache_insert_all : cache -> list rr -> cache.
  Hypothesis LAWS : cache_laws cache cache_get cache_insert_all.
  Variable sort_names : list dname -> list dname.
  Hypothesis Hsort : forall l, Permutation (sort_names l) l.
  Variable port : N.
  Variable u : universe.
  Hypothesis UNS : universe_ns_ok u.
  Variable hints : list rr.
  Variable hz : zone.
  Hypothesis Hbuilt : zone_build root_domain None (hint_ops hints) = Ok hz.
  Variable mode : protocol_mode.

  Notation nobody := (fun _ : dname => False).
  Notation consistent := (consistentm u hints mode nobody cache cache_get).

  (* what a resolution of [q] from the cache [c] must look like; [multi]: servers may hold several
     zones of the chain, the zones [used] are then a subsequence of the chain, else a suffix of it
     that begins at the root or at a zone whose NS set is cached *)
  Definition outcomem (multi : bool) (q : question) (zroot : uzone) (rest : list uzone) (zk : uzone) (c : cache)
             (r : res rerror resolved * rstate cache) : Prop :=
    exists rrs c' ts',
      r = (Ok (NonAuthoritative rrs (aa_soa (auth_answer u q))), (c', ts'))
      /\ consistent c'
      /\ ((ts_log ts' = [] /\ c' = c /\ rrs = cache_get c (q_name q) (q_type q) /\ rrs <> []
           /\ same_data rrs (aa_rrs (auth_answer u q)))
          \/ (rrs = aa_rrs (auth_answer u q) /\ cache_get c (q_name q) (q_type q) = []
              /\ exists used, subseq used (zroot :: rest) /\ (exists used0, used = used0 ++ [zk])
                   /\ (multi = false -> exists pre, zroot :: rest = pre ++ used
                          /\ (pre = [] \/ exists zi used', used = zi :: used' /\ cache_get c (uz_apex zi) RT_NS <> []))
                   /\ chain_logm u port q used (ts_log ts'))).

  Theorem modes_correct_abstract multi q zroot rest zk c fuel :
    warm_questionm u hints mode multi nobody q zroot rest zk -> plain_question u q ->
    consistent c -> (length rest + 2 <= fuel)%nat ->
    outcomem multi q zroot rest zk c
      (resolve cache cache_get cache_insert_all sort_names (ModeRecursive mode) port (zones_insert [] hz)
               (universe_oracle u []) fuel q (c, tstate_init)).
  Proof.
    intros (WK & PA & Hnot) Hq HC Hfuel.
    pose proof (wm_hints _ _ _ _ _ _ _ _ _ WK) as (Hok & _).
    destruct Hq as (Hwf & Hq1 & Hq2 & Hreq & Hfits).
    destruct fuel as [|f]; [lia|].
    destruct (warm_resolvem cache cache_get cache_insert_all LAWS sort_names Hsort (zones_insert [] hz) hints
                (hintsm_zones_built hints hz Hok Hbuilt) Hok (universe_oracle u []) port u UNS mode multi nobody q zroot rest zk WK
                (universe_oracle_delivers_log u port q Hwf Hreq Hfits) [] ltac:(cbn; lia) eq_refl (Forall_nil _))
      with (c := c) (f := f) (ts := tstate_init) as (rrs & c' & ts' & es & E & Hlog & _ & HC' & Hcases); try assumption.
    { intros s h [<-|[]] Hch Hn. apply Hnot. rewrite Hn. exact (chain_host_name _ _ _ _ Hch). }
    { intros h []. }
    { cbn. lia. }
    { lia. }
    exists rrs, c', ts'. split; [|split; [exact HC'|]].
    - unfold resolve, resolve_recursive. rewrite E. reflexivity.
    - assert (Hl : ts_log ts' = es).
      { unfold ts_log. rewrite Hlog. cbn [tstate_init ts_rlog]. rewrite app_nil_r, rev_involutive. reflexivity. }
      rewrite Hl. destruct Hcases as [(H1 & H2)|(H1 & H2 & H3)]; [left; auto|right; auto].
  Qed.

  (* from the empty cache the walk starts at the root hints: with [multi] = false the log is one
     exchange per zone of the whole chain (C07_correct_chain for the mode) *)
  Corollary modes_chain_abstract q zroot rest zk c fuel :
    (forall n t, cache_get c n t = []) ->
    warm_questionm u hints mode false nobody q zroot rest zk -> plain_question u q ->
    (length rest + 2 <= fuel)%nat ->
    exists c' ts',
      resolve cache cache_get cache_insert_all sort_names (ModeRecursive mode) port (zones_insert [] hz)
              (universe_oracle u []) fuel q (c, tstate_init)
      = (Ok (NonAuthoritative (aa_rrs (auth_answer u q)) (aa_soa (auth_answer u q))), (c', ts'))
      /\ chain_logm u port q (zroot :: rest) (ts_log ts') /\ consistent c'.
  Proof.
    intros Hempty Hw Hq Hfuel.
    destruct (modes_correct_abstract false q zroot rest zk c fuel Hw Hq (emptym_consistent _ _ _ _ _ _ c Hempty) Hfuel)
      as (rrs & c' & ts' & E & HC' & [(_ & _ & -> & Hne & _)|(-> & _ & used & _ & _ & Hpre & Hes)]).
    - rewrite Hempty in Hne. congruence.
    - destruct (Hpre eq_refl) as (pre & Epre & [-> |(zi & used' & _ & Hns)]).
      + exists c', ts'. split; [exact E|]. split; [|exact HC']. cbn [app] in Epre. rewrite Epre. exact Hes.
      + rewrite Hempty in Hns. congruence.
  Qed.
End FinalM.

(* for SimpleCache (what the model driver runs) and for the real cache model at any fixed instant *)
From RV Require Import Cache.CacheFacts Cache.CacheModel Cache.CacheSpec Cache.CacheInsert Cache.CacheProofs
     Resolver.ResolverCacheInstance.

Theorem modes_correct sort_names (Hsort : forall l, Permutation (sort_names l) l) port u hints hz mode multi q zroot rest zk c fuel :
  universe_ns_ok u -> zone_build root_domain None (hint_ops hints) = Ok hz ->
  warm_questionm u hints mode multi (fun _ => False) q zroot rest zk -> plain_question u q ->
  consistentm u hints mode (fun _ => False) scache sc_get c -> (length rest + 2 <= fuel)%nat ->
  outcomem scache sc_get port u hints mode multi q zroot rest zk c
    (resolve scache sc_get sc_insert_all sort_names (ModeRecursive mode) port (zones_insert [] hz)
             (universe_oracle u []) fuel q (c, tstate_init)).
Proof.
  intros UNS Hb. exact (modes_correct_abstract scache sc_get sc_insert_all sc_cache_laws sort_names Hsort port u UNS hints hz Hb mode multi q zroot rest zk c fuel).
Qed.

Theorem modes_correct_real_cache now sort_names (Hsort : forall l, Permutation (sort_names l) l) port u hints hz mode multi q zroot rest zk c fuel :
  universe_ns_ok u -> zone_build root_domain None (hint_ops hints) = Ok hz ->
  warm_questionm u hints mode multi (fun _ => False) q zroot rest zk -> plain_question u q ->
  consistentm u hints mode (fun _ => False) rcache (rc_get now) c -> (length rest + 2 <= fuel)%nat ->
  outcomem rcache (rc_get now) port u hints mode multi q zroot rest zk c
    (resolve rcache (rc_get now) (rc_insert_all now) sort_names (ModeRecursive mode) port (zones_insert [] hz)
             (universe_oracle u []) fuel q (c, tstate_init)).
Proof.
  intros UNS Hb. exact (modes_correct_abstract rcache (rc_get now) (rc_insert_all now) (rc_cache_laws now) sort_names Hsort port u UNS hints hz Hb mode multi q zroot rest zk c fuel).
Qed.

(* ====================================================================== *)
(* 7. a worked universe: the depth-3 chain with v6 in it                    *)
(*      .                 a.                    10.0.0.1 and fd00::1 (hints: both)   *)
(*      com.              ns.com.               fd00::2 ONLY (a v6-only nameserver)  *)
(*      example.com.      ns.example.com.       10.0.0.3 and fd00::3                 *)
(*      sub.example.com.  ns.sub.example.com.   10.0.0.4 and fd00::4                 *)
(* ====================================================================== *)

Definition m3_v6 (n : N) : list N := [64768; 0; 0; 0; 0; 0; 0; n].
Definition m3_root : uzone :=
  {| uz_apex := root_domain; uz_soa := c3_soa root_domain c3_n_a;
     uz_rrs := [c3_rr root_domain RT_NS 3600 (RD_Name c3_n_a); c3_rr c3_n_a RT_A 3600 (RD_A c3_ip0);
                c3_rr c3_n_a RT_AAAA 3600 (RD_AAAA (m3_v6 1))];
     uz_cuts := [c3_rr c3_n_com RT_NS 3600 (RD_Name c3_n_ns_com)];
     uz_glue := [c3_rr c3_n_ns_com RT_AAAA 3600 (RD_AAAA (m3_v6 2))] |}.
Definition m3_com : uzone :=
  {| uz_apex := c3_n_com; uz_soa := c3_soa c3_n_com c3_n_ns_com;
     uz_rrs := [c3_rr c3_n_com RT_NS 3600 (RD_Name c3_n_ns_com); c3_rr c3_n_ns_com RT_AAAA 3600 (RD_AAAA (m3_v6 2))];
     uz_cuts := [c3_rr c3_n_ex RT_NS 3600 (RD_Name c3_n_ns_ex)];
     uz_glue := [c3_rr c3_n_ns_ex RT_A 3600 (RD_A c3_ip2); c3_rr c3_n_ns_ex RT_AAAA 3600 (RD_AAAA (m3_v6 3))] |}.
Definition m3_ex : uzone :=
  {| uz_apex := c3_n_ex; uz_soa := c3_soa c3_n_ex c3_n_ns_ex;
     uz_rrs := [c3_rr c3_n_ex RT_NS 3600 (RD_Name c3_n_ns_ex); c3_rr c3_n_ns_ex RT_A 3600 (RD_A c3_ip2);
                c3_rr c3_n_ns_ex RT_AAAA 3600 (RD_AAAA (m3_v6 3))];
     uz_cuts := [c3_rr c3_n_sub RT_NS 3600 (RD_Name c3_n_ns_sub)];
     uz_glue := [c3_rr c3_n_ns_sub RT_A 3600 (RD_A c3_ip3); c3_rr c3_n_ns_sub RT_AAAA 3600 (RD_AAAA (m3_v6 4))] |}.
Definition m3_sub : uzone :=
  {| uz_apex := c3_n_sub; uz_soa := c3_soa c3_n_sub c3_n_ns_sub;
     uz_rrs := [c3_rr c3_n_sub RT_NS 3600 (RD_Name c3_n_ns_sub); c3_rr c3_n_ns_sub RT_A 3600 (RD_A c3_ip3);
                c3_rr c3_n_ns_sub RT_AAAA 3600 (RD_AAAA (m3_v6 4)); c3_rr c3_n_www RT_A 300 (RD_A 3221225985)];
     uz_cuts := []; uz_glue := [] |}.

Definition m3_universe : universe :=
  {| u_zones := [m3_root; m3_com; m3_ex; m3_sub];
     u_servers := [(inl c3_ip0, [root_domain]); (inr (m3_v6 1), [root_domain]); (inr (m3_v6 2), [c3_n_com]);
                   (inl c3_ip2, [c3_n_ex]); (inr (m3_v6 3), [c3_n_ex]); (inl c3_ip3, [c3_n_sub]); (inr (m3_v6 4), [c3_n_sub])] |}.

Definition m3_hints : list rr :=
  [c3_rr root_domain RT_NS 3600 (RD_Name c3_n_a); c3_rr c3_n_a RT_A 3600 (RD_A c3_ip0); c3_rr c3_n_a RT_AAAA 3600 (RD_AAAA (m3_v6 1))].
Definition m3_hz : zone :=
  match zone_build root_domain None (hint_ops m3_hints) with Ok z => z | _ => zone_new root_domain None end.

Lemma m3_hz_built : zone_build root_domain None (hint_ops m3_hints) = Ok m3_hz.
Proof. vm_compute. reflexivity. Qed.

Lemma m3_consistent : consistentb m3_universe = true.
Proof. vm_compute. reflexivity. Qed.

Lemma m3_universe_ns_ok : universe_ns_ok m3_universe.
Proof.
  split.
  - intros z r Hz Hr. cbn [m3_universe u_zones] in Hz. in_cases Hz; cbn in Hr; in_cases Hr; reflexivity.
  - intros r Hr Ht. apply u_record_all in Hr. vm_compute in Hr. in_cases Hr; try (vm_compute in Ht; discriminate Ht); eexists; reflexivity.
Qed.

(* (zone, address): a server at the address has the zone as its closest for www.sub.example.com. *)
Definition m3_pairs : list (uzone * ip) :=
  [(m3_root, inl c3_ip0); (m3_root, inr (m3_v6 1)); (m3_com, inr (m3_v6 2)); (m3_ex, inl c3_ip2); (m3_ex, inr (m3_v6 3));
   (m3_sub, inl c3_ip3); (m3_sub, inr (m3_v6 4))].

Lemma m3_serves q z a : (q = c3_q \/ q = c3_q_mx) -> In (z, a) m3_pairs -> serves_owner m3_universe a z q.
Proof. intros Hq H. unfold m3_pairs in H. tup_cases H; c3_q_cases Hq; eexists; split; vm_compute; reflexivity. Qed.

Lemma m3_serve_fits q : (q = c3_q \/ q = c3_q_mx) -> serve_fits m3_universe q.
Proof.
  intros Hq a m H. unfold serve, zones_of_server in H. cbn [m3_universe u_servers find fst] in H.
  repeat match type of H with
         | context [ip_eqb ?x a] => destruct (ip_eqb x a)
         end; try discriminate H;
    c3_q_cases Hq; inversion H; subst; (split; [apply wf_message_b_sound; vm_compute; reflexivity|]);
    eexists; (split; [vm_compute; reflexivity|vm_compute; discriminate]).
Qed.

Lemma m3_plain_question q : (q = c3_q \/ q = c3_q_mx) -> plain_question m3_universe q.
Proof.
  intro Hq. split; [|split; [|split; [|split]]].
  - apply wf_question_b_sound. c3_q_cases Hq; vm_compute; reflexivity.
  - c3_q_cases Hq; discriminate.
  - c3_q_cases Hq; discriminate.
  - intros req E. c3_q_cases Hq; vm_compute in E; inversion E; subst; vm_compute; discriminate.
  - apply m3_serve_fits, Hq.
Qed.

Section M3.
  Variable mode : protocol_mode.
  (* the modes that can use v6: prefer-v4, prefer-v6, only-v6 *)
  Hypothesis Hv6 : mode_usable mode RT_AAAA.
  Variable q : question.
  Hypothesis Hq : q = c3_q \/ q = c3_q_mx.

  Notation nobody := (fun _ : dname => False).

  (* the nameserver hosts of a zone lead, by every address, to the zone's servers *)
  Lemma m3_hosts_ok z below : In z [m3_root; m3_com; m3_ex; m3_sub] -> hosts_okm m3_universe m3_hints false q z below.
  Proof.
    intros Hz h (r & Hr & Hn & Hh).
    assert (Hsrv : forall a, In (z, a) m3_pairs -> lands m3_universe false q a z below).
    { intros a Ha. exact (m3_serves q z a Hq Ha). }
    apply u_record_all in Hr. vm_compute in Hr.
    in_cases Hz; in_cases Hr; try (vm_compute in Hn; discriminate Hn); try (vm_compute in Hh; discriminate Hh);
      vm_compute in Hh; inversion Hh; subst h; clear Hh Hn;
      (split; [apply wf_name_b_sound; vm_compute; reflexivity|]);
      (split; [intros g Hg Hgn Hgt; apply u_record_all in Hg; vm_compute in Hg; in_cases Hg;
                 try (vm_compute in Hgn; discriminate Hgn); try (destruct Hgt as [Hgt|Hgt]; vm_compute in Hgt; discriminate Hgt);
                 eexists; (split; [first [left; split; [reflexivity|eexists; split; reflexivity]
                                          |right; split; [reflexivity|eexists; split; reflexivity]]
                                  |apply Hsrv; unfold m3_pairs; in_solve])|]);
      (split; [intros g Hg Hl Hgt; unfold m3_hints in Hg; in_cases Hg;
                 try (vm_compute in Hl; discriminate Hl); try (destruct Hgt as [Hgt|Hgt]; vm_compute in Hgt; discriminate Hgt);
                 eexists; (split; [first [left; split; [reflexivity|eexists; split; reflexivity]
                                          |right; split; [reflexivity|eexists; split; reflexivity]]
                                  |apply Hsrv; unfold m3_pairs; in_solve])|]);
      intros g Hg Hgn Hgt; apply u_record_all in Hg; vm_compute in Hg; in_cases Hg;
        try (vm_compute in Hgn; discriminate Hgn); vm_compute in Hgt; discriminate Hgt.
  Qed.

  (* (parent, child, zones below the child) *)
  Definition m3_links : list (uzone * uzone * list uzone) :=
    [(m3_root, m3_com, [m3_ex; m3_sub]); (m3_com, m3_ex, [m3_sub]); (m3_ex, m3_sub, [])].

  Lemma m3_wlink zp zc below : In (zp, zc, below) m3_links -> wlinkm m3_universe m3_hints mode false nobody q zp zc below.
  Proof.
    intro Hcase. split; [|split; [|split; [|split; [|split]]]].
    - unfold m3_links in Hcase. tup_cases Hcase; cbn; auto.
    - unfold m3_links in Hcase. tup_cases Hcase; c3_q_cases Hq; vm_compute; reflexivity.
    - unfold m3_links in Hcase. tup_cases Hcase; vm_compute; reflexivity.
    - intros r Hr Hn. unfold m3_links in Hcase. tup_cases Hcase; cbn in Hr; in_cases Hr; c3_q_cases Hq; vm_compute in Hn; discriminate Hn.
    - intros h' (r & Hr & _ & Hh'). left. unfold m3_links in Hcase. tup_cases Hcase; cbn in Hr; in_cases Hr;
        vm_compute in Hh'; inversion Hh';
        first [ (* the v6 glue *)
                eexists; split; [cbn; right; left; reflexivity|]; split; [reflexivity|]; split; [exact Hv6|vm_compute; reflexivity]
              | eexists; split; [cbn; left; reflexivity|]; split; [reflexivity|]; split; [exact Hv6|vm_compute; reflexivity] ].
    - apply m3_hosts_ok. unfold m3_links in Hcase. tup_cases Hcase; cbn; auto.
  Qed.

  Lemma m3_walk : walkm m3_universe m3_hints mode false nobody q m3_root [m3_com; m3_ex; m3_sub] m3_sub.
  Proof.
    constructor.
    - apply wf_name_b_sound. c3_q_cases Hq; vm_compute; reflexivity.
    - c3_q_cases Hq; (split; [split; [discriminate|reflexivity]|split; discriminate]).
    - reflexivity.
    - split; [|split; [|split]].
      + repeat (apply Forall_cons; [split; [apply wf_name_b_sound; vm_compute; reflexivity|]|]); [| | |apply Forall_nil].
        * left. split; [reflexivity|]. split; [reflexivity|]. eexists. reflexivity.
        * right. left. split; [reflexivity|]. eexists. reflexivity.
        * right. right. split; [reflexivity|]. eexists. reflexivity.
      + eexists. split; [left; reflexivity|reflexivity].
      + intros r h Hr Ht Hd. unfold m3_hints in Hr. in_cases Hr; try discriminate Ht. inversion Hd; subst h. split.
        * eexists. split; [exists m3_root; split; [cbn; auto|cbn; right; right; right; left; reflexivity]|]. split; reflexivity.
        * eexists. split; [right; right; left; reflexivity|]. split; [reflexivity|exact Hv6].
      + intros r Hr Hl. unfold m3_hints in Hr. in_cases Hr; c3_q_cases Hq; vm_compute in Hl; discriminate Hl.
    - apply m3_hosts_ok. cbn; auto.
    - cbn [wchainm]. repeat (split; [apply m3_wlink; unfold m3_links; in_solve|]). reflexivity.
    - intros r Hr Ht Hin. apply u_record_all in Hr. vm_compute in Hr. in_cases Hr; vm_compute in Ht; discriminate Ht.
    - intros r Hr Ht Hin. apply u_record_all in Hr. vm_compute in Hr.
      in_cases Hr; try (vm_compute in Ht; discriminate Ht);
        try (left; reflexivity);
        try (right; exists m3_com; split; [cbn; auto|reflexivity]);
        try (right; exists m3_ex; split; [cbn; auto|reflexivity]);
        try (right; exists m3_sub; split; [cbn; auto|reflexivity]).
  Qed.

  Lemma m3_plain_at : plain_at m3_universe q m3_sub.
  Proof.
    constructor.
    - split; [|split; [vm_compute; repeat constructor|split; reflexivity]].
      c3_q_cases Hq; repeat split; vm_compute; reflexivity.
    - intros z r Hz Hr Hn. cbn [m3_universe u_zones] in Hz. in_cases Hz; cbn in Hr; in_cases Hr;
        c3_q_cases Hq; vm_compute in Hn; discriminate Hn.
    - intros z r Hz Hr Hn. cbn [m3_universe u_zones] in Hz. in_cases Hz; cbn in Hr; in_cases Hr;
        c3_q_cases Hq; try (vm_compute in Hn; discriminate Hn); cbn; auto 10.
    - intros r Hr Hn Ht. cbn in Hr. in_cases Hr; c3_q_cases Hq; try (vm_compute in Hn; discriminate Hn);
        try (vm_compute in Ht; discriminate Ht); vm_compute; reflexivity.
    - intros r Hr Ht Hn. apply u_record_all in Hr. vm_compute in Hr.
      in_cases Hr; vm_compute in Ht; discriminate Ht.
  Qed.

  Lemma m3_warm_question : warm_questionm m3_universe m3_hints mode false nobody q m3_root [m3_com; m3_ex; m3_sub] m3_sub.
  Proof.
    split; [exact m3_walk|]. split; [exact m3_plain_at|].
    intros (r & Hr & Hh). apply u_record_all in Hr. vm_compute in Hr. in_cases Hr; c3_q_cases Hq; vm_compute in Hh; discriminate Hh.
  Qed.
End M3.

Notation m3_run mode q c :=
  (resolve scache sc_get sc_insert_all sort_names_ord (ModeRecursive mode) 53 (zones_insert [] m3_hz)
           (universe_oracle m3_universe []) 5%nat q (c, tstate_init)).

(* the hypotheses are satisfiable in every mode that can use v6 (prefer-v4, prefer-v6, only-v6), and
   what the theorem then says: www.sub.example.com. A from the empty cache is answered over the whole
   chain; the cache left is consistent for the mode; asked from it, MX is denied after one exchange *)
Example modes_example mode : mode_usable mode RT_AAAA ->
  outcomem scache sc_get 53 m3_universe m3_hints mode false c3_q m3_root [m3_com; m3_ex; m3_sub] m3_sub sc_empty (m3_run mode c3_q sc_empty)
  /\ (let c1 := fst (snd (m3_run mode c3_q sc_empty)) in
      consistentm m3_universe m3_hints mode (fun _ => False) scache sc_get c1
      /\ outcomem scache sc_get 53 m3_universe m3_hints mode false c3_q_mx m3_root [m3_com; m3_ex; m3_sub] m3_sub c1 (m3_run mode c3_q_mx c1)).
Proof.
  intro Hv6.
  pose proof (modes_correct sort_names_ord sort_names_ord_perm 53 m3_universe m3_hints m3_hz mode false c3_q m3_root [m3_com; m3_ex; m3_sub] m3_sub
                sc_empty 5%nat m3_universe_ns_ok m3_hz_built (m3_warm_question mode Hv6 _ (or_introl eq_refl))
                (m3_plain_question _ (or_introl eq_refl)) (emptym_consistent _ _ _ _ _ _ sc_empty sc_empty_get) (le_n 5)) as H1.
  split; [exact H1|]. cbv zeta.
  assert (HC : consistentm m3_universe m3_hints mode (fun _ => False) scache sc_get (fst (snd (m3_run mode c3_q sc_empty)))).
  { destruct H1 as (rrs & c' & ts' & E & HC & _). rewrite E. exact HC. }
  split; [exact HC|].
  exact (modes_correct sort_names_ord sort_names_ord_perm 53 m3_universe m3_hints m3_hz mode false c3_q_mx m3_root [m3_com; m3_ex; m3_sub] m3_sub
           _ 5%nat m3_universe_ns_ok m3_hz_built (m3_warm_question mode Hv6 _ (or_intror eq_refl))
           (m3_plain_question _ (or_intror eq_refl)) HC (le_n 5)).
Qed.

(* the same runs evaluated inside Coq: prefer-v4 asks the v4 addresses except for com., whose
   nameserver has only a v6 address; prefer-v6 and only-v6 ask the v6 addresses; from the cache left by
   the prefer-v6 run, MX is denied by the server of sub.example.com. alone.  (In only-v4 the
   hypothesis fails at com. and so does the resolution.) *)
Example modes_example_eval :
  let ans := Ok (NonAuthoritative [c3_rr c3_n_www RT_A 300 (RD_A 3221225985)] None) in
  let r4 := m3_run PreferV4 c3_q sc_empty in
  let r6 := m3_run PreferV6 c3_q sc_empty in
  let o6 := m3_run OnlyV6 c3_q sc_empty in
  let w6 := m3_run PreferV6 c3_q_mx (fst (snd r6)) in
  fst r4 = ans /\ map x_addr (ts_log (snd (snd r4))) = [(inl c3_ip0, 53); (inr (m3_v6 2), 53); (inl c3_ip2, 53); (inl c3_ip3, 53)]
  /\ fst r6 = ans /\ map x_addr (ts_log (snd (snd r6))) = [(inr (m3_v6 1), 53); (inr (m3_v6 2), 53); (inr (m3_v6 3), 53); (inr (m3_v6 4), 53)]
  /\ fst o6 = ans /\ map x_addr (ts_log (snd (snd o6))) = map x_addr (ts_log (snd (snd r6)))
  /\ fst w6 = Ok (NonAuthoritative [] (Some (uz_soa m3_sub))) /\ map x_addr (ts_log (snd (snd w6))) = [(inr (m3_v6 4), 53)]
  /\ consistentb m3_universe = true
  /\ (forall mode, mode_usable mode RT_AAAA <-> mode <> OnlyV4).
Proof.
  vm_compute. repeat (split; [reflexivity|]).
  intro mode. destruct mode; split; intro H; try congruence; try (intros E; discriminate E);
    try (destruct H as [H|[]]; discriminate H); auto.
Qed.

(* [outcomem] without [multi], spelt out: the zones used are a suffix of the chain *)
Lemma outcomem_strict cache cache_get port u hints mode q zroot rest zk c r :
  outcomem cache cache_get port u hints mode false q zroot rest zk c r ->
  exists rrs c' ts',
    r = (Ok (NonAuthoritative rrs (aa_soa (auth_answer u q))), (c', ts'))
    /\ consistentm u hints mode (fun _ => False) cache cache_get c'
    /\ ((ts_log ts' = [] /\ c' = c /\ rrs = cache_get c (q_name q) (q_type q) /\ rrs <> []
         /\ same_data rrs (aa_rrs (auth_answer u q)))
        \/ (rrs = aa_rrs (auth_answer u q) /\ cache_get c (q_name q) (q_type q) = []
            /\ exists pre used, zroot :: rest = pre ++ used /\ used <> []
                 /\ (pre = [] \/ exists zi used', used = zi :: used' /\ cache_get c (uz_apex zi) RT_NS <> [])
                 /\ Forall2 (fun z e => exists a, query_toi port q a e /\ serves_owner u a z q) used (ts_log ts'))).
Proof.
  intros (rrs & c' & ts' & E & HC & Hcases). exists rrs, c', ts'. split; [exact E|]. split; [exact HC|].
  destruct Hcases as [H|(H1 & H2 & used & _ & (used0 & Hu0) & Hpre & Hes)]; [left; exact H|right].
  split; [exact H1|]. split; [exact H2|]. destruct (Hpre eq_refl) as (pre & Epre & Hstart).
  exists pre, used. split; [exact Epre|]. split; [rewrite Hu0; destruct used0; discriminate|]. split; [exact Hstart|exact Hes].
Qed.
