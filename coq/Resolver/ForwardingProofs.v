(* Resolver/ForwardingProofs.v -- lemmas about the forwarding resolver model
   (Resolver/ForwardingModel.v) for C08 (termination with an explicit fuel, no panic,
   provenance), C18 (forward_only_forwarder), C01 / C10 (network-mode clauses), and about
   SimpleCache (it meets the cache laws the resolver theorems assume). *)
From Coq Require Import Permutation Wf_nat Arith.
From RV Require Import Base.Prelude Base.Cursor Name.NameModel Name.NameSpec Name.NameProofs
     Wire.WireTypes Wire.WireModel Wire.WireGrammar Wire.WireEncodeProofs Wire.WireDecodeProofs
     Zone.ZoneModel Resolver.LocalModel Resolver.LocalSpec Resolver.LocalProofs
     Resolver.ValidateModel Resolver.ValidateSpec Resolver.ValidateProofs
     Resolver.TransportModel Resolver.RecursiveModel Resolver.ForwardingModel Resolver.ResolverFacts
     Resolver.RecursiveProofs.
Set Default Timeout 120.

Section FP.
  Variable cache : Type.
  Variable cache_get : cache -> dname -> N -> list rr.
  Variable cache_insert_all : cache -> list rr -> cache.
  Variable zs : zones.
  Variable o : oracle.
  Variable fa : addr.                      (* the forwarder *)

  Notation RM := (RM cache).
  Notation rstate := (rstate cache).
  Notation rfn := (resolve_forwarding_notimeout cache cache_get cache_insert_all zs o fa).
  Notation fq := (forward_query cache cache_insert_all zs o fa).
  Notation rlocal := (local cache cache_get zs).
  Notation rret := (ret cache).
  Notation rbind := (rbind cache).

  (* what follows local resolution in resolve_forwarding_notimeout *)
  Definition fwd_cont (f : nat) (stack : list question) (q : question) (l : option lresult) : RM rres :=
    match l with
    | Some (LDone r) => rret (ROk r)
    | Some (LPartial rrs) => fq (rfn f) stack rrs q
    | Some (LDelegation _ _ _) => fq (rfn f) stack [] q
    | Some (LCname rrs cq) =>
      rbind (rfn f (stack ++ [q]) cq) (fun r =>
        match r with
        | ROk resolved => rret (ROk (NonAuthoritative (rrs ++ resolved_rrs resolved) (resolved_soa_rr resolved)))
        | RErr _ => rret (RErr (EDeadEnd cq))
        end)
    | None => fq (rfn f) stack [] q
    end.

  Lemma rfn_S f stack q :
    rfn (S f) stack q =
    if at_recursion_limit stack then rret (RErr ERecursionLimit)
    else if is_duplicate_question stack q then rret (RErr (EDuplicateQuestion q))
    else rbind (rlocal stack q) (fwd_cont f stack q).
  Proof. reflexivity. Qed.

  (* ---------- forward_query ---------- *)

  (* the continuation when the forwarder's answer leads into a locally authoritative name:
     the rest of the chain is resolved by the forwarding resolver itself, the question pushed *)
  Definition fq_nested (rec : list question -> question -> RM rres) (stack : list question)
             (combined : list rr) (q : question) (prefix : list rr) (name : dname) : RM rres :=
    rbind (rec (stack ++ [q]) (mkq name (q_type q) (q_class q))) (fun r =>
      match r with
      | ROk resolved => rret (ROk (NonAuthoritative (prioritising_merge combined prefix ++ resolved_rrs resolved)
                                                   (resolved_soa_rr resolved)))
      | RErr _ => rret (RErr (EDeadEnd (mkq name (q_type q) (q_class q))))
      end).

  (* what forward_query does, case by case *)
  Lemma fq_cases rec stack combined q st :
    (exists resp ts, query_nameserver o fa q true (snd st) = (Val (Some resp), ts)
        /\ (forall r, In r (m_answers resp) -> owned_elsewhere zs q r = false)
        /\ fq rec stack combined q st = (Val (ROk (NonAuthoritative (prioritising_merge combined (m_answers resp))
                                                        (get_nxdomain_nodata_soa q resp 0))),
                               (cache_insert_all (fst st) (m_answers resp), ts)))
    \/ (exists resp ts i r, query_nameserver o fa q true (snd st) = (Val (Some resp), ts)
        /\ nth_error (m_answers resp) i = Some r /\ owned_elsewhere zs q r = true
        /\ (forall x, In x (firstn i (m_answers resp)) -> owned_elsewhere zs q x = false)
        /\ fq rec stack combined q st
           = fq_nested rec stack combined q (firstn i (m_answers resp)) (rr_name r)
                       (cache_insert_all (fst st) (firstn i (m_answers resp)), ts))
    \/ (exists ts, query_nameserver o fa q true (snd st) = (Val None, ts)
        /\ fq rec stack combined q st = (Val (RErr (EDeadEnd q)), (fst st, ts)))
    \/ (exists w ts, query_nameserver o fa q true (snd st) = (Abort w, ts)
        /\ fq rec stack combined q st = (Abort w, (fst st, ts))).
  Proof.
    unfold fq_nested, forward_query, RecursiveModel.rbind, lift_t, insert_all, ret.
    destruct (query_nameserver o fa q true (snd st)) as [[om|w1] ts].
    - destruct om as [resp|]; [|right; right; left; exists ts; auto].
      destruct (cut_rrs_ok zs q (m_answers resp)) as (c & -> & Hc). destruct Hc as [Hn|i r Hn Ho Hf].
      + left. exists resp, ts. split; [reflexivity|]. split; [exact Hn|]. reflexivity.
      + right; left. exists resp, ts, i, r. repeat (split; [first [reflexivity|assumption]|]). reflexivity.
    - right; right; right. exists w1, ts. auto.
  Qed.

  (* ---------- C08 forwarding_terminates: fuel 34 always suffices ---------- *)
  Lemma rfn_stable (Ho : oracle_bytes_ok o) : forall f stack q st,
    (length stack <= 32)%nat -> (33 <= f + length stack)%nat ->
    fst (rfn f stack q st) <> Abort AFuel
    /\ forall f', (f <= f')%nat -> rfn f' stack q st = rfn f stack q st.
  Proof.
    induction f as [|f IH]; intros stack q st Hlen Hf; [cbn in Hf; lia|].
    assert (Hgoal : fst (rfn (S f) stack q st) <> Abort AFuel
                    /\ forall f', (f <= f')%nat -> rfn (S f') stack q st = rfn (S f) stack q st).
    { destruct (at_recursion_limit stack) eqn:El.
      { split; [rewrite rfn_S, El; discriminate|]. intros f' _. rewrite !rfn_S, El. reflexivity. }
      destruct (is_duplicate_question stack q) eqn:Ed.
      { split; [rewrite rfn_S, El, Ed; discriminate|]. intros f' _. rewrite !rfn_S, El, Ed. reflexivity. }
      pose proof (stack_le_32 stack q Hlen El) as Hlen'.
      assert (Hf' : (33 <= f + length (stack ++ [q]))%nat) by (rewrite app_length; cbn [length]; lia).
      assert (Hfq : forall combined,
                 fst (fq (rfn f) stack combined q st) <> Abort AFuel
                 /\ forall f', (f <= f')%nat -> fq (rfn f') stack combined q st = fq (rfn f) stack combined q st).
      { intros combined.
        assert (Hqn : forall w ts, query_nameserver o fa q true (snd st) = (Abort w, ts) -> w <> AFuel).
        { intros w ts E Hw. pose proof (query_nameserver_fine o fa q true (snd st) Ho w) as Hq. rewrite E in Hq.
          specialize (Hq eq_refl). congruence. }
        destruct (fq_cases (rfn f) stack combined q st) as [(resp & ts & Eq & Hn & E)|[(resp & ts & i & r & Eq & Hn & Ho' & Hp & E)|[(ts & Eq & E)|(w & ts & Eq & E)]]].
        - split; [rewrite E; discriminate|]. intros f' _.
          destruct (fq_cases (rfn f') stack combined q st) as [(resp' & ts' & Eq' & _ & E')|[(resp' & ts' & i' & r' & Eq' & Hn' & Ho2 & _ & E')|[(ts' & Eq' & E')|(w' & ts' & Eq' & E')]]];
            rewrite Eq in Eq'; inversion Eq'; subst.
          + rewrite E, E'. reflexivity.
          + exfalso. apply nth_error_In in Hn'. rewrite (Hn _ Hn') in Ho2. discriminate.
        - destruct (IH (stack ++ [q]) (mkq (rr_name r) (q_type q) (q_class q))
                       (cache_insert_all (fst st) (firstn i (m_answers resp)), ts) Hlen' Hf') as [Hn1 Hs1].
          split.
          + rewrite E. unfold fq_nested, RecursiveModel.rbind.
            destruct (rfn f (stack ++ [q]) _ _) as [[[res|e]|w] st1]; try discriminate. cbn [fst] in *. congruence.
          + intros f' Hle. rewrite E.
            unfold forward_query, RecursiveModel.rbind at 1, lift_t. rewrite Eq.
            unfold cut_rrs.
            assert (Epos : position (owned_elsewhere zs q) (m_answers resp) = Some i).
            { clear -Hn Ho' Hp. revert i Hn Hp. induction (m_answers resp) as [|a l IHl]; intros i Hn Hp; [destruct i; discriminate|].
              cbn [position]. destruct i as [|i].
              - cbn in Hn. inversion Hn; subst. rewrite Ho'. reflexivity.
              - cbn [firstn nth_error] in *. rewrite (Hp a (or_introl eq_refl)).
                rewrite (IHl i Hn); [reflexivity|]. intros x Hx. apply Hp. right. exact Hx. }
            rewrite Epos, Hn. unfold fq_nested, RecursiveModel.rbind, insert_all. cbn [fst snd].
            rewrite (Hs1 f' Hle). reflexivity.
        - split; [rewrite E; discriminate|]. intros f' _.
          destruct (fq_cases (rfn f') stack combined q st) as [(resp' & ts' & Eq' & _ & E')|[(resp' & ts' & i' & r' & Eq' & _ & _ & _ & E')|[(ts' & Eq' & E')|(w' & ts' & Eq' & E')]]];
            rewrite Eq in Eq'; inversion Eq'; subst. rewrite E, E'. reflexivity.
        - split; [rewrite E; cbn [fst]; intro Hw; inversion Hw; subst; eapply Hqn; [exact Eq|reflexivity]|]. intros f' _.
          destruct (fq_cases (rfn f') stack combined q st) as [(resp' & ts' & Eq' & _ & E')|[(resp' & ts' & i' & r' & Eq' & _ & _ & _ & E')|[(ts' & Eq' & E')|(w' & ts' & Eq' & E')]]];
            rewrite Eq in Eq'; inversion Eq'; subst. rewrite E, E'. reflexivity. }
      destruct (rlocal_cases cache cache_get zs stack q st Hlen) as [[ol [E _]]|[E _]].
      2:{ assert (Hsame : forall f', rfn (S f') stack q st = (Abort APanic, st)).
          { intro f'. rewrite rfn_S, El, Ed. unfold RecursiveModel.rbind. rewrite E. reflexivity. }
          split; [rewrite Hsame; discriminate|]. intros f' _. rewrite !Hsame. reflexivity. }
      assert (Hsame : forall f', rfn (S f') stack q st = fwd_cont f' stack q ol st).
      { intro f'. rewrite rfn_S, El, Ed. unfold RecursiveModel.rbind. rewrite E. reflexivity. }
      rewrite Hsame.
      destruct ol as [[r|rrs|rrs s d|rrs cq]|]; cbn [fwd_cont].
      - split; [discriminate|]. intros f' _. rewrite Hsame. reflexivity.
      - split; [apply Hfq|]. intros f' Hf2. rewrite Hsame. cbn [fwd_cont]. apply Hfq, Hf2.
      - split; [apply Hfq|]. intros f' Hf2. rewrite Hsame. cbn [fwd_cont]. apply Hfq, Hf2.
      - destruct (IH (stack ++ [q]) cq st Hlen' Hf') as [Hn Hs].
        split.
        + unfold RecursiveModel.rbind. destruct (rfn f (stack ++ [q]) cq st) as [[[res|e]|w] st1]; try discriminate.
          cbn [fst] in *. congruence.
        + intros f' Hf2. rewrite Hsame. cbn [fwd_cont]. unfold RecursiveModel.rbind. rewrite (Hs f' Hf2). reflexivity.
      - split; [apply Hfq|]. intros f' Hf2. rewrite Hsame. cbn [fwd_cont]. apply Hfq, Hf2. }
    destruct Hgoal as [H1 H2]. split; [exact H1|].
    intros f' Hf'. destruct f' as [|f']; [lia|]. apply H2. lia.
  Qed.

  Definition FORWARDING_FUEL : nat := 34.

  Theorem forwarding_terminates (Ho : oracle_bytes_ok o) q st :
    fst (resolve_forwarding cache cache_get cache_insert_all zs o fa FORWARDING_FUEL q st) <> OutOfFuel
    /\ forall fuel, (FORWARDING_FUEL <= fuel)%nat ->
         resolve_forwarding cache cache_get cache_insert_all zs o fa fuel q st
         = resolve_forwarding cache cache_get cache_insert_all zs o fa FORWARDING_FUEL q st.
  Proof.
    destruct (rfn_stable Ho FORWARDING_FUEL [] q st) as [H1 H2]; [cbn; lia|cbn; lia|].
    unfold resolve_forwarding. split.
    - destruct (rfn FORWARDING_FUEL [] q st) as [[[x|e]|[| |]] st']; cbn [finish fst] in *; try discriminate. congruence.
    - intros fuel Hf. rewrite (H2 fuel Hf). reflexivity.
  Qed.

  (* ---------- a generic invariant theorem for the forwarding resolver ---------- *)
  Section Generic.
    Variable Inv : rstate -> Prop.
    Variable R : rstate -> rstate -> Prop.
    Variable G : rstate -> rr -> Prop.
    Variable Ab : abort -> Prop.
    Variable QOK : question -> Prop.

    Hypothesis R_refl : forall st, R st st.
    Hypothesis R_trans : forall a b c, R a b -> R b c -> R a c.
    Hypothesis G_mono : forall st st' r, R st st' -> G st r -> G st' r.
    Hypothesis Ab_fuel : Ab AFuel.
    Hypothesis H_local : forall stack q st l, Inv st -> rlocal_res cache cache_get zs stack q st = Ok l ->
      Forall (G st) (lresult_rrs l) /\ Forall (G st) (opt_list (lresult_soa l)).
    Hypothesis H_local_panic : forall stack q st, Inv st -> rlocal_res cache cache_get zs stack q st = Panic -> Ab APanic.
    Hypothesis H_q : forall stack q st, Inv st ->
      at_recursion_limit stack = false -> is_duplicate_question stack q = false ->
      ((exists rrs, rlocal_res cache cache_get zs stack q st = Ok (LPartial rrs))
       \/ (exists rrs s d, rlocal_res cache cache_get zs stack q st = Ok (LDelegation rrs s d))
       \/ (exists e, rlocal_res cache cache_get zs stack q st = Err e)) -> QOK q.
    (* the exchange with the forwarder, and caching a prefix of the answer section of its reply
       (all of it unless the answer leads into a locally authoritative name) *)
    Hypothesis H_fwd : forall q st r ts, Inv st -> QOK q ->
      query_nameserver o fa q true (snd st) = (r, ts) ->
      Inv (fst st, ts) /\ R st (fst st, ts) /\ (forall w, r = Abort w -> Ab w)
      /\ (forall resp, r = Val (Some resp) ->
            Forall (G (fst st, ts)) (m_answers resp)
            /\ Forall (G (fst st, ts)) (opt_list (get_nxdomain_nodata_soa q resp 0))
            /\ forall i, (forall x, In x (firstn i (m_answers resp)) -> owned_elsewhere zs q x = false) ->
                         Inv (cache_insert_all (fst st) (firstn i (m_answers resp)), ts)
                         /\ R (fst st, ts) (cache_insert_all (fst st) (firstn i (m_answers resp)), ts)).

    Notation fpost := (post cache Inv R Ab).

    Lemma post_fq rec stack combined q st :
      (forall stack' q' st', Inv st' -> fpost (good_rres cache G) st' (rec stack' q' st')) ->
      Inv st -> QOK q -> Forall (G st) combined -> fpost (good_rres cache G) st (fq rec stack combined q st).
    Proof.
      intros Hrec HI Hq Hc.
      destruct (query_nameserver o fa q true (snd st)) as [r0 ts0] eqn:Eq0.
      destruct (H_fwd q st r0 ts0 HI Hq Eq0) as (I1 & R1 & Hab & Hresp).
      destruct (fq_cases rec stack combined q st) as [(resp & ts & Eq & Hn & E)|[(resp & ts & i & r & Eq & Hn & Ho' & Hp & E)|[(ts & Eq & E)|(w & ts & Eq & E)]]];
        rewrite Eq in Eq0; inversion Eq0; subst r0 ts0; rewrite E.
      - destruct (Hresp resp eq_refl) as (Ga & Gs & Hins).
        destruct (Hins (length (m_answers resp))) as [I2 R2]. { intros x Hx. apply Hn. eapply firstn_incl, Hx. }
        rewrite firstn_all in I2, R2.
        unfold post. cbn [fst snd]. split; [exact I2|]. split; [eapply R_trans; eassumption|].
        split; cbn [resolved_rrs resolved_soa_rr].
        + apply Forall_merge.
          * eapply Forall_impl; [|exact Hc]. intros x Hx. eapply G_mono; [|exact Hx]. eapply R_trans; eassumption.
          * eapply Forall_impl; [|exact Ga]. intros x Hx. eapply G_mono; eassumption.
        + eapply Forall_impl; [|exact Gs]. intros x Hx. eapply G_mono; eassumption.
      - destruct (Hresp resp eq_refl) as (Ga & Gs & Hins).
        destruct (Hins i Hp) as [I2 R2].
        assert (R02 : R st (cache_insert_all (fst st) (firstn i (m_answers resp)), ts)) by (eapply R_trans; eassumption).
        assert (P2 : fpost (good_rres cache G) (cache_insert_all (fst st) (firstn i (m_answers resp)), ts)
                           (fq_nested rec stack combined q (firstn i (m_answers resp)) (rr_name r)
                                      (cache_insert_all (fst st) (firstn i (m_answers resp)), ts))).
        { unfold fq_nested. eapply post_bind; [exact R_trans|apply Hrec, I2|].
          intros r1 st3 I3 R3 V3. destruct r1 as [res|e]; (apply post_ret; [exact R_refl|exact I3|]); [|exact I].
          destruct V3 as [V3 V4]. split; cbn [resolved_rrs resolved_soa_rr]; [|exact V4].
          apply Forall_app. split; [|exact V3]. apply Forall_merge.
          - eapply Forall_impl; [|exact Hc]. intros x Hx. eapply G_mono; [|exact Hx]. eapply R_trans; eassumption.
          - apply Forall_forall. intros x Hx. apply firstn_incl in Hx. eapply Forall_forall in Ga; [|exact Hx].
            eapply G_mono; [|exact Ga]. eapply R_trans; eassumption. }
        destruct P2 as (I3 & R3 & V3). split; [exact I3|]. split; [eapply R_trans; eassumption|exact V3].
      - unfold post. cbn [fst snd]. split; [exact I1|]. split; [exact R1|exact I].
      - unfold post. cbn [fst snd]. split; [exact I1|]. split; [exact R1|]. apply Hab. reflexivity.
    Qed.

    Theorem fwd_generic : forall f stack q st, Inv st -> fpost (good_rres cache G) st (rfn f stack q st).
    Proof.
      induction f as [|f IH]; intros stack q st HI.
      - cbn. unfold post, stop. cbn [fst snd]. auto.
      - rewrite rfn_S.
        destruct (at_recursion_limit stack) eqn:El; [apply post_ret; [exact R_refl|exact HI|exact I]|].
        destruct (is_duplicate_question stack q) eqn:Ed; [apply post_ret; [exact R_refl|exact HI|exact I]|].
        eapply post_bind; [exact R_trans|apply post_local; assumption|].
        intros ol st1 I1 R1 [-> Hl].
        destruct ol as [[r|rrs|rrs s d|rrs cq]|].
        + apply post_ret; [exact R_refl|exact I1|]. apply (H_local _ _ _ _ I1 Hl).
        + apply post_fq; [exact IH|exact I1| |apply (H_local _ _ _ _ I1 Hl)].
          eapply H_q; try eassumption. left. eexists; exact Hl.
        + apply post_fq; [exact IH|exact I1| |constructor].
          eapply H_q; try eassumption. right; left. do 3 eexists; exact Hl.
        + eapply post_bind; [exact R_trans|apply IH, I1|].
          intros r st2 I2 R2 V2. destruct r as [res|e]; (apply post_ret; [exact R_refl|exact I2|]); [|exact I].
          destruct V2 as [V2 V3]. split; cbn [resolved_rrs resolved_soa_rr]; [|exact V3].
          apply Forall_app. split; [|exact V2].
          eapply Forall_impl; [|exact (proj1 (H_local _ _ _ _ I1 Hl))]. intros x. apply G_mono, R2.
        + apply post_fq; [exact IH|exact I1| |constructor].
          eapply H_q; try eassumption. right; right. exact Hl.
    Qed.
  End Generic.

  (* ---------- C08 no_panic ---------- *)
  Theorem rfn_no_panic (Ho : oracle_bytes_ok o) (Hz : ~ zone_panics zs) f stack q st :
    fst (rfn f stack q st) <> Abort APanic.
  Proof.
    pose proof (fwd_generic (fun _ => True) (fun _ _ => True) (fun _ _ => True) (fun w => w <> APanic) (fun _ => True)) as Hg.
    assert (Hp : post cache (fun _ => True) (fun _ _ => True) (fun w => w <> APanic)
                      (good_rres cache (fun _ _ => True)) st (rfn f stack q st)).
    { apply Hg; auto.
      - discriminate.
      - intros. split; apply Forall_forall; auto.
      - intros stack0 q0 st0 _ H. exfalso. apply Hz. eapply resolve_local_panic, H.
      - intros q0 st0 r ts _ _ E. split; [exact I|]. split; [exact I|]. split.
        + intros w -> Hw. subst w.
          pose proof (query_nameserver_fine o fa q0 true (snd st0) Ho APanic) as Hq. rewrite E in Hq. discriminate (Hq eq_refl).
        + intros resp _. split; [apply Forall_forall; auto|]. split; [apply Forall_forall; auto|]. auto. }
    destruct Hp as (_ & _ & Hp). destruct (fst (rfn f stack q st)) as [x|w]; [discriminate|].
    intro E. inversion E; subst. apply Hp. reflexivity.
  Qed.

  Theorem forwarding_no_panic (Ho : oracle_bytes_ok o) (Hz : ~ zone_panics zs) f q st :
    fst (resolve_forwarding cache cache_get cache_insert_all zs o fa f q st) <> Panic.
  Proof.
    unfold resolve_forwarding. pose proof (rfn_no_panic Ho Hz f [] q st) as H.
    destruct (rfn f [] q st) as [[[x|e]|[| |]] st']; cbn [finish fst] in *; try discriminate. congruence.
  Qed.

  (* ---------- what is cached (C01: the cut at a locally authoritative name) ----------
     the cache is changed by nothing but insert_all of a prefix of the answer section of a reply
     of the forwarder in which no record is owned elsewhere (its owner is the question name of
     that exchange, or no authoritative local zone encloses it): every property of caches that
     such inserts preserve is preserved by a whole resolution *)
  Theorem rfn_cached_cut (P : cache -> Prop) :
    (forall c q ts resp ts' i, P c -> query_nameserver o fa q true ts = (Val (Some resp), ts') ->
        (forall r, In r (firstn i (m_answers resp)) -> owned_elsewhere zs q r = false) ->
        P (cache_insert_all c (firstn i (m_answers resp)))) ->
    forall f stack q st, P (fst st) -> P (fst (snd (rfn f stack q st))).
  Proof.
    intros HP f stack q st H0.
    assert (Hp : post cache (fun st => P (fst st)) (fun _ _ => True) (fun _ => True) (good_rres cache (fun _ _ => True)) st (rfn f stack q st)).
    { apply (fwd_generic (fun st => P (fst st)) (fun _ _ => True) (fun _ _ => True) (fun _ => True) (fun _ => True)); auto.
      - intros. split; apply Forall_forall; auto.
      - intros q0 st0 r ts H1 _ E. cbn [fst]. split; [exact H1|]. split; [exact I|]. split; [auto|].
        intros resp ->. split; [apply Forall_forall; auto|]. split; [apply Forall_forall; auto|].
        intros i Hi. split; [|exact I]. eapply HP; eassumption. }
    exact (proj1 Hp).
  Qed.

  (* ---------- the log (C18 forward_only_forwarder, C01 log_names_not_owned) ---------- *)
  Theorem rfn_log (PQ : question -> Prop) :
    (forall stack q c,
      at_recursion_limit stack = false -> is_duplicate_question stack q = false ->
      ((exists rrs, resolve_local zs (cache_get c) LOCAL_FUEL stack q = Ok (LPartial rrs))
       \/ (exists rrs s d, resolve_local zs (cache_get c) LOCAL_FUEL stack q = Ok (LDelegation rrs s d))
       \/ (exists e, resolve_local zs (cache_get c) LOCAL_FUEL stack q = Err e)) -> PQ q) ->
    forall f stack q st,
    exists new, ts_rlog (snd (snd (rfn f stack q st))) = new ++ ts_rlog (snd st)
                /\ Forall (fun e => x_addr e = fa /\ x_rd e = true /\ PQ (x_question e)) new.
  Proof.
    intros HPQ f stack q st.
    set (LInv := fun st' : rstate => exists new, ts_rlog (snd st') = new ++ ts_rlog (snd st)
                              /\ Forall (fun e => x_addr e = fa /\ x_rd e = true /\ PQ (x_question e)) new).
    assert (Hp : post cache LInv (fun _ _ => True) (fun _ => True) (good_rres cache (fun _ _ => True)) st (rfn f stack q st)).
    { apply (fwd_generic LInv (fun _ _ => True) (fun _ _ => True) (fun _ => True) PQ); auto.
      - intros. split; apply Forall_forall; auto.
      - intros stack0 q0 st0 _ Hl Hd Hc. eapply HPQ; eassumption.
      - intros q0 st0 r ts [new0 [E0 F0]] Hq E.
        pose proof (query_nameserver_dest _ _ _ _ _ _ _ E) as [new [El F]].
        assert (HL : forall c : cache, LInv (c, ts)).
        { intro c. exists (new ++ new0). cbn [snd]. rewrite El, E0, app_assoc. split; [reflexivity|].
          apply Forall_app. split; [|exact F0].
          eapply Forall_impl; [|exact F]. intros x (h1 & h2 & h3). rewrite h2. auto. }
        split; [apply HL|]. split; [exact I|]. split; [auto|].
        intros resp _. split; [apply Forall_forall; auto|]. split; [apply Forall_forall; auto|].
        intros i _. split; [apply HL|exact I].
      - exists []. split; [reflexivity|constructor]. }
    exact (proj1 Hp).
  Qed.

  (* C18: in forwarding mode every exchange goes to the configured forwarder, with RD set *)
  Theorem rfn_forward_only_forwarder f stack q st :
    exists new, ts_rlog (snd (snd (rfn f stack q st))) = new ++ ts_rlog (snd st)
                /\ Forall (fun e => x_addr e = fa /\ x_rd e = true) new.
  Proof.
    destruct (rfn_log (fun _ => True)) with (f := f) (stack := stack) (q := q) (st := st) as [new [E F]]; [auto|].
    exists new. split; [exact E|]. eapply Forall_impl; [|exact F]. intros e (h1 & h2 & _). auto.
  Qed.

  (* C01 log_names_not_owned *)
  Theorem rfn_log_names_not_owned f stack q st :
    exists new, ts_rlog (snd (snd (rfn f stack q st))) = new ++ ts_rlog (snd st)
                /\ Forall (fun e => ~ owned_auth zs (q_name (x_question e))) new.
  Proof.
    destruct (rfn_log (fun q => ~ owned_auth zs (q_name q))) with (f := f) (stack := stack) (q := q) (st := st) as [new [E F]].
    - intros stack0 q0 c Hl Hd Hcases Hown.
      destruct (owned_local_cases zs (cache_get c) (N.to_nat (RECURSION_LIMIT + 1)) stack0 q0 Hown (conj Hl Hd)) as [[r H]|[[rrs [cq H]]|[H|H]]];
        change (S (N.to_nat (RECURSION_LIMIT + 1))) with LOCAL_FUEL in H;
        destruct Hcases as [[x Hx]|[[x [y [z Hx]]]|[x Hx]]]; rewrite H in Hx; discriminate.
    - exists new. split; [exact E|]. eapply Forall_impl; [|exact F]. intros e (_ & _ & h). exact h.
  Qed.

  (* C01 done_means_no_upstream *)
  Theorem rfn_done_no_upstream f stack q st r :
    at_recursion_limit stack = false -> is_duplicate_question stack q = false ->
    resolve_local zs (cache_get (fst st)) LOCAL_FUEL stack q = Ok (LDone r) ->
    rfn (S f) stack q st = (Val (ROk r), st).
  Proof.
    intros H1 H2 Hl. rewrite rfn_S, H1, H2. unfold RecursiveModel.rbind, local. rewrite Hl. reflexivity.
  Qed.

  (* C01 nxdomain_only_from_auth_zone *)
  Theorem rfn_nxdomain_only_local f stack q st s st' :
    rfn f stack q st = (Val (ROk (AuthoritativeNameError s)), st') ->
    resolve_local zs (cache_get (fst st)) LOCAL_FUEL stack q = Ok (LDone (AuthoritativeNameError s)) /\ st' = st.
  Proof.
    destruct f as [|f]; [discriminate|]. rewrite rfn_S.
    destruct (at_recursion_limit stack); [discriminate|]. destruct (is_duplicate_question stack q); [discriminate|].
    assert (Hfq : forall combined, fq (rfn f) stack combined q st <> (Val (ROk (AuthoritativeNameError s)), st')).
    { intros combined.
      destruct (fq_cases (rfn f) stack combined q st) as [(resp & ts & _ & _ & E)|[(resp & ts & i & r & _ & _ & _ & _ & E)|[(ts & _ & E)|(w & ts & _ & E)]]];
        rewrite E; try discriminate.
      unfold fq_nested, RecursiveModel.rbind, ret. destruct (rfn f _ _ _) as [[[res|e]|w] st1]; discriminate. }
    unfold RecursiveModel.rbind at 1. unfold local at 1.
    destruct (resolve_local zs (cache_get (fst st)) LOCAL_FUEL stack q) as [l|e| |]; try discriminate.
    - destruct l as [r|rrs|rrs so d|rrs cq]; cbn [fwd_cont].
      + unfold ret. intro H. inversion H; subst. auto.
      + intro H. exfalso. eapply Hfq, H.
      + intro H. exfalso. eapply Hfq, H.
      + unfold RecursiveModel.rbind, ret. destruct (rfn f (stack ++ [q]) cq st) as [[[res|e]|w] st1]; discriminate.
    - cbn [fwd_cont]. intro H. exfalso. eapply Hfq, H.
  Qed.

  (* ---------- C08 / C07 answer_provenance ---------- *)
  Section Provenance.
    Variable cache_content : cache -> rr -> Prop.
    Hypothesis CL_get : forall c n t r, In r (cache_get c n t) -> exists r', cache_content c r' /\ rr_sim r r'.
    Hypothesis CL_insert : forall c rrs r, cache_content (cache_insert_all c rrs) r ->
                                           cache_content c r \/ exists r', In r' rrs /\ rr_sim r r'.
    Variable c0 : cache.

    (* a record of the answer section of a message the forwarder sent (a logged exchange delivered
       octets that decode to it) which passed the header gate, or the single SOA of its authority
       section when it denies the name or the type *)
    Definition forwarder_src (log : list exchange) (r : rr) : Prop :=
      exists e resp, In e log /\ reply_from o e /\ x_addr e = fa /\ exchange_message e = Some resp
        /\ response_matches_request (make_request (x_question e) (x_rd e)) resp = true
        /\ (In r (m_answers resp) \/ allowed_soa (x_question e) 0 resp r).
    Definition fprov (log : list exchange) (r : rr) : Prop :=
      exists r0, rr_sim r r0 /\ (zone_src zs r0 \/ cache_content c0 r0 \/ forwarder_src log r0).

    Lemma fprov_sim log a b : rr_sim a b -> fprov log b -> fprov log a.
    Proof. intros Hs [r0 [H1 H2]]. exists r0. split; [eapply rr_sim_trans; eassumption|exact H2]. Qed.
    Lemma fprov_mono log new r : fprov log r -> fprov (new ++ log) r.
    Proof.
      intros [r0 [H1 [H|[H|(e & resp & Hin & H)]]]]; exists r0; (split; [exact H1|]); auto.
      right; right. exists e, resp. split; [apply in_or_app; right; exact Hin|exact H].
    Qed.

    Definition fprov_inv (st : rstate) : Prop := forall r, cache_content (fst st) r -> fprov (ts_rlog (snd st)) r.

    Theorem rfn_provenance f stack q st :
      fprov_inv st ->
      fprov_inv (snd (rfn f stack q st))
      /\ (forall res, fst (rfn f stack q st) = Val (ROk res) ->
            Forall (fprov (ts_rlog (snd (snd (rfn f stack q st))))) (resolved_rrs res ++ opt_list (resolved_soa_rr res))).
    Proof.
      intro H0.
      pose proof (fwd_generic fprov_inv (fun st st' => exists new, ts_rlog (snd st') = new ++ ts_rlog (snd st))
                    (fun st r => fprov (ts_rlog (snd st)) r) (fun _ => True) (fun _ => True)) as Hg.
      assert (Hp : post cache fprov_inv (fun st st' => exists new, ts_rlog (snd st') = new ++ ts_rlog (snd st)) (fun _ => True)
                        (good_rres cache (fun st r => fprov (ts_rlog (snd st)) r)) st (rfn f stack q st)).
      { apply Hg; auto.
        - intros st0. exists []. reflexivity.
        - intros a b c [n1 E1] [n2 E2]. exists (n2 ++ n1). rewrite E2, E1, app_assoc. reflexivity.
        - intros st0 st' r [new E]. rewrite E. apply fprov_mono.
        - intros stack0 q0 st0 l Hc Hl.
          refine (local_from zs (cache_get (fst st0)) (fprov (ts_rlog (snd st0))) _ _ _ _ _ _ _ Hl).
          + intros name qt z zr r Hz Hin. exists r. split; [apply rr_sim_refl|]. left. left. exists name, qt, z, zr. auto.
          + intros name qt z zr s Hz Hs. exists s. split; [apply rr_sim_refl|]. left. right. exists name, qt, z, zr. auto.
          + intros n t r Hr. destruct (CL_get _ _ _ _ Hr) as [r' [H1 H2]]. eapply fprov_sim; [exact H2|]. apply Hc, H1.
        - intros q0 st0 r ts Hc _ Eq.
          pose proof (query_nameserver_dest _ _ _ _ _ _ _ Eq) as [new [El _]].
          assert (Hold : forall x, cache_content (fst st0) x -> fprov (ts_rlog ts) x).
          { intros x Hx. rewrite El. apply fprov_mono, Hc, Hx. }
          split; [exact Hold|]. split; [exists new; exact El|]. split; [auto|].
          intros resp ->.
          destruct (query_nameserver_logged _ _ _ _ _ _ _ Eq) as [new' [e [El' [Hin [(h1 & h2 & h3 & h4 & h5) [Hm _]]]]]].
          assert (Hans : forall x, In x (m_answers resp) \/ allowed_soa q0 0 resp x -> fprov (ts_rlog ts) x).
          { intros x Hr. exists x. split; [apply rr_sim_refl|]. right; right. exists e, resp.
            split; [rewrite El'; apply in_or_app; left; exact Hin|]. split; [exact h5|]. split; [exact h1|]. split; [exact h4|].
            rewrite h2, h3. split; [exact Hm|exact Hr]. }
          split; [|split].
          + apply Forall_forall. intros x Hx. cbv beta. cbn [snd]. apply Hans. left. exact Hx.
          + destruct (get_nxdomain_nodata_soa q0 resp 0) as [s0|] eqn:Es; [|constructor].
            constructor; [|constructor]. cbv beta. cbn [snd]. apply Hans. right. apply soa_sound. exact Es.
          + intros i _. split; [|exists []; reflexivity].
            intros x Hx. cbn [fst snd] in *. destruct (CL_insert _ _ _ Hx) as [H|[r' [H1 H2]]]; [apply Hold, H|].
            eapply fprov_sim; [exact H2|]. apply Hans. left. eapply firstn_incl, H1. }
      destruct Hp as (H1 & _ & H3). split; [exact H1|]. intros res E. rewrite E in H3. apply Forall_app. exact H3.
    Qed.
  End Provenance.

  (* ---------- C10 forwarding_chain_ok (deviation D6: the forwarder's answer section is passed
     through as it is, so its order is an assumption) ---------- *)
  Section Chain.
    Hypothesis Hzones : zones_answers_ok zs.
    Hypothesis Hcache : forall c, cget_ok (cache_get c).
    (* what is assumed of the forwarder: the answer section of every reply that passes the gate is
       the alias chain from the question name followed by records of the asked type *)
    Hypothesis Hfw : forall q ts resp ts', query_nameserver o fa q true ts = (Val (Some resp), ts') ->
      chain_shape (q_name q) (q_type q) (m_answers resp).

    Definition fchain_res (q : question) (r : rres) : Prop :=
      match r with ROk res => chain_shape (q_name q) (q_type q) (resolved_rrs res) | RErr _ => True end.

    Theorem rfn_chain_shape : forall f stack q st r st',
      q_type q <> RT_CNAME -> q_type q <> QT_Wildcard ->
      rfn f stack q st = (Val r, st') -> fchain_res q r.
    Proof.
      induction f as [|f IH]; intros stack q st r st' Hq1 Hq2; [discriminate|]. rewrite rfn_S.
      destruct (at_recursion_limit stack); [unfold ret; intro H; inversion H; exact I|].
      destruct (is_duplicate_question stack q); [unfold ret; intro H; inversion H; exact I|].
      assert (Hfq : fq (rfn f) stack [] q st = (Val r, st') -> fchain_res q r).
      { destruct (fq_cases (rfn f) stack [] q st) as [(resp & ts & Eq & _ & E)|[(resp & ts & i & r0 & Eq & Hn & Ho' & Hp & E)|[(ts & Eq & E)|(w & ts & Eq & E)]]];
          rewrite E.
        3: intro H; inversion H; subst; exact I.
        3: discriminate.
        - intro H; inversion H; subst. cbn [fchain_res resolved_rrs]. rewrite merge_nil_l. eapply Hfw, Eq.
        - (* the answer is cut: the prefix is the chain from the question name to the owner of the
             first record cut, the rest is a resolution starting there *)
          destruct (Hfw _ _ _ _ Eq) as (cn & fin & last & Ea & Hcf & Hfin).
          assert (Hch : chain_from (q_name q) (firstn i (m_answers resp)) = Some (rr_name r0)).
          { rewrite Ea in *. eapply cut_chain; try eassumption. eapply Forall_impl; [|exact Hfin]. cbn beta. tauto. }
          unfold fq_nested, RecursiveModel.rbind, ret. rewrite merge_nil_l.
          destruct (rfn f (stack ++ [q]) _ _) as [[[res|e]|w] st1] eqn:En; try discriminate; intro H; inversion H; subst; [|exact I].
          cbn [fchain_res resolved_rrs]. eapply chain_shape_app; [exact Hch|].
          exact (IH _ (mkq (rr_name r0) (q_type q) (q_class q)) _ _ _ Hq1 Hq2 En). }
      unfold RecursiveModel.rbind at 1. unfold local at 1.
      destruct (resolve_local zs (cache_get (fst st)) LOCAL_FUEL stack q) as [l|e| |] eqn:El; try discriminate; [|exact Hfq].
      destruct l as [res|rrs|rrs so d|rrs cq]; cbn [fwd_cont].
      - unfold ret. intro H. inversion H; subst. cbn [fchain_res]. apply chain_ok_shape.
        apply (local_chain_ok zs (cache_get (fst st')) Hzones (Hcache _) _ _ _ _ Hq1 Hq2 El). intros [].
      - exfalso. eapply no_partial; [exact Hq2|exact El].
      - exact Hfq.
      - destruct (local_alias zs (cache_get (fst st)) Hzones (Hcache _) _ _ _ _ _ Hq2 El) as [H1 H2].
        unfold RecursiveModel.rbind, ret.
        destruct (rfn f (stack ++ [q]) cq st) as [[[res|e]|w] st1] eqn:E; try discriminate; intro H; inversion H; subst; [|exact I].
        cbn [fchain_res resolved_rrs]. eapply chain_shape_app; [exact H1|].
        assert (Hty : q_type cq = q_type q) by (rewrite H2; reflexivity).
        rewrite <- Hty. apply (IH _ _ _ _ _ ltac:(rewrite Hty; exact Hq1) ltac:(rewrite Hty; exact Hq2) E).
    Qed.
  End Chain.

  (* ---------- the same for resolve_forwarding (the 60 s wrapper, empty question stack) ---------- *)
  Notation rf_top := (resolve_forwarding cache cache_get cache_insert_all zs o fa).

  Theorem forwarding_only_forwarder f q st :
    exists new, ts_rlog (snd (snd (rf_top f q st))) = new ++ ts_rlog (snd st)
                /\ Forall (fun e => x_addr e = fa /\ x_rd e = true) new.
  Proof. unfold resolve_forwarding. rewrite finish_snd. apply rfn_forward_only_forwarder. Qed.

  Theorem forwarding_cached_cut (P : cache -> Prop) :
    (forall c q ts resp ts' i, P c -> query_nameserver o fa q true ts = (Val (Some resp), ts') ->
        (forall r, In r (firstn i (m_answers resp)) -> owned_elsewhere zs q r = false) ->
        P (cache_insert_all c (firstn i (m_answers resp)))) ->
    forall f q st, P (fst st) -> P (fst (snd (rf_top f q st))).
  Proof. intros HP f q st H. unfold resolve_forwarding. rewrite finish_snd. apply rfn_cached_cut; assumption. Qed.

  Theorem forwarding_log_names_not_owned f q st :
    exists new, ts_rlog (snd (snd (rf_top f q st))) = new ++ ts_rlog (snd st)
                /\ Forall (fun e => ~ owned_auth zs (q_name (x_question e))) new.
  Proof. unfold resolve_forwarding. rewrite finish_snd. apply rfn_log_names_not_owned. Qed.

  Theorem forwarding_done_no_upstream f q st r :
    resolve_local zs (cache_get (fst st)) LOCAL_FUEL [] q = Ok (LDone r) -> rf_top (S f) q st = (Ok r, st).
  Proof.
    intro Hl. unfold resolve_forwarding. rewrite (rfn_done_no_upstream f [] q st r); [reflexivity|reflexivity|reflexivity|exact Hl].
  Qed.

  Theorem forwarding_nxdomain_only_local f q st s st' :
    rf_top f q st = (Ok (AuthoritativeNameError s), st') ->
    resolve_local zs (cache_get (fst st)) LOCAL_FUEL [] q = Ok (LDone (AuthoritativeNameError s)) /\ st' = st.
  Proof. intro H. apply finish_ok in H. eapply rfn_nxdomain_only_local, H. Qed.

  Theorem forwarding_chain_shape :
    zones_answers_ok zs -> (forall c, cget_ok (cache_get c)) ->
    (forall q ts resp ts', query_nameserver o fa q true ts = (Val (Some resp), ts') ->
       chain_shape (q_name q) (q_type q) (m_answers resp)) ->
    forall f q st res st', q_type q <> RT_CNAME -> q_type q <> QT_Wildcard ->
      rf_top f q st = (Ok res, st') -> chain_shape (q_name q) (q_type q) (resolved_rrs res).
  Proof.
    intros Hz Hc Hfw f q st res st' H1 H2 H. apply finish_ok in H.
    exact (rfn_chain_shape Hz Hc Hfw f [] q st (ROk res) st' H1 H2 H).
  Qed.

  Theorem forwarding_provenance (cache_content : cache -> rr -> Prop) :
    (forall c n t r, In r (cache_get c n t) -> exists r', cache_content c r' /\ rr_sim r r') ->
    (forall c rrs r, cache_content (cache_insert_all c rrs) r -> cache_content c r \/ exists r', In r' rrs /\ rr_sim r r') ->
    forall f q st res st', rf_top f q st = (Ok res, st') ->
    forall r, In r (resolved_rrs res ++ opt_list (resolved_soa_rr res)) ->
    exists r0, rr_sim r r0 /\
      (zone_src zs r0 \/ cache_content (fst st) r0 \/ forwarder_src (ts_rlog (snd st')) r0).
  Proof.
    intros CL_get CL_insert f q st res st' H r Hr. apply finish_ok in H.
    destruct (rfn_provenance cache_content CL_get CL_insert (fst st) f [] q st) as [_ Hres].
    { intros x Hx. exists x. split; [apply rr_sim_refl|]. right; left. exact Hx. }
    rewrite H in Hres. cbn [fst snd] in Hres. specialize (Hres res eq_refl).
    eapply Forall_forall in Hres; [|exact Hr]. exact Hres.
  Qed.
End FP.

(* ====================================================================== *)
(* SimpleCache meets the cache laws the resolver theorems assume           *)
(* ====================================================================== *)

Definition sc_rr (k : dname * N) (e : rdata * N) : rr :=
  {| rr_name := fst k; rr_type := snd k; rr_class := RC_IN; rr_ttl := snd e; rr_data := fst e |}.

(* the records a SimpleCache holds *)
Definition sc_content (c : scache) (r : rr) : Prop :=
  exists k vals e, In (k, vals) c /\ In e vals /\ r = sc_rr k e.

Lemma sc_key_eqb_eq a b : sc_key_eqb a b = true <-> a = b.
Proof.
  unfold sc_key_eqb. rewrite andb_true_iff, N.eqb_eq. destruct a as [a1 a2], b as [b1 b2]. cbn [fst snd].
  split.
  - intros [H1 H2]. apply dname_eqb_eq in H1. congruence.
  - intro H. inversion H; subst. split; [apply dname_eqb_eq|]; reflexivity.
Qed.

Lemma sc_alookup_in {V} k (m : list ((dname * N) * V)) v : alookup sc_key_eqb k m = Some v -> In (k, v) m.
Proof.
  induction m as [|[k' v'] t IH]; cbn [alookup]; [discriminate|].
  destruct (sc_key_eqb k k') eqn:E.
  - intro H. inversion H; subst. apply sc_key_eqb_eq in E. subst. left. reflexivity.
  - intro H. right. apply IH, H.
Qed.

Lemma sc_areplace_in {V} k (v : V) : forall m k' v', In (k', v') (areplace sc_key_eqb k v m) ->
  In (k', v') m \/ (k' = k /\ v' = v).
Proof.
  induction m as [|[k0 v0] t IH]; intros k' v' H; cbn [areplace] in H; [destruct H|].
  destruct (sc_key_eqb k k0) eqn:E.
  - destruct H as [H|H]; [|left; right; exact H]. inversion H; subst. apply sc_key_eqb_eq in E. right. auto.
  - destruct H as [H|H]; [left; left; exact H|]. destruct (IH _ _ H) as [H1|H1]; [left; right; exact H1|right; exact H1].
Qed.

Lemma in_removelast {A} (x : A) : forall l, In x (removelast l) -> In x l.
Proof.
  induction l as [|y l IH]; cbn [removelast]; [intros []|]. destruct l as [|z l]; [intros []|].
  intros [H|H]; [left; exact H|right; apply IH, H].
Qed.

Lemma in_swap_remove_at {A} (x : A) : forall i l, In x (swap_remove_at i l) -> In x l.
Proof.
  induction i as [|i IH]; intros [|y l] H; cbn [swap_remove_at] in H; try destruct H.
  - destruct (rev l) as [|lst r] eqn:E; [destruct H|]. destruct H as [H|H].
    + subst. right. apply in_rev. rewrite E. left. reflexivity.
    + right. apply in_removelast, H.
  - left. exact H.
  - right. apply IH, H.
Qed.

Lemma in_sc_upsert vals d ttl e : In e (sc_upsert vals d ttl) -> In e vals \/ e = (d, ttl).
Proof.
  unfold sc_upsert. destruct (find_index _ vals) as [i|]; intro H; apply in_app_or in H; destruct H as [H|[H|[]]]; auto.
  left. eapply in_swap_remove_at, H.
Qed.

Lemma sc_insert_content c x r : sc_content (sc_insert c x) r -> sc_content c r \/ rr_sim r x.
Proof.
  unfold sc_insert. destruct (0 <? rr_ttl x); [|auto].
  intros (k & vals & e & Hin & He & ->).
  destruct (alookup sc_key_eqb (rr_name x, rr_type x) c) as [old|] eqn:El.
  - apply sc_areplace_in in Hin. destruct Hin as [Hin|[-> ->]].
    + left. exists k, vals, e. auto.
    + apply in_sc_upsert in He. destruct He as [He| ->].
      * left. exists (rr_name x, rr_type x), old, e. split; [apply sc_alookup_in, El|auto].
      * right. repeat split.
  - apply in_app_or in Hin. destruct Hin as [Hin|[Hin|[]]].
    + left. exists k, vals, e. auto.
    + inversion Hin; subst. destruct He as [<-|[]]. right. repeat split.
Qed.

Theorem sc_insert_all_content : forall rrs c r,
  sc_content (sc_insert_all c rrs) r -> sc_content c r \/ exists r', In r' rrs /\ rr_sim r r'.
Proof.
  unfold sc_insert_all. induction rrs as [|x rrs IH]; intros c r H; cbn [fold_left] in H; [left; exact H|].
  destruct (IH _ _ H) as [H1|[r' [H1 H2]]].
  - destruct (sc_insert_content _ _ _ H1) as [H2|H2]; [left; exact H2|]. right. exists x. split; [left; reflexivity|exact H2].
  - right. exists r'. split; [right; exact H1|exact H2].
Qed.

Theorem sc_get_content c n t r : In r (sc_get c n t) -> exists r', sc_content c r' /\ rr_sim r r'.
Proof.
  unfold sc_get. intro H. apply filter_In in H. destruct H as [H _].
  exists r. split; [|apply rr_sim_refl].
  destruct (t =? QT_Wildcard).
  - apply in_flat_map in H. destruct H as [[k vals] [Hin Hr]]. cbn [fst snd] in Hr.
    destruct (dname_eqb (fst k) n); [|destruct Hr].
    unfold sc_to_rrs in Hr. apply in_map_iff in Hr. destruct Hr as [e [<- He]]. exists k, vals, e. auto.
  - destruct (existsb _ qtype_table); [destruct H|].
    destruct (alookup sc_key_eqb (n, t) c) as [vals|] eqn:El; [|destruct H].
    unfold sc_to_rrs in H. apply in_map_iff in H. destruct H as [e [<- He]].
    exists (n, t), vals, e. split; [apply sc_alookup_in, El|auto].
Qed.

(* a read returns only records of the asked name and type (what C10's theorems assume of the cache) *)
Theorem sc_get_ok c : cget_ok (sc_get c).
Proof.
  intros name qt Hq. unfold sc_get. apply N.eqb_neq in Hq. rewrite Hq.
  apply Forall_forall. intros r H. apply filter_In in H. destruct H as [H _].
  destruct (existsb _ qtype_table); [destruct H|].
  destruct (alookup sc_key_eqb (name, qt) c) as [vals|]; [|destruct H].
  unfold sc_to_rrs in H. apply in_map_iff in H. destruct H as [e [<- _]]. cbn. auto.
Qed.

(* the empty cache holds nothing *)
Lemma sc_empty_content r : ~ sc_content sc_empty r.
Proof. intros (k & vals & e & [] & _). Qed.

(* ====================================================================== *)
(* the table oracle of Universe.v sends octets when its table holds octets *)
(* ====================================================================== *)
From RV Require Import Resolver.Universe.

Lemma patch_id_bytes req msg bump : Forall (fun x => x < 256) msg -> Forall (fun x => x < 256) (patch_id req msg bump).
Proof.
  intro H. unfold patch_id. destruct req as [|r0 [|r1 rt]]; try exact H.
  destruct msg as [|m0 [|m1 mt]]; try exact H.
  constructor; [apply u16_hi_lt|]. constructor; [apply u16_lo_lt|].
  apply Forall_inv_tail in H. apply Forall_inv_tail in H. exact H.
Qed.

Lemma table_lookup_bytes t a q bs :
  Forall (fun e => Forall (fun b => b < 256) (snd e)) t -> table_lookup t a q = Some bs -> Forall (fun b => b < 256) bs.
Proof.
  induction t as [|[[a' q'] bs'] t IH]; cbn [table_lookup]; [discriminate|]. intros Ht.
  destruct (_ && _).
  - intro E. inversion E; subst. apply Forall_inv in Ht. exact Ht.
  - apply IH. apply Forall_inv_tail in Ht. exact Ht.
Qed.

(* without faults: the reply is the table's message with the request's id patched in (TCP: behind
   its length prefix) *)
Theorem table_oracle_bytes_ok t :
  Forall (fun e => Forall (fun b => b < 256) (snd e)) t -> oracle_bytes_ok (table_oracle t []).
Proof.
  intros Ht n p a req bs. unfold table_oracle. cbn [plan_lookup].
  set (base := match req with [] => None | _ :: _ => _ end).
  assert (Hb : forall b, base = Some b -> Forall (fun x => x < 256) b).
  { subst base. destruct req as [|r0 rt]; [discriminate|]. destruct (request_question _) as [q|]; [|discriminate].
    intros b0 E. eapply table_lookup_bytes; eassumption. }
  clearbody base.
  assert (Hm : forall m, option_map (header_fault FNone req) base = Some m -> Forall (fun x => x < 256) m).
  { destruct base as [b|]; cbn [option_map]; [|discriminate]. intros m E. inversion E; subst.
    cbn [header_fault]. apply patch_id_bytes, Hb. reflexivity. }
  unfold reply_of. destruct p.
  - destruct (option_map (header_fault FNone req) base) as [m|]; cbn [option_map mk_reply t_bytes frame]; [|discriminate].
    intro E. inversion E; subst. apply Hm. reflexivity.
  - destruct req as [|r0 rt]; [cbn [t_bytes]; discriminate|].
    destruct (option_map (header_fault FNone (r0 :: rt)) base) as [m|]; cbn [option_map mk_reply t_bytes frame]; [|discriminate].
    intro E. inversion E; subst. constructor; [apply u16_hi_lt|]. constructor; [apply u16_lo_lt|]. apply Hm; reflexivity.
Qed.
