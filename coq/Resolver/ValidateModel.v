(* Resolver/ValidateModel.v -- executable model of the upstream-reply filter in
   crates/dns-resolver/src/recursive.rs (validate_nameserver_response,
   follow_cnames, get_better_ns_names, get_ip, get_record(s)) and
   util/nameserver.rs (response_matches_request, get_nxdomain_nodata_soa).
   Definitions only.

   HashMap<DomainName, DomainName> (cname_map) is an association list where a
   later CNAME for the same owner overwrites the target in place
   (HashMap::insert); HashSet<DomainName> (ns_names) is a duplicate-free list in
   insertion order -- the order in which `into_iter().collect()` yields the
   hostnames is unspecified in Rust (the hook sorts candidates), so consumers
   must not depend on it. *)
From RV Require Import Base.Prelude Name.NameModel Wire.WireTypes Resolver.LocalModel.

Inductive nsresponse :=
| NRAnswer (rrs : list rr) (soa_rr : option rr)
| NRCname (rrs : list rr) (cname : dname)
| NRDelegation (rrs : list rr) (delegation : nameservers).

Definition is_cname_rr (r : rr) : option dname :=
  if rr_type r =? RT_CNAME then match rr_data r with RD_Name c => Some c | _ => None end else None.
Definition is_ns_rr (r : rr) : option dname :=
  if rr_type r =? RT_NS then match rr_data r with RD_Name c => Some c | _ => None end else None.

Definition set_insert (n : dname) (s : list dname) : list dname :=
  if existsb (dname_eqb n) s then s else s ++ [n].
Definition set_mem (n : dname) (s : list dname) : bool := existsb (dname_eqb n) s.

(* the first loop of follow_cnames *)
Fixpoint cname_scan (rrs : list rr) (target : dname) (qtype : N) (got : bool) (m : list (dname * dname))
  : bool * list (dname * dname) :=
  match rrs with
  | [] => (got, m)
  | r :: t =>
    if rr_is_unknown r then cname_scan t target qtype got m
    else
      let got' := got || (dname_eqb (rr_name r) target && rtype_matches (rr_type r) qtype) in
      let m' := match is_cname_rr r with Some c => ainsert dname_eqb (rr_name r) c m | None => m end in
      cname_scan t target qtype got' m'
  end.

(* the while loop: follow the map from [final]; None on a loop.  Each step adds a
   new name to [seen], all of them targets in the map, so |map|+1 steps suffice. *)
Fixpoint cname_walk (fuel : nat) (m : list (dname * dname)) (seen : list dname) (final : dname)
  : res unit (option (dname * list dname)) :=
  match fuel with
  | O => OutOfFuel
  | S f =>
    match alookup dname_eqb final m with
    | None => Ok (Some (final, seen))
    | Some target =>
      if set_mem target seen then Ok None
      else cname_walk f m (seen ++ [target]) target
    end
  end.

Definition follow_cnames (rrs : list rr) (target : dname) (qtype : N)
  : res unit (option (dname * list (dname * dname))) :=
  let '(got, m) := cname_scan rrs target qtype false [] in
  (* a question for the CNAME itself is answered by that record, not by what it points to *)
  if qtype =? RT_CNAME then (if got then Ok (Some (target, m)) else Ok None) else
  match cname_walk (S (S (length m))) m [] target with
  | Ok (Some (final, seen)) => if got || negb (is_nil seen) then Ok (Some (final, m)) else Ok None
  | Ok None => Ok None
  | Err e => Err e
  | Panic => Panic
  | OutOfFuel => OutOfFuel
  end.

(* get_better_ns_names *)
Fixpoint better_ns_loop (rrs : list rr) (target : dname) (match_count : N) (match_name : option dname)
         (ns_names : list dname) : option dname * list dname :=
  match rrs with
  | [] => (match_name, ns_names)
  | r :: t =>
    match is_ns_rr r with
    | Some nsdname =>
      if is_subdomain_of target (rr_name r) then
        let n := llen (labels (rr_name r)) in
        if match_count <? n then better_ns_loop t target n (Some (rr_name r)) [nsdname]
        else if n =? match_count then better_ns_loop t target match_count match_name (set_insert nsdname ns_names)
        else better_ns_loop t target match_count match_name ns_names
      else better_ns_loop t target match_count match_name ns_names
    | None => better_ns_loop t target match_count match_name ns_names
    end
  end.
Definition get_better_ns_names (rrs : list rr) (target : dname) (current_match_count : N)
  : option (dname * list dname) :=
  match better_ns_loop rrs target current_match_count None [] with
  | (Some mn, names) => Some (mn, names)
  | (None, _) => None
  end.

(* get_nxdomain_nodata_soa: Some None = abort (multiple SOAs) *)
Fixpoint find_single_soa (auth : list rr) (acc : option rr) : option (option rr) :=
  match auth with
  | [] => Some acc
  | r :: t => if rr_type r =? RT_SOA
              then match acc with Some _ => None | None => find_single_soa t (Some r) end
              else find_single_soa t acc
  end.
Definition get_nxdomain_nodata_soa (q : question) (resp : message) (current_match_count : N) : option rr :=
  if negb (is_nil (m_answers resp)) then None
  else if negb ((h_rcode (m_header resp) =? RCODE_NameError) || (h_rcode (m_header resp) =? RCODE_NoError)) then None
  else match find_single_soa (m_authority resp) None with
       | Some (Some r) =>
         if negb (is_subdomain_of (q_name q) (rr_name r)) then None
         else if llen (labels (rr_name r)) <? current_match_count then None
         else Some r
       | _ => None
       end.

(* the path loop of validate_nameserver_response (after the fix): CNAME RRs on
   the path from the question name, in chain order *)
Fixpoint path_cnames (fuel : nat) (answers : list rr) (m : list (dname * dname)) (final name : dname) : list rr :=
  match fuel with
  | O => []
  | S f =>
    if dname_eqb name final then [] else
    match alookup dname_eqb name m with
    | None => []
    | Some target =>
      (match find (fun an => negb (rr_is_unknown an) && dname_eqb (rr_name an) name
                               && (rr_type an =? RT_CNAME) && rdata_eqb (rr_data an) (RD_Name target)) answers with
       | Some an => [an]
       | None => []
       end) ++ path_cnames f answers m final target
    end
  end.

Definition ns_glue_filter (match_name : dname) (ns_names : list dname) (allow_ns allow_addr : bool) (r : rr) : bool :=
  match is_ns_rr r with
  | Some nsdname => allow_ns && dname_eqb (rr_name r) match_name && set_mem nsdname ns_names
  | None =>
    if (rr_type r =? RT_A) || (rr_type r =? RT_AAAA) then allow_addr && set_mem (rr_name r) ns_names else false
  end.

(* validate_nameserver_response *)
Definition validate_nameserver_response (q : question) (resp : message) (current_match_count : N)
  : res unit (option nsresponse) :=
  match follow_cnames (m_answers resp) (q_name q) (q_type q) with
  | Ok (Some (final_name, cname_map)) =>
    let answers := m_answers resp in
    let all_unknown := forallb rr_is_unknown answers in
    let finals := filter (fun an => negb (rr_is_unknown an) && rtype_matches (rr_type an) (q_type q)
                                    && dname_eqb (rr_name an) final_name) answers in
    let rrs_for_query := path_cnames (S (length cname_map)) answers cname_map final_name (q_name q) ++ finals in
    if all_unknown then Ok None
    else if is_nil rrs_for_query then Ok None
    else if negb (is_nil finals) then Ok (Some (NRAnswer rrs_for_query None))
    else Ok (Some (NRCname rrs_for_query final_name))
  | Ok None =>
    let from_an := get_better_ns_names (m_answers resp) (q_name q) current_match_count in
    let from_au := get_better_ns_names (m_authority resp) (q_name q) current_match_count in
    let chosen : option (dname * list dname) :=
        match from_an, from_au with
        | Some (mn1, nss1), Some (mn2, nss2) =>
          let l1 := llen (labels mn1) in let l2 := llen (labels mn2) in
          if l2 <? l1 then Some (mn1, nss1)
          else if l1 =? l2 then Some (mn1, fold_left (fun acc n => set_insert n acc) nss2 nss1)
          else Some (mn2, nss2)
        | Some x, None => Some x
        | None, Some x => Some x
        | None, None => None
        end in
    match chosen with
    | None =>
      Ok (option_map (fun soa => NRAnswer [] (Some soa)) (get_nxdomain_nodata_soa q resp current_match_count))
    | Some (match_name, ns_names) =>
      let rrs := filter (ns_glue_filter match_name ns_names true true) (m_answers resp)
                 ++ filter (ns_glue_filter match_name ns_names true false) (m_authority resp)
                 ++ filter (ns_glue_filter match_name ns_names false true) (m_additional resp) in
      Ok (Some (NRDelegation rrs {| ns_hostnames := ns_names; ns_name := match_name |}))
    end
  | Err e => Err e
  | Panic => Panic
  | OutOfFuel => OutOfFuel
  end.

(* response_matches_request *)
Definition response_matches_request (request response : message) : bool :=
  (h_id (m_header request) =? h_id (m_header response))
  && h_qr (m_header response)
  && (h_opcode (m_header request) =? h_opcode (m_header response))
  && negb (h_tc (m_header response))
  && ((h_rcode (m_header response) =? RCODE_NoError) || (h_rcode (m_header response) =? RCODE_NameError))
  && (fix qeq (a b : list question) : bool :=
        match a, b with
        | [], [] => true
        | x :: a', y :: b' => question_eqb x y && qeq a' b'
        | _, _ => false
        end) (m_questions request) (m_questions response).

(* get_record / get_records / get_ip *)
Definition get_record (rrs : list rr) (target : dname) (rtype : N) : option rr :=
  find (fun r => (rr_type r =? rtype) && dname_eqb (rr_name r) target) rrs.
Definition get_records (rrs : list rr) (target : dname) (rtype : N) : list rr :=
  filter (fun r => (rr_type r =? rtype) && dname_eqb (rr_name r) target) rrs.

(* an address: Some (inl u32) for A, Some (inr segs) for AAAA *)
Definition get_ip (rrs : list rr) (target : dname) (rtype : N) : res unit (option (N + list N)) :=
  match follow_cnames rrs target QT_Wildcard with
  | Ok (Some (final_name, _)) =>
    match get_record rrs final_name rtype with
    | Some r => match rr_data r with
                | RD_A a => Ok (Some (inl a))
                | RD_AAAA s => Ok (Some (inr s))
                | _ => Ok None
                end
    | None => Ok None
    end
  | Ok None => Ok None
  | Err e => Err e
  | Panic => Panic
  | OutOfFuel => OutOfFuel
  end.
