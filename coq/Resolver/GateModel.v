(* Resolver/GateModel.v -- executable model of query_nameserver in
   crates/dns-resolver/src/util/nameserver.rs: the composition in which
   response_matches_request (Resolver/ValidateModel.v) gates what an upstream
   server said.  Definitions only.

   Transport: what the peer does with the one UDP datagram and the one TCP
   request of a query is data:
     UDP  None = nothing ever arrives (or the send fails)
          Some (delay_ms, bytes) = a datagram arriving after delay_ms
     TCP  None = connection refused, or open and silent
          Some (delay_ms, declared, body) = after delay_ms the stream carries the
          2-octet length prefix [declared], then [body], then end of stream.
   Both exchanges run under `timeout(Duration::from_secs(5), ..)`: a reply
   arriving at or after 5000 ms is never seen.  (The generated cases keep away
   from the instant 5000 ms itself: which of two timers firing at the same
   instant wins is tokio's business.) *)
From RV Require Import Base.Prelude Base.Cursor Name.NameModel Wire.WireTypes Wire.WireModel
     Resolver.LocalModel Resolver.ValidateModel.

Record transport := {
  t_udp : option (N * list byte);
  t_tcp : option (N * N * list byte) }.

Definition NS_TIMEOUT_MS : N := 5000.
Definition UDP_BUF : N := 512.

(* Message::from_octets(..).ok() *)
Definition decode_ok (bs : list byte) : res unit (option message) :=
  match decode bs with
  | Ok m => Ok (Some m)
  | Err _ => Ok None
  | Panic => Panic
  | OutOfFuel => OutOfFuel
  end.

(* query_nameserver_udp: a request above 512 octets is not sent at all; the
   reply is received into a 512-octet buffer and the received prefix decoded *)
Definition query_nameserver_udp (request_bytes : list byte) (t : transport) : res unit (option message) :=
  if UDP_BUF <? llen request_bytes then Ok None
  else match t_udp t with
       | None => Ok None
       | Some (delay, bs) =>
         if NS_TIMEOUT_MS <=? delay then Ok None
         else decode_ok (firstn (N.to_nat UDP_BUF) bs)
       end.

(* read_tcp_bytes: u16 prefix, then exactly that many octets (the BytesMut is
   allocated with that capacity and read_buf fills spare capacity only); a
   stream ending early is TcpError::TooShort *)
Definition read_tcp_bytes (declared : N) (body : list byte) : option (list byte) :=
  if llen body <? declared then None else Some (firstn (N.to_nat declared) body).

Definition query_nameserver_tcp (t : transport) : res unit (option message) :=
  match t_tcp t with
  | None => Ok None
  | Some (delay, declared, body) =>
    if NS_TIMEOUT_MS <=? delay then Ok None
    else match read_tcp_bytes declared body with
         | Some bs => decode_ok bs
         | None => Ok None
         end
  end.

Definition request_of (id : N) (q : question) (recursion_desired : bool) : message :=
  let m := from_question id q in
  {| m_header := {| h_id := h_id (m_header m); h_qr := h_qr (m_header m); h_opcode := h_opcode (m_header m);
                    h_aa := h_aa (m_header m); h_tc := h_tc (m_header m); h_rd := recursion_desired;
                    h_ra := h_ra (m_header m); h_rcode := h_rcode (m_header m) |};
     m_questions := m_questions m; m_answers := m_answers m; m_authority := m_authority m;
     m_additional := m_additional m |}.

(* query_nameserver; [id] is the random request id *)
Definition query_nameserver (id : N) (q : question) (recursion_desired : bool) (t : transport)
  : res unit (option message) :=
  let request := request_of id q recursion_desired in
  match encode request with
  | Err _ => Ok None
  | Panic => Panic
  | OutOfFuel => OutOfFuel
  | Ok request_bytes =>
    let* u := query_nameserver_udp request_bytes t in
    match (match u with
           | Some r => if response_matches_request request r then Some r else None
           | None => None
           end) with
    | Some r => Ok (Some r)
    | None =>
      let* c := query_nameserver_tcp t in
      match c with
      | Some r => if response_matches_request request r then Ok (Some r) else Ok None
      | None => Ok None
      end
    end
  end.
