(* Resolver/ValidateSpec.v -- specification side of C06: which records of an
   upstream reply may be used for a question when a delegation of [mc] labels is
   already in use.  Declarative: refers to the reply's sections as lists and to
   names as label sequences, to none of the control flow of
   validate_nameserver_response.

   allowed q mc resp rr  iff  one of
   (a) rr is in the answer section, of known type and class, and
       - the question asks for a type other than CNAME: rr's owner is reached from
         the question name by following CNAME records of the answer section, and
         rr is such a CNAME (it is on the path) or has the asked type (any type,
         for ANY) and its owner is where the path ends (no CNAME record of the
         answer section is owned by it);
       - the question asks for CNAME: nothing is followed -- rr is a CNAME record
         owned by the question name;
   (b) rr is an NS record of the answer or authority section owned by an
       ancestor-or-self of the question name with MORE than mc labels, and no NS
       record of those sections owned by such an ancestor is deeper;
   (c) rr is an A/AAAA record of the answer or additional section owned by a host
       that a (b)-record names;
   (d) the reply has no answers, rcode NoError or NameError, rr is the only SOA
       record of the authority section, owned by an ancestor-or-self of the
       question name with at least mc labels. *)
From RV Require Import Base.Prelude Name.NameModel Name.NameSpec Wire.WireTypes
     Resolver.LocalModel Resolver.LocalSpec.

Definition nlabels (n : dname) : N := llen (labels n).

(* [a] is [n] or an ancestor of [n]: its labels are a suffix of [n]'s *)
Definition ancestor_or_self (a n : dname) : Prop := is_suffix (labels a) (labels n).

Definition known (r : rr) : Prop := rr_is_unknown r = false.

Definition cname_rr (r : rr) (owner target : dname) : Prop :=
  rr_name r = owner /\ rr_type r = RT_CNAME /\ rr_data r = RD_Name target.
Definition ns_rr (r : rr) (host : dname) : Prop :=
  rr_type r = RT_NS /\ rr_data r = RD_Name host.
Definition address_rr (r : rr) : Prop := rr_type r = RT_A \/ rr_type r = RT_AAAA.

(* names reached from [start] by following known CNAME records of [answers] *)
Inductive reached (answers : list rr) (start : dname) : dname -> Prop :=
| reached_start : reached answers start start
| reached_step n r t :
    reached answers start n -> In r answers -> known r -> cname_rr r n t -> reached answers start t.

(* no CNAME leaves [n] *)
Definition terminal (answers : list rr) (n : dname) : Prop :=
  forall r t, In r answers -> known r -> ~ cname_rr r n t.

Definition allowed_answer (q : question) (resp : message) (r : rr) : Prop :=
  In r (m_answers resp) /\ known r /\
  ((q_type q = RT_CNAME /\ rr_name r = q_name q /\ rr_type r = RT_CNAME)
   \/
   (q_type q <> RT_CNAME /\ reached (m_answers resp) (q_name q) (rr_name r) /\
    ((exists t, cname_rr r (rr_name r) t)
     \/ (rtype_matches (rr_type r) (q_type q) = true /\ terminal (m_answers resp) (rr_name r))))).

(* an NS record of the answer / authority section that could refer the question further *)
Definition ns_candidate (q : question) (mc : N) (resp : message) (r : rr) : Prop :=
  (In r (m_answers resp) \/ In r (m_authority resp)) /\ (exists h, ns_rr r h) /\
  ancestor_or_self (rr_name r) (q_name q) /\ mc < nlabels (rr_name r).

Definition allowed_ns (q : question) (mc : N) (resp : message) (r : rr) : Prop :=
  ns_candidate q mc resp r /\
  forall r', ns_candidate q mc resp r' -> nlabels (rr_name r') <= nlabels (rr_name r).

Definition allowed_glue (q : question) (mc : N) (resp : message) (r : rr) : Prop :=
  (In r (m_answers resp) \/ In r (m_additional resp)) /\ address_rr r /\
  exists r', allowed_ns q mc resp r' /\ ns_rr r' (rr_name r).

Definition allowed_soa (q : question) (mc : N) (resp : message) (r : rr) : Prop :=
  m_answers resp = [] /\
  (h_rcode (m_header resp) = RCODE_NoError \/ h_rcode (m_header resp) = RCODE_NameError) /\
  rr_type r = RT_SOA /\
  (exists l1 l2, m_authority resp = l1 ++ r :: l2 /\ forall x, In x (l1 ++ l2) -> rr_type x <> RT_SOA) /\
  ancestor_or_self (rr_name r) (q_name q) /\ mc <= nlabels (rr_name r).

Definition allowed (q : question) (mc : N) (resp : message) (r : rr) : Prop :=
  allowed_answer q resp r \/ allowed_ns q mc resp r \/ allowed_glue q mc resp r \/ allowed_soa q mc resp r.

(* the accepted answer list: the CNAMEs along the path from the question name, in
   order (each owner the previous target, no owner twice), then records of the
   asked type (or any type, for ANY) at the final name only.  For a question
   other than CNAME none of the final records is a CNAME; for a CNAME question
   there is no path: the records are the CNAMEs of the question name itself.
   [chain_from] is the one of Resolver/LocalSpec.v (C10). *)
Definition vchain_ok (qname : dname) (qtype : N) (cn fin : list rr) (last : dname) : Prop :=
  chain_from qname cn = Some last /\ NoDup (map rr_name cn) /\
  Forall (fun r => rr_name r = last /\ rtype_matches (rr_type r) qtype = true
                   /\ (qtype <> RT_CNAME -> ~ exists t, cname_rr r last t)) fin /\
  (qtype = RT_CNAME -> cn = []).

(* what the header gate lets through *)
Definition gate_ok (request response : message) : Prop :=
  h_id (m_header request) = h_id (m_header response) /\
  h_qr (m_header response) = true /\
  h_opcode (m_header request) = h_opcode (m_header response) /\
  h_tc (m_header response) = false /\
  (h_rcode (m_header response) = RCODE_NoError \/ h_rcode (m_header response) = RCODE_NameError) /\
  m_questions request = m_questions response.
