(* Resolver/LocalProofs.v -- lemmas about resolve_local (local part of C01 and C10). *)
From RV Require Import Base.Prelude Name.NameModel Name.NameSpec Name.NameProofs Wire.WireTypes
     Zone.ZoneModel Resolver.LocalModel Resolver.LocalSpec.

(* ================= the shape of one step of resolve_local ================= *)

Definition subq (q : question) (name : dname) : question :=
  {| q_name := name; q_type := q_type q; q_class := q_class q |}.

Lemma subq_self q : subq q (q_name q) = q.
Proof. destruct q; reflexivity. Qed.

(* what the zone-CNAME branch makes of the target's resolution *)
Definition zcombine (r : rr) (cq : question) (sub : res rerror lresult) : res rerror lresult :=
  match sub with
  | Ok (LDone (Authoritative cname_rrs soa_rr)) => Ok (LDone (Authoritative ([r] ++ cname_rrs) soa_rr))
  | Ok (LDone (AuthoritativeNameError soa_rr)) => Ok (LDone (Authoritative [r] soa_rr))
  | Ok (LDone (NonAuthoritative cname_rrs soa_rr)) => Ok (LDone (NonAuthoritative ([r] ++ cname_rrs) soa_rr))
  | Ok (LPartial cname_rrs) => Ok (LPartial ([r] ++ cname_rrs))
  | Ok (LCname cname_rrs cq') => Ok (LCname ([r] ++ cname_rrs) cq')
  | Ok (LDelegation _ _ _) => Ok (LCname [r] cq)
  | Err _ => Ok (LCname [r] cq)
  | Panic => Panic
  | OutOfFuel => OutOfFuel
  end.

(* what the cache-CNAME branch makes of the target's resolution *)
Definition ccombine (cname_rr : rr) (cname : dname) (sub : res rerror lresult)
  : res rerror (list rr * option dname) :=
  match sub with
  | Ok (LDone resolved) => Ok ([cname_rr] ++ resolved_rrs resolved, None)
  | Ok (LPartial rrs) => Ok ([cname_rr] ++ rrs, None)
  | Ok (LCname rrs cq) => Ok ([cname_rr] ++ rrs, Some (q_name cq))
  | Ok (LDelegation _ _ _) => Ok ([cname_rr], Some cname)
  | Err _ => Ok ([cname_rr], Some cname)
  | Panic => Panic
  | OutOfFuel => OutOfFuel
  end.

Section Step.
  Variable zs : zones.
  Variable cget : dname -> N -> list rr.

  Definition zone_phase (q : question) (sub : dname -> res rerror lresult) : zphase :=
    match zones_resolve zs (q_name q) (q_type q) with
    | None => ZContinue []
    | Some (zone, Panic) => ZFinal Panic
    | Some (zone, OutOfFuel) => ZFinal OutOfFuel
    | Some (zone, Err _) => ZFinal Panic
    | Some (zone, Ok zr) =>
      match zr with
      | ZAnswer rrs =>
        match zone_soa_rr zone with
        | Some soa_rr => ZFinal (Ok (LDone (Authoritative rrs soa_rr)))
        | None =>
          if negb (q_type q =? QT_Wildcard) && negb (is_nil rrs)
          then ZFinal (Ok (LDone (NonAuthoritative rrs None)))
          else ZContinue rrs
        end
      | ZCname cname r => ZFinal (zcombine r (subq q cname) (sub cname))
      | ZDelegation ns_rrs =>
        match zone_soa_rr zone with
        | Some soa_rr =>
          match ns_rrs with
          | [] => ZFinal (Err (ELocalDelegationMissingNS (z_apex zone) (q_name q)))
          | first :: _ =>
            ZFinal (Ok (LDelegation ns_rrs (Some soa_rr)
                                    {| ns_hostnames := ns_hostnames_of ns_rrs; ns_name := rr_name first |}))
          end
        | None => ZContinue []
        end
      | ZNameError =>
        match zone_soa_rr zone with
        | Some soa_rr => ZFinal (Ok (LDone (AuthoritativeNameError soa_rr)))
        | None => ZContinue []
        end
      end
    end.

  Definition cache_part (q : question) (sub : dname -> res rerror lresult) : res rerror (list rr * option dname) :=
    let from_cache := cget (q_name q) (q_type q) in
    if is_nil from_cache && negb (q_type q =? RT_CNAME) then
      match cget (q_name q) RT_CNAME with
      | [] => Ok (from_cache, None)
      | cname_rr :: _ =>
        match (if rr_type cname_rr =? RT_CNAME then rr_data cname_rr else RD_A 0) with
        | RD_Name cname => ccombine cname_rr cname (sub cname)
        | _ => Err (ECacheTypeMismatch RT_CNAME (rr_type cname_rr))
        end
      end
    else Ok (from_cache, None).

  Definition cache_phase (q : question) (sub : dname -> res rerror lresult) (rrs_from_zone : list rr)
    : res rerror lresult :=
    match cache_part q sub with
    | Ok (rrs_from_cache, final_cname) =>
      let rrs := prioritising_merge rrs_from_zone rrs_from_cache in
      if is_nil rrs then Err (EDeadEnd q)
      else match final_cname with
           | Some c => Ok (LCname rrs (subq q c))
           | None => if q_type q =? QT_Wildcard then Ok (LPartial rrs)
                     else Ok (LDone (NonAuthoritative rrs None))
           end
    | Err e => Err e
    | Panic => Panic
    | OutOfFuel => OutOfFuel
    end.

  Definition local_step (q : question) (sub : dname -> res rerror lresult) : res rerror lresult :=
    match zone_phase q sub with
    | ZFinal r => r
    | ZContinue rrs_from_zone => cache_phase q sub rrs_from_zone
    end.

  (* resolve_local is: the two guards, then one step whose only recursive calls are on
     the stack extended by the current question *)
  Lemma resolve_local_eq f stack q :
    resolve_local zs cget (S f) stack q =
    if at_recursion_limit stack then Err ERecursionLimit
    else if is_duplicate_question stack q then Err (EDuplicateQuestion q)
    else local_step q (fun name => resolve_local zs cget f (stack ++ [q]) (subq q name)).
  Proof. reflexivity. Qed.
End Step.

(* ================= ZoneModel never runs out of fuel, never returns Err ================= *)

Lemma zrh_shape name qt recs nsd cd :
  zone_result_helper name qt recs nsd cd <> OutOfFuel /\ (forall e, zone_result_helper name qt recs nsd cd <> Err e).
Proof.
  unfold zone_result_helper.
  destruct (cd && negb (qt =? RT_NS) && negb (is_nil match alookup N.eqb RT_NS recs with Some l => l | None => [] end)).
  - split; [discriminate|intro; discriminate].
  - destruct (if negb (rtype_matches RT_CNAME qt) then match alookup N.eqb RT_CNAME recs with Some l => l | None => [] end else []) as [|z t].
    + destruct (qt =? QT_Wildcard); [split; [discriminate|intro; discriminate]|].
      destruct (existsb _ qtype_table); split; try discriminate; intro; discriminate.
    + destruct (zr_data z); split; try discriminate; intro; discriminate.
Qed.

Lemma node_resolve_shape name qt : forall rp nd ia,
  node_resolve name qt rp nd ia <> OutOfFuel /\ (forall e, node_resolve name qt rp nd ia <> Err e).
Proof.
  induction rp as [|l rest IH]; intros nd ia; cbn [node_resolve].
  - apply zrh_shape.
  - destruct (alookup leqb l (n_children nd)) as [child|]; [apply IH|].
    destruct (n_wild nd) as [w|].
    + destruct (from_labels (l :: labels (n_nsdname nd))); [apply zrh_shape|].
      split; [discriminate|intro; discriminate].
    + destruct (alookup N.eqb RT_NS (n_this nd)) as [ns|]; [|split; [discriminate|intro; discriminate]].
      destruct (is_nil ns || ia); split; try discriminate; intro; discriminate.
Qed.

Lemma zones_resolve_shape zs name qt z r :
  zones_resolve zs name qt = Some (z, r) -> r <> OutOfFuel /\ (forall e, r <> Err e).
Proof.
  unfold zones_resolve. destruct (zones_get zs name) as [z0|]; [|discriminate].
  unfold zone_resolve. destruct (relative_rp z0 name) as [rp|]; cbn [option_map].
  - intro H; inversion H; subst. apply node_resolve_shape.
  - intro H; inversion H; subst. split; [discriminate|intro; discriminate].
Qed.

Lemma zones_resolve_get zs name qt z r : zones_resolve zs name qt = Some (z, r) -> zones_get zs name = Some z.
Proof.
  unfold zones_resolve. destruct (zones_get zs name) as [z0|]; [|discriminate].
  destruct (zone_resolve z0 name qt); intro H; inversion H; reflexivity.
Qed.

(* ================= fuel ================= *)

Section Fuel.
  Variable zs : zones.
  Variable cget : dname -> N -> list rr.

  Lemma zcombine_no_fuel r cq sub : sub <> OutOfFuel -> zcombine r cq sub <> OutOfFuel.
  Proof. destruct sub as [[[| |]| | |]| | |]; cbn; congruence. Qed.

  Lemma ccombine_no_fuel r c sub : sub <> OutOfFuel -> ccombine r c sub <> OutOfFuel.
  Proof. destruct sub as [[| | |]| | |]; cbn; congruence. Qed.

  Lemma local_step_no_fuel q sub : (forall n, sub n <> OutOfFuel) -> local_step zs cget q sub <> OutOfFuel.
  Proof.
    intro Hs. unfold local_step.
    assert (Hc : forall rrs, cache_phase cget q sub rrs <> OutOfFuel).
    { intro rrs. unfold cache_phase.
      assert (Hp : cache_part cget q sub <> OutOfFuel).
      { unfold cache_part. destruct (is_nil (cget (q_name q) (q_type q)) && negb (q_type q =? RT_CNAME)); [|discriminate].
        destruct (cget (q_name q) RT_CNAME) as [|cr t]; [discriminate|].
        destruct (if rr_type cr =? RT_CNAME then rr_data cr else RD_A 0); try discriminate.
        apply ccombine_no_fuel, Hs. }
      destruct (cache_part cget q sub) as [[rc fc]| | |]; try congruence; try discriminate.
      destruct (is_nil (prioritising_merge rrs rc)); [discriminate|].
      destruct fc; [discriminate|]. destruct (q_type q =? QT_Wildcard); discriminate. }
    unfold zone_phase. destruct (zones_resolve zs (q_name q) (q_type q)) as [[z r]|] eqn:E; [|apply Hc].
    destruct (zones_resolve_shape _ _ _ _ _ E) as [Hf _].
    destruct r as [zr| | |]; try discriminate; [|congruence].
    destruct zr as [rrs|c r|ns|].
    - destruct (zone_soa_rr z); [discriminate|].
      destruct (negb (q_type q =? QT_Wildcard) && negb (is_nil rrs)); [discriminate|apply Hc].
    - apply zcombine_no_fuel, Hs.
    - destruct (zone_soa_rr z); [|apply Hc]. destruct ns; discriminate.
    - destruct (zone_soa_rr z); [discriminate|apply Hc].
  Qed.

  Lemma at_limit_false stack : at_recursion_limit stack = false -> length stack <> 32%nat.
  Proof.
    unfold at_recursion_limit, llen, RECURSION_LIMIT. intros H E. rewrite E in H. discriminate.
  Qed.

  (* each recursive call pushes one question and the stack never exceeds RECURSION_LIMIT *)
  Lemma resolve_local_no_fuel : forall f stack q,
    (length stack <= 32)%nat -> (33 <= f + length stack)%nat ->
    resolve_local zs cget f stack q <> OutOfFuel.
  Proof.
    induction f as [|f IH]; intros stack q Hl Hf; [cbn in Hf; lia|].
    rewrite resolve_local_eq.
    destruct (at_recursion_limit stack) eqn:El; [discriminate|].
    destruct (is_duplicate_question stack q); [discriminate|].
    apply at_limit_false in El.
    apply local_step_no_fuel. intro n. apply IH; rewrite app_length; cbn [length]; lia.
  Qed.

  Lemma local_fuel_value : LOCAL_FUEL = 34%nat.
  Proof. reflexivity. Qed.

  Theorem no_fuel q : resolve_local zs cget LOCAL_FUEL [] q <> OutOfFuel.
  Proof. apply resolve_local_no_fuel; rewrite ?local_fuel_value; cbn [length]; lia. Qed.

  (* ================= panics come from the zone model only ================= *)

  Definition zone_panics : Prop := exists n qt z, zones_resolve zs n qt = Some (z, Panic).

  Lemma zcombine_panic r cq sub : zcombine r cq sub = Panic -> sub = Panic.
  Proof. destruct sub as [[[| |]| | |]| | |]; cbn; congruence. Qed.
  Lemma ccombine_panic r c sub : ccombine r c sub = Panic -> sub = Panic.
  Proof. destruct sub as [[| | |]| | |]; cbn; congruence. Qed.

  Lemma local_step_panic q sub : local_step zs cget q sub = Panic -> zone_panics \/ exists n, sub n = Panic.
  Proof.
    unfold local_step.
    assert (Hc : forall rrs, cache_phase cget q sub rrs = Panic -> exists n, sub n = Panic).
    { intro rrs. unfold cache_phase.
      assert (Hp : cache_part cget q sub = Panic -> exists n, sub n = Panic).
      { unfold cache_part. destruct (is_nil (cget (q_name q) (q_type q)) && negb (q_type q =? RT_CNAME)); [|discriminate].
        destruct (cget (q_name q) RT_CNAME) as [|cr t]; [discriminate|].
        destruct (if rr_type cr =? RT_CNAME then rr_data cr else RD_A 0) as [| c | | | | | |]; try discriminate.
        intro H. exists c. eapply ccombine_panic, H. }
      destruct (cache_part cget q sub) as [[rc fc]| | |]; try discriminate; [|intros _; apply Hp; reflexivity].
      destruct (is_nil (prioritising_merge rrs rc)); [discriminate|].
      destruct fc; [discriminate|]. destruct (q_type q =? QT_Wildcard); discriminate. }
    unfold zone_phase. destruct (zones_resolve zs (q_name q) (q_type q)) as [[z r]|] eqn:E; [|intro H; right; eapply Hc, H].
    destruct (zones_resolve_shape _ _ _ _ _ E) as [_ He].
    destruct r as [zr|e| |]; [|exfalso; eapply He; reflexivity| |].
    - destruct zr as [rrs|c r|ns|].
      + destruct (zone_soa_rr z); [discriminate|].
        destruct (negb (q_type q =? QT_Wildcard) && negb (is_nil rrs)); [discriminate|intro H; right; eapply Hc, H].
      + intro H. right. exists c. eapply zcombine_panic, H.
      + destruct (zone_soa_rr z); [|intro H; right; eapply Hc, H]. destruct ns; discriminate.
      + destruct (zone_soa_rr z); [discriminate|intro H; right; eapply Hc, H].
    - intros _. left. exists (q_name q), (q_type q), z. exact E.
    - discriminate.
  Qed.

  Lemma resolve_local_panic : forall f stack q, resolve_local zs cget f stack q = Panic -> zone_panics.
  Proof.
    induction f as [|f IH]; intros stack q H; [discriminate|].
    rewrite resolve_local_eq in H.
    destruct (at_recursion_limit stack); [discriminate|].
    destruct (is_duplicate_question stack q); [discriminate|].
    apply local_step_panic in H as [H|[n H]]; [exact H|eapply IH, H].
  Qed.
End Fuel.

(* ================= owned names are never referred elsewhere ================= *)

Lemma rmap_has_false t m : rmap_has t m = false ->
  is_nil (match alookup N.eqb t m with Some l => l | None => [] end) = true.
Proof. unfold rmap_has. destruct (alookup N.eqb t m) as [[|x l]|]; cbn; congruence. Qed.

Lemma zrh_no_delegation name qt recs nsd cd :
  cd = false \/ rmap_has RT_NS recs = false ->
  forall ns, zone_result_helper name qt recs nsd cd <> Ok (ZDelegation ns).
Proof.
  intros H ns. unfold zone_result_helper.
  assert (E : cd && negb (qt =? RT_NS) && negb (is_nil match alookup N.eqb RT_NS recs with Some l => l | None => [] end) = false).
  { destruct H as [->|H]; [reflexivity|]. rewrite (rmap_has_false _ _ H). cbn [negb]. rewrite andb_false_r. reflexivity. }
  rewrite E.
  destruct (if negb (rtype_matches RT_CNAME qt) then match alookup N.eqb RT_CNAME recs with Some l => l | None => [] end else []) as [|z t].
  - destruct (qt =? QT_Wildcard); [discriminate|]. destruct (existsb _ qtype_table); discriminate.
  - destruct (zr_data z); discriminate.
Qed.

Lemma node_resolve_no_delegation name qt : forall rp nd ia,
  (ia = false -> has_ns nd = false) ->
  (forall pre suf nd', rp = pre ++ suf -> node_at pre nd = Some nd' ->
     (pre <> [] -> has_ns nd' = false) /\ (suf <> [] -> wild_has_ns nd' = false)) ->
  forall ns, node_resolve name qt rp nd ia <> Ok (ZDelegation ns).
Proof.
  induction rp as [|l rest IH]; intros nd ia Hia Hpath ns; cbn [node_resolve].
  - apply zrh_no_delegation. destruct ia; [left; reflexivity|right; apply Hia; reflexivity].
  - destruct (alookup leqb l (n_children nd)) as [child|] eqn:Ec.
    + apply IH.
      * intros _. apply (Hpath [l] rest child); [reflexivity| |discriminate].
        cbn [node_at]. rewrite Ec. reflexivity.
      * intros pre suf nd' Hr Hn. destruct (Hpath (l :: pre) suf nd') as [Ha Hb].
        -- rewrite Hr. reflexivity.
        -- cbn [node_at]. rewrite Ec. exact Hn.
        -- split; [intros _; apply Ha; discriminate|exact Hb].
    + destruct (Hpath [] (l :: rest) nd eq_refl eq_refl) as [_ Hw].
      specialize (Hw ltac:(discriminate)). unfold wild_has_ns in Hw.
      destruct (n_wild nd) as [w|].
      * destruct (from_labels (l :: labels (n_nsdname nd))); [|discriminate].
        apply zrh_no_delegation. right. exact Hw.
      * destruct (alookup N.eqb RT_NS (n_this nd)) as [nsl|] eqn:En; [|discriminate].
        destruct ia; [rewrite orb_true_r; discriminate|].
        specialize (Hia eq_refl). unfold has_ns, rmap_has in Hia. rewrite En in Hia.
        destruct nsl; [discriminate|discriminate].
Qed.

Lemma owned_no_delegation zs n z qt r :
  owned_by zs n z -> zones_resolve zs n qt = Some (z, r) -> forall ns, r <> Ok (ZDelegation ns).
Proof.
  intros (Hg & _ & rp & Hrp & Hnd) H ns. unfold zones_resolve in H. rewrite Hg in H.
  unfold zone_resolve in H. rewrite Hrp in H. cbn [option_map] in H. inversion H; subst.
  apply node_resolve_no_delegation; [discriminate|].
  intros pre suf nd' E Hn. exact (Hnd pre suf nd' E Hn).
Qed.

Lemma zone_soa_rr_some z : z_soa z <> None -> exists s, zone_soa_rr z = Some s.
Proof. unfold zone_soa_rr. destruct (z_soa z) as [s|]; [intros _; eexists; reflexivity|congruence]. Qed.
Lemma zone_soa_rr_none z : zone_soa_rr z = None -> z_soa z = None.
Proof. unfold zone_soa_rr. destruct (z_soa z); [discriminate|reflexivity]. Qed.

Section Local1.
  Variable zs : zones.
  Variable cget : dname -> N -> list rr.

  Definition guards_pass (stack : list question) (q : question) : Prop :=
    at_recursion_limit stack = false /\ is_duplicate_question stack q = false.

  Lemma guards_pass_nil q : guards_pass [] q.
  Proof. split; reflexivity. Qed.

  Lemma resolve_local_step f stack q : guards_pass stack q ->
    resolve_local zs cget (S f) stack q =
    local_step zs cget q (fun name => resolve_local zs cget f (stack ++ [q]) (subq q name)).
  Proof. intros [H1 H2]. rewrite resolve_local_eq, H1, H2. reflexivity. Qed.

  (* ---------- C01.1 ---------- *)
  (* An owned name is answered from its zone alone: the zone's answer with the zone's SOA,
     a name error with the zone's SOA, or -- when the zone holds an alias for the name --
     a reply that starts with the zone's CNAME RR (the rest is the resolution of the
     target; D2: a chain leaving authority is answered non-authoritatively).  It is never
     a referral, never a cache lookup. *)
  Theorem auth_zone_alone f stack q z :
    owned_by zs (q_name q) z -> guards_pass stack q ->
    exists soa_rr, zone_soa_rr z = Some soa_rr /\
    exists r, zones_resolve zs (q_name q) (q_type q) = Some (z, r) /\
    match r with
    | Ok (ZAnswer rrs) => resolve_local zs cget (S f) stack q = Ok (LDone (Authoritative rrs soa_rr))
    | Ok ZNameError => resolve_local zs cget (S f) stack q = Ok (LDone (AuthoritativeNameError soa_rr))
    | Ok (ZCname c cr) =>
      resolve_local zs cget (S f) stack q =
      zcombine cr (subq q c) (resolve_local zs cget f (stack ++ [q]) (subq q c))
    | Ok (ZDelegation _) => False
    | Panic => resolve_local zs cget (S f) stack q = Panic
    | _ => False
    end.
  Proof.
    intros Ho Hg. pose proof Ho as (Hget & Hsoa & rp & Hrp & _).
    destruct (zone_soa_rr_some z Hsoa) as [s Hs]. exists s. split; [exact Hs|].
    assert (Hr : exists r, zones_resolve zs (q_name q) (q_type q) = Some (z, r)).
    { unfold zones_resolve. rewrite Hget. destruct (zone_resolve z (q_name q) (q_type q)); eexists; reflexivity. }
    destruct Hr as [r Hr]. exists r. split; [exact Hr|].
    rewrite (resolve_local_step f stack q Hg). unfold local_step, zone_phase. rewrite Hr.
    destruct (zones_resolve_shape _ _ _ _ _ Hr) as [Hf He].
    destruct r as [zr|e| |]; [|exact (He e eq_refl)|reflexivity|exact (Hf eq_refl)].
    destruct zr as [rrs|c cr|ns|]; rewrite ?Hs; try reflexivity.
    exact (owned_no_delegation zs (q_name q) z (q_type q) _ Ho Hr ns eq_refl).
  Qed.

  (* ---------- C01.3 ---------- *)
  Theorem override_exact f stack q z rrs :
    guards_pass stack q ->
    zones_resolve zs (q_name q) (q_type q) = Some (z, Ok (ZAnswer rrs)) ->
    z_soa z = None -> q_type q <> QT_Wildcard -> rrs <> [] ->
    resolve_local zs cget (S f) stack q = Ok (LDone (NonAuthoritative rrs None)).
  Proof.
    intros Hg Hr Hs Hq Hn. rewrite (resolve_local_step f stack q Hg). unfold local_step, zone_phase. rewrite Hr.
    unfold zone_soa_rr. rewrite Hs. cbn [option_map].
    apply N.eqb_neq in Hq. rewrite Hq. destruct rrs; [congruence|reflexivity].
  Qed.

  (* for ANY the zone's records come first and whatever the cache part gives is merged in behind them *)
  Theorem override_any f stack q z rrs l :
    guards_pass stack q ->
    zones_resolve zs (q_name q) (q_type q) = Some (z, Ok (ZAnswer rrs)) ->
    z_soa z = None -> q_type q = QT_Wildcard ->
    resolve_local zs cget (S f) stack q = Ok l ->
    exists from_cache,
      l = LPartial (prioritising_merge rrs from_cache) \/
      exists cq, l = LCname (prioritising_merge rrs from_cache) cq.
  Proof.
    intros Hg Hr Hs Hq. rewrite (resolve_local_step f stack q Hg). unfold local_step, zone_phase. rewrite Hr.
    unfold zone_soa_rr. rewrite Hs. cbn [option_map]. rewrite Hq.
    replace (QT_Wildcard =? QT_Wildcard) with true by reflexivity. cbn [negb andb].
    unfold cache_phase. rewrite Hq.
    replace (QT_Wildcard =? QT_Wildcard) with true by reflexivity.
    destruct (cache_part cget q _) as [[rc fc]|e| |]; try discriminate.
    destruct (is_nil (prioritising_merge rrs rc)); [discriminate|].
    destruct fc as [c|]; intro H; inversion H; subst; exists rc; [right; eexists; reflexivity|left; reflexivity].
  Qed.

End Local1.

Lemma owned_in_auth zs n : owned_auth zs n -> in_auth_zone zs n.
Proof. intros [z (Hg & Hs & _)]. exists z. split; assumption. Qed.

(* ---------- C01.2 ---------- *)
Section NonInterference.
  Variable zs : zones.
  Variables c1 c2 : dname -> N -> list rr.

  Lemma zone_phase_ext q s1 s2 : (forall n, s1 n = s2 n) -> zone_phase zs q s1 = zone_phase zs q s2.
  Proof.
    intro H. unfold zone_phase. destruct (zones_resolve zs (q_name q) (q_type q)) as [[z [zr| | |]]|]; try reflexivity.
    destruct zr; try reflexivity. rewrite H. reflexivity.
  Qed.

  Lemma zone_phase_continue q s rrs : zone_phase zs q s = ZContinue rrs -> ~ in_auth_zone zs (q_name q).
  Proof.
    unfold zone_phase. destruct (zones_resolve zs (q_name q) (q_type q)) as [[z r]|] eqn:E.
    - apply zones_resolve_get in E. intros H [z' [Hg Hs]]. rewrite E in Hg. inversion Hg; subst z'.
      destruct (zone_soa_rr_some z Hs) as [s' Hs']. rewrite Hs' in H.
      destruct r as [[| |ns|]| | |]; try discriminate. destruct ns; discriminate.
    - intros _ [z' [Hg _]]. unfold zones_resolve in E. rewrite Hg in E.
      destruct (zone_resolve z' (q_name q) (q_type q)); discriminate.
  Qed.

  Lemma cache_phase_ext q s1 s2 rrs :
    (forall n, s1 n = s2 n) -> (forall qt, c1 (q_name q) qt = c2 (q_name q) qt) ->
    cache_phase c1 q s1 rrs = cache_phase c2 q s2 rrs.
  Proof.
    intros Hs Hc. unfold cache_phase, cache_part. rewrite !Hc.
    destruct (is_nil (c2 (q_name q) (q_type q)) && negb (q_type q =? RT_CNAME)); [|reflexivity].
    destruct (c2 (q_name q) RT_CNAME) as [|cr t]; [reflexivity|].
    destruct (if rr_type cr =? RT_CNAME then rr_data cr else RD_A 0); try reflexivity.
    rewrite Hs. reflexivity.
  Qed.

  (* nothing cached is ever used for a name whose most specific zone is authoritative *)
  Theorem cache_noninterference :
    cache_agree_outside (in_auth_zone zs) c1 c2 ->
    forall f stack q, resolve_local zs c1 f stack q = resolve_local zs c2 f stack q.
  Proof.
    intro Hag. induction f as [|f IH]; intros stack q; [reflexivity|].
    rewrite !resolve_local_eq.
    destruct (at_recursion_limit stack); [reflexivity|].
    destruct (is_duplicate_question stack q); [reflexivity|].
    unfold local_step.
    rewrite (zone_phase_ext q _ (fun name => resolve_local zs c2 f (stack ++ [q]) (subq q name)))
      by (intro n; apply IH).
    destruct (zone_phase zs q _) as [r|rrs] eqn:E; [reflexivity|].
    apply cache_phase_ext; [intro n; apply IH|].
    intro qt. apply Hag. eapply zone_phase_continue, E.
  Qed.

  Corollary cache_noninterference_owned :
    cache_agree_outside (owned_auth zs) c1 c2 ->
    forall f stack q, resolve_local zs c1 f stack q = resolve_local zs c2 f stack q.
  Proof.
    intro H. apply cache_noninterference. intros n qt Hn. apply H. intro Ho. apply Hn, owned_in_auth, Ho.
  Qed.
End NonInterference.

(* less specific zones are never consulted: the zone consulted is the one with the longest apex
   enclosing the name, and the zone phase is that zone's own lookup *)
Theorem longest_zone_only zs n qt z r :
  wf_name n -> zones_resolve zs n qt = Some (z, r) ->
  (exists k, In (k, z) zs /\ is_suffix (labels k) (labels n) /\
     forall k' z', In (k', z') zs -> wf_name k' -> is_suffix (labels k') (labels n) ->
                   (length (labels k') <= length (labels k))%nat)
  /\ r = match zone_resolve z n qt with Some r' => r' | None => Panic end.
Proof.
  intros Hwf H. pose proof (zones_resolve_get _ _ _ _ _ H) as Hg. split.
  - exact (zones_get_longest_suffix zone zs n z Hwf Hg).
  - unfold zones_resolve in H. rewrite Hg in H. destruct (zone_resolve z n qt); inversion H; reflexivity.
Qed.

(* ---------- C01.3, the merge ---------- *)
Lemma subseq_filter {A} (f : A -> bool) l : subseq (filter f l) l.
Proof.
  induction l as [|x l IH]; cbn [filter]; [constructor|].
  destruct (f x); constructor; exact IH.
Qed.

Lemma merge_key_spec p r :
  existsb (fun x => dname_eqb (rr_name x) (rr_name r) && (rr_type x =? rr_type r)) p = true <->
  exists x, In x p /\ same_key x r.
Proof.
  rewrite existsb_exists. split; intros [x [Hin H]]; exists x; (split; [exact Hin|]).
  - apply andb_true_iff in H as [H1 H2]. apply dname_eqb_eq in H1. apply N.eqb_eq in H2. split; assumption.
  - destruct H as [H1 H2]. apply andb_true_iff. split; [apply dname_eqb_eq, H1|apply N.eqb_eq, H2].
Qed.

Theorem prioritising_merge_meets_spec priority new :
  prioritising_merge_spec priority new (prioritising_merge priority new).
Proof.
  unfold prioritising_merge_spec, prioritising_merge.
  eexists. split; [reflexivity|]. split; [apply subseq_filter|]. split.
  - intros r Hr p Hp Hk. apply filter_In in Hr as [_ Hr]. apply negb_true_iff in Hr.
    assert (E : existsb (fun x => dname_eqb (rr_name x) (rr_name r) && (rr_type x =? rr_type r)) priority = true)
      by (apply merge_key_spec; exists p; split; assumption).
    congruence.
  - intros r Hr Hno. apply filter_In. split; [exact Hr|]. apply negb_true_iff.
    destruct (existsb _ priority) eqn:E; [|reflexivity].
    apply merge_key_spec in E as [x [Hx Hk]]. exfalso. exact (Hno x Hx Hk).
Qed.

Lemma merge_nil_l new : prioritising_merge [] new = new.
Proof.
  unfold prioritising_merge. cbn [app existsb negb]. induction new as [|x t IH]; [reflexivity|].
  cbn [filter]. rewrite IH. reflexivity.
Qed.

(* ---------- C01.5 ---------- *)
Section NameError.
  Variable zs : zones.
  Variable cget : dname -> N -> list rr.

  Lemma zcombine_not_nxdomain r cq sub s : zcombine r cq sub <> Ok (LDone (AuthoritativeNameError s)).
  Proof. destruct sub as [[[| |]| | |]| | |]; cbn; congruence. Qed.

  Lemma cache_phase_shape q sub rrs l : cache_phase cget q sub rrs = Ok l ->
    (exists rr' cq, l = LCname rr' cq) \/ (exists rr', l = LPartial rr') \/ (exists rr', l = LDone (NonAuthoritative rr' None)).
  Proof.
    unfold cache_phase. destruct (cache_part cget q sub) as [[rc fc]| | |]; try discriminate.
    destruct (is_nil (prioritising_merge rrs rc)); [discriminate|].
    destruct fc as [c|].
    - intro H; inversion H; subst. left. eexists. eexists. reflexivity.
    - destruct (q_type q =? QT_Wildcard); intro H; inversion H; subst; right; [left|right]; eexists; reflexivity.
  Qed.

  (* a name error is reported only on the word of an authoritative zone, for the question name itself;
     in particular never through an alias: a CNAME whose target does not exist yields
     [Authoritative [cname] soa] *)
  Theorem nxdomain_only_from_auth_zone f stack q s :
    resolve_local zs cget f stack q = Ok (LDone (AuthoritativeNameError s)) ->
    exists z, zones_resolve zs (q_name q) (q_type q) = Some (z, Ok ZNameError) /\ zone_soa_rr z = Some s
              /\ in_auth_zone zs (q_name q).
  Proof.
    destruct f as [|f]; [discriminate|]. rewrite resolve_local_eq.
    destruct (at_recursion_limit stack); [discriminate|].
    destruct (is_duplicate_question stack q); [discriminate|].
    unfold local_step, zone_phase.
    destruct (zones_resolve zs (q_name q) (q_type q)) as [[z r]|] eqn:E.
    2:{ intro H. apply cache_phase_shape in H as [[? [? H]]|[[? H]|[? H]]]; discriminate. }
    assert (Hc : forall rrs, cache_phase cget q (fun name => resolve_local zs cget f (stack ++ [q]) (subq q name)) rrs
                             <> Ok (LDone (AuthoritativeNameError s))).
    { intros rrs H. apply cache_phase_shape in H as [[? [? H]]|[[? H]|[? H]]]; discriminate. }
    destruct r as [[rrs|c cr|ns|]| | |]; try discriminate.
    - destruct (zone_soa_rr z); [discriminate|].
      destruct (negb (q_type q =? QT_Wildcard) && negb (is_nil rrs)); [discriminate|intro H; elim (Hc _ H)].
    - intro H. elim (zcombine_not_nxdomain _ _ _ _ H).
    - destruct (zone_soa_rr z); [destruct ns; discriminate|intro H; elim (Hc _ H)].
    - destruct (zone_soa_rr z) as [s'|] eqn:Es; [|intro H; elim (Hc _ H)].
      intro H. inversion H; subst s'. exists z. split; [reflexivity|]. split; [exact Es|].
      exists z. split; [eapply zones_resolve_get, E|]. unfold zone_soa_rr in Es. destruct (z_soa z); [discriminate|discriminate].
  Qed.

  Corollary nxdomain_resolved q s :
    resolve_authoritative_only zs cget q = Ok (AuthoritativeNameError s) ->
    exists z, zones_resolve zs (q_name q) (q_type q) = Some (z, Ok ZNameError) /\ zone_soa_rr z = Some s
              /\ in_auth_zone zs (q_name q).
  Proof.
    unfold resolve_authoritative_only.
    destruct (resolve_local zs cget LOCAL_FUEL [] q) as [l| | |] eqn:E; try discriminate.
    destruct l as [[| |]| |? [|]|]; cbn [resolved_of_lresult]; try discriminate.
    intro H. inversion H; subst. eapply nxdomain_only_from_auth_zone, E.
  Qed.
End NameError.

Definition lresult_rrs (l : lresult) : list rr :=
  match l with
  | LDone r => resolved_rrs r
  | LPartial rrs => rrs
  | LDelegation rrs _ _ => rrs
  | LCname rrs _ => rrs
  end.

Definition is_referral (l : lresult) : Prop := match l with LDelegation _ _ _ => True | _ => False end.

Lemma resolved_of_lresult_rrs l : resolved_rrs (resolved_of_lresult l) = lresult_rrs l.
Proof. destruct l as [r| |? [s|] ?|]; reflexivity. Qed.

(* ---------- the invariant behind chain_ok ---------- *)

Definition chain_inv (stack : list question) (q : question) (rrs : list rr) : Prop :=
  exists cn fin last, rrs = cn ++ fin /\ chain_from (q_name q) cn = Some last /\ NoDup (map rr_name cn)
    /\ Forall (fun r => rr_name r = last /\ rr_type r = q_type q) fin
    /\ Forall (fun r => is_duplicate_question stack (subq q (rr_name r)) = false) cn.

Lemma chain_inv_ok stack q rrs : chain_inv stack q rrs -> chain_ok (q_name q) (q_type q) rrs.
Proof. intros (cn & fin & last & H1 & H2 & H3 & H4 & _). exists cn, fin, last. repeat split; assumption. Qed.

Lemma chain_fin stack q rrs :
  Forall (fun r => rr_name r = q_name q /\ rr_type r = q_type q) rrs -> chain_inv stack q rrs.
Proof.
  intro H. exists [], rrs, (q_name q). repeat split; try reflexivity; try constructor. exact H.
Qed.

Lemma dname_eqb_refl n : dname_eqb n n = true.
Proof. apply dname_eqb_eq. reflexivity. Qed.

Lemma is_dup_app stack q x :
  is_duplicate_question (stack ++ [q]) x = false ->
  is_duplicate_question stack x = false /\ question_eqb x q = false.
Proof.
  unfold is_duplicate_question. rewrite existsb_app. cbn [existsb]. rewrite orb_false_r.
  intro H. apply orb_false_iff in H. exact H.
Qed.

Lemma chain_single stack q r c :
  is_duplicate_question stack q = false ->
  rr_name r = q_name q -> rr_type r = RT_CNAME -> rr_data r = RD_Name c ->
  chain_inv stack q [r].
Proof.
  intros Hd Hn Ht Hdat. exists [r], [], c. split; [reflexivity|]. split.
  { cbn [chain_from]. rewrite Hn, dname_eqb_refl, Ht, Hdat. reflexivity. }
  split; [cbn [map]; constructor; [intros []|constructor]|]. split; [constructor|].
  constructor; [|constructor]. rewrite Hn, subq_self. exact Hd.
Qed.

Lemma chain_cons stack q r c rest :
  is_duplicate_question stack q = false ->
  rr_name r = q_name q -> rr_type r = RT_CNAME -> rr_data r = RD_Name c ->
  chain_inv (stack ++ [q]) (subq q c) rest ->
  chain_inv stack q (r :: rest).
Proof.
  intros Hd Hn Ht Hdat (cn & fin & last & H1 & H2 & H3 & H4 & H5). cbn [subq q_name q_type] in *.
  exists (r :: cn), fin, last. split; [rewrite H1; reflexivity|]. split.
  { cbn [chain_from]. rewrite Hn, dname_eqb_refl, Ht, Hdat. exact H2. }
  assert (Hne : forall r', In r' cn -> rr_name r' <> q_name q /\ is_duplicate_question stack (subq q (rr_name r')) = false).
  { intros r' Hin. rewrite Forall_forall in H5. specialize (H5 r' Hin).
    unfold subq in H5. cbn [q_type q_class] in H5. apply is_dup_app in H5 as [Ha Hb]. split; [|exact Ha].
    intro E. unfold question_eqb in Hb. cbn [q_name q_type q_class] in Hb.
    rewrite E, dname_eqb_refl, !N.eqb_refl in Hb. discriminate. }
  split.
  { cbn [map]. constructor; [|exact H3]. rewrite Hn. intro Hin. apply in_map_iff in Hin as [r' [E Hin]].
    destruct (Hne r' Hin) as [Hx _]. exact (Hx E). }
  split; [exact H4|].
  constructor; [rewrite Hn, subq_self; exact Hd|].
  apply Forall_forall. intros r' Hin. apply Hne, Hin.
Qed.

Section Chains.
  Variable zs : zones.
  Variable cget : dname -> N -> list rr.
  Hypothesis Hzones : zones_answers_ok zs.
  Hypothesis Hcache : cget_ok cget.

  Lemma zone_phase_continue_nil q sub rrs :
    q_type q <> QT_Wildcard -> zone_phase zs q sub = ZContinue rrs -> rrs = [].
  Proof.
    intros Hq. apply N.eqb_neq in Hq. unfold zone_phase.
    destruct (zones_resolve zs (q_name q) (q_type q)) as [[z [[rr0|c cr|ns|]| | |]]|]; try discriminate;
      try (destruct (zone_soa_rr z); try discriminate; try (destruct ns; discriminate); intro H; inversion H; reflexivity).
    - destruct (zone_soa_rr z); [discriminate|]. rewrite Hq. cbn [negb andb].
      destruct rr0; cbn [is_nil negb]; [intro H; inversion H; reflexivity|discriminate].
    - intro H; inversion H; reflexivity.
  Qed.

  (* the statement proved by induction on the fuel *)
  Definition chain_stmt (f : nat) : Prop :=
    forall stack q l, q_type q <> RT_CNAME -> q_type q <> QT_Wildcard ->
      resolve_local zs cget f stack q = Ok l -> ~ is_referral l -> chain_inv stack q (lresult_rrs l).

  Lemma zcombine_chain f stack q c cr l :
    chain_stmt f -> q_type q <> RT_CNAME -> q_type q <> QT_Wildcard ->
    is_duplicate_question stack q = false ->
    rr_name cr = q_name q -> rr_type cr = RT_CNAME -> rr_data cr = RD_Name c ->
    zcombine cr (subq q c) (resolve_local zs cget f (stack ++ [q]) (subq q c)) = Ok l ->
    chain_inv stack q (lresult_rrs l).
  Proof.
    intros IH Hq1 Hq2 Hd Hn Ht Hdat.
    destruct (resolve_local zs cget f (stack ++ [q]) (subq q c)) as [l'| | |] eqn:E; cbn [zcombine]; try discriminate.
    2:{ intro H; inversion H; subst. cbn [lresult_rrs]. eapply chain_single; eassumption. }
    assert (Hsub : ~ is_referral l' -> chain_inv (stack ++ [q]) (subq q c) (lresult_rrs l'))
      by (apply IH; assumption).
    destruct l' as [[rr' s|s|rr' s]|rr'|rr' s d|rr' cq]; cbn [is_referral lresult_rrs resolved_rrs] in Hsub;
      intro H; inversion H; subst; cbn [lresult_rrs resolved_rrs app];
      try (eapply chain_cons; try eassumption; apply Hsub; tauto);
      eapply chain_single; eassumption.
  Qed.

  Lemma ccombine_chain f stack q c cr rc fc :
    chain_stmt f -> q_type q <> RT_CNAME -> q_type q <> QT_Wildcard ->
    is_duplicate_question stack q = false ->
    rr_name cr = q_name q -> rr_type cr = RT_CNAME -> rr_data cr = RD_Name c ->
    ccombine cr c (resolve_local zs cget f (stack ++ [q]) (subq q c)) = Ok (rc, fc) ->
    chain_inv stack q rc.
  Proof.
    intros IH Hq1 Hq2 Hd Hn Ht Hdat.
    destruct (resolve_local zs cget f (stack ++ [q]) (subq q c)) as [l'| | |] eqn:E; cbn [ccombine]; try discriminate.
    2:{ intro H; inversion H; subst. eapply chain_single; eassumption. }
    assert (Hsub : ~ is_referral l' -> chain_inv (stack ++ [q]) (subq q c) (lresult_rrs l'))
      by (apply IH; assumption).
    destruct l' as [r'|rr'|rr' s d|rr' cq]; cbn [is_referral lresult_rrs] in Hsub;
      intro H; inversion H; subst; cbn [app];
      try (eapply chain_cons; try eassumption; apply Hsub; tauto);
      eapply chain_single; eassumption.
  Qed.

  Lemma chain_all : forall f, chain_stmt f.
  Proof.
    induction f as [|f IH]; intros stack q l Hq1 Hq2; [discriminate|].
    rewrite resolve_local_eq.
    destruct (at_recursion_limit stack); [discriminate|].
    destruct (is_duplicate_question stack q) eqn:Hd; [discriminate|].
    unfold local_step.
    destruct (zone_phase zs q _) as [r|rz] eqn:Ez.
    - (* the zone decides *)
      unfold zone_phase in Ez.
      destruct (zones_resolve zs (q_name q) (q_type q)) as [[z [zr| | |]]|] eqn:Er; try discriminate;
        try (inversion Ez; subst; discriminate).
      pose proof (Hzones _ _ _ _ Er) as Hz.
      destruct zr as [rr0|c cr|ns|].
      + destruct (zone_soa_rr z).
        * inversion Ez; subst. intro H; inversion H; subst. intros _. cbn [lresult_rrs resolved_rrs].
          apply chain_fin, Hz, Hq2.
        * destruct (negb (q_type q =? QT_Wildcard) && negb (is_nil rr0)); [|discriminate].
          inversion Ez; subst. intro H; inversion H; subst. intros _. cbn [lresult_rrs resolved_rrs].
          apply chain_fin, Hz, Hq2.
      + inversion Ez; subst. destruct Hz as (Hn & Ht & Hdat). intros H _.
        eapply zcombine_chain; eassumption.
      + destruct (zone_soa_rr z); [|discriminate]. destruct ns; inversion Ez; subst; [discriminate|].
        intro H; inversion H; subst. intro Hr. elim Hr. exact I.
      + destruct (zone_soa_rr z); [|discriminate]. inversion Ez; subst.
        intro H; inversion H; subst. intros _. cbn [lresult_rrs resolved_rrs]. apply chain_fin. constructor.
    - (* the cache decides; nothing came from the zone because the type is not ANY *)
      pose proof (zone_phase_continue_nil _ _ _ Hq2 Ez) as ->.
      unfold cache_phase.
      destruct (cache_part cget q _) as [[rc fc]| | |] eqn:Ec; try discriminate.
      rewrite merge_nil_l.
      assert (Hrc : chain_inv stack q rc).
      { unfold cache_part in Ec.
        destruct (is_nil (cget (q_name q) (q_type q)) && negb (q_type q =? RT_CNAME)).
        - pose proof (Hcache (q_name q) RT_CNAME ltac:(discriminate)) as Hcn.
          destruct (cget (q_name q) RT_CNAME) as [|cr t].
          + inversion Ec; subst. apply chain_fin, Hcache, Hq2.
          + inversion Hcn as [|? ? [Hn Ht] _]; subst.
            rewrite Ht, N.eqb_refl in Ec.
            destruct (rr_data cr) as [|c| | | | | |] eqn:Hdat; try discriminate.
            eapply ccombine_chain; eassumption.
        - inversion Ec; subst. apply chain_fin, Hcache, Hq2. }
      destruct (is_nil rc); [discriminate|].
      destruct fc as [c|].
      + intro H; inversion H; subst. intros _. exact Hrc.
      + apply N.eqb_neq in Hq2. rewrite Hq2. intro H; inversion H; subst. intros _. exact Hrc.
  Qed.

  (* ---------- C10 ---------- *)
  Theorem local_chain_ok f stack q l :
    q_type q <> RT_CNAME -> q_type q <> QT_Wildcard ->
    resolve_local zs cget f stack q = Ok l -> ~ is_referral l ->
    chain_ok (q_name q) (q_type q) (lresult_rrs l).
  Proof. intros H1 H2 H3 H4. eapply chain_inv_ok, chain_all; eassumption. Qed.
End Chains.

Section Loops.
  Variable zs : zones.
  Variable cget : dname -> N -> list rr.

  (* a referral is only ever the zone's own direct answer for the question name: an alias that runs
     into a delegation stops with the CNAMEs collected so far *)
  Lemma zcombine_not_referral r cq sub a b c : zcombine r cq sub <> Ok (LDelegation a b c).
  Proof. destruct sub as [[[| |]| | |]| | |]; cbn; congruence. Qed.

  Theorem referral_only_direct f stack q rrs soa d :
    resolve_local zs cget f stack q = Ok (LDelegation rrs soa d) ->
    exists z s, zones_resolve zs (q_name q) (q_type q) = Some (z, Ok (ZDelegation rrs))
                /\ zone_soa_rr z = Some s /\ soa = Some s.
  Proof.
    destruct f as [|f]; [discriminate|]. rewrite resolve_local_eq.
    destruct (at_recursion_limit stack); [discriminate|].
    destruct (is_duplicate_question stack q); [discriminate|].
    unfold local_step, zone_phase.
    assert (Hc : forall rz, cache_phase cget q (fun name => resolve_local zs cget f (stack ++ [q]) (subq q name)) rz
                            <> Ok (LDelegation rrs soa d)).
    { intros rz H. apply cache_phase_shape in H as [[? [? H]]|[[? H]|[? H]]]; discriminate. }
    destruct (zones_resolve zs (q_name q) (q_type q)) as [[z r]|] eqn:E; [|intro H; elim (Hc _ H)].
    destruct r as [[rr0|c cr|ns|]| | |]; try discriminate.
    - destruct (zone_soa_rr z); [discriminate|].
      destruct (negb (q_type q =? QT_Wildcard) && negb (is_nil rr0)); [discriminate|intro H; elim (Hc _ H)].
    - intro H. elim (zcombine_not_referral _ _ _ _ _ _ H).
    - destruct (zone_soa_rr z) as [s|] eqn:Es; [|intro H; elim (Hc _ H)].
      destruct ns; [discriminate|]. intro H; inversion H; subst. exists z, s. split; [reflexivity|]. split; [exact Es|reflexivity].
    - destruct (zone_soa_rr z); [discriminate|intro H; elim (Hc _ H)].
  Qed.

  (* loops and over-long chains never surface as errors of an inner question: RecursionLimit and
     DuplicateQuestion are only ever reported for the question asked, by its own two guards;
     inside a chain they end the chain (zcombine / ccombine turn them into a partial result) *)
  Lemma zcombine_not_err r cq sub e : zcombine r cq sub <> Err e.
  Proof. destruct sub as [[[| |]| | |]| | |]; cbn; congruence. Qed.
  Lemma ccombine_not_err r c sub e : ccombine r c sub <> Err e.
  Proof. destruct sub as [[| | |]| | |]; cbn; congruence. Qed.

  Lemma local_step_err q sub e : local_step zs cget q sub = Err e ->
    e = EDeadEnd q \/ (exists a, e = ELocalDelegationMissingNS a (q_name q)) \/ (exists t, e = ECacheTypeMismatch RT_CNAME t).
  Proof.
    unfold local_step.
    assert (Hc : forall rz, cache_phase cget q sub rz = Err e ->
       e = EDeadEnd q \/ (exists a, e = ELocalDelegationMissingNS a (q_name q)) \/ (exists t, e = ECacheTypeMismatch RT_CNAME t)).
    { intro rz. unfold cache_phase.
      destruct (cache_part cget q sub) as [[rc fc]|e'| |] eqn:Ec; try discriminate.
      - destruct (is_nil (prioritising_merge rz rc)); [intro H; inversion H; left; reflexivity|].
        destruct fc; [discriminate|]. destruct (q_type q =? QT_Wildcard); discriminate.
      - intro H; inversion H; subst e'. right; right. unfold cache_part in Ec.
        destruct (is_nil (cget (q_name q) (q_type q)) && negb (q_type q =? RT_CNAME)); [|discriminate].
        destruct (cget (q_name q) RT_CNAME) as [|cr t]; [discriminate|].
        destruct (if rr_type cr =? RT_CNAME then rr_data cr else RD_A 0);
          try (inversion Ec; eexists; reflexivity).
        elim (ccombine_not_err _ _ _ _ Ec). }
    unfold zone_phase. destruct (zones_resolve zs (q_name q) (q_type q)) as [[z r]|]; [|apply Hc].
    destruct r as [[rr0|c cr|ns|]| | |]; try discriminate.
    - destruct (zone_soa_rr z); [discriminate|].
      destruct (negb (q_type q =? QT_Wildcard) && negb (is_nil rr0)); [discriminate|apply Hc].
    - intro H. elim (zcombine_not_err _ _ _ _ H).
    - destruct (zone_soa_rr z); [|apply Hc]. destruct ns; [|discriminate].
      intro H; inversion H. right; left. eexists. reflexivity.
    - destruct (zone_soa_rr z); [discriminate|apply Hc].
  Qed.

  Theorem loops_end f stack q e :
    resolve_local zs cget f stack q = Err e ->
    (e = ERecursionLimit /\ at_recursion_limit stack = true) \/
    (e = EDuplicateQuestion q /\ is_duplicate_question stack q = true) \/
    e = EDeadEnd q \/ (exists a, e = ELocalDelegationMissingNS a (q_name q)) \/
    (exists t, e = ECacheTypeMismatch RT_CNAME t).
  Proof.
    destruct f as [|f]; [discriminate|]. rewrite resolve_local_eq.
    destruct (at_recursion_limit stack); [intro H; inversion H; left; split; reflexivity|].
    destruct (is_duplicate_question stack q); [intro H; inversion H; right; left; split; reflexivity|].
    intro H. right; right. eapply local_step_err, H.
  Qed.

  (* asked from an empty stack (as resolve() does), a question never fails with RecursionLimit or
     DuplicateQuestion, whatever loops the data contains *)
  Corollary loops_end_top f q e :
    resolve_local zs cget f [] q = Err e -> e <> ERecursionLimit /\ forall q', e <> EDuplicateQuestion q'.
  Proof.
    intro H. apply loops_end in H as [[_ H]|[[_ H]|[H|[[a H]|[t H]]]]]; try discriminate; subst; split; try discriminate;
      intro; discriminate.
  Qed.

  (* the question stack never holds a question twice and never more than RECURSION_LIMIT *)
  Definition stack_ok (stack : list question) : Prop :=
    (length stack <= 32)%nat /\ NoDup stack /\
    forall a b, In a stack -> In b stack -> question_eqb a b = true -> a = b.

  Lemma question_eqb_eq a b : question_eqb a b = true <-> a = b.
  Proof.
    unfold question_eqb. rewrite !andb_true_iff, dname_eqb_eq, !N.eqb_eq.
    destruct a as [n1 t1 c1], b as [n2 t2 c2]; cbn [q_name q_type q_class]. split; [intros [[-> ->] ->]; reflexivity|intro H; inversion H; auto].
  Qed.

  Theorem stack_never_repeats stack q :
    stack_ok stack -> guards_pass stack q -> stack_ok (stack ++ [q]).
  Proof.
    intros (Hl & Hnd & _) [H1 H2]. apply at_limit_false in H1.
    assert (Hnin : ~ In q stack).
    { intro Hin. unfold is_duplicate_question in H2.
      assert (E : existsb (question_eqb q) stack = true)
        by (apply existsb_exists; exists q; split; [exact Hin|apply question_eqb_eq; reflexivity]).
      congruence. }
    split; [rewrite app_length; cbn [length]; lia|]. split.
    - clear - Hnd Hnin. induction stack as [|x t IH]; cbn [app]; [constructor; [intros []|constructor]|].
      inversion Hnd; subst. constructor.
      + rewrite in_app_iff. intros [Hx|[Hx|[]]]; [contradiction|]. subst. apply Hnin. left. reflexivity.
      + apply IH; [assumption|]. intro Hq. apply Hnin. right. exact Hq.
    - intros a b _ _ E. apply question_eqb_eq, E.
  Qed.
End Loops.

(* ================= discharging [zones_answers_ok] from a checkable invariant =================
   Every record map of the tree files each record under its own type.  Zone::new / insert /
   insert_wildcard / merge keep this (they key by rtype_with_data.rtype()); for a concrete zone set
   it is decided by computation. *)

Definition rmap_typedb (m : rmap) : bool :=
  forallb (fun kv => forallb (fun z => zr_type z =? fst kv) (snd kv)) m.

Fixpoint node_typedb (nd : node) : bool :=
  match nd with
  | Node _ this wild children =>
    rmap_typedb this && match wild with Some w => rmap_typedb w | None => true end
    && (fix go (cs : list (label * node)) : bool :=
          match cs with [] => true | (_, c) :: t => node_typedb c && go t end) children
  end.

Definition zones_typedb (zs : zones) : bool := forallb (fun kz => node_typedb (z_records (snd kz))) zs.

Lemma rmap_typed_lookup m t l : rmap_typedb m = true -> alookup N.eqb t m = Some l ->
  Forall (fun z => zr_type z = t) l.
Proof.
  unfold rmap_typedb. induction m as [|[k v] m IH]; cbn [forallb alookup]; [discriminate|].
  intros H. apply andb_true_iff in H as [H1 H2].
  destruct (t =? k) eqn:E.
  - apply N.eqb_eq in E. subst k. intro H; inversion H; subst. cbn [fst snd] in H1.
    apply Forall_forall. intros z Hz. rewrite forallb_forall in H1. apply N.eqb_eq, H1, Hz.
  - apply IH, H2.
Qed.

Lemma zrh_typed name qt recs nsd cd zr : rmap_typedb recs = true ->
  zone_result_helper name qt recs nsd cd = Ok zr ->
  match zr with
  | ZAnswer rrs => qt <> QT_Wildcard -> Forall (fun r => rr_name r = name /\ rr_type r = qt) rrs
  | ZCname c r => rr_name r = name /\ rr_type r = RT_CNAME /\ rr_data r = RD_Name c
  | _ => True
  end.
Proof.
  intro Ht. unfold zone_result_helper.
  destruct (cd && negb (qt =? RT_NS) && negb (is_nil match alookup N.eqb RT_NS recs with Some l => l | None => [] end)).
  { intro H; inversion H; exact I. }
  destruct (if negb (rtype_matches RT_CNAME qt) then match alookup N.eqb RT_CNAME recs with Some l => l | None => [] end else []) as [|z t] eqn:Ec.
  - destruct (qt =? QT_Wildcard) eqn:Eq.
    + intro H; inversion H; subst. intro Hq. apply N.eqb_eq in Eq. contradiction.
    + destruct (existsb _ qtype_table); intro H; inversion H; subst; intros _; [constructor|].
      destruct (alookup N.eqb qt recs) as [l|] eqn:El; [|constructor].
      pose proof (rmap_typed_lookup _ _ _ Ht El) as Hl. apply Forall_forall. intros r Hr.
      apply in_map_iff in Hr as [z [<- Hz]]. rewrite Forall_forall in Hl. split; [reflexivity|apply Hl, Hz].
  - destruct (negb (rtype_matches RT_CNAME qt)); [|discriminate].
    destruct (alookup N.eqb RT_CNAME recs) as [l|] eqn:El; [|discriminate]. subst l.
    pose proof (rmap_typed_lookup _ _ _ Ht El) as Hl. inversion Hl; subst.
    destruct (zr_data z) eqn:Ed; try discriminate. intro H; inversion H; subst.
    cbn [zr_to_rr rr_name rr_type rr_data]. repeat split; assumption.
Qed.

Lemma node_typed_parts nd : node_typedb nd = true ->
  rmap_typedb (n_this nd) = true /\ (forall w, n_wild nd = Some w -> rmap_typedb w = true) /\
  forall l c, alookup leqb l (n_children nd) = Some c -> node_typedb c = true.
Proof.
  destruct nd as [nsd this wild children]. cbn [node_typedb n_this n_wild n_children].
  intro H. apply andb_true_iff in H as [H H3]. apply andb_true_iff in H as [H1 H2].
  split; [exact H1|]. split.
  - intros w E. subst wild. exact H2.
  - clear H1 H2. induction children as [|[k c0] t IH]; intros l c; cbn [alookup]; [discriminate|].
    apply andb_true_iff in H3 as [Ha Hb]. destruct (leqb l k).
    + intro E; inversion E; subst. exact Ha.
    + apply IH, Hb.
Qed.

Lemma node_resolve_typed name qt : forall rp nd ia zr, node_typedb nd = true ->
  node_resolve name qt rp nd ia = Ok zr ->
  match zr with
  | ZAnswer rrs => qt <> QT_Wildcard -> Forall (fun r => rr_name r = name /\ rr_type r = qt) rrs
  | ZCname c r => rr_name r = name /\ rr_type r = RT_CNAME /\ rr_data r = RD_Name c
  | _ => True
  end.
Proof.
  induction rp as [|l rest IH]; intros nd ia zr Ht; cbn [node_resolve];
    destruct (node_typed_parts nd Ht) as (H1 & H2 & H3).
  - apply zrh_typed, H1.
  - destruct (alookup leqb l (n_children nd)) as [c|] eqn:Ec; [apply IH; eapply H3, Ec|].
    destruct (n_wild nd) as [w|] eqn:Ew.
    + destruct (from_labels (l :: labels (n_nsdname nd))); [|discriminate]. apply zrh_typed, H2. reflexivity.
    + destruct (alookup N.eqb RT_NS (n_this nd)) as [ns|]; [|intro H; inversion H; exact I].
      destruct (is_nil ns || ia); intro H; inversion H; exact I.
Qed.

Lemma zones_get_in {Z} (zs : list (dname * Z)) n z : zones_get zs n = Some z -> exists k, In (k, z) zs.
Proof.
  intro H. destruct (zones_loop_spec zs z (labels n) H) as (ls & nm & _ & _ & Hlk & _).
  exists nm. apply alookup_some, Hlk.
Qed.

Theorem zones_typed_answers_ok zs : zones_typedb zs = true -> zones_answers_ok zs.
Proof.
  intros Ht name qt z zr H. pose proof (zones_resolve_get _ _ _ _ _ H) as Hg.
  destruct (zones_get_in zs name z Hg) as [k Hin].
  unfold zones_typedb in Ht. rewrite forallb_forall in Ht. specialize (Ht _ Hin). cbn [snd] in Ht.
  unfold zones_resolve in H. rewrite Hg in H. unfold zone_resolve in H.
  destruct (relative_rp z name) as [rp|]; cbn [option_map] in H; inversion H as [H'].
  eapply node_resolve_typed; eassumption.
Qed.

(* ================= a worked configuration: the hypotheses are satisfiable ================= *)
Module LocalExample.
  Definition mk (ls : list label) : dname :=
    match from_labels (ls ++ [[]]) with Some n => n | None => root_domain end.
  Definition unres {A} (d : A) (r : res unit A) : A := match r with Ok x => x | _ => d end.
  Definition ins (wild : bool) (n : dname) (t : N) (d : rdata) (z : zone) : zone :=
    unres z (zone_insert wild z n t d 300).

  (* labels: c = "c", e = "e", w = "w", a = "a", l = "l", s = "s", t = "t", b = "b", x = "x" *)
  Definition n_c := mk [[99]].
  Definition n_ec := mk [[101]; [99]].
  Definition n_wec := mk [[119]; [101]; [99]].
  Definition n_aec := mk [[97]; [101]; [99]].
  Definition n_lec := mk [[108]; [101]; [99]].
  Definition n_sec := mk [[115]; [101]; [99]].
  Definition n_xsec := mk [[120]; [115]; [101]; [99]].
  Definition n_tc := mk [[116]; [99]].
  Definition n_bc := mk [[98]; [99]].

  Definition ex_soa : soa :=
    {| soa_mname := n_ec; soa_rname := n_ec; soa_serial := 1; soa_refresh := 2; soa_retry := 3;
       soa_expire := 4; soa_minimum := 60 |}.

  (* "." hosts-style, non-authoritative, with a blocklist entry; "e.c." authoritative with an address,
     an alias leaving the zone, a self-loop and a delegation *)
  Definition z_root : zone := ins false n_bc RT_A (RD_A 0) (zone_new root_domain None).
  Definition z_ec : zone :=
    ins false n_sec RT_NS (RD_Name n_xsec)
      (ins false n_lec RT_CNAME (RD_Name n_lec)
         (ins false n_aec RT_CNAME (RD_Name n_tc)
            (ins false n_wec RT_A (RD_A 1) (zone_new n_ec (Some ex_soa))))).
  Definition ex_zones : zones := zones_insert (zones_insert [] z_root) z_ec.

  Definition arr (n : dname) (a : N) : rr := {| rr_name := n; rr_type := RT_A; rr_class := RC_IN; rr_ttl := 30; rr_data := RD_A a |}.
  Definition cget_of (l : list rr) : dname -> N -> list rr :=
    fun n qt => filter (fun r => dname_eqb (rr_name r) n && rtype_matches (rr_type r) qt) l.
  (* the cache knows the alias target, and holds entries for names local data answers *)
  Definition ex_cache := [arr n_tc 7; arr n_wec 9; arr n_bc 5].
  Definition ex_cget := cget_of ex_cache.
  Definition ex_cget' := cget_of [arr n_tc 7; arr n_bc 5].

  Definition qa (n : dname) : question := {| q_name := n; q_type := RT_A; q_class := 1 |}.
  Definition soa_rr : rr := soa_to_rr ex_soa n_ec.

  Example ex_owned : owned_by ex_zones n_wec z_ec.
  Proof.
    split; [reflexivity|]. split; [discriminate|]. exists [[119]]. split; [reflexivity|].
    intros pre suf nd E Hn. destruct pre as [|l1 [|l2 pre]].
    - cbn [node_at] in Hn. inversion Hn; subst nd. split; [intro H; exfalso; apply H; reflexivity|intros _; reflexivity].
    - cbn [app] in E. inversion E; subst l1 suf. vm_compute in Hn. inversion Hn; subst nd.
      split; [intros _; reflexivity|intro H; exfalso; apply H; reflexivity].
    - cbn [app] in E. inversion E.
  Qed.

  (* C01: the authoritative zone answers alone, whatever the cache holds for that name *)
  Example ex_auth_alone :
    resolve_local ex_zones ex_cget LOCAL_FUEL [] (qa n_wec)
    = Ok (LDone (Authoritative [{| rr_name := n_wec; rr_type := RT_A; rr_class := RC_IN; rr_ttl := 300; rr_data := RD_A 1 |}] soa_rr)).
  Proof. vm_compute. reflexivity. Qed.

  (* C01: the blocklist entry of the non-authoritative zone overrides the cached address *)
  Example ex_override :
    resolve_local ex_zones ex_cget LOCAL_FUEL [] (qa n_bc)
    = Ok (LDone (NonAuthoritative [{| rr_name := n_bc; rr_type := RT_A; rr_class := RC_IN; rr_ttl := 300; rr_data := RD_A 0 |}] None)).
  Proof. vm_compute. reflexivity. Qed.

  (* C10 / D2: an alias leaving authority is followed into the cache; the reply is the chain in order *)
  Example ex_chain :
    resolve_local ex_zones ex_cget LOCAL_FUEL [] (qa n_aec)
    = Ok (LDone (NonAuthoritative
                   [{| rr_name := n_aec; rr_type := RT_CNAME; rr_class := RC_IN; rr_ttl := 300; rr_data := RD_Name n_tc |};
                    arr n_tc 7] None)).
  Proof. vm_compute. reflexivity. Qed.

  (* C10: a loop ends in a partial chain *)
  Example ex_loop :
    resolve_local ex_zones ex_cget LOCAL_FUEL [] (qa n_lec)
    = Ok (LCname [{| rr_name := n_lec; rr_type := RT_CNAME; rr_class := RC_IN; rr_ttl := 300; rr_data := RD_Name n_lec |}] (qa n_lec)).
  Proof. vm_compute. reflexivity. Qed.

  (* F12 (C09): a direct referral puts the NS records in the answer *)
  Example ex_referral : exists d,
    resolve_local ex_zones ex_cget LOCAL_FUEL [] (qa n_xsec)
    = Ok (LDelegation [{| rr_name := n_sec; rr_type := RT_NS; rr_class := RC_IN; rr_ttl := 300; rr_data := RD_Name n_xsec |}] (Some soa_rr) d).
  Proof. eexists. vm_compute. reflexivity. Qed.

  Example ex_zones_typed : zones_typedb ex_zones = true.
  Proof. vm_compute. reflexivity. Qed.

  Lemma rtype_matches_eq t qt : qt <> QT_Wildcard -> rtype_matches t qt = true -> t = qt.
  Proof.
    intro H. apply N.eqb_neq in H. unfold rtype_matches. rewrite H.
    destruct (existsb _ qtype_table); [discriminate|]. apply N.eqb_eq.
  Qed.

  Lemma cget_of_ok l : cget_ok (cget_of l).
  Proof.
    intros n qt Hq. unfold cget_of. apply Forall_forall. intros r Hr. apply filter_In in Hr as [_ Hr].
    apply andb_true_iff in Hr as [H1 H2]. split; [apply dname_eqb_eq, H1|apply rtype_matches_eq; assumption].
  Qed.

  (* the two cache functions differ at a name the authoritative zone owns, and only there *)
  Example ex_agree : cache_agree_outside (in_auth_zone ex_zones) ex_cget ex_cget'.
  Proof.
    intros n qt Hn. unfold ex_cget, ex_cget', cget_of, ex_cache. cbn [filter].
    destruct (dname_eqb (rr_name (arr n_wec 9)) n) eqn:E; [|reflexivity].
    exfalso. apply Hn. apply dname_eqb_eq in E. subst n. exists z_ec. split; [reflexivity|discriminate].
  Qed.
  Example ex_differ : ex_cget n_wec RT_A <> ex_cget' n_wec RT_A.
  Proof. vm_compute. discriminate. Qed.
End LocalExample.

(* ================= resolve(), authoritative-only mode ================= *)
Section Top.
  Variable zs : zones.
  Variable cget : dname -> N -> list rr.

  Theorem authoritative_only_total q :
    resolve_authoritative_only zs cget q <> OutOfFuel /\
    (resolve_authoritative_only zs cget q = Panic -> zone_panics zs).
  Proof.
    unfold resolve_authoritative_only. pose proof (no_fuel zs cget q) as Hf.
    destruct (resolve_local zs cget LOCAL_FUEL [] q) as [l|e| |] eqn:E; split; try discriminate; try congruence.
    intros _. eapply resolve_local_panic, E.
  Qed.

  Theorem authoritative_only_chain_ok q r :
    zones_answers_ok zs -> cget_ok cget -> q_type q <> RT_CNAME -> q_type q <> QT_Wildcard ->
    (forall z ns, zones_resolve zs (q_name q) (q_type q) <> Some (z, Ok (ZDelegation ns))) ->
    resolve_authoritative_only zs cget q = Ok r ->
    chain_ok (q_name q) (q_type q) (resolved_rrs r).
  Proof.
    intros Hz Hc H1 H2 Hnr. unfold resolve_authoritative_only.
    destruct (resolve_local zs cget LOCAL_FUEL [] q) as [l|e| |] eqn:E; try discriminate.
    intro H; inversion H; subst r. rewrite resolved_of_lresult_rrs.
    eapply local_chain_ok; try eassumption.
    destruct l as [| |rrs soa d|]; cbn [is_referral]; try tauto.
    intros _. apply referral_only_direct in E as (z & s & E & _). exact (Hnr z rrs E).
  Qed.
End Top.
