(* Resolver/RecursiveCorrect.v -- towards C07_correct: what the recursive resolver model makes of
   the replies the specification [Universe.serve] prescribes.

   Proved here, for every universe (no restriction to worked examples):
   * completeness of the reply filter on the three shapes of reply an authoritative server gives
     (C06 proves its soundness): a plain answer, a denial with the zone's SOA, a referral;
   * [serve] and [auth_answer] agree at the zone that owns the question name (no cut, no alias);
   * the LAST HOP of a recursive resolution: when the candidate nameserver the loop picks has an
     address at which a server of the zone owning the question name listens, and the transport
     delivers what [serve] prescribes, the loop returns exactly [auth_answer] -- the records of the
     asked type at the name, or no records and the zone's SOA.
   Together with referral_progress (Resolver/RecursiveProofs.v: every earlier hop follows a
   strictly deeper referral) this is the skeleton of the induction for C07_correct_partial; what is
   still missing is stated in Properties/C07.v. *)
From RV Require Import Base.Prelude Name.NameModel Name.NameSpec Name.NameProofs
     Wire.WireTypes Wire.WireModel Wire.WireModelFacts Wire.WireGrammar Wire.WireEncodeProofs Wire.WireDecodeProofs
     Zone.ZoneModel Resolver.LocalModel Resolver.LocalSpec Resolver.LocalProofs
     Resolver.ValidateModel Resolver.ValidateSpec Resolver.ValidateProofs
     Resolver.TransportModel Resolver.RecursiveModel Resolver.RecursiveProofs Resolver.Universe Resolver.ResolverFacts.
Set Default Timeout 120.

(* ====================================================================== *)
(* 1. the filter accepts what an authoritative server says                  *)
(* ====================================================================== *)

Definition msg (q : question) (aa : bool) (rcode : N) (an au ad : list rr) : message :=
  reply_message q {| sr_answers := an; sr_authority := au; sr_additional := ad; sr_aa := aa; sr_rcode := rcode |}.

(* records of a plain answer: known type and class, owned by the question name, of the asked
   type, no alias *)
Definition plain_rr (q : question) (r : rr) : Prop :=
  rr_is_unknown r = false /\ rr_name r = q_name q /\ rtype_matches (rr_type r) (q_type q) = true
  /\ rr_type r <> RT_CNAME.

Lemma is_cname_rr_none r : rr_type r <> RT_CNAME -> is_cname_rr r = None.
Proof. intro H. unfold is_cname_rr. apply N.eqb_neq in H. rewrite H. reflexivity. Qed.

Lemma cname_scan_plain q : forall ans got, Forall (plain_rr q) ans ->
  cname_scan ans (q_name q) (q_type q) got [] = (got || negb (is_nil ans), []).
Proof.
  induction ans as [|r ans IH]; intros got H; cbn [cname_scan is_nil negb]; [rewrite orb_false_r; reflexivity|].
  inversion H as [|? ? (H1 & H2 & H3 & H4) Hrest]; subst.
  rewrite H1, (is_cname_rr_none r H4), H2, H3.
  replace (dname_eqb (q_name q) (q_name q)) with true by (symmetry; apply dname_eqb_eq; reflexivity).
  cbn [andb]. rewrite (IH _ Hrest). rewrite orb_true_r. cbn [orb]. reflexivity.
Qed.

Lemma follow_plain q ans : Forall (plain_rr q) ans -> ans <> [] ->
  follow_cnames ans (q_name q) (q_type q) = Ok (Some (q_name q, [])).
Proof.
  intros H Hne. unfold follow_cnames. rewrite (cname_scan_plain q ans false H).
  destruct ans as [|r ans]; [congruence|]. cbn [is_nil negb orb].
  destruct (q_type q =? RT_CNAME) eqn:E; [reflexivity|]. cbn [length cname_walk alookup is_nil negb orb]. reflexivity.
Qed.

Theorem validate_plain_answer q aa rcode ans au ad mc :
  Forall (plain_rr q) ans -> ans <> [] ->
  validate_nameserver_response q (msg q aa rcode ans au ad) mc = Ok (Some (NRAnswer ans None)).
Proof.
  intros H Hne. unfold validate_nameserver_response, msg, reply_message. cbn [m_answers m_authority m_additional sr_answers sr_authority sr_additional].
  rewrite (follow_plain q ans H Hne). cbn [length path_cnames].
  replace (dname_eqb (q_name q) (q_name q)) with true by (symmetry; apply dname_eqb_eq; reflexivity).
  cbn [app].
  assert (Hf : filter (fun an => negb (rr_is_unknown an) && rtype_matches (rr_type an) (q_type q)
                                 && dname_eqb (rr_name an) (q_name q)) ans = ans).
  { clear Hne. induction ans as [|r ans IH]; [reflexivity|]. inversion H as [|? ? (H1 & H2 & H3 & H4) Hrest]; subst.
    cbn [filter]. rewrite H1, H3, H2.
    replace (dname_eqb (q_name q) (q_name q)) with true by (symmetry; apply dname_eqb_eq; reflexivity).
    cbn [negb andb]. f_equal. apply IH, Hrest. }
  rewrite Hf.
  destruct ans as [|r ans]; [congruence|]. inversion H as [|? ? (H1 & _) _]; subst.
  cbn [forallb is_nil negb]. rewrite H1. cbn [andb]. reflexivity.
Qed.

(* a denial: no answers, the zone's SOA alone in the authority section *)
Theorem validate_denial q aa rcode soa ad mc :
  (rcode = RCODE_NoError \/ rcode = RCODE_NameError) ->
  rr_type soa = RT_SOA -> is_subdomain_of (q_name q) (rr_name soa) = true -> mc <= llen (labels (rr_name soa)) ->
  validate_nameserver_response q (msg q aa rcode [] [soa] ad) mc = Ok (Some (NRAnswer [] (Some soa))).
Proof.
  intros Hrc Ht Hsub Hmc. unfold validate_nameserver_response, msg, reply_message. cbn [m_answers m_authority m_additional sr_answers sr_authority sr_additional].
  assert (Hf : follow_cnames [] (q_name q) (q_type q) = Ok None).
  { unfold follow_cnames. cbn [cname_scan]. destruct (q_type q =? RT_CNAME); reflexivity. }
  rewrite Hf. unfold get_better_ns_names. cbn [better_ns_loop].
  assert (Hns : is_ns_rr soa = None).
  { unfold is_ns_rr. rewrite Ht. reflexivity. }
  rewrite Hns. cbn [better_ns_loop].
  unfold get_nxdomain_nodata_soa. cbn [m_answers m_authority m_header h_rcode sr_answers sr_authority sr_rcode is_nil negb find_single_soa].
  rewrite Ht. cbn [N.eqb]. replace (RT_SOA =? RT_SOA) with true by reflexivity. cbn [find_single_soa].
  rewrite Hsub. cbn [negb].
  assert (Hrc' : negb ((rcode =? RCODE_NameError) || (rcode =? RCODE_NoError)) = false).
  { destruct Hrc as [-> | ->]; reflexivity. }
  rewrite Hrc'.
  assert (Hlt : (llen (labels (rr_name soa)) <? mc) = false) by (apply N.ltb_ge; exact Hmc).
  rewrite Hlt. reflexivity.
Qed.

(* a referral: NS records of one delegation point enclosing the question name, deeper than the
   delegation in use, in the authority section *)
Definition referral_ns (q : question) (c : dname) (r : rr) : Prop :=
  rr_name r = c /\ exists h, is_ns_rr r = Some h.

Lemma better_ns_same q c : forall ns names, Forall (referral_ns q c) ns -> is_subdomain_of (q_name q) c = true ->
  exists names', better_ns_loop ns (q_name q) (llen (labels c)) (Some c) names = (Some c, names')
                 /\ (forall h, In h names' <-> In h names \/ exists r, In r ns /\ is_ns_rr r = Some h).
Proof.
  induction ns as [|r ns IH]; intros names H Hsub; cbn [better_ns_loop].
  - exists names. split; [reflexivity|]. intro h. split; [auto|]. intros [H1|[r [[] _]]]. exact H1.
  - inversion H as [|? ? [Hn [h0 Hh]] Hrest]; subst. rewrite Hh, Hsub.
    rewrite N.ltb_irrefl, N.eqb_refl.
    destruct (IH (set_insert h0 names) Hrest Hsub) as [names' [E Hin]]. exists names'. split; [exact E|].
    intro h. rewrite Hin, set_insert_in. split.
    + intros [[->|H1]|[r' [H1 H2]]]; [right; exists r; split; [left; reflexivity|exact Hh]|left; exact H1|right; exists r'; split; [right; exact H1|exact H2]].
    + intros [H1|[r' [[<-|H1] H2]]]; [left; right; exact H1|left; left; congruence|right; exists r'; auto].
Qed.

Theorem validate_referral q aa rcode c ns ad mc :
  ns <> [] -> Forall (referral_ns q c) ns -> is_subdomain_of (q_name q) c = true -> mc < llen (labels c) ->
  exists rrs names,
    validate_nameserver_response q (msg q aa rcode [] ns ad) mc
    = Ok (Some (NRDelegation rrs {| ns_hostnames := names; ns_name := c |}))
    /\ (forall h, In h names <-> exists r, In r ns /\ is_ns_rr r = Some h).
Proof.
  intros Hne H Hsub Hmc. unfold validate_nameserver_response, msg, reply_message. cbn [m_answers m_authority m_additional sr_answers sr_authority sr_additional].
  assert (Hf : follow_cnames [] (q_name q) (q_type q) = Ok None).
  { unfold follow_cnames. cbn [cname_scan]. destruct (q_type q =? RT_CNAME); reflexivity. }
  rewrite Hf. unfold get_better_ns_names at 1. cbn [better_ns_loop].
  destruct ns as [|r ns]; [congruence|]. inversion H as [|? ? [Hn [h0 Hh]] Hrest]; subst.
  unfold get_better_ns_names. cbn [better_ns_loop]. rewrite Hh, Hsub.
  apply N.ltb_lt in Hmc. rewrite Hmc.
  destruct (better_ns_same q (rr_name r) ns [h0] Hrest Hsub) as [names [E Hin]]. rewrite E.
  eexists. exists names. split; [reflexivity|].
  intro h. rewrite Hin. split.
  + intros [[<-|[]]|[r' [H1 H2]]]; [exists r; split; [left; reflexivity|exact Hh]|exists r'; split; [right; exact H1|exact H2]].
  + intros [r' [[<-|H1] H2]]; [left; left; congruence|right; exists r'; auto].
Qed.

(* ====================================================================== *)
(* 2. serve and auth_answer agree at the owning zone                        *)
(* ====================================================================== *)

Lemma serve_name_S f zs n qtype first : serve_name (S f) zs n qtype first =
  match best_zone zs n None with
  | None =>
    if first
    then {| sr_answers := []; sr_authority := []; sr_additional := []; sr_aa := false; sr_rcode := RCODE_Refused |}
    else sr_plain []
  | Some z =>
    match cut_owner z n with
    | Some c => if first then referral z c else sr_plain []
    | None =>
      let here := rrs_at z n in
      match cname_at here qtype with
      | Some (cr, target) =>
        let rest := serve_name f zs target qtype false in
        {| sr_answers := cr :: sr_answers rest; sr_authority := []; sr_additional := [];
           sr_aa := true; sr_rcode := RCODE_NoError |}
      | None =>
        let ans := filter (fun r => rtype_matches (rr_type r) qtype) here in
        if negb (is_nil ans) then sr_plain ans
        else if first
             then {| sr_answers := []; sr_authority := [uz_soa z]; sr_additional := []; sr_aa := true;
                     sr_rcode := if name_exists z n then RCODE_NoError else RCODE_NameError |}
             else sr_plain []
      end
    end
  end.
Proof. reflexivity. Qed.

Lemma auth_chain_S f u n qtype seen : auth_chain (S f) u n qtype seen =
  match best_zone (u_zones u) n None with
  | None => {| aa_rrs := []; aa_soa := None; aa_defined := false |}
  | Some z =>
    match cut_owner z n with
    | Some _ => {| aa_rrs := []; aa_soa := None; aa_defined := false |}
    | None =>
      let here := rrs_at z n in
      match cname_at here qtype with
      | Some (cr, target) =>
        if existsb (dname_eqb target) (n :: seen)
        then {| aa_rrs := [cr]; aa_soa := None; aa_defined := false |}
        else let rest := auth_chain f u target qtype (n :: seen) in
             {| aa_rrs := cr :: aa_rrs rest; aa_soa := aa_soa rest; aa_defined := aa_defined rest |}
      | None =>
        let ans := filter (fun r => rtype_matches (rr_type r) qtype) here in
        if negb (is_nil ans) then {| aa_rrs := ans; aa_soa := None; aa_defined := true |}
        else {| aa_rrs := []; aa_soa := Some (uz_soa z); aa_defined := true |}
      end
    end
  end.
Proof. reflexivity. Qed.

(* the zone [z] owns the name of [q] in the universe (longest apex, no cut on the way) and holds
   no alias for it *)
Definition owns_plainly (u : universe) (z : uzone) (q : question) : Prop :=
  best_zone (u_zones u) (q_name q) None = Some z /\ cut_owner z (q_name q) = None
  /\ cname_at (rrs_at z (q_name q)) (q_type q) = None.

(* the server at [a] serves [z] and none of its zones is a better match for the name *)
Definition serves_owner (u : universe) (a : ip) (z : uzone) (q : question) : Prop :=
  exists zs, zones_of_server u a = Some zs /\ best_zone zs (q_name q) None = Some z.

Theorem serve_is_auth_answer u a z q :
  owns_plainly u z q -> serves_owner u a z q ->
  let aa := auth_answer u q in
  aa_defined aa = true /\
  aa_rrs aa = filter (fun r => rtype_matches (rr_type r) (q_type q)) (rrs_at z (q_name q)) /\
  ((aa_rrs aa <> [] /\ aa_soa aa = None /\ serve u a q = Some (msg q true RCODE_NoError (aa_rrs aa) [] []))
   \/ (aa_rrs aa = [] /\ aa_soa aa = Some (uz_soa z)
       /\ exists rcode, (rcode = RCODE_NoError \/ rcode = RCODE_NameError)
                        /\ serve u a q = Some (msg q true rcode [] [uz_soa z] []))).
Proof.
  intros (Hb & Hc & Hn) (zs & Hz & Hbz). cbv zeta.
  unfold auth_answer, serve. rewrite Hz. change CHAIN_FUEL with (S 63).
  rewrite auth_chain_S, serve_name_S, Hb, Hbz, Hc. cbv zeta. rewrite Hn.
  destruct (filter (fun r => rtype_matches (rr_type r) (q_type q)) (rrs_at z (q_name q))) as [|r ans] eqn:Ef;
    cbn [is_nil negb aa_defined aa_rrs aa_soa].
  - split; [reflexivity|]. split; [reflexivity|]. right. split; [reflexivity|]. split; [reflexivity|].
    exists (if name_exists z (q_name q) then RCODE_NoError else RCODE_NameError).
    split; [destruct (name_exists z (q_name q)); auto|reflexivity].
  - split; [reflexivity|]. split; [reflexivity|]. left. split; [discriminate|]. split; reflexivity.
Qed.

(* ====================================================================== *)
(* 3. the last hop                                                          *)
(* ====================================================================== *)

(* the transport delivers what the universe's servers say about [q]: every reply of [serve] that
   would pass the header gate is what query_nameserver returns, within the budget (a fault-free
   oracle and replies that fit the transport -- what the table oracle built from [serve] does on
   the correspondence stream; proved for [universe_oracle] below) *)
Definition delivers (o : oracle) (u : universe) (port : N) (q : question) : Prop :=
  forall a m ts, ts_elapsed ts <= BUDGET_MS -> serve u a q = Some m ->
    response_matches_request (make_request q false) m = true ->
    exists ts', query_nameserver o (a, port) q false ts = (Val (Some m), ts') /\ ts_elapsed ts' <= BUDGET_MS.

Lemma question_eqb_refl q : question_eqb q q = true.
Proof. apply question_eqb_eq. reflexivity. Qed.

(* the replies of an authoritative server pass the header gate *)
Lemma msg_matches q aa rcode an au ad :
  (rcode = RCODE_NoError \/ rcode = RCODE_NameError) ->
  response_matches_request (make_request q false) (msg q aa rcode an au ad) = true.
Proof.
  intros [-> | ->]; unfold response_matches_request, make_request, from_question, msg, reply_message;
    cbn [m_header m_questions h_id h_qr h_opcode h_tc h_rcode sr_rcode]; rewrite question_eqb_refl; reflexivity.
Qed.

Section LastHop.
  Variable cache : Type.
  Variable cache_get : cache -> dname -> N -> list rr.
  Variable cache_insert_all : cache -> list rr -> cache.
  Variable sort_names : list dname -> list dname.
  Variable zs : zones.
  Variable o : oracle.
  Variable pmode : protocol_mode.
  Variable port : N.

  Notation RM := (RM cache).
  Notation cstep := (candidate_step cache cache_get cache_insert_all sort_names zs o pmode port).
  Notation rhi := (resolve_hostname_to_ip cache cache_get zs pmode).
  Notation qav := (query_and_validate cache o).

  Lemma qav_delivered u a q m mc st nr :
    delivers o u port q -> ts_elapsed (snd st) <= BUDGET_MS -> serve u a q = Some m ->
    response_matches_request (make_request q false) m = true ->
    validate_nameserver_response q m mc = Ok (Some nr) ->
    exists ts', qav (a, port) q mc st = (Val (Some nr), (fst st, ts')) /\ ts_elapsed ts' <= BUDGET_MS.
  Proof.
    intros Hd Hb Hs Hm Hv. destruct (Hd a m (snd st) Hb Hs Hm) as [ts' [E Hb']].
    exists ts'. split; [|exact Hb']. unfold query_and_validate, rbind, lift_t. rewrite E. cbn [fst snd]. rewrite Hv. reflexivity.
  Qed.

  (* the loop ends with the answer the candidate's server gave *)
  Lemma cstep_answer rec loop stack q combined mc cands next locally st candidate rest a st1 rrs soa st2 :
    pop_last cands = Some (candidate, rest) ->
    rhi rec stack locally candidate st = (Val (Some a), st1) ->
    qav (a, port) q mc st1 = (Val (Some (NRAnswer rrs soa)), st2) ->
    (forall r, In r rrs -> owned_elsewhere zs q r = false) ->          (* cut_at_local_authority cuts nothing *)
    cstep rec loop stack q combined mc cands next locally st
    = (Val (ROk (NonAuthoritative (prioritising_merge combined rrs) soa)), (cache_insert_all (fst st2) rrs, snd st2)).
  Proof.
    intros Ep Eh Eq Hno. unfold candidate_step. rewrite Ep. unfold rbind at 1. rewrite Eh.
    unfold rbind at 1. rewrite Eq. unfold resolve_with_nameserver_response. rewrite (cut_answer_same zs q rrs soa Hno). reflexivity.
  Qed.

  (* LAST HOP.  The loop is at a delegation no deeper than the zone [z] that owns the question name
     (no cut on the way, no alias at the name), the candidate it picks has an address [a] at which a
     server of [z] listens, and the transport delivers what [serve] prescribes.  Then the loop
     returns exactly the authoritative answer. *)
  Theorem last_hop u z q rec loop stack mc cands next locally st candidate rest a st1 :
    delivers o u port q -> owns_plainly u z q -> serves_owner u a z q ->
    q_type q <> RT_CNAME -> q_type q <> QT_Wildcard ->
    Forall (fun r => rr_is_unknown r = false) (zone_data z) ->
    rr_type (uz_soa z) = RT_SOA -> rr_name (uz_soa z) = uz_apex z -> mc <= llen (labels (uz_apex z)) ->
    pop_last cands = Some (candidate, rest) ->
    rhi rec stack locally candidate st = (Val (Some a), st1) -> ts_elapsed (snd st1) <= BUDGET_MS ->
    exists st',
      cstep rec loop stack q [] mc cands next locally st
      = (Val (ROk (NonAuthoritative (aa_rrs (auth_answer u q)) (aa_soa (auth_answer u q)))), st').
  Proof.
    intros Hd Ho Hs Hq1 Hq2 Hknown Hsoat Hsoan Hmc Ep Eh Hbud.
    destruct (serve_is_auth_answer u a z q Ho Hs) as (_ & Hrrs & Hcases).
    destruct Hcases as [(Hne & Hsoa & Hserve)|(Hnil & Hsoa & rcode & Hrc & Hserve)].
    - assert (Hplain : Forall (plain_rr q) (aa_rrs (auth_answer u q))).
      { rewrite Hrrs. apply Forall_forall. intros r Hr. apply filter_In in Hr. destruct Hr as [Hin Hm].
        apply rrs_at_in in Hin. destruct Hin as [Hin Hn]. apply dname_eqb_eq in Hn.
        split; [eapply Forall_forall in Hknown; [exact Hknown|exact Hin]|]. split; [exact Hn|]. split; [exact Hm|].
        rewrite (rtype_matches_concrete _ _ Hq2 Hm). exact Hq1. }
      pose proof (validate_plain_answer q true RCODE_NoError _ [] [] mc Hplain Hne) as Hv.
      destruct (qav_delivered u a q _ mc st1 _ Hd Hbud Hserve (msg_matches _ _ _ _ _ _ (or_introl eq_refl)) Hv) as [ts' [Eq _]].
      eexists. rewrite (cstep_answer _ _ _ _ _ _ _ _ _ _ _ _ _ _ _ _ _ Ep Eh Eq).
      2:{ intros r Hr. apply owned_elsewhere_qname. eapply Forall_forall in Hplain; [|exact Hr]. exact (proj1 (proj2 Hplain)). }
      rewrite merge_nil_l, Hsoa. reflexivity.
    - destruct Ho as (Hb & _).
      apply best_zone_spec in Hb. destruct Hb as [Hb|[_ Hsub]]; [discriminate|].
      assert (Hv : validate_nameserver_response q (msg q true rcode [] [uz_soa z] []) mc = Ok (Some (NRAnswer [] (Some (uz_soa z))))).
      { apply validate_denial; [exact Hrc|exact Hsoat|rewrite Hsoan; exact Hsub|rewrite Hsoan; exact Hmc]. }
      destruct (qav_delivered u a q _ mc st1 _ Hd Hbud Hserve (msg_matches _ _ _ _ _ _ Hrc) Hv) as [ts' [Eq _]].
      eexists. rewrite (cstep_answer _ _ _ _ _ _ _ _ _ _ _ _ _ _ _ _ _ Ep Eh Eq) by (intros r []).
      rewrite merge_nil_l, Hnil, Hsoa. reflexivity.
  Qed.

  (* A REFERRAL HOP.  The candidate the loop picks has an address [a] at which a server listens whose
     best zone [z0] for the question name has a delegation point [c] on the way, deeper than the
     delegation in use; the transport delivers [serve]'s referral.  Then the loop inserts the NS set
     of the cut and the glue for its hosts into the cache and continues with exactly the
     delegation [c], whose hosts are the targets of the NS records at [c].  (Excluded: a question for
     the address of a name that owns glue in that referral -- the glue shortcut, finding F11.) *)
  Theorem referral_hop u a z0 c q rec loop stack mc cands next locally st candidate rest st1 :
    delivers o u port q ->
    (exists zs', zones_of_server u a = Some zs' /\ best_zone zs' (q_name q) None = Some z0) ->
    cut_owner z0 (q_name q) = Some c ->
    Forall (fun r => exists h, is_ns_rr r = Some h) (uz_cuts z0) ->
    mc < llen (labels c) ->
    (forall r, In r (uz_glue z0 ++ uz_rrs z0) -> rr_name r <> q_name q) ->
    pop_last cands = Some (candidate, rest) ->
    rhi rec stack locally candidate st = (Val (Some a), st1) -> ts_elapsed (snd st1) <= BUDGET_MS ->
    let ns := sr_authority (referral z0 c) in
    let ad := sr_additional (referral z0 c) in
    exists names ts3,
      cstep rec loop stack q [] mc cands next locally st
      = loop (llen (labels c)) (sort_names names) [] true
             (cache_insert_all (fst st1) (filter (ns_glue_filter c names true false) ns
                                          ++ filter (ns_glue_filter c names false true) ad), ts3)
      /\ (forall h, In h names <-> exists r, In r (uz_cuts z0) /\ rr_name r = c /\ is_ns_rr r = Some h)
      /\ ts_elapsed ts3 <= BUDGET_MS.
  Proof.
    intros Hd (zs' & Hz & Hbz) Hcut Hnsty Hmc Hnoglue Ep Eh Hbud ns ad.
    assert (Hserve : serve u a q = Some (msg q false RCODE_NoError [] ns ad)).
    { unfold serve. rewrite Hz. change CHAIN_FUEL with (S 63). rewrite serve_name_S, Hbz, Hcut. reflexivity. }
    destruct (cut_owner_spec _ _ _ Hcut) as [Hsub [r0 [Hr0 Hr0c]]].
    assert (Hns_in : forall r, In r ns <-> In r (uz_cuts z0) /\ rr_name r = c).
    { intro r. unfold ns, referral. cbn [sr_authority]. rewrite filter_In. split.
      - intros [H1 H2]. apply dname_eqb_eq in H2. auto.
      - intros [H1 H2]. split; [exact H1|]. apply dname_eqb_eq. exact H2. }
    assert (Hne : ns <> []).
    { intro E. assert (In r0 ns) by (apply Hns_in; auto). rewrite E in H. destruct H. }
    assert (Hall : Forall (referral_ns q c) ns).
    { apply Forall_forall. intros r Hr. apply Hns_in in Hr. destruct Hr as [H1 H2]. split; [exact H2|].
      eapply Forall_forall in Hnsty; [exact Hnsty|exact H1]. }
    destruct (validate_referral q false RCODE_NoError c ns ad mc Hne Hall Hsub Hmc) as (rrs & names & Hv & Hnames).
    destruct (qav_delivered u a q _ mc st1 _ Hd Hbud Hserve (msg_matches _ _ _ _ _ _ (or_introl eq_refl)) Hv) as [ts' [Eq Hbud']].
    exists names, ts'.
    (* the records of the delegation *)
    destruct (validate_delegation_inv _ _ _ _ _ Hv) as [_ Hrrs]. cbn [ns_name ns_hostnames] in Hrrs.
    unfold delegation_rrs, msg, reply_message in Hrrs. cbn [m_answers m_authority m_additional sr_answers sr_authority sr_additional filter app] in Hrrs.
    (* no glue shortcut *)
    assert (Hglue : glue_answer [] rrs q = None).
    { assert (Hno : forall t, (t = RT_A \/ t = RT_AAAA) -> get_records rrs (q_name q) t = []).
      { intros t Ht. unfold get_records.
        destruct (filter (fun r => (rr_type r =? t) && dname_eqb (rr_name r) (q_name q)) rrs) as [|x l] eqn:Ef; [reflexivity|].
        exfalso. assert (Hx : In x (x :: l)) by (left; reflexivity). rewrite <- Ef in Hx. apply filter_In in Hx.
        destruct Hx as [Hin Hb]. apply andb_prop in Hb. destruct Hb as [Hty Hnm]. apply N.eqb_eq in Hty. apply dname_eqb_eq in Hnm.
        rewrite Hrrs in Hin. apply in_app_or in Hin. destruct Hin as [Hin|Hin]; apply filter_In in Hin; destruct Hin as [Hin Hf].
        - apply ns_glue_filter_true in Hf. destruct Hf as [(h & [Hnst _] & _)|(_ & Hfalse & _)]; [|discriminate].
          rewrite Hnst in Hty. destruct Ht as [-> | ->]; discriminate.
        - unfold ad, referral in Hin. cbn [sr_additional] in Hin. apply filter_In in Hin. destruct Hin as [Hin _].
          exact (Hnoglue x Hin Hnm). }
      unfold glue_answer. destruct (q_type q =? RT_A).
      - rewrite (Hno RT_A (or_introl eq_refl)). reflexivity.
      - destruct (q_type q =? RT_AAAA); [|reflexivity]. rewrite (Hno RT_AAAA (or_intror eq_refl)). reflexivity. }
    split.
    - unfold candidate_step. rewrite Ep. unfold rbind at 1. rewrite Eh. unfold rbind at 1. rewrite Eq.
      unfold resolve_with_nameserver_response, resolve_with_response_match, cut_at_local_authority, lift_res, rbind, insert_all, ret.
      rewrite Hglue. cbn [fst snd ns_match_count ns_name ns_hostnames].
      rewrite Hrrs. reflexivity.
    - split; [|exact Hbud']. intro h. rewrite Hnames. split.
      + intros [r [H1 H2]]. apply Hns_in in H1. exists r. tauto.
      + intros [r [H1 [H2 H3]]]. exists r. split; [apply Hns_in; auto|exact H3].
  Qed.
End LastHop.

(* ====================================================================== *)
(* 4. the universe oracle delivers what serve prescribes                    *)
(* ====================================================================== *)

Lemma request_wf q rd : wf_question q -> wf_message (make_request q rd).
Proof.
  intro Hq. unfold make_request, from_question, wf_message, wf_header. cbn [m_header m_questions m_answers m_authority m_additional h_id h_opcode h_rcode].
  split; [repeat split; vm_compute; reflexivity|]. split; [constructor; [exact Hq|constructor]|]. repeat split; constructor.
Qed.

(* the request for one question: the twelve header octets are fixed (id 0, no flag, one question) *)
Lemma encode_request_shape q : exists os, encode (make_request q false) = Ok ([0;0;0;0;0;1;0;0;0;0;0;0] ++ os).
Proof.
  unfold encode, make_request, from_question.
  cbn [m_questions m_answers m_authority m_additional m_header h_id h_qr h_opcode h_aa h_tc h_rd h_ra h_rcode].
  change (usize_to_u16 (llen [q])) with (@Ok serr N 1).
  change (usize_to_u16 (llen (@nil rr))) with (@Ok serr N 0).
  cbn [bind encode_rrs fold_left].
  unfold encode_question, write_u16. rewrite !octets_write_octets.
  set (B := write_octets (u16_bytes 0) (write_octets (u16_bytes 0) (write_octets (u16_bytes 0) (write_octets (u16_bytes 1)
              (encode_header {| h_id := REQUEST_ID; h_qr := false; h_opcode := OPCODE_Standard; h_aa := false;
                                h_tc := false; h_rd := false; h_ra := false; h_rcode := RCODE_NoError |} wb_empty))))).
  destruct (ext_encode_name (q_name q) true B) as [os Eos]. rewrite Eos.
  assert (HB : wb_octets B = [0;0;0;0;0;1;0;0;0;0;0;0]) by (vm_compute; reflexivity).
  rewrite HB. exists (os ++ u16_bytes (q_type q) ++ u16_bytes (q_class q)). rewrite <- !app_assoc. reflexivity.
Qed.

Lemma parses_id0 bs m : Parses bs m -> h_id (m_header m) = 0 -> exists t, bs = 0 :: 0 :: t.
Proof.
  intros ((f1 & f2 & (a & b & Ha & Hb & Hv) & _) & _) Hid. rewrite Hid in Hv.
  assert (a = 0 /\ b = 0) as [-> ->] by lia.
  unfold at_, nthN in Ha, Hb. cbn in Ha, Hb. destruct bs as [|x [|y t]]; cbn in Ha, Hb; try discriminate.
  inversion Ha; inversion Hb; subst. exists t. reflexivity.
Qed.

(* what is assumed of the universe for the question [q]: what its servers say about [q] are
   well-formed messages that fit a UDP datagram (decidable; names as the decoder produces them) *)
Definition serve_fits (u : universe) (q : question) : Prop :=
  forall a m, serve u a q = Some m -> wf_message m /\ exists bs, encode m = Ok bs /\ llen bs <= 512.

Lemma universe_oracle_request u n p a req q m bs :
  req <> [] -> request_question req = Some q -> serve u (fst a) q = Some m -> encode m = Ok bs ->
  universe_oracle u [] n p a req = reply_of FNone p req (Some bs).
Proof.
  intros Hne Hrq Hs Ebs. unfold universe_oracle. destruct req as [|b r]; [congruence|].
  cbv iota beta. rewrite Hrq, Hs, Ebs. reflexivity.
Qed.

Theorem universe_oracle_delivers u port q :
  wf_question q ->
  (forall req, encode (make_request q false) = Ok req -> llen req <= 512) ->
  serve_fits u q ->
  delivers (universe_oracle u []) u port q.
Proof.
  intros Hq Hreq Hfits a m ts Hbud Hs Hm.
  destruct (Hfits a m Hs) as (Hwf & bs & Ebs & Hlen).
  destruct (encode_request_shape q) as [os Ereq].
  set (req := [0;0;0;0;0;1;0;0;0;0;0;0] ++ os) in *.
  pose proof (Hreq req Ereq) as Hreqlen.
  pose proof (request_wf q false Hq) as Hrwf.
  assert (Hdreq : decode req = Ok (make_request q false)).
  { apply decode_complete; [exact (encode_bytes _ req Hrwf Ereq)|exact (encode_parses _ req Hrwf Ereq)]. }
  assert (Hdbs : decode bs = Ok m).
  { apply decode_complete; [exact (encode_bytes m bs Hwf Ebs)|exact (encode_parses m bs Hwf Ebs)]. }
  assert (Hid : h_id (m_header m) = 0).
  { unfold serve in Hs. destruct (zones_of_server u a); [|discriminate]. inversion Hs. reflexivity. }
  destruct (parses_id0 bs m (encode_parses m bs Hwf Ebs) Hid) as [t Ebst].
  assert (Hclear : clear_tc req = req) by reflexivity.
  assert (Hreq12 : (@llen byte req <? 12) = false).
  { apply N.ltb_ge. subst req. rewrite llen_app. unfold llen at 1. cbn [length N.of_nat]. lia. }
  assert (Hreq512 : (512 <? @llen byte req) = false) by (apply N.ltb_ge; exact Hreqlen).
  (* what the oracle answers *)
  assert (Hrq : request_question req = Some q).
  { unfold request_question. rewrite Hdreq. reflexivity. }
  assert (Horacle : forall n, universe_oracle u [] n Udp (a, port) req = mk_reply (Some bs) 0 true).
  { intro n. rewrite (universe_oracle_request u n Udp (a, port) req q m bs); [|subst req; discriminate|exact Hrq|exact Hs|exact Ebs].
    unfold reply_of. subst req. cbn [app option_map header_fault frame patch_id]. rewrite Ebst.
    cbn [patch_id]. reflexivity. }
  set (ts' := next_exchange (log_call KUdp (a, port) q false (ts_nexch ts) (mk_reply (Some bs) 0 true) ts)).
  assert (Hudp : udp_exchange (universe_oracle u []) (a, port) q false req ts = (Val (Some m, req), ts')).
  { unfold udp_exchange. rewrite Hreq512, Hreq12, Hclear, Horacle.
    unfold udp_outcome, mk_reply. cbn [t_refuse t_bytes t_delay_ms].
    replace (UDP_TIMEOUT_MS <? 0) with false by reflexivity.
    assert (Hfirst : firstn (N.to_nat UDP_RECV_BUF) bs = bs).
    { apply firstn_all2. unfold llen in Hlen. unfold UDP_RECV_BUF. lia. }
    rewrite Hfirst.
    unfold charge. cbn [ts_elapsed next_exchange log_call].
    assert (Hch : (BUDGET_MS <? ts_elapsed ts + 0) = false) by (apply N.ltb_ge; lia).
    rewrite Hch. unfold decode_opt. rewrite Hdbs.
    subst ts'. unfold next_exchange, log_call, mk_reply. cbn [ts_rlog ts_elapsed ts_nexch]. rewrite N.add_0_r. reflexivity. }
  exists ts'. split.
  - unfold query_nameserver. cbv zeta. rewrite Ereq, Hudp. unfold gate. rewrite Hm. reflexivity.
  - subst ts'. cbn [ts_elapsed next_exchange log_call]. exact Hbud.
Qed.
