(* Resolver/LocalSpec.v -- specification side of the local part of C01 and C10.
   Short and declarative: which names an authoritative zone owns, what an alias
   chain is, what "the merge lets local data win" means, when two cache read
   functions agree.  Refers to the zone *data* (the record tree, the apex map)
   but to none of the control flow of resolve_local. *)
From RV Require Import Base.Prelude Name.NameModel Name.NameSpec Wire.WireTypes Zone.ZoneModel.

(* ---------- ownership (C01) ---------- *)

(* the node of the record tree at a relative path (labels nearest the apex first) *)
Fixpoint node_at (rp : list label) (nd : node) : option node :=
  match rp with
  | [] => Some nd
  | l :: rest => match alookup leqb l (n_children nd) with
                 | Some c => node_at rest c
                 | None => None
                 end
  end.

Definition rmap_has (t : N) (m : rmap) : bool :=
  match alookup N.eqb t m with Some (_ :: _) => true | _ => false end.
(* the node holds NS records / a wildcard holding NS records hangs under the node *)
Definition has_ns (nd : node) : bool := rmap_has RT_NS (n_this nd).
Definition wild_has_ns (nd : node) : bool :=
  match n_wild nd with Some w => rmap_has RT_NS w | None => false end.

(* [rp] is not at or beneath a delegation point: no node strictly below the apex on
   the way to (and including) [rp] holds NS records.  Wildcards that hold NS
   records refer every name they cover elsewhere as well (RFC 4592 leaves their
   meaning open; resolved treats them as referrals), so a name passing a node
   with such a wildcard is not counted as owned either. *)
Definition not_delegated (z : zone) (rp : list label) : Prop :=
  forall pre suf nd, rp = pre ++ suf -> node_at pre (z_records z) = Some nd ->
    (pre <> [] -> has_ns nd = false) /\ (suf <> [] -> wild_has_ns nd = false).

(* the longest configured apex enclosing [n] belongs to an authoritative zone *)
Definition in_auth_zone (zs : zones) (n : dname) : Prop :=
  exists z, zones_get zs n = Some z /\ z_soa z <> None.

(* ... and [n] is not at/beneath one of that zone's delegation points: zone [z] owns [n] *)
Definition owned_by (zs : zones) (n : dname) (z : zone) : Prop :=
  zones_get zs n = Some z /\ z_soa z <> None /\
  exists rp, relative_rp z n = Some rp /\ not_delegated z rp.
Definition owned_auth (zs : zones) (n : dname) : Prop := exists z, owned_by zs n z.

(* two cache read functions agree on every name outside [P] *)
Definition cache_agree_outside (P : dname -> Prop) (c1 c2 : dname -> N -> list rr) : Prop :=
  forall n qt, ~ P n -> c1 n qt = c2 n qt.

(* ---------- the merge that lets local data win (C01) ---------- *)

Inductive subseq {A} : list A -> list A -> Prop :=
| SubNil : subseq [] []
| SubSkip x l m : subseq l m -> subseq l (x :: m)
| SubTake x l m : subseq l m -> subseq (x :: l) (x :: m).

Definition same_key (a b : rr) : Prop := rr_name a = rr_name b /\ rr_type a = rr_type b.

(* [out] is [priority] untouched and in order, followed by exactly those RRs of [new]
   (in their order) whose (name, type) does not occur in [priority] *)
Definition prioritising_merge_spec (priority new out : list rr) : Prop :=
  exists kept, out = priority ++ kept /\ subseq kept new /\
    (forall r, In r kept -> forall p, In p priority -> ~ same_key p r) /\
    (forall r, In r new -> (forall p, In p priority -> ~ same_key p r) -> In r kept).

(* ---------- alias chains (C10; DESIGN Appendix A, on [rr]) ---------- *)

Fixpoint chain_from (start : dname) (cn : list rr) : option dname :=
  match cn with
  | [] => Some start
  | r :: t =>
    if dname_eqb (rr_name r) start && (rr_type r =? RT_CNAME)
    then match rr_data r with RD_Name tg => chain_from tg t | _ => None end
    else None
  end.

(* CNAMEs first, each owner the previous target, starting at the question name, no owner
   twice, then only RRs of the asked type owned by the last target *)
Definition chain_ok (qname : dname) (qty : N) (rrs : list rr) : Prop :=
  exists cn fin last, rrs = cn ++ fin /\ chain_from qname cn = Some last /\ NoDup (map rr_name cn)
    /\ Forall (fun r => rr_name r = last /\ rr_type r = qty) fin.

(* ---------- what C10 assumes of the two sources ---------- *)

(* zones: an answer is owned by the query name and has the asked type; a CNAME result is
   the CNAME RR of the query name with the target as rdata.  True of zones built by
   Zone::new / insert / insert_wildcard (the record maps are keyed by record type);
   to be discharged from the C02 development. *)
Definition zones_answers_ok (zs : zones) : Prop :=
  forall name qt z zr, zones_resolve zs name qt = Some (z, Ok zr) ->
    match zr with
    | ZAnswer rrs => qt <> QT_Wildcard -> Forall (fun r => rr_name r = name /\ rr_type r = qt) rrs
    | ZCname c r => rr_name r = name /\ rr_type r = RT_CNAME /\ rr_data r = RD_Name c
    | _ => True
    end.

(* cache: a read returns only RRs of the asked name and type (C05: abs_get) *)
Definition cget_ok (cget : dname -> N -> list rr) : Prop :=
  forall name qt, qt <> QT_Wildcard -> Forall (fun r => rr_name r = name /\ rr_type r = qt) (cget name qt).
