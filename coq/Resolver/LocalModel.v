(* Resolver/LocalModel.v -- executable model of crates/dns-resolver/src/local.rs
   (resolve_local, LocalResolutionResult, the conversion to ResolvedRecord),
   util/types.rs (ResolvedRecord, ResolutionError, Nameservers,
   prioritising_merge) and context.rs (question stack, recursion limit).
   Definitions only.

   The cache is a *read function* [cget name qtype] (the contents at a fixed
   virtual instant: SharedCache::get); that lookups also refresh the LRU stamp
   is irrelevant to what resolve_local returns. *)
From RV Require Import Base.Prelude Name.NameModel Wire.WireTypes Zone.ZoneModel.

Record nameservers := { ns_hostnames : list dname; ns_name : dname }.
Definition ns_match_count (n : nameservers) : N := llen (labels (ns_name n)).

Inductive resolved :=
| Authoritative (rrs : list rr) (soa_rr : rr)
| AuthoritativeNameError (soa_rr : rr)
| NonAuthoritative (rrs : list rr) (soa_rr : option rr).

Definition resolved_rrs (r : resolved) : list rr :=
  match r with
  | Authoritative rrs _ => rrs
  | AuthoritativeNameError _ => []
  | NonAuthoritative rrs _ => rrs
  end.
Definition resolved_soa_rr (r : resolved) : option rr :=
  match r with
  | Authoritative _ s => Some s
  | AuthoritativeNameError s => Some s
  | NonAuthoritative _ s => s
  end.

Inductive rerror :=
| ETimeout
| ERecursionLimit
| EDuplicateQuestion (q : question)
| EDeadEnd (q : question)
| ELocalDelegationMissingNS (apex domain : dname)
| ECacheTypeMismatch (query result : N).

Inductive lresult :=
| LDone (r : resolved)
| LPartial (rrs : list rr)
| LDelegation (rrs : list rr) (soa_rr : option rr) (delegation : nameservers)
| LCname (rrs : list rr) (cname_question : question).

(* From<LocalResolutionResult> for ResolvedRecord *)
Definition resolved_of_lresult (l : lresult) : resolved :=
  match l with
  | LDone r => r
  | LPartial rrs => NonAuthoritative rrs None
  | LDelegation rrs (Some s) _ => Authoritative rrs s
  | LDelegation rrs None _ => NonAuthoritative rrs None
  | LCname rrs _ => NonAuthoritative rrs None
  end.

(* prioritising_merge *)
Definition prioritising_merge (priority new : list rr) : list rr :=
  priority ++ filter (fun r => negb (existsb (fun p => dname_eqb (rr_name p) (rr_name r) && (rr_type p =? rr_type r)) priority)) new.

(* context.rs *)
Definition at_recursion_limit (stack : list question) : bool := llen stack =? RECURSION_LIMIT.
Definition is_duplicate_question (stack : list question) (q : question) : bool := existsb (question_eqb q) stack.

Definition ns_hostnames_of (ns_rrs : list rr) : list dname :=
  flat_map (fun r => if rr_type r =? RT_NS then match rr_data r with RD_Name n => [n] | _ => [] end else []) ns_rrs.

Section Local.
  Variable zs : zones.
  Variable cget : dname -> N -> list rr.

  (* outcome of the zone phase: a final result, or the zone's RRs to be merged with the cache *)
  Inductive zphase := ZFinal (r : res rerror lresult) | ZContinue (rrs_from_zone : list rr).

  Fixpoint resolve_local (fuel : nat) (stack : list question) (q : question) : res rerror lresult :=
    match fuel with
    | O => OutOfFuel
    | S f =>
      if at_recursion_limit stack then Err ERecursionLimit
      else if is_duplicate_question stack q then Err (EDuplicateQuestion q)
      else
        let sub (name : dname) := resolve_local f (stack ++ [q]) {| q_name := name; q_type := q_type q; q_class := q_class q |} in
        let zp :=
            match zones_resolve zs (q_name q) (q_type q) with
            | None => ZContinue []
            | Some (zone, Panic) => ZFinal Panic
            | Some (zone, OutOfFuel) => ZFinal OutOfFuel
            | Some (zone, Err _) => ZFinal Panic
            | Some (zone, Ok zr) =>
              match zr with
              | ZAnswer rrs =>
                match zone_soa_rr zone with
                | Some soa_rr => ZFinal (Ok (LDone (Authoritative rrs soa_rr)))
                | None =>
                  if negb (q_type q =? QT_Wildcard) && negb (is_nil rrs)
                  then ZFinal (Ok (LDone (NonAuthoritative rrs None)))
                  else ZContinue rrs
                end
              | ZCname cname r =>
                let rrs := [r] in
                let cq := {| q_name := cname; q_type := q_type q; q_class := q_class q |} in
                ZFinal
                  (match sub cname with
                   | Ok (LDone (Authoritative cname_rrs soa_rr)) => Ok (LDone (Authoritative (rrs ++ cname_rrs) soa_rr))
                   | Ok (LDone (AuthoritativeNameError soa_rr)) => Ok (LDone (Authoritative rrs soa_rr))
                   | Ok (LDone (NonAuthoritative cname_rrs soa_rr)) => Ok (LDone (NonAuthoritative (rrs ++ cname_rrs) soa_rr))
                   | Ok (LPartial cname_rrs) => Ok (LPartial (rrs ++ cname_rrs))
                   | Ok (LCname cname_rrs cq') => Ok (LCname (rrs ++ cname_rrs) cq')
                   | Ok (LDelegation _ _ _) => Ok (LCname rrs cq)
                   | Err _ => Ok (LCname rrs cq)
                   | Panic => Panic
                   | OutOfFuel => OutOfFuel
                   end)
              | ZDelegation ns_rrs =>
                match zone_soa_rr zone with
                | Some soa_rr =>
                  match ns_rrs with
                  | [] => ZFinal (Err (ELocalDelegationMissingNS (z_apex zone) (q_name q)))
                  | first :: _ =>
                    ZFinal (Ok (LDelegation ns_rrs (Some soa_rr)
                                            {| ns_hostnames := ns_hostnames_of ns_rrs; ns_name := rr_name first |}))
                  end
                | None => ZContinue []
                end
              | ZNameError =>
                match zone_soa_rr zone with
                | Some soa_rr => ZFinal (Ok (LDone (AuthoritativeNameError soa_rr)))
                | None => ZContinue []
                end
              end
            end in
        match zp with
        | ZFinal r => r
        | ZContinue rrs_from_zone =>
          let from_cache := cget (q_name q) (q_type q) in
          (* (rrs_from_cache, final_cname) or an early error *)
          let cache_part : res rerror (list rr * option dname) :=
              if is_nil from_cache && negb (q_type q =? RT_CNAME) then
                match cget (q_name q) RT_CNAME with
                | [] => Ok (from_cache, None)
                | cname_rr :: _ =>
                  match (if rr_type cname_rr =? RT_CNAME then rr_data cname_rr else RD_A 0) with
                  | RD_Name cname =>
                    match sub cname with
                    | Ok (LDone resolved) => Ok ([cname_rr] ++ resolved_rrs resolved, None)
                    | Ok (LPartial rrs) => Ok ([cname_rr] ++ rrs, None)
                    | Ok (LCname rrs cq) => Ok ([cname_rr] ++ rrs, Some (q_name cq))
                    | Ok (LDelegation _ _ _) => Ok ([cname_rr], Some cname)
                    | Err _ => Ok ([cname_rr], Some cname)
                    | Panic => Panic
                    | OutOfFuel => OutOfFuel
                    end
                  | _ => Err (ECacheTypeMismatch RT_CNAME (rr_type cname_rr))
                  end
                end
              else Ok (from_cache, None) in
          match cache_part with
          | Ok (rrs_from_cache, final_cname) =>
            let rrs := prioritising_merge rrs_from_zone rrs_from_cache in
            if is_nil rrs then Err (EDeadEnd q)
            else match final_cname with
                 | Some c => Ok (LCname rrs {| q_name := c; q_type := q_type q; q_class := q_class q |})
                 | None => if q_type q =? QT_Wildcard then Ok (LPartial rrs)
                           else Ok (LDone (NonAuthoritative rrs None))
                 end
          | Err e => Err e
          | Panic => Panic
          | OutOfFuel => OutOfFuel
          end
        end
    end.

  (* the question stack holds at most RECURSION_LIMIT questions, so this much fuel always suffices *)
  Definition LOCAL_FUEL : nat := N.to_nat (RECURSION_LIMIT + 2).

  (* lib.rs resolve(), authoritative-only mode *)
  Definition resolve_authoritative_only (q : question) : res rerror resolved :=
    match resolve_local LOCAL_FUEL [] q with
    | Ok l => Ok (resolved_of_lresult l)
    | Err e => Err e
    | Panic => Panic
    | OutOfFuel => OutOfFuel
    end.
End Local.
