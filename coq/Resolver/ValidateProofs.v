(* Resolver/ValidateProofs.v -- proofs about Resolver/ValidateModel.v and
   Resolver/GateModel.v against Resolver/ValidateSpec.v (C06). *)
From Coq Require Import Permutation.
From RV Require Import Base.Prelude Base.Cursor Name.NameModel Name.NameSpec Name.NameProofs
     Wire.WireTypes Wire.WireModel Resolver.LocalModel Resolver.LocalSpec
     Resolver.ValidateModel Resolver.GateModel Resolver.ValidateSpec.

(* ================= small helpers ================= *)

Lemma dname_eqb_refl n : dname_eqb n n = true.
Proof. apply dname_eqb_eq. reflexivity. Qed.

Lemma dname_eqb_neq a b : dname_eqb a b = false <-> a <> b.
Proof.
  split.
  - intros H E. subst. rewrite dname_eqb_refl in H. discriminate.
  - intro H. destruct (dname_eqb a b) eqn:E; [apply dname_eqb_eq in E; contradiction | reflexivity].
Qed.

Lemma set_mem_in n s : set_mem n s = true <-> In n s.
Proof.
  unfold set_mem. rewrite existsb_exists. split.
  - intros [x [Hin E]]. apply dname_eqb_eq in E. subst. exact Hin.
  - intro H. exists n. split; [exact H | apply dname_eqb_refl].
Qed.

Lemma set_mem_false n s : set_mem n s = false <-> ~ In n s.
Proof.
  split.
  - intros H Hin. apply set_mem_in in Hin. congruence.
  - intro H. destruct (set_mem n s) eqn:E; [apply set_mem_in in E; contradiction | reflexivity].
Qed.

Lemma set_insert_in n x s : In x (set_insert n s) <-> x = n \/ In x s.
Proof.
  unfold set_insert. fold (set_mem n s). destruct (set_mem n s) eqn:E.
  - apply set_mem_in in E. split; [auto|]. intros [->|H]; assumption.
  - rewrite in_app_iff. cbn [In]. split.
    + intros [H|[H|[]]]; [right; exact H | left; symmetry; exact H].
    + intros [->|H]; [right; left; reflexivity | left; exact H].
Qed.

Lemma is_cname_rr_spec r c : is_cname_rr r = Some c <-> cname_rr r (rr_name r) c.
Proof.
  unfold is_cname_rr, cname_rr. destruct (rr_type r =? RT_CNAME) eqn:E.
  - apply N.eqb_eq in E. split.
    + destruct (rr_data r); intro H; inversion H; subst; auto.
    + intros [_ [_ H]]. rewrite H. reflexivity.
  - apply N.eqb_neq in E. split; [discriminate|]. intros [_ [H _]]. contradiction.
Qed.

Lemma is_ns_rr_spec r h : is_ns_rr r = Some h <-> ns_rr r h.
Proof.
  unfold is_ns_rr, ns_rr. destruct (rr_type r =? RT_NS) eqn:E.
  - apply N.eqb_eq in E. split.
    + destruct (rr_data r); intro H; inversion H; subst; auto.
    + intros [_ H]. rewrite H. reflexivity.
  - apply N.eqb_neq in E. split; [discriminate|]. intros [H _]. contradiction.
Qed.

Lemma NoDup_snoc {A} (l : list A) x : NoDup l -> ~ In x l -> NoDup (l ++ [x]).
Proof.
  intros H Hx. apply (Permutation_NoDup (l := x :: l)).
  - apply Permutation_cons_append.
  - constructor; assumption.
Qed.

(* ---- association lists keyed by names ---- *)

Lemma alookup_areplace {V} k k' (v : V) m :
  alookup dname_eqb k (areplace dname_eqb k' v m) =
  if dname_eqb k k' then (match alookup dname_eqb k m with Some _ => Some v | None => None end)
  else alookup dname_eqb k m.
Proof.
  induction m as [|[k0 v0] m IH]; cbn [areplace alookup].
  - destruct (dname_eqb k k'); reflexivity.
  - destruct (dname_eqb k' k0) eqn:E0; cbn [alookup].
    + apply dname_eqb_eq in E0. subst k0. destruct (dname_eqb k k'); reflexivity.
    + destruct (dname_eqb k k0) eqn:E1.
      * destruct (dname_eqb k k') eqn:E2; [|reflexivity].
        apply dname_eqb_eq in E1, E2. subst. rewrite dname_eqb_refl in E0. discriminate.
      * exact IH.
Qed.

Lemma alookup_app_none {V} k (m : list (dname * V)) m' :
  alookup dname_eqb k m = None -> alookup dname_eqb k (m ++ m') = alookup dname_eqb k m'.
Proof.
  induction m as [|[k0 v0] m IH]; cbn [alookup app]; [reflexivity|].
  destruct (dname_eqb k k0); [discriminate | exact IH].
Qed.

Lemma alookup_app_some {V} k (m : list (dname * V)) m' v :
  alookup dname_eqb k m = Some v -> alookup dname_eqb k (m ++ m') = Some v.
Proof.
  induction m as [|[k0 v0] m IH]; cbn [alookup app]; [discriminate|].
  destruct (dname_eqb k k0); [auto | exact IH].
Qed.

Lemma alookup_ainsert {V} k k' (v : V) m :
  alookup dname_eqb k (ainsert dname_eqb k' v m) =
  if dname_eqb k k' then Some v else alookup dname_eqb k m.
Proof.
  unfold ainsert. destruct (alookup dname_eqb k' m) eqn:E.
  - rewrite alookup_areplace. destruct (dname_eqb k k') eqn:E1; [|reflexivity].
    apply dname_eqb_eq in E1. subst. rewrite E. reflexivity.
  - destruct (dname_eqb k k') eqn:E1.
    + apply dname_eqb_eq in E1. subst. rewrite (alookup_app_none _ _ _ E). cbn [alookup].
      rewrite dname_eqb_refl. reflexivity.
    + destruct (alookup dname_eqb k m) eqn:E2.
      * apply alookup_app_some. exact E2.
      * rewrite (alookup_app_none _ _ _ E2). cbn [alookup]. rewrite E1. reflexivity.
Qed.

(* ================= follow_cnames: the scan ================= *)

(* every entry of the map comes from the accumulator or from a known CNAME record *)
Lemma scan_map_sound tgt qt : forall rrs got m k t,
  alookup dname_eqb k (snd (cname_scan rrs tgt qt got m)) = Some t ->
  alookup dname_eqb k m = Some t \/ exists r, In r rrs /\ known r /\ cname_rr r k t.
Proof.
  induction rrs as [|r rrs IH]; intros got m k t H; cbn [cname_scan] in H.
  - left. exact H.
  - destruct (rr_is_unknown r) eqn:U.
    + destruct (IH _ _ _ _ H) as [H1|[r' [Hin H1]]]; [left; exact H1 | right; exists r'; split; [right; exact Hin | exact H1]].
    + destruct (IH _ _ _ _ H) as [H1|[r' [Hin H1]]].
      * destruct (is_cname_rr r) as [c|] eqn:C; [|left; exact H1].
        rewrite alookup_ainsert in H1. destruct (dname_eqb k (rr_name r)) eqn:E; [|left; exact H1].
        apply dname_eqb_eq in E. subst k. inversion H1; subst c. right. exists r.
        split; [left; reflexivity|]. split; [exact U|]. apply is_cname_rr_spec. exact C.
      * right. exists r'. split; [right; exact Hin | exact H1].
Qed.

(* every known CNAME record's owner is a key of the map (with some target) *)
Lemma scan_map_complete tgt qt : forall rrs got m k,
  (alookup dname_eqb k m <> None \/ exists r t, In r rrs /\ known r /\ cname_rr r k t) ->
  alookup dname_eqb k (snd (cname_scan rrs tgt qt got m)) <> None.
Proof.
  induction rrs as [|r rrs IH]; intros got m k H; cbn [cname_scan].
  - destruct H as [H|[r [t [[] _]]]]. exact H.
  - destruct (rr_is_unknown r) eqn:U.
    + apply IH. destruct H as [H|[r' [t [[->|Hin] [Hk Hc]]]]].
      * left. exact H.
      * unfold known in Hk. congruence.
      * right. exists r', t. auto.
    + apply IH. destruct H as [H|[r' [t [[->|Hin] [Hk Hc]]]]].
      * left. destruct (is_cname_rr r); [|exact H]. rewrite alookup_ainsert.
        destruct (dname_eqb k (rr_name r)); [discriminate | exact H].
      * left. assert (C : is_cname_rr r' = Some t).
        { apply is_cname_rr_spec. destruct Hc as [Hn Hc]. unfold cname_rr. rewrite Hn. auto. }
        rewrite C. rewrite alookup_ainsert. destruct Hc as [Hn _]. rewrite Hn, dname_eqb_refl. discriminate.
      * right. exists r', t. auto.
Qed.

(* ================= follow_cnames: the walk ================= *)

(* a path in the map: n -> t1 -> ... -> f, the list is [t1; ...; f] *)
Inductive mpath (m : list (dname * dname)) : dname -> list dname -> dname -> Prop :=
| mp_nil n : mpath m n [] n
| mp_cons n t l f : alookup dname_eqb n m = Some t -> mpath m t l f -> mpath m n (t :: l) f.

Lemma mpath_nil_inv m n f : mpath m n [] f -> f = n.
Proof. intro H; inversion H; reflexivity. Qed.
Lemma mpath_cons_inv m n t l f : mpath m n (t :: l) f -> alookup dname_eqb n m = Some t /\ mpath m t l f.
Proof. intro H; inversion H; auto. Qed.

Lemma walk_terminates m : forall fuel seen n,
  NoDup seen -> incl seen (map snd m) -> (length m < fuel + length seen)%nat ->
  cname_walk fuel m seen n <> OutOfFuel.
Proof.
  induction fuel as [|fuel IH]; intros seen n Hnd Hincl Hlen.
  - exfalso. pose proof (NoDup_incl_length Hnd Hincl) as H. rewrite map_length in H. lia.
  - cbn [cname_walk]. destruct (alookup dname_eqb n m) as [t|] eqn:E; [|discriminate].
    destruct (set_mem t seen) eqn:S; [discriminate|].
    apply set_mem_false in S.
    assert (Hin : In t (map snd m)).
    { apply alookup_some in E. apply (in_map snd) in E. exact E. }
    assert (Hnd' : NoDup (seen ++ [t])).
    { apply NoDup_snoc; assumption. }
    apply IH; [exact Hnd'| |].
    + intros x Hx. apply in_app_iff in Hx. destruct Hx as [Hx|[<-|[]]]; [apply Hincl, Hx | exact Hin].
    + rewrite app_length. cbn [length].
      assert (length seen < length m)%nat.
      { destruct (Compare_dec.le_lt_dec (length m) (length seen)) as [Hle|Hlt]; [|exact Hlt].
        exfalso. apply S. rewrite <- (map_length snd m) in Hle.
        exact (NoDup_length_incl Hnd Hle Hincl t Hin). }
      lia.
Qed.

Lemma walk_ok m : forall fuel seen n, (exists o, cname_walk fuel m seen n = Ok o) \/ cname_walk fuel m seen n = OutOfFuel.
Proof.
  induction fuel as [|fuel IH]; intros seen n; cbn [cname_walk]; [right; reflexivity|].
  destruct (alookup dname_eqb n m) as [t|]; [|left; eexists; reflexivity].
  destruct (set_mem t seen); [left; eexists; reflexivity | apply IH].
Qed.

Lemma walk_path m : forall fuel seen n f seen',
  cname_walk fuel m seen n = Ok (Some (f, seen')) ->
  exists l, seen' = seen ++ l /\ mpath m n l f /\ alookup dname_eqb f m = None /\ (NoDup seen -> NoDup seen').
Proof.
  induction fuel as [|fuel IH]; intros seen n f seen' H; cbn [cname_walk] in H; [discriminate|].
  destruct (alookup dname_eqb n m) as [t|] eqn:E.
  - destruct (set_mem t seen) eqn:S; [discriminate|]. apply set_mem_false in S.
    destruct (IH _ _ _ _ H) as [l [Hs [Hp [Hn Hnd]]]].
    exists (t :: l). split; [rewrite Hs, <- app_assoc; reflexivity|].
    split; [constructor; assumption|]. split; [exact Hn|].
    intro Hd. apply Hnd. apply NoDup_snoc; assumption.
  - inversion H; subst. exists []. rewrite app_nil_r. repeat split; [constructor | exact E | auto].
Qed.

(* follow_cnames: the fuel S (S (length map)) always suffices, and nothing else can go wrong *)
Lemma follow_total rrs tgt qt : exists o, follow_cnames rrs tgt qt = Ok o.
Proof.
  unfold follow_cnames. destruct (cname_scan rrs tgt qt false []) as [got m].
  destruct (qt =? RT_CNAME); [destruct got; eexists; reflexivity|].
  destruct (walk_ok m (S (S (length m))) [] tgt) as [[o H]|H].
  - rewrite H. destruct o as [[f seen]|]; [|eexists; reflexivity].
    destruct (got || negb (is_nil seen)); eexists; reflexivity.
  - exfalso. revert H. apply walk_terminates; [constructor | intros x [] | cbn [length]; lia].
Qed.

Lemma scan_got tgt qt : forall rrs got m,
  fst (cname_scan rrs tgt qt got m) = true ->
  got = true \/ exists r, In r rrs /\ known r /\ rr_name r = tgt /\ rtype_matches (rr_type r) qt = true.
Proof.
  induction rrs as [|r rrs IH]; intros got m H; cbn [cname_scan] in H; [left; exact H|].
  destruct (rr_is_unknown r) eqn:U.
  - destruct (IH _ _ H) as [H1|[r' [Hin H1]]]; [left; exact H1 | right; exists r'; split; [right; exact Hin | exact H1]].
  - destruct (IH _ _ H) as [H1|[r' [Hin H1]]]; [|right; exists r'; split; [right; exact Hin | exact H1]].
    apply orb_true_iff in H1. destruct H1 as [H1|H1]; [left; exact H1|].
    apply andb_true_iff in H1. destruct H1 as [H1 H2]. apply dname_eqb_eq in H1.
    right. exists r. split; [left; reflexivity|]. split; [exact U|]. split; assumption.
Qed.

(* a known record of the asked type at the target *)
Definition match_witness (rrs : list rr) (tgt : dname) (qt : N) : Prop :=
  exists r, In r rrs /\ known r /\ rr_name r = tgt /\ rtype_matches (rr_type r) qt = true.

(* the two ways follow_cnames says Some:
   - a CNAME question: nothing is followed, a record of the asked type is at the target;
   - otherwise: a loop-free path in the map from the target to a name no CNAME leaves,
     and a reason (the path is not empty, or a record of the asked type is at the target) *)
Lemma follow_cases rrs tgt qt f m :
  follow_cnames rrs tgt qt = Ok (Some (f, m)) ->
  m = snd (cname_scan rrs tgt qt false []) /\
  ((qt = RT_CNAME /\ f = tgt /\ match_witness rrs tgt qt) \/
   (qt <> RT_CNAME /\ exists l, mpath m tgt l f /\ alookup dname_eqb f m = None /\ NoDup l /\
                               (l <> [] \/ match_witness rrs tgt qt))).
Proof.
  unfold follow_cnames. destruct (cname_scan rrs tgt qt false []) as [got m0] eqn:Sc.
  assert (Hgot : got = true -> match_witness rrs tgt qt).
  { intro G. pose proof (scan_got tgt qt rrs false []) as Hg. rewrite Sc in Hg. cbn [fst] in Hg.
    destruct (Hg G) as [Hx|Hx]; [discriminate | exact Hx]. }
  destruct (qt =? RT_CNAME) eqn:Eq.
  - apply N.eqb_eq in Eq. destruct got; [|discriminate]. intro H; inversion H; subst f m0.
    split; [reflexivity|]. left. auto.
  - apply N.eqb_neq in Eq.
    destruct (cname_walk (S (S (length m0))) m0 [] tgt) as [[[f' seen]|]| | |] eqn:W; try discriminate.
    destruct (got || negb (is_nil seen)) eqn:G; [|discriminate].
    intro H; inversion H; subst f' m0. split; [reflexivity|]. right. split; [exact Eq|].
    destruct (walk_path _ _ _ _ _ _ W) as [l [Hs [Hp [Hn Hnd]]]]. cbn [app] in Hs. subst seen.
    exists l. split; [exact Hp|]. split; [exact Hn|]. split; [apply Hnd; constructor|].
    destruct l as [|t l]; [right | left; discriminate].
    cbn [is_nil negb] in G. rewrite orb_false_r in G. auto.
Qed.

(* the map of follow_cnames describes the known CNAME records of the section *)
Lemma follow_map_sound rrs tgt qt f m k t :
  follow_cnames rrs tgt qt = Ok (Some (f, m)) -> alookup dname_eqb k m = Some t ->
  exists r, In r rrs /\ known r /\ cname_rr r k t.
Proof.
  intros H L. apply follow_cases in H. destruct H as [-> _].
  destruct (scan_map_sound _ _ _ _ _ _ _ L) as [H|H]; [discriminate | exact H].
Qed.

Lemma map_none_terminal rrs tgt qt f :
  alookup dname_eqb f (snd (cname_scan rrs tgt qt false [])) = None -> terminal rrs f.
Proof.
  intros Hn r t Hin Hk Hc. revert Hn. apply scan_map_complete. right. exists r, t. auto.
Qed.

(* ================= the path loop of validate_nameserver_response ================= *)

Lemma rdata_eqb_name d t : rdata_eqb d (RD_Name t) = true <-> d = RD_Name t.
Proof.
  destruct d; cbn [rdata_eqb]; split; intro H; try discriminate.
  - apply dname_eqb_eq in H. subst. reflexivity.
  - inversion H. apply dname_eqb_refl.
Qed.

Definition path_pred (name target : dname) (an : rr) : bool :=
  negb (rr_is_unknown an) && dname_eqb (rr_name an) name
  && (rr_type an =? RT_CNAME) && rdata_eqb (rr_data an) (RD_Name target).

Lemma path_pred_spec name target an :
  path_pred name target an = true <-> known an /\ cname_rr an name target.
Proof.
  unfold path_pred, known, cname_rr.
  rewrite !andb_true_iff, negb_true_iff, dname_eqb_eq, N.eqb_eq, rdata_eqb_name. tauto.
Qed.

(* cs are CNAME records c1..ck with owners n, t1, .., t(k-1) and targets l = t1..tk, as the map says *)
Fixpoint chain_rel (m : list (dname * dname)) (n : dname) (cs : list rr) (l : list dname) : Prop :=
  match cs, l with
  | [], [] => True
  | c :: cs', t :: l' => cname_rr c n t /\ alookup dname_eqb n m = Some t /\ chain_rel m t cs' l'
  | _, _ => False
  end.

Lemma path_cnames_spec answers m :
  (forall k t, alookup dname_eqb k m = Some t -> exists r, In r answers /\ known r /\ cname_rr r k t) ->
  forall l n f, mpath m n l f -> alookup dname_eqb f m = None ->
  forall fuel, (length l < fuel)%nat ->
  chain_rel m n (path_cnames fuel answers m f n) l /\
  Forall (fun c => In c answers /\ known c) (path_cnames fuel answers m f n).
Proof.
  intros Hm. induction 1 as [n|n t l f E Hp IH]; intros Hn fuel Hf.
  - destruct fuel as [|fuel]; [cbn in Hf; lia|]. cbn [path_cnames]. rewrite dname_eqb_refl. cbn. auto.
  - destruct fuel as [|fuel]; [cbn in Hf; lia|]. cbn [path_cnames].
    assert (Hne : dname_eqb n f = false) by (apply dname_eqb_neq; intro; subst; congruence).
    rewrite Hne, E.
    fold (path_pred n t).
    destruct (find (path_pred n t) answers) as [an|] eqn:F.
    + apply find_some in F. destruct F as [Hin Hpred]. apply path_pred_spec in Hpred.
      destruct Hpred as [Hk Hc]. cbn [app length] in *.
      destruct (IH Hn fuel ltac:(lia)) as [H1 H2].
      split; [cbn [chain_rel]; auto | constructor; auto].
    + exfalso. destruct (Hm _ _ E) as [r [Hin [Hk Hc]]].
      pose proof (find_none _ _ F r Hin) as Hx.
      assert (path_pred n t r = true) by (apply path_pred_spec; auto). congruence.
Qed.

(* the fuel of the path loop is never the reason it stops: any larger fuel gives the same list *)
Lemma path_cnames_fuel_irrelevant answers m : forall l n f, mpath m n l f -> alookup dname_eqb f m = None ->
  forall fuel1 fuel2, (length l < fuel1)%nat -> (length l < fuel2)%nat ->
  path_cnames fuel1 answers m f n = path_cnames fuel2 answers m f n.
Proof.
  induction 1 as [n|n t l f E Hp IH]; intros Hn fuel1 fuel2 H1 H2;
    (destruct fuel1 as [|fuel1]; [cbn in H1; lia|]); (destruct fuel2 as [|fuel2]; [cbn in H2; lia|]);
    cbn [path_cnames].
  - rewrite dname_eqb_refl. reflexivity.
  - assert (Hne : dname_eqb n f = false) by (apply dname_eqb_neq; intro; subst; congruence).
    rewrite Hne, E. f_equal. cbn [length] in H1, H2. apply (IH Hn); lia.
Qed.

Lemma path_cnames_at_final fuel answers m f : path_cnames (S fuel) answers m f f = [].
Proof. cbn [path_cnames]. rewrite dname_eqb_refl. reflexivity. Qed.

Lemma chain_rel_chain_from m : forall l n f cs,
  mpath m n l f -> chain_rel m n cs l -> chain_from n cs = Some f.
Proof.
  induction l as [|t l IH]; intros n f cs Hp Hc.
  - apply mpath_nil_inv in Hp. subst. destruct cs; [reflexivity | destruct Hc].
  - apply mpath_cons_inv in Hp. destruct Hp as [_ Hp]. destruct cs as [|c cs]; [destruct Hc|].
    destruct Hc as [[Hn [Ht Hd]] [_ Hc]]. cbn [chain_from].
    rewrite Hn, dname_eqb_refl, Ht, N.eqb_refl, Hd. cbn [andb]. apply (IH _ _ _ Hp Hc).
Qed.

Lemma chain_rel_length m : forall l n cs, chain_rel m n cs l -> length cs = length l.
Proof.
  induction l as [|t l IH]; intros n [|c cs] H; cbn [chain_rel] in H; try contradiction.
  - reflexivity.
  - cbn [length]. f_equal. apply (IH t). apply H.
Qed.

Lemma chain_rel_data m : forall l n cs, chain_rel m n cs l -> map rr_data cs = map RD_Name l.
Proof.
  induction l as [|t l IH]; intros n [|c cs] H; cbn [chain_rel] in H; try contradiction.
  - reflexivity.
  - destruct H as [[_ [_ Hd]] [_ H]]. cbn [map]. rewrite Hd. f_equal. apply (IH t). exact H.
Qed.

(* an owner determines its target (the map is a function) *)
Lemma chain_rel_fun m : forall l n cs, chain_rel m n cs l ->
  forall x, In x cs -> exists t, rr_data x = RD_Name t /\ alookup dname_eqb (rr_name x) m = Some t.
Proof.
  induction l as [|t l IH]; intros n [|c cs] H; cbn [chain_rel] in H; try contradiction.
  destruct H as [[Hn [_ Hd]] [E H]]. intros x [<-|Hin].
  - exists t. rewrite Hn. auto.
  - apply (IH t cs H x Hin).
Qed.

Lemma NoDup_map_fun {A B C} (f : A -> B) (g : A -> C) (l : list A) :
  (forall x y, In x l -> In y l -> f x = f y -> g x = g y) -> NoDup (map g l) -> NoDup (map f l).
Proof.
  induction l as [|a l IH]; intros Hfg Hnd; cbn [map] in *; [constructor|].
  inversion Hnd; subst. constructor.
  - intro Hin. apply in_map_iff in Hin. destruct Hin as [x [Hx Hin]].
    apply H1. apply in_map_iff. exists x. split; [|exact Hin].
    apply Hfg; [right; exact Hin | left; reflexivity | exact Hx].
  - apply IH; [|exact H2]. intros x y Hx Hy. apply Hfg; right; assumption.
Qed.

Lemma chain_rel_owners_nodup m l n cs : chain_rel m n cs l -> NoDup l -> NoDup (map rr_name cs).
Proof.
  intros H Hnd. apply (NoDup_map_fun rr_name rr_data).
  - intros x y Hx Hy E.
    destruct (chain_rel_fun _ _ _ _ H x Hx) as [tx [Dx Fx]].
    destruct (chain_rel_fun _ _ _ _ H y Hy) as [ty [Dy Fy]].
    rewrite E in Fx. rewrite Fx in Fy. inversion Fy. subst. congruence.
  - rewrite (chain_rel_data _ _ _ _ H). apply FinFun.Injective_map_NoDup; [|exact Hnd].
    intros a b E. inversion E. reflexivity.
Qed.

(* every owner on the chain, and its end, is reached from the start *)
Lemma chain_rel_reached answers q m : forall l n cs f,
  mpath m n l f -> chain_rel m n cs l -> Forall (fun c => In c answers /\ known c) cs ->
  reached answers q n ->
  Forall (fun c => reached answers q (rr_name c)) cs /\ reached answers q f.
Proof.
  induction l as [|t l IH]; intros n cs f Hp Hc Hf Hr.
  - apply mpath_nil_inv in Hp. subst. destruct cs; [split; [constructor | exact Hr] | destruct Hc].
  - apply mpath_cons_inv in Hp. destruct Hp as [_ Hp]. destruct cs as [|c cs]; [destruct Hc|].
    destruct Hc as [Hcn [_ Hc]]. apply Forall_cons_iff in Hf. destruct Hf as [[Hin Hk] Hf].
    assert (Hr' : reached answers q t) by (eapply reached_step; eauto).
    destruct (IH _ _ _ Hp Hc Hf Hr') as [H5 H6].
    split; [constructor; [destruct Hcn as [-> _]; exact Hr | exact H5] | exact H6].
Qed.

Lemma mpath_length_le m : forall n l f, mpath m n l f -> NoDup l -> (length l <= length m)%nat.
Proof.
  intros n l f Hp Hnd. rewrite <- (map_length snd m). apply NoDup_incl_length; [exact Hnd|].
  induction Hp as [|n t l f E Hp IH]; [intros x []|].
  inversion Hnd; subst. intros x [<-|Hx]; [|apply IH; assumption].
  apply alookup_some in E. apply (in_map snd) in E. exact E.
Qed.

Lemma chain_rel_cnames m : forall l n cs, chain_rel m n cs l ->
  Forall (fun c => exists t, cname_rr c (rr_name c) t) cs.
Proof.
  induction l as [|t l IH]; intros n [|c cs] H; cbn [chain_rel] in H; try contradiction; [constructor|].
  destruct H as [[Hn [Ht Hd]] [_ H]]. constructor; [|apply (IH t); exact H].
  exists t. unfold cname_rr. auto.
Qed.

(* ================= the answer branch ================= *)

Definition final_pred (q : question) (f : dname) (an : rr) : bool :=
  negb (rr_is_unknown an) && rtype_matches (rr_type an) (q_type q) && dname_eqb (rr_name an) f.

Lemma rtype_matches_concrete t qt : qt <> QT_Wildcard -> rtype_matches t qt = true -> t = qt.
Proof.
  unfold rtype_matches. intros Hq. destruct (qt =? QT_Wildcard) eqn:E; [apply N.eqb_eq in E; contradiction|].
  destruct (existsb _ qtype_table); [discriminate|]. apply N.eqb_eq.
Qed.

Lemma cname_not_wildcard : RT_CNAME <> QT_Wildcard.
Proof. vm_compute. discriminate. Qed.

(* what the answer branch computes, in the two cases of follow_cases *)
Lemma answer_branch_parts q resp f m :
  follow_cnames (m_answers resp) (q_name q) (q_type q) = Ok (Some (f, m)) ->
  let answers := m_answers resp in
  let cn := path_cnames (S (length m)) answers m f (q_name q) in
  let fin := filter (final_pred q f) answers in
  vchain_ok (q_name q) (q_type q) cn fin f /\ Forall (allowed_answer q resp) (cn ++ fin) /\
  (exists r, In r answers /\ known r) /\ (cn <> [] \/ fin <> []).
Proof.
  intros Hf answers cn fin.
  assert (Hfin : forall x, In x fin -> In x answers /\ known x /\ rtype_matches (rr_type x) (q_type q) = true /\ rr_name x = f).
  { intros x Hx. unfold fin in Hx. apply filter_In in Hx. destruct Hx as [Hin Hx].
    unfold final_pred in Hx. rewrite !andb_true_iff, negb_true_iff, dname_eqb_eq in Hx.
    unfold known. tauto. }
  assert (Hwit : match_witness answers (q_name q) (q_type q) -> f = q_name q ->
                 (exists r, In r answers /\ known r) /\ fin <> []).
  { intros [r [Hin [Hk [Hname Hmatch]]]] Hfq. split; [exists r; auto|].
    assert (In r fin).
    { unfold fin. apply filter_In. split; [exact Hin|].
      unfold final_pred. rewrite Hk, Hmatch, Hname, Hfq, dname_eqb_refl. reflexivity. }
    intro E. rewrite E in H. exact H. }
  destruct (follow_cases _ _ _ _ _ Hf) as [Hmeq [[Hq [Hfq W]]|[Hq [l [Hp [Hn [Hnd Hwhy]]]]]]].
  - (* a CNAME question: no path *)
    assert (Hcn : cn = []) by (unfold cn; rewrite Hfq; apply path_cnames_at_final).
    rewrite Hcn. cbn [app]. destruct (Hwit W Hfq) as [Hex Hne].
    split; [|split; [|split; [exact Hex | right; exact Hne]]].
    + split; [cbn [chain_from]; rewrite Hfq; reflexivity|]. split; [constructor|]. split; [|auto].
      apply Forall_forall. intros x Hx. destruct (Hfin x Hx) as [_ [_ [Hm' Hn']]].
      split; [exact Hn'|]. split; [exact Hm'|]. intro Hc. contradiction.
    + apply Forall_forall. intros x Hx. destruct (Hfin x Hx) as [Hin [Hk [Hm' Hn']]].
      split; [exact Hin|]. split; [exact Hk|]. left. split; [exact Hq|]. split; [rewrite Hn'; exact Hfq|].
      rewrite Hq in Hm'. apply (rtype_matches_concrete _ _ cname_not_wildcard Hm').
  - (* any other question: the path of the map *)
    assert (Hm : forall k t, alookup dname_eqb k m = Some t -> exists r, In r answers /\ known r /\ cname_rr r k t)
      by (intros k t; apply (follow_map_sound _ _ _ _ _ _ _ Hf)).
    assert (Hlen : (length l < S (length m))%nat)
      by (pose proof (mpath_length_le _ _ _ _ Hp Hnd); lia).
    destruct (path_cnames_spec answers m Hm l (q_name q) f Hp Hn _ Hlen) as [Hrel Hall]. fold cn in Hrel, Hall.
    destruct (chain_rel_reached answers (q_name q) m l (q_name q) cn f Hp Hrel Hall (reached_start _ _)) as [Hreach Hrf].
    assert (Hterm : terminal answers f) by (rewrite Hmeq in Hn; exact (map_none_terminal _ _ _ _ Hn)).
    split; [|split; [|split]].
    + split; [exact (chain_rel_chain_from _ _ _ _ _ Hp Hrel)|].
      split; [exact (chain_rel_owners_nodup _ _ _ _ Hrel Hnd)|]. split; [|intro; contradiction].
      apply Forall_forall. intros x Hx. destruct (Hfin x Hx) as [Hin [Hk [Hm' Hn']]].
      split; [exact Hn'|]. split; [exact Hm'|]. intros _ [t Hc]. exact (Hterm x t Hin Hk Hc).
    + apply Forall_app. split.
      * pose proof (chain_rel_cnames _ _ _ _ Hrel) as Hcs.
        rewrite Forall_forall in *. intros x Hx. destruct (Hall x Hx) as [Hin Hk].
        split; [exact Hin|]. split; [exact Hk|]. right. split; [exact Hq|]. split; [exact (Hreach x Hx)|].
        left. exact (Hcs x Hx).
      * apply Forall_forall. intros x Hx. destruct (Hfin x Hx) as [Hin [Hk [Hm' Hn']]].
        split; [exact Hin|]. split; [exact Hk|]. right. split; [exact Hq|]. rewrite Hn'. split; [exact Hrf|].
        right. split; [exact Hm' | exact Hterm].
    + destruct Hwhy as [Hl|W].
      * destruct l as [|t l']; [contradiction|]. apply mpath_cons_inv in Hp. destruct Hp as [Ht _].
        destruct (Hm _ _ Ht) as [r [Hin [Hk _]]]. exists r. auto.
      * destruct W as [r [Hin [Hk _]]]. exists r. auto.
    + pose proof (chain_rel_length _ _ _ _ Hrel) as Hcl.
      destruct l as [|t l'].
      * right. apply mpath_nil_inv in Hp. destruct Hwhy as [Hl|W]; [contradiction|]. apply (Hwit W Hp).
      * left. destruct cn; [discriminate Hcl | discriminate].
Qed.

(* the two `None` arms inside the answer branch ("all RRs unknown", "expected RRs")
   are dead code: whenever follow_cnames finds a name the branch produces a result *)
Lemma validate_answer_eq q resp mc f m :
  follow_cnames (m_answers resp) (q_name q) (q_type q) = Ok (Some (f, m)) ->
  let cn := path_cnames (S (length m)) (m_answers resp) m f (q_name q) in
  let fin := filter (final_pred q f) (m_answers resp) in
  validate_nameserver_response q resp mc =
  if negb (is_nil fin) then Ok (Some (NRAnswer (cn ++ fin) None)) else Ok (Some (NRCname (cn ++ fin) f)).
Proof.
  intros Hf cn fin. destruct (answer_branch_parts q resp f m Hf) as [_ [_ [[r [Hin Hk]] Hne]]].
  fold cn fin in Hne.
  unfold validate_nameserver_response. rewrite Hf. fold (final_pred q f). fold cn fin.
  assert (Hau : forallb rr_is_unknown (m_answers resp) = false).
  { destruct (forallb rr_is_unknown (m_answers resp)) eqn:E; [|reflexivity].
    rewrite forallb_forall in E. specialize (E r Hin). unfold known in Hk. congruence. }
  rewrite Hau.
  assert (Hnil : is_nil (cn ++ fin) = false).
  { destruct Hne as [Hne|Hne]; [destruct cn; [contradiction | reflexivity]|].
    destruct cn; [|reflexivity]. destruct fin; [contradiction | reflexivity]. }
  rewrite Hnil. reflexivity.
Qed.

Lemma validate_answer_live q resp mc f m :
  follow_cnames (m_answers resp) (q_name q) (q_type q) = Ok (Some (f, m)) ->
  exists r, validate_nameserver_response q resp mc = Ok (Some r).
Proof.
  intro Hf. rewrite (validate_answer_eq q resp mc f m Hf).
  match goal with |- context [negb (is_nil ?l)] => destruct (negb (is_nil l)) end; eexists; reflexivity.
Qed.

Lemma validate_answer_shape q resp mc r f m :
  follow_cnames (m_answers resp) (q_name q) (q_type q) = Ok (Some (f, m)) ->
  validate_nameserver_response q resp mc = Ok (Some r) ->
  exists cn fin,
    vchain_ok (q_name q) (q_type q) cn fin f /\ Forall (allowed_answer q resp) (cn ++ fin) /\
    ((r = NRAnswer (cn ++ fin) None /\ fin <> []) \/ (r = NRCname cn f /\ fin = [] /\ cn <> [])).
Proof.
  intros Hf Hv. rewrite (validate_answer_eq q resp mc f m Hf) in Hv.
  destruct (answer_branch_parts q resp f m Hf) as [Hch [Hall [_ Hne]]].
  set (cn := path_cnames (S (length m)) (m_answers resp) m f (q_name q)) in *.
  set (fin := filter (final_pred q f) (m_answers resp)) in *.
  exists cn, fin. split; [exact Hch|]. split; [exact Hall|].
  destruct fin as [|x fin'] eqn:Efin; cbn [is_nil negb] in Hv.
  - right. inversion Hv. rewrite app_nil_r. split; [reflexivity|]. split; [reflexivity|].
    destruct Hne as [Hne|Hne]; [exact Hne | contradiction].
  - left. inversion Hv. split; [reflexivity | discriminate].
Qed.

(* ================= get_better_ns_names ================= *)

Definition cand (tgt : dname) (r : rr) (h : dname) : Prop :=
  is_ns_rr r = Some h /\ is_subdomain_of tgt (rr_name r) = true.

Lemma bnl_inv tgt : forall rrs cnt mn names mn' names',
  better_ns_loop rrs tgt cnt mn names = (mn', names') ->
  exists cnt',
    cnt <= cnt' /\
    (forall r h, In r rrs -> cand tgt r h -> nlabels (rr_name r) <= cnt') /\
    (forall h, In h names' ->
       (cnt' = cnt /\ In h names) \/ exists r, In r rrs /\ cand tgt r h /\ nlabels (rr_name r) = cnt') /\
    ((cnt' = cnt /\ mn' = mn /\ incl names names') \/
     (cnt < cnt' /\ names' <> [] /\
      exists r h, In r rrs /\ cand tgt r h /\ mn' = Some (rr_name r) /\ nlabels (rr_name r) = cnt')).
Proof.
  induction rrs as [|r rrs IH]; intros cnt mn names mn' names' H; cbn [better_ns_loop] in H.
  - inversion H; subst. exists cnt. split; [lia|]. split; [intros r h []|]. split; [intros h Hh; left; auto|].
    left. split; [reflexivity|]. split; [reflexivity | apply incl_refl].
  - assert (Hskip : (forall h, ~ cand tgt r h) \/ (exists h, cand tgt r h /\ nlabels (rr_name r) < cnt) ->
                    better_ns_loop rrs tgt cnt mn names = (mn', names') ->
                    exists cnt', cnt <= cnt' /\
                      (forall r0 h, In r0 (r :: rrs) -> cand tgt r0 h -> nlabels (rr_name r0) <= cnt') /\
                      (forall h, In h names' -> (cnt' = cnt /\ In h names) \/
                          exists r0, In r0 (r :: rrs) /\ cand tgt r0 h /\ nlabels (rr_name r0) = cnt') /\
                      ((cnt' = cnt /\ mn' = mn /\ incl names names') \/
                       (cnt < cnt' /\ names' <> [] /\ exists r0 h, In r0 (r :: rrs) /\ cand tgt r0 h /\
                           mn' = Some (rr_name r0) /\ nlabels (rr_name r0) = cnt'))).
    { intros Hno H'. destruct (IH _ _ _ _ _ H') as [cnt' [H1 [H2 [H3 H4]]]]. exists cnt'.
      split; [exact H1|]. split; [|split].
      - intros r0 h [<-|Hin] Hc; [|exact (H2 _ _ Hin Hc)].
        destruct Hno as [Hno|[h' [_ Hlt]]]; [exfalso; exact (Hno h Hc) | lia].
      - intros h Hh. destruct (H3 h Hh) as [Hl|[r0 [Hin Hr]]]; [left; exact Hl | right; exists r0; split; [right; exact Hin | exact Hr]].
      - destruct H4 as [Hl|[Hlt [Hne [r0 [h [Hin Hr]]]]]]; [left; exact Hl|].
        right. split; [exact Hlt|]. split; [exact Hne|]. exists r0, h. split; [right; exact Hin | exact Hr]. }
    destruct (is_ns_rr r) as [nsd|] eqn:Ens; [|apply Hskip; [left; intros h [Hc _]; congruence | exact H]].
    destruct (is_subdomain_of tgt (rr_name r)) eqn:Esub; [|apply Hskip; [left; intros h [_ Hc]; congruence | exact H]].
    fold (nlabels (rr_name r)) in H.
    assert (Hcand : cand tgt r nsd) by (split; assumption).
    destruct (cnt <? nlabels (rr_name r)) eqn:Elt.
    + apply N.ltb_lt in Elt. destruct (IH _ _ _ _ _ H) as [cnt' [H1 [H2 [H3 H4]]]]. exists cnt'.
      split; [lia|]. split; [|split].
      * intros r0 h [<-|Hin] Hc; [exact H1 | exact (H2 _ _ Hin Hc)].
      * intros h Hh. right. destruct (H3 h Hh) as [[Heq [<-|[]]]|[r0 [Hin Hr]]].
        -- exists r. split; [left; reflexivity|]. split; [exact Hcand | symmetry; exact Heq].
        -- exists r0. split; [right; exact Hin | exact Hr].
      * right. split; [lia|]. destruct H4 as [[Heq [Hmn Hincl]]|[Hlt [Hne [r0 [h [Hin Hr]]]]]].
        -- split; [intro E; specialize (Hincl nsd (or_introl eq_refl)); rewrite E in Hincl; exact Hincl|].
           exists r, nsd. split; [left; reflexivity|]. split; [exact Hcand|]. split; [exact Hmn | symmetry; exact Heq].
        -- split; [exact Hne|]. exists r0, h. split; [right; exact Hin | exact Hr].
    + apply N.ltb_ge in Elt. destruct (nlabels (rr_name r) =? cnt) eqn:Eeq.
      * apply N.eqb_eq in Eeq. destruct (IH _ _ _ _ _ H) as [cnt' [H1 [H2 [H3 H4]]]]. exists cnt'.
        split; [exact H1|]. split; [|split].
        -- intros r0 h [<-|Hin] Hc; [lia | exact (H2 _ _ Hin Hc)].
        -- intros h Hh. destruct (H3 h Hh) as [[Heq Hin]|[r0 [Hin Hr]]].
           ++ apply set_insert_in in Hin. destruct Hin as [->|Hin]; [|left; auto].
              right. exists r. split; [left; reflexivity|]. split; [exact Hcand | lia].
           ++ right. exists r0. split; [right; exact Hin | exact Hr].
        -- destruct H4 as [[Heq [Hmn Hincl]]|[Hlt [Hne [r0 [h [Hin Hr]]]]]].
           ++ left. split; [exact Heq|]. split; [exact Hmn|]. intros x Hx. apply Hincl. apply set_insert_in. right. exact Hx.
           ++ right. split; [exact Hlt|]. split; [exact Hne|]. exists r0, h. split; [right; exact Hin | exact Hr].
      * apply N.eqb_neq in Eeq. apply Hskip; [|exact H]. right. exists nsd. split; [exact Hcand | lia].
Qed.

Lemma gbn_some rrs tgt mc d names :
  get_better_ns_names rrs tgt mc = Some (d, names) ->
  mc < nlabels d /\ is_subdomain_of tgt d = true /\ names <> [] /\
  (exists r h, In r rrs /\ cand tgt r h /\ rr_name r = d) /\
  (forall r h, In r rrs -> cand tgt r h -> nlabels (rr_name r) <= nlabels d) /\
  (forall h, In h names -> exists r, In r rrs /\ cand tgt r h /\ nlabels (rr_name r) = nlabels d).
Proof.
  unfold get_better_ns_names. destruct (better_ns_loop rrs tgt mc None []) as [[mn|] names'] eqn:E; [|discriminate].
  intro H; inversion H; subst mn names'. clear H.
  destruct (bnl_inv _ _ _ _ _ _ _ E) as [cnt' [H1 [H2 [H3 H4]]]].
  destruct H4 as [[_ [Hmn _]]|[Hlt [Hne [r [h [Hin [Hc [Hmn Hl]]]]]]]]; [discriminate|].
  inversion Hmn; subst d. rewrite Hl.
  split; [exact Hlt|]. split; [apply Hc|]. split; [exact Hne|].
  split; [exists r, h; auto|]. split; [exact H2|].
  intros h' Hh'. destruct (H3 h' Hh') as [[Heq _]|Hr]; [lia | exact Hr].
Qed.

Lemma gbn_none rrs tgt mc :
  get_better_ns_names rrs tgt mc = None ->
  forall r h, In r rrs -> cand tgt r h -> nlabels (rr_name r) <= mc.
Proof.
  unfold get_better_ns_names. destruct (better_ns_loop rrs tgt mc None []) as [[mn|] names'] eqn:E; [discriminate|].
  intros _. destruct (bnl_inv _ _ _ _ _ _ _ E) as [cnt' [H1 [H2 [H3 H4]]]].
  destruct H4 as [[Heq _]|[_ [_ [r [h [_ [_ [Hmn _]]]]]]]]; [|discriminate].
  subst cnt'. exact H2.
Qed.

(* ================= the delegation branch ================= *)

Lemma fold_set_insert_in : forall (l acc : list dname) x,
  In x (fold_left (fun acc n => set_insert n acc) l acc) <-> In x acc \/ In x l.
Proof.
  induction l as [|n l IH]; intros acc x; cbn [fold_left In]; [tauto|].
  rewrite IH, set_insert_in. split; [intros [[->|H]|H] | intros [H|[->|H]]]; auto.
Qed.

(* what the choice between the answer and the authority section guarantees *)
Definition deleg_ok (q : question) (mc : N) (resp : message) (d : dname) (names : list dname) : Prop :=
  let here r := In r (m_answers resp) \/ In r (m_authority resp) in
  mc < nlabels d /\ is_subdomain_of (q_name q) d = true /\ names <> [] /\
  (exists r h, here r /\ cand (q_name q) r h /\ rr_name r = d) /\
  (forall r h, here r -> cand (q_name q) r h -> nlabels (rr_name r) <= nlabels d) /\
  (forall h, In h names -> exists r, here r /\ cand (q_name q) r h /\ nlabels (rr_name r) = nlabels d).

Definition chosen_of (q : question) (resp : message) (mc : N) : option (dname * list dname) :=
  match get_better_ns_names (m_answers resp) (q_name q) mc, get_better_ns_names (m_authority resp) (q_name q) mc with
  | Some (mn1, nss1), Some (mn2, nss2) =>
    let l1 := llen (labels mn1) in let l2 := llen (labels mn2) in
    if l2 <? l1 then Some (mn1, nss1)
    else if l1 =? l2 then Some (mn1, fold_left (fun acc n => set_insert n acc) nss2 nss1)
    else Some (mn2, nss2)
  | Some x, None => Some x
  | None, Some x => Some x
  | None, None => None
  end.

Lemma chosen_ok q resp mc d names : chosen_of q resp mc = Some (d, names) -> deleg_ok q mc resp d names.
Proof.
  unfold chosen_of, deleg_ok.
  destruct (get_better_ns_names (m_answers resp) (q_name q) mc) as [[d1 n1]|] eqn:E1;
  destruct (get_better_ns_names (m_authority resp) (q_name q) mc) as [[d2 n2]|] eqn:E2.
  - destruct (gbn_some _ _ _ _ _ E1) as [A1 [A2 [A3 [[ra [ha [A4 [A4' A4'']]]] [A5 A6]]]]].
    destruct (gbn_some _ _ _ _ _ E2) as [B1 [B2 [B3 [[rb [hb [B4 [B4' B4'']]]] [B5 B6]]]]].
    fold (nlabels d1). fold (nlabels d2).
    destruct (nlabels d2 <? nlabels d1) eqn:C1; [|destruct (nlabels d1 =? nlabels d2) eqn:C2].
    + apply N.ltb_lt in C1. intro H; inversion H; subst d names.
      repeat split; try assumption.
      * exists ra, ha. auto.
      * intros r h [Hr|Hr] Hc; [exact (A5 _ _ Hr Hc) | pose proof (B5 _ _ Hr Hc); lia].
      * intros h Hh. destruct (A6 h Hh) as [r [Hr Hx]]. exists r. auto.
    + apply N.eqb_eq in C2. intro H; inversion H; subst d names.
      repeat split; try assumption.
      * intro E. assert (Hin : In (hd d1 n1) (fold_left (fun acc n => set_insert n acc) n2 n1)).
        { apply fold_set_insert_in. left. destruct n1; [contradiction | left; reflexivity]. }
        rewrite E in Hin. exact Hin.
      * exists ra, ha. auto.
      * intros r h [Hr|Hr] Hc; [exact (A5 _ _ Hr Hc) | pose proof (B5 _ _ Hr Hc); lia].
      * intros h Hh. apply fold_set_insert_in in Hh. destruct Hh as [Hh|Hh].
        -- destruct (A6 h Hh) as [r [Hr Hx]]. exists r. auto.
        -- destruct (B6 h Hh) as [r [Hr [Hc Hl]]]. exists r. split; [auto|]. split; [exact Hc | lia].
    + apply N.ltb_ge in C1. apply N.eqb_neq in C2. intro H; inversion H; subst d names.
      repeat split; try assumption.
      * exists rb, hb. auto.
      * intros r h [Hr|Hr] Hc; [pose proof (A5 _ _ Hr Hc); lia | exact (B5 _ _ Hr Hc)].
      * intros h Hh. destruct (B6 h Hh) as [r [Hr Hx]]. exists r. auto.
  - destruct (gbn_some _ _ _ _ _ E1) as [A1 [A2 [A3 [[ra [ha [A4 [A4' A4'']]]] [A5 A6]]]]].
    pose proof (gbn_none _ _ _ E2) as B5.
    intro H; inversion H; subst d names. repeat split; try assumption.
    + exists ra, ha. auto.
    + intros r h [Hr|Hr] Hc; [exact (A5 _ _ Hr Hc) | pose proof (B5 _ _ Hr Hc); lia].
    + intros h Hh. destruct (A6 h Hh) as [r [Hr Hx]]. exists r. auto.
  - destruct (gbn_some _ _ _ _ _ E2) as [B1 [B2 [B3 [[rb [hb [B4 [B4' B4'']]]] [B5 B6]]]]].
    pose proof (gbn_none _ _ _ E1) as A5.
    intro H; inversion H; subst d names. repeat split; try assumption.
    + exists rb, hb. auto.
    + intros r h [Hr|Hr] Hc; [pose proof (A5 _ _ Hr Hc); lia | exact (B5 _ _ Hr Hc)].
    + intros h Hh. destruct (B6 h Hh) as [r [Hr Hx]]. exists r. auto.
  - discriminate.
Qed.

Lemma ns_glue_filter_true d names allow_ns allow_addr x :
  ns_glue_filter d names allow_ns allow_addr x = true ->
  (exists h, ns_rr x h /\ allow_ns = true /\ rr_name x = d /\ In h names) \/
  (address_rr x /\ allow_addr = true /\ In (rr_name x) names).
Proof.
  unfold ns_glue_filter. destruct (is_ns_rr x) as [h|] eqn:E.
  - rewrite !andb_true_iff, dname_eqb_eq, set_mem_in. intros [[H1 H2] H3]. left. exists h.
    apply is_ns_rr_spec in E. auto.
  - destruct ((rr_type x =? RT_A) || (rr_type x =? RT_AAAA)) eqn:T; [|discriminate].
    rewrite andb_true_iff, set_mem_in. intros [H1 H2]. right. split; [|auto].
    apply orb_true_iff in T. unfold address_rr. rewrite !N.eqb_eq in T. exact T.
Qed.

Lemma cand_candidate q mc resp r h :
  (In r (m_answers resp) \/ In r (m_authority resp)) -> cand (q_name q) r h -> mc < nlabels (rr_name r) ->
  ns_candidate q mc resp r.
Proof.
  intros Hin [Hns Hsub] Hlt. split; [exact Hin|]. split; [exists h; apply is_ns_rr_spec; exact Hns|].
  split; [apply subdomain_is_suffix; exact Hsub | exact Hlt].
Qed.

Lemma candidate_cand q mc resp r : ns_candidate q mc resp r -> exists h, cand (q_name q) r h.
Proof.
  intros [_ [[h Hns] [Hanc _]]]. exists h. split; [apply is_ns_rr_spec; exact Hns | apply subdomain_is_suffix; exact Hanc].
Qed.

Lemma deleg_allowed_ns q mc resp d names r h :
  deleg_ok q mc resp d names ->
  (In r (m_answers resp) \/ In r (m_authority resp)) -> cand (q_name q) r h -> nlabels (rr_name r) = nlabels d ->
  allowed_ns q mc resp r.
Proof.
  intros [D1 [D2 [D3 [D4 [D5 D6]]]]] Hin Hc Hl. split.
  - apply (cand_candidate q mc resp r h Hin Hc). lia.
  - intros r' Hr'. destruct (candidate_cand _ _ _ _ Hr') as [h' Hc']. rewrite Hl.
    apply (D5 r' h'); [apply Hr' | exact Hc'].
Qed.

Definition delegation_rrs (resp : message) (d : dname) (names : list dname) : list rr :=
  filter (ns_glue_filter d names true true) (m_answers resp)
  ++ filter (ns_glue_filter d names true false) (m_authority resp)
  ++ filter (ns_glue_filter d names false true) (m_additional resp).

Lemma delegation_rrs_allowed q mc resp d names :
  deleg_ok q mc resp d names ->
  Forall (fun x => allowed_ns q mc resp x \/ allowed_glue q mc resp x) (delegation_rrs resp d names).
Proof.
  intro D. pose proof D as [D1 [D2 [D3 [D4 [D5 D6]]]]].
  assert (Hns : forall x h, (In x (m_answers resp) \/ In x (m_authority resp)) -> ns_rr x h -> rr_name x = d ->
                allowed_ns q mc resp x).
  { intros x h Hin Hns Hn. apply (deleg_allowed_ns q mc resp d names x h D Hin); [|rewrite Hn; reflexivity].
    split; [apply is_ns_rr_spec; exact Hns | rewrite Hn; exact D2]. }
  assert (Hglue : forall x, (In x (m_answers resp) \/ In x (m_additional resp)) -> address_rr x -> In (rr_name x) names ->
                  allowed_glue q mc resp x).
  { intros x Hin Ha Hn. split; [exact Hin|]. split; [exact Ha|].
    destruct (D6 _ Hn) as [r [Hr [Hc Hl]]]. exists r. split.
    - exact (deleg_allowed_ns q mc resp d names r _ D Hr Hc Hl).
    - apply is_ns_rr_spec. apply Hc. }
  unfold delegation_rrs. rewrite !Forall_app. repeat split; apply Forall_forall; intros x Hx;
    apply filter_In in Hx; destruct Hx as [Hin Hx]; apply ns_glue_filter_true in Hx;
    destruct Hx as [[h [H1 [H2 [H3 H4]]]]|[H1 [H2 H3]]]; try discriminate.
  - left. apply (Hns x h); auto.
  - right. apply Hglue; auto.
  - left. apply (Hns x h); auto.
  - right. apply Hglue; auto.
Qed.

(* two ancestors of one name with the same number of labels have the same labels *)
Lemma suffix_same_length {A} (a b l : list A) :
  is_suffix a l -> is_suffix b l -> length a = length b -> a = b.
Proof.
  intros [p1 H1] [p2 H2] Hl.
  assert (Ha : a = skipn (length l - length a) l).
  { rewrite H1 at 2. rewrite H1, app_length.
    replace (length p1 + length a - length a)%nat with (length p1) by lia.
    rewrite skipn_app, skipn_all, PeanoNat.Nat.sub_diag. reflexivity. }
  assert (Hb : b = skipn (length l - length b) l).
  { rewrite H2 at 2. rewrite H2, app_length.
    replace (length p2 + length b - length b)%nat with (length p2) by lia.
    rewrite skipn_app, skipn_all, PeanoNat.Nat.sub_diag. reflexivity. }
  rewrite Ha, Hb, Hl. reflexivity.
Qed.

Lemma wf_name_eq a b : wf_name a -> wf_name b -> labels a = labels b -> a = b.
Proof.
  intros [_ Ha] [_ Hb] E. destruct a as [la na], b as [lb nb]. cbn [labels nlen] in *. subst. reflexivity.
Qed.

(* every host of the delegation is named by an NS record that was kept *)
Lemma delegation_hosts_named q mc resp d names :
  deleg_ok q mc resp d names ->
  Forall (fun r => wf_name (rr_name r)) (m_answers resp ++ m_authority resp) ->
  forall h, In h names ->
  exists r, In r (delegation_rrs resp d names) /\ ns_rr r h /\ rr_name r = d.
Proof.
  intros [D1 [D2 [D3 [[r0 [h0 [Hr0 [Hc0 Hn0]]]] [D5 D6]]]]] Hwf h Hh.
  destruct (D6 h Hh) as [r [Hr [[Hns Hsub] Hl]]].
  rewrite Forall_forall in Hwf.
  assert (Hname : rr_name r = d).
  { apply wf_name_eq.
    - apply Hwf. apply in_app_iff. exact Hr.
    - rewrite <- Hn0. apply Hwf. apply in_app_iff. exact Hr0.
    - apply (suffix_same_length _ _ (labels (q_name q))).
      + apply subdomain_is_suffix. exact Hsub.
      + apply subdomain_is_suffix. exact D2.
      + unfold nlabels, llen in Hl. apply Nnat.Nat2N.inj. exact Hl. }
  exists r. split; [|split; [apply is_ns_rr_spec; exact Hns | exact Hname]].
  assert (Hf : forall b, ns_glue_filter d names true b r = true).
  { intro b. unfold ns_glue_filter. rewrite Hns, Hname, dname_eqb_refl. cbn [andb]. apply set_mem_in. exact Hh. }
  unfold delegation_rrs. rewrite !in_app_iff. destruct Hr as [Hr|Hr].
  - left. apply filter_In. auto.
  - right. left. apply filter_In. auto.
Qed.

(* ================= get_nxdomain_nodata_soa ================= *)

Lemma find_single_soa_spec : forall auth acc r,
  find_single_soa auth acc = Some (Some r) ->
  (acc = Some r /\ forall x, In x auth -> rr_type x <> RT_SOA) \/
  (acc = None /\ rr_type r = RT_SOA /\ exists l1 l2, auth = l1 ++ r :: l2 /\ forall x, In x (l1 ++ l2) -> rr_type x <> RT_SOA).
Proof.
  induction auth as [|a auth IH]; intros acc r H; cbn [find_single_soa] in H.
  - inversion H; subst. left. split; [reflexivity | intros x []].
  - destruct (rr_type a =? RT_SOA) eqn:E.
    + apply N.eqb_eq in E. destruct acc as [s|]; [discriminate|].
      destruct (IH _ _ H) as [[Hacc Hno]|[Hacc _]]; [|discriminate].
      inversion Hacc; subst a. right. split; [reflexivity|]. split; [exact E|].
      exists [], auth. split; [reflexivity | exact Hno].
    + apply N.eqb_neq in E. destruct (IH _ _ H) as [[Hacc Hno]|[Hacc [Ht [l1 [l2 [Hl Hno]]]]]].
      * left. split; [exact Hacc|]. intros x [<-|Hx]; [exact E | exact (Hno x Hx)].
      * right. split; [exact Hacc|]. split; [exact Ht|]. exists (a :: l1), l2. split; [rewrite Hl; reflexivity|].
        intros x [<-|Hx]; [exact E | exact (Hno x Hx)].
Qed.

Lemma soa_sound q resp mc r :
  get_nxdomain_nodata_soa q resp mc = Some r -> allowed_soa q mc resp r.
Proof.
  unfold get_nxdomain_nodata_soa, allowed_soa.
  destruct (m_answers resp) as [|a an] eqn:Ean; cbn [is_nil negb]; [|discriminate].
  destruct ((h_rcode (m_header resp) =? RCODE_NameError) || (h_rcode (m_header resp) =? RCODE_NoError)) eqn:Erc;
    cbn [negb]; [|discriminate].
  destruct (find_single_soa (m_authority resp) None) as [[s|]|] eqn:Ef; try discriminate.
  destruct (is_subdomain_of (q_name q) (rr_name s)) eqn:Esub; cbn [negb]; [|discriminate].
  destruct (llen (labels (rr_name s)) <? mc) eqn:Elt; [discriminate|].
  intro H; inversion H; subst s. clear H.
  destruct (find_single_soa_spec _ _ _ Ef) as [[Hacc _]|[_ [Ht Hl]]]; [discriminate|].
  split; [reflexivity|]. split.
  { apply orb_true_iff in Erc. rewrite !N.eqb_eq in Erc. tauto. }
  split; [exact Ht|]. split; [exact Hl|]. split; [apply subdomain_is_suffix; exact Esub|].
  apply N.ltb_ge in Elt. exact Elt.
Qed.

(* ================= validate_nameserver_response as a whole ================= *)

Definition result_rrs (r : nsresponse) : list rr :=
  match r with
  | NRAnswer rrs soa => rrs ++ match soa with Some s => [s] | None => [] end
  | NRCname rrs _ => rrs
  | NRDelegation rrs _ => rrs
  end.

Lemma validate_deleg_branch q resp mc :
  follow_cnames (m_answers resp) (q_name q) (q_type q) = Ok None ->
  validate_nameserver_response q resp mc =
  match chosen_of q resp mc with
  | None => Ok (option_map (fun soa => NRAnswer [] (Some soa)) (get_nxdomain_nodata_soa q resp mc))
  | Some (d, names) =>
    Ok (Some (NRDelegation (delegation_rrs resp d names) {| ns_hostnames := names; ns_name := d |}))
  end.
Proof.
  intro H. unfold validate_nameserver_response, chosen_of, delegation_rrs. rewrite H.
  destruct (get_better_ns_names (m_answers resp) (q_name q) mc) as [[d1 n1]|];
  destruct (get_better_ns_names (m_authority resp) (q_name q) mc) as [[d2 n2]|]; reflexivity.
Qed.

Theorem path_fuel_suffices answers qname qt f m k :
  follow_cnames answers qname qt = Ok (Some (f, m)) ->
  path_cnames (S (length m) + k) answers m f qname = path_cnames (S (length m)) answers m f qname.
Proof.
  intro Hf. destruct (follow_cases _ _ _ _ _ Hf) as [_ [[_ [-> _]]|[_ [l [Hp [Hn [Hnd _]]]]]]].
  - cbn [plus]. rewrite !path_cnames_at_final. reflexivity.
  - pose proof (mpath_length_le _ _ _ _ Hp Hnd).
    apply (path_cnames_fuel_irrelevant answers m l qname f Hp Hn); lia.
Qed.

Theorem follow_terminates rrs tgt qt : follow_cnames rrs tgt qt <> OutOfFuel.
Proof. destruct (follow_total rrs tgt qt) as [o H]. rewrite H. discriminate. Qed.

Theorem never_panics q resp mc : exists o, validate_nameserver_response q resp mc = Ok o.
Proof.
  destruct (follow_total (m_answers resp) (q_name q) (q_type q)) as [[[f m]|] H].
  - destruct (validate_answer_live q resp mc f m H) as [r Hr]. rewrite Hr. eexists; reflexivity.
  - rewrite (validate_deleg_branch _ _ _ H). destruct (chosen_of q resp mc) as [[d names]|]; eexists; reflexivity.
Qed.

(* per variant: what each record of the result is *)
Theorem filter_sound_strong q resp mc r :
  validate_nameserver_response q resp mc = Ok (Some r) ->
  match r with
  | NRAnswer rrs None => Forall (allowed_answer q resp) rrs
  | NRAnswer rrs (Some s) => rrs = [] /\ allowed_soa q mc resp s
  | NRCname rrs _ => Forall (allowed_answer q resp) rrs
  | NRDelegation rrs _ => Forall (fun x => allowed_ns q mc resp x \/ allowed_glue q mc resp x) rrs
  end.
Proof.
  intro Hv. destruct (follow_total (m_answers resp) (q_name q) (q_type q)) as [[[f m]|] H].
  - destruct (validate_answer_shape _ _ _ _ _ _ H Hv) as [cn [fin [_ [Hall [[-> _]|[-> [-> _]]]]]]].
    + exact Hall.
    + rewrite app_nil_r in Hall. exact Hall.
  - rewrite (validate_deleg_branch _ _ _ H) in Hv. destruct (chosen_of q resp mc) as [[d names]|] eqn:C.
    + inversion Hv; subst r. apply delegation_rrs_allowed. apply chosen_ok. exact C.
    + destruct (get_nxdomain_nodata_soa q resp mc) as [s|] eqn:S; cbn [option_map] in Hv; [|discriminate].
      inversion Hv; subst r. split; [reflexivity | apply soa_sound; exact S].
Qed.

Theorem filter_sound q resp mc r :
  validate_nameserver_response q resp mc = Ok (Some r) -> Forall (allowed q mc resp) (result_rrs r).
Proof.
  intro Hv. apply filter_sound_strong in Hv. unfold allowed.
  destruct r as [rrs [s|]|rrs c|rrs d]; cbn [result_rrs].
  - destruct Hv as [-> Hs]. cbn [app]. constructor; [tauto | constructor].
  - rewrite app_nil_r. eapply Forall_impl; [|exact Hv]. cbn beta. tauto.
  - eapply Forall_impl; [|exact Hv]. cbn beta. tauto.
  - eapply Forall_impl; [|exact Hv]. cbn beta. tauto.
Qed.

(* Answer / CNAME results are the chain from the question name, in order *)
Theorem filter_chain_ok q resp mc r :
  validate_nameserver_response q resp mc = Ok (Some r) ->
  match r with
  | NRAnswer rrs None =>
    exists cn fin last, rrs = cn ++ fin /\ fin <> [] /\ vchain_ok (q_name q) (q_type q) cn fin last
  | NRAnswer rrs (Some _) => rrs = []
  | NRCname rrs c => rrs <> [] /\ vchain_ok (q_name q) (q_type q) rrs [] c
  | NRDelegation _ _ => True
  end.
Proof.
  intro Hv. destruct (follow_total (m_answers resp) (q_name q) (q_type q)) as [[[f m]|] H].
  - destruct (validate_answer_shape _ _ _ _ _ _ H Hv) as [cn [fin [Hch [_ [[-> Hne]|[-> [-> Hne]]]]]]].
    + exists cn, fin, f. auto.
    + auto.
  - rewrite (validate_deleg_branch _ _ _ H) in Hv. destruct (chosen_of q resp mc) as [[d names]|] eqn:C.
    + inversion Hv; subst r. exact I.
    + destruct (get_nxdomain_nodata_soa q resp mc) as [s|] eqn:S; cbn [option_map] in Hv; [|discriminate].
      inversion Hv; subst r. reflexivity.
Qed.

Lemma validate_delegation_inv q resp mc rrs d :
  validate_nameserver_response q resp mc = Ok (Some (NRDelegation rrs d)) ->
  deleg_ok q mc resp (ns_name d) (ns_hostnames d) /\ rrs = delegation_rrs resp (ns_name d) (ns_hostnames d).
Proof.
  intro Hv. destruct (follow_total (m_answers resp) (q_name q) (q_type q)) as [[[f m]|] H].
  - destruct (validate_answer_shape _ _ _ _ _ _ H Hv) as [cn [fin [_ [_ [[E _]|[E _]]]]]]; discriminate.
  - rewrite (validate_deleg_branch _ _ _ H) in Hv. destruct (chosen_of q resp mc) as [[d' names]|] eqn:C.
    + inversion Hv; subst. cbn [ns_name ns_hostnames]. split; [apply chosen_ok; exact C | reflexivity].
    + destruct (get_nxdomain_nodata_soa q resp mc); discriminate.
Qed.

(* a referral is strictly closer to the question name than the delegation in use *)
Theorem delegation_progress q resp mc rrs d :
  validate_nameserver_response q resp mc = Ok (Some (NRDelegation rrs d)) ->
  mc < ns_match_count d /\ is_subdomain_of (q_name q) (ns_name d) = true /\
  ancestor_or_self (ns_name d) (q_name q).
Proof.
  intro Hv. destruct (validate_delegation_inv _ _ _ _ _ Hv) as [[D1 [D2 _]] _].
  split; [exact D1|]. split; [exact D2 | apply subdomain_is_suffix; exact D2].
Qed.

Theorem delegation_hostnames_nonempty q resp mc rrs d :
  validate_nameserver_response q resp mc = Ok (Some (NRDelegation rrs d)) -> ns_hostnames d <> [].
Proof. intro Hv. destruct (validate_delegation_inv _ _ _ _ _ Hv) as [[_ [_ [D3 _]]] _]. exact D3. Qed.

(* every host of the delegation is the target of an NS record of the delegated
   name that is among the accepted records (owners as a decoder produces them) *)
Theorem delegation_hostnames_named q resp mc rrs d :
  Forall (fun r => wf_name (rr_name r)) (m_answers resp ++ m_authority resp) ->
  validate_nameserver_response q resp mc = Ok (Some (NRDelegation rrs d)) ->
  forall h, In h (ns_hostnames d) -> exists r, In r rrs /\ ns_rr r h /\ rr_name r = ns_name d.
Proof.
  intros Hwf Hv h Hh. destruct (validate_delegation_inv _ _ _ _ _ Hv) as [D ->].
  exact (delegation_hosts_named _ _ _ _ _ D Hwf h Hh).
Qed.

(* without the well-formedness hypothesis: named by an NS record of the reply with
   as many labels as the delegated name, owned by an ancestor of the question name *)
Theorem delegation_hostnames_named_weak q resp mc rrs d :
  validate_nameserver_response q resp mc = Ok (Some (NRDelegation rrs d)) ->
  forall h, In h (ns_hostnames d) -> exists r, allowed_ns q mc resp r /\ ns_rr r h.
Proof.
  intros Hv h Hh. destruct (validate_delegation_inv _ _ _ _ _ Hv) as [D _].
  pose proof D as [_ [_ [_ [_ [_ D6]]]]]. destruct (D6 h Hh) as [r [Hr [Hc Hl]]].
  exists r. split; [exact (deleg_allowed_ns _ _ _ _ _ _ _ D Hr Hc Hl) | apply is_ns_rr_spec; apply Hc].
Qed.

(* ================= the header gate ================= *)

Lemma question_eqb_eq a b : question_eqb a b = true <-> a = b.
Proof.
  unfold question_eqb. rewrite !andb_true_iff, dname_eqb_eq, !N.eqb_eq.
  destruct a, b; cbn. split.
  - intros [[-> ->] ->]. reflexivity.
  - intro H; inversion H; auto.
Qed.

Definition questions_eqb : list question -> list question -> bool :=
  fix qeq (a b : list question) : bool :=
    match a, b with
    | [], [] => true
    | x :: a', y :: b' => question_eqb x y && qeq a' b'
    | _, _ => false
    end.

Lemma questions_eqb_eq : forall a b, questions_eqb a b = true <-> a = b.
Proof.
  induction a as [|x a IH]; intros [|y b]; cbn [questions_eqb]; split; intro H; try reflexivity; try discriminate.
  - apply andb_true_iff in H. destruct H as [H1 H2]. apply question_eqb_eq in H1. apply IH in H2. congruence.
  - inversion H; subst. apply andb_true_iff. split; [apply question_eqb_eq; reflexivity | apply IH; reflexivity].
Qed.

Theorem header_gate request response :
  response_matches_request request response = true <-> gate_ok request response.
Proof.
  unfold response_matches_request, gate_ok. fold questions_eqb.
  rewrite !andb_true_iff, orb_true_iff, negb_true_iff, !N.eqb_eq, questions_eqb_eq. tauto.
Qed.

(* query_nameserver returns only what passed the gate for ITS request *)
Theorem gate_sound id q rd t r :
  query_nameserver id q rd t = Ok (Some r) ->
  gate_ok (request_of id q rd) r /\
  h_id (m_header r) = id /\ h_opcode (m_header r) = OPCODE_Standard /\ m_questions r = [q].
Proof.
  intro H. assert (G : gate_ok (request_of id q rd) r).
  { apply header_gate. unfold query_nameserver in H.
    destruct (encode (request_of id q rd)) as [bs| | |]; try discriminate.
    destruct (query_nameserver_udp bs t) as [[u|]| | |]; cbn [bind] in H; try discriminate.
    - destruct (response_matches_request (request_of id q rd) u) eqn:E.
      + inversion H; subst. exact E.
      + destruct (query_nameserver_tcp t) as [[c|]| | |]; cbn [bind] in H; try discriminate.
        destruct (response_matches_request (request_of id q rd) c) eqn:E2; inversion H; subst. exact E2.
    - destruct (query_nameserver_tcp t) as [[c|]| | |]; cbn [bind] in H; try discriminate.
      destruct (response_matches_request (request_of id q rd) c) eqn:E2; inversion H; subst. exact E2. }
  split; [exact G|]. destruct G as [G1 [_ [G3 [_ [_ G6]]]]]. cbn in G1, G3, G6. auto.
Qed.

(* get_ip (used on the cached / returned records of a nameserver host) is total too *)
Theorem get_ip_total rrs tgt rtype : exists o, get_ip rrs tgt rtype = Ok o.
Proof.
  unfold get_ip. destruct (follow_total rrs tgt QT_Wildcard) as [[[f m]|] H]; rewrite H; [|eexists; reflexivity].
  destruct (get_record rrs f rtype) as [r|]; [|eexists; reflexivity].
  destruct (rr_data r); eexists; reflexivity.
Qed.

(* for a concrete record type asked, vchain_ok is chain_ok of Resolver/LocalSpec.v (C10) *)
Theorem vchain_chain_ok qname qt cn fin last :
  qt <> QT_Wildcard -> vchain_ok qname qt cn fin last -> chain_ok qname qt (cn ++ fin).
Proof.
  intros Hq [H1 [H2 [H3 _]]]. exists cn, fin, last. repeat split; try assumption.
  eapply Forall_impl; [|exact H3]. cbn beta. intros r [Hn [Hm _]]. split; [exact Hn|].
  apply rtype_matches_concrete; assumption.
Qed.
