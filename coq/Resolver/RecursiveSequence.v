(* Resolver/RecursiveSequence.v -- C07 for SEQUENCES of questions sharing one cache.

   [resolve_seq]: the questions of a list resolved one after the other, each with a fresh transport
   state (its own log and 60 s budget), the cache handed from one to the next.  When every question
   of the list is a plain question of the universe (RecursiveWarm.warm_question, plain_question) and
   the first starts in a cache consistent with the universe -- the empty cache is -- then EVERY
   question returns its authoritative answer: exactly [auth_answer] when it is resolved over the
   network, and the cached RRset with exactly the authoritative data (TTLs and order the cache's)
   when an earlier question of the sequence has put it into the cache; and the cache at the end is
   consistent again.  Induction on the list with RecursiveWarm.warm_correct_abstract (stage 1 (b)+(c)). *)
From Coq Require Import Permutation.
From RV Require Import Base.Prelude Name.NameModel Wire.WireTypes Zone.ZoneModel Zone.ZoneFlat Zone.ZoneProofs
     Resolver.LocalModel Resolver.TransportModel Resolver.RecursiveModel Resolver.ForwardingModel
     Resolver.Universe Resolver.RecursiveCorrect Resolver.RecursiveDepth1 Resolver.RecursiveChain
     Resolver.RecursiveWarm.
Set Default Timeout 120.

Section Sequence.
  Variable cache : Type.
  Variable cache_get : cache -> dname -> N -> list rr.
  Variable cache_insert_all : cache -> list rr -> cache.
  Variable sort_names : list dname -> list dname.
  Variable port : N.
  Variable zs : zones.
  Variable o : oracle.

  Notation run fuel q c :=
    (resolve cache cache_get cache_insert_all sort_names (ModeRecursive OnlyV4) port zs o fuel q (c, tstate_init)).

  (* per question: the result and the log of its exchanges; and the cache at the end *)
  Fixpoint resolve_seq (fuel : nat) (qs : list question) (c : cache)
    : list (res rerror resolved * list exchange) * cache :=
    match qs with
    | [] => ([], c)
    | q :: t =>
      let r := run fuel q c in
      let rest := resolve_seq fuel t (fst (snd r)) in
      ((fst r, ts_log (snd (snd r))) :: fst rest, snd rest)
    end.
End Sequence.

(* the result is the authoritative answer: the SOA of the denial exactly, the records with exactly
   the authoritative data *)
Definition answer_is_auth (u : universe) (q : question) (r : res rerror resolved) : Prop :=
  exists rrs, r = Ok (NonAuthoritative rrs (aa_soa (auth_answer u q))) /\ same_data rrs (aa_rrs (auth_answer u q)).

Section SequenceCorrect.
  Variable cache : Type.
  Variable cache_get : cache -> dname -> N -> list rr.
  Variable cache_insert_all : cache -> list rr -> cache.
  Hypothesis LAWS : cache_laws cache cache_get cache_insert_all.
  Variable sort_names : list dname -> list dname.
  Hypothesis Hsort : forall l, Permutation (sort_names l) l.
  Variable port : N.
  Variable u : universe.
  Hypothesis UNS : universe_ns_ok u.
  Variable hints : list rr.
  Variable hz : zone.
  Hypothesis Hbuilt : zone_build root_domain None (hint_ops hints) = Ok hz.
  Variable fuel : nat.

  Notation consistent := (cache_consistent u hints cache cache_get).
  Notation rseq := (resolve_seq cache cache_get cache_insert_all sort_names port (zones_insert [] hz) (universe_oracle u []) fuel).

  (* a question the sequence theorem covers: a plain question of the universe with its chain,
     short enough for the fuel *)
  Definition seq_question (q : question) : Prop :=
    exists zroot rest zk, warm_question u hints q zroot rest zk /\ plain_question u q /\ (length rest + 2 <= fuel)%nat.

  (* each question's outcome, relative to the cache it starts in (RecursiveWarm.warm_outcome) *)
  Fixpoint seq_outcomes (qs : list question) (c : cache) : Prop :=
    match qs with
    | [] => True
    | q :: t =>
      let r := resolve cache cache_get cache_insert_all sort_names (ModeRecursive OnlyV4) port (zones_insert [] hz)
                       (universe_oracle u []) fuel q (c, tstate_init) in
      (exists zroot rest, warm_outcome cache cache_get port u hints q zroot rest c r) /\ seq_outcomes t (fst (snd r))
    end.

  Theorem sequence_outcomes : forall qs c, Forall seq_question qs -> consistent c ->
    seq_outcomes qs c /\ consistent (snd (rseq qs c)).
  Proof.
    induction qs as [|q t IH]; intros c Hqs HC; cbn [seq_outcomes resolve_seq snd]; [split; [exact I|exact HC]|].
    inversion Hqs as [|? ? (zroot & rest & zk & WQ & Hq & Hf) Ht]; subst.
    pose proof (warm_correct_abstract cache cache_get cache_insert_all LAWS sort_names Hsort port u UNS hints hz Hbuilt
                  q zroot rest zk c fuel WQ Hq HC Hf) as Hout.
    pose proof Hout as (rrs & c' & ts' & E & HC' & _).
    rewrite E in *. cbn [fst snd] in *.
    destruct (IH c' Ht HC') as [H1 H2]. split; [|exact H2]. split; [|exact H1]. exists zroot, rest. exact Hout.
  Qed.

  Lemma seq_outcomes_auth : forall qs c, seq_outcomes qs c ->
    Forall2 (fun q out => answer_is_auth u q (fst out)) qs (fst (rseq qs c)).
  Proof.
    induction qs as [|q t IH]; intros c H; cbn [resolve_seq fst]; [constructor|].
    cbn [seq_outcomes] in H. destruct H as ((zroot & rest & rrs & c' & ts' & E & _ & Hcases) & Ht).
    constructor; [|exact (IH _ Ht)]. cbn [fst]. rewrite E. cbn [fst]. exists rrs. split; [reflexivity|].
    destruct Hcases as [(_ & _ & _ & _ & Hs)|(-> & _)]; [exact Hs|apply same_data_refl].
  Qed.

  (* STAGE 2: every question of the sequence returns its authoritative answer, and the cache stays
     consistent *)
  Theorem sequence_correct qs c : Forall seq_question qs -> consistent c ->
    Forall2 (fun q out => answer_is_auth u q (fst out)) qs (fst (rseq qs c)) /\ consistent (snd (rseq qs c)).
  Proof.
    intros Hqs HC. destruct (sequence_outcomes qs c Hqs HC) as [H1 H2]. split; [exact (seq_outcomes_auth qs c H1)|exact H2].
  Qed.
End SequenceCorrect.

(* for SimpleCache started empty: what the model driver runs on a stream case with several questions *)
Theorem sequence_correct_simple sort_names (Hsort : forall l, Permutation (sort_names l) l) port u hints hz fuel qs :
  universe_ns_ok u -> zone_build root_domain None (hint_ops hints) = Ok hz ->
  Forall (seq_question u hints fuel) qs ->
  Forall2 (fun q out => answer_is_auth u q (fst out)) qs
          (fst (resolve_seq scache sc_get sc_insert_all sort_names port (zones_insert [] hz) (universe_oracle u []) fuel qs sc_empty))
  /\ cache_consistent u hints scache sc_get
       (snd (resolve_seq scache sc_get sc_insert_all sort_names port (zones_insert [] hz) (universe_oracle u []) fuel qs sc_empty)).
Proof.
  intros UNS Hb Hqs.
  exact (sequence_correct scache sc_get sc_insert_all sc_cache_laws sort_names Hsort port u UNS hints hz Hb fuel qs sc_empty
           Hqs (sc_empty_consistent u hints)).
Qed.

(* ---- the hypotheses are satisfiable: on the worked universe of RecursiveWarm.v (the depth-3 chain
   with two cross-zone aliases) the sequence  www.sub.example.com. A, MX, A  on one SimpleCache
   started empty: every question returns its authoritative answer; evaluated inside Coq the three
   logs are: four exchanges (root, com., example.com., sub.example.com.), one (sub.example.com.),
   none (the cache) ---- *)
Definition c4_seq : list question := [c3_q; c3_q_mx; c3_q].

Lemma c4_seq_questions : Forall (seq_question c4_universe c3_hints 5%nat) c4_seq.
Proof.
  repeat constructor; exists c4_root, [c4_com; c4_ex; c4_sub], c4_sub.
  - split; [apply c4_warm_question; left; reflexivity|split; [apply c4_plain_question; left; reflexivity|cbn; lia]].
  - split; [apply c4_warm_question; right; reflexivity|split; [apply c4_plain_question; right; reflexivity|cbn; lia]].
  - split; [apply c4_warm_question; left; reflexivity|split; [apply c4_plain_question; left; reflexivity|cbn; lia]].
Qed.

Notation c4_seq_run := (resolve_seq scache sc_get sc_insert_all sort_names_ord 53 (zones_insert [] c3_hz)
                                    (universe_oracle c4_universe []) 5%nat c4_seq sc_empty).

Example sequence_example :
  Forall2 (fun q out => answer_is_auth c4_universe q (fst out)) c4_seq (fst c4_seq_run)
  /\ cache_consistent c4_universe c3_hints scache sc_get (snd c4_seq_run).
Proof.
  exact (sequence_correct_simple sort_names_ord sort_names_ord_perm 53 c4_universe c3_hints c3_hz 5%nat c4_seq
           c4_universe_ns_ok c3_hz_built c4_seq_questions).
Qed.

Example sequence_example_eval :
  map fst (fst c4_seq_run)
  = [Ok (NonAuthoritative [c3_rr c3_n_www RT_A 300 (RD_A 3221225985)] None);
     Ok (NonAuthoritative [] (Some (uz_soa c4_sub)));
     Ok (NonAuthoritative [c3_rr c3_n_www RT_A 300 (RD_A 3221225985)] None)]
  /\ map (fun out => map x_addr (snd out)) (fst c4_seq_run)
     = [[(inl c3_ip0, 53); (inl c3_ip1, 53); (inl c3_ip2, 53); (inl c3_ip3, 53)]; [(inl c3_ip3, 53)]; []].
Proof. vm_compute. split; reflexivity. Qed.
