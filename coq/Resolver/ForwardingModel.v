(* Resolver/ForwardingModel.v -- executable model of crates/dns-resolver/src/forwarding.rs
   (resolve_forwarding with its 60 s budget, resolve_forwarding_notimeout) and of
   the mode dispatch of lib.rs `resolve`.  Definitions only.  Same conventions as
   RecursiveModel.v. *)
From RV Require Import Base.Prelude Name.NameModel Wire.WireTypes Zone.ZoneModel
     Resolver.LocalModel Resolver.ValidateModel Resolver.TransportModel Resolver.RecursiveModel.

Section Forwarding.
  Variable cache : Type.
  Variable cache_get : cache -> dname -> N -> list rr.
  Variable cache_insert_all : cache -> list rr -> cache.
  Variable zs : zones.
  Variable o : oracle.
  Variable forward_address : addr.

  Notation RM := (RM cache).
  Notation "'do' x '<-' m ';;' k" := (rbind cache m (fun x => k)) (at level 200, x pattern, m at level 100, k at level 200, right associativity).
  Notation ret := (ret cache).
  Notation local := (local cache cache_get zs).

  (* the part after local resolution: forward the question.  [rec] is
     resolve_forwarding_notimeout (with the fuel left), [stack] the question
     stack of this call. *)
  Definition forward_query (rec : list question -> question -> RM rres) (stack : list question)
             (combined : list rr) (q : question) : RM rres :=
    do om <- lift_t cache (query_nameserver o forward_address q true) ;;
    match om with
    | Some response =>
      let soa_rr := get_nxdomain_nodata_soa q response 0 in
      let rrs := m_answers response in
      match cut_rrs zs q rrs with
      | Ok (Some (prefix, name)) =>
        (* the forwarder's answer leads into a locally authoritative name *)
        let cname_question := mkq name (q_type q) (q_class q) in
        do _ <- insert_all cache cache_insert_all prefix ;;
        let combined' := prioritising_merge combined prefix in
        do r <- rec (stack ++ [q]) cname_question ;;            (* context.push_question(question) *)
        match r with
        | ROk resolved => ret (ROk (NonAuthoritative (combined' ++ resolved_rrs resolved) (resolved_soa_rr resolved)))
        | RErr _ => ret (RErr (EDeadEnd cname_question))
        end
      | Ok None =>
        do _ <- insert_all cache cache_insert_all rrs ;;
        ret (ROk (NonAuthoritative (prioritising_merge combined rrs) soa_rr))
      | Err _ | Panic => stop cache APanic
      | OutOfFuel => stop cache AFuel
      end
    | None => ret (RErr (EDeadEnd q))
    end.

  Fixpoint resolve_forwarding_notimeout (fuel : nat) (stack : list question) (q : question) : RM rres :=
    match fuel with
    | O => stop cache AFuel
    | S f =>
      if at_recursion_limit stack then ret (RErr ERecursionLimit)
      else if is_duplicate_question stack q then ret (RErr (EDuplicateQuestion q))
      else
        do l <- local stack q ;;
        match l with
        | Some (LDone r) => ret (ROk r)
        | Some (LPartial rrs) => forward_query (resolve_forwarding_notimeout f) stack rrs q
        | Some (LDelegation _ _ _) => forward_query (resolve_forwarding_notimeout f) stack [] q
        | Some (LCname rrs cq) =>
          do r <- resolve_forwarding_notimeout f (stack ++ [q]) cq ;;
          match r with
          | ROk resolved => ret (ROk (NonAuthoritative (rrs ++ resolved_rrs resolved) (resolved_soa_rr resolved)))
          | RErr _ => ret (RErr (EDeadEnd cq))
          end
        | None => forward_query (resolve_forwarding_notimeout f) stack [] q
        end
    end.

  Definition resolve_forwarding (fuel : nat) (q : question) (st : rstate cache) : res rerror resolved * rstate cache :=
    finish cache (resolve_forwarding_notimeout fuel [] q st).
End Forwarding.

(* lib.rs resolve(): (is_recursive, forward_address) *)
Inductive resolver_mode :=
| ModeAuthoritative                                  (* (false, _) *)
| ModeRecursive (pmode : protocol_mode)              (* (true, None) *)
| ModeForwarding (forward_address : addr).           (* (true, Some(address)) *)

Section Resolve.
  Variable cache : Type.
  Variable cache_get : cache -> dname -> N -> list rr.
  Variable cache_insert_all : cache -> list rr -> cache.
  Variable sort_names : list dname -> list dname.

  Definition resolve (mode : resolver_mode) (upstream_dns_port : N) (zs : zones) (o : oracle) (fuel : nat)
             (q : question) (st : rstate cache) : res rerror resolved * rstate cache :=
    match mode with
    | ModeForwarding address => resolve_forwarding cache cache_get cache_insert_all zs o address fuel q st
    | ModeRecursive pmode =>
      resolve_recursive cache cache_get cache_insert_all sort_names zs o pmode upstream_dns_port fuel q st
    | ModeAuthoritative => (resolve_authoritative_only zs (cache_get (fst st)) q, st)
    end.
End Resolve.

(* ---- SimpleCache: a small executable instance of the abstract cache ----
   SharedCache at a fixed virtual instant (the harness keeps the virtual clock at
   0 during a run, so nothing expires and every TTL comes back as inserted):
   per (name, type) the Vec of (rdata, ttl) with upsert = remove an equal rdata
   with swap_remove (its slot is taken by the LAST element), then push; records
   with TTL 0 are not inserted; get builds RRs of class IN.  To be replaced by
   Cache/CacheModel.v. *)
Definition scache := list ((dname * N) * list (rdata * N)).

Definition sc_key_eqb (a b : dname * N) : bool := dname_eqb (fst a) (fst b) && (snd a =? snd b).

(* Vec::swap_remove(i), i < len *)
Fixpoint swap_remove_at {A} (i : nat) (l : list A) : list A :=
  match l with
  | [] => []
  | x :: t =>
    match i with
    | O => match rev t with
           | [] => []
           | lst :: _ => lst :: removelast t
           end
    | S i' => x :: swap_remove_at i' t
    end
  end.

Fixpoint find_index {A} (p : A -> bool) (l : list A) : option nat :=
  match l with
  | [] => None
  | x :: t => if p x then Some O else option_map S (find_index p t)
  end.

Definition sc_upsert (vals : list (rdata * N)) (d : rdata) (ttl : N) : list (rdata * N) :=
  match find_index (fun e => rdata_eqb (fst e) d) vals with
  | Some i => swap_remove_at i vals ++ [(d, ttl)]
  | None => vals ++ [(d, ttl)]
  end.

Definition sc_insert (c : scache) (r : rr) : scache :=
  if 0 <? rr_ttl r then
    let k := (rr_name r, rr_type r) in
    match alookup sc_key_eqb k c with
    | Some vals => areplace sc_key_eqb k (sc_upsert vals (rr_data r) (rr_ttl r)) c
    | None => c ++ [(k, [(rr_data r, rr_ttl r)])]
    end
  else c.
Definition sc_insert_all (c : scache) (rrs : list rr) : scache := fold_left sc_insert rrs c.

Definition sc_to_rrs (k : dname * N) (vals : list (rdata * N)) : list rr :=
  map (fun e => {| rr_name := fst k; rr_type := snd k; rr_class := RC_IN; rr_ttl := snd e; rr_data := fst e |}) vals.

(* SharedCache::get; for QTYPE * the order of the type groups is HashMap order in
   Rust (here: insertion order) *)
Definition sc_get (c : scache) (name : dname) (qtype : N) : list rr :=
  filter (fun r => 0 <? rr_ttl r)
         (if qtype =? QT_Wildcard
          then flat_map (fun kv => if dname_eqb (fst (fst kv)) name then sc_to_rrs (fst kv) (snd kv) else []) c
          else if existsb (fun p => N.eqb (fst p) qtype) qtype_table then []      (* AXFR MAILB MAILA *)
          else match alookup sc_key_eqb (name, qtype) c with
               | Some vals => sc_to_rrs (name, qtype) vals
               | None => []
               end).

Definition sc_empty : scache := [].

(* the resolver over SimpleCache with the H5 order: what the model driver runs *)
Definition resolve_simple := resolve scache sc_get sc_insert_all sort_names_ord.
