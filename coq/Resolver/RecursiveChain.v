(* Resolver/RecursiveChain.v -- C07_correct for ARBITRARY DEPTH, glue-complete alias-free chains.

   A chain of zones z0 (the root zone) > z1 > ... > zk of a universe: each z(i+1) is delegated from
   zi on the way to the question name -- the NS records of the cut are in zi, every nameserver host
   of the cut has an A record with a positive TTL in zi's glue or data, and every address such a
   record names (in zi or in a zone higher up the chain, whose glue the cache may also hold by then)
   is a server whose closest zone for the question name is z(i+1) -- and zk owns the question name
   plainly (no cut on the way, no alias, known record types).  Then the recursive resolver model --
   the root hints as its only local zone, an empty cache, protocol mode only-v4, the fault-free
   universe oracle through the wire codec, any candidate order that is a permutation, any fuel
   >= k+2 -- returns EXACTLY [auth_answer], and its log is exactly k+1 UDP exchanges about the
   question: the i-th with a server whose closest zone for the name is z(i-1), root server first.

   The proof is an induction on the chain over the state of the candidate loop:
     match_count   <= the number of labels of zi's apex (strictly below that of z(i+1)'s);
     candidates    non-empty, each resolving LOCALLY (the fast pass: hints or cache) to the address
                   of a server of zi -- so the first candidate popped is always used, the slow pass
                   and next_candidate_hostnames are never entered;
     cache         the start cache after the insert_all of every referral so far;
     stack         [q] throughout.
   The cache is abstract, with three laws stated over HISTORIES of insert_all (fold_left):
     K_empty      the start cache answers nothing;
     K_sound      an A record read at a name after a history agrees in name, type and data with a
                  record some insert_all of the history was given (nothing stale, nothing foreign);
     K_complete   an A record with TTL > 0 given to the LAST insert_all of a history makes the read
                  at its name non-empty.
   No monotonicity law is needed: the glue of z(i+1)'s hosts is inserted by the hop immediately
   before the one that reads it.  The laws are proved for SimpleCache (section 3) and for the real
   cache model of Cache/CacheModel.v under its invariant at any fixed instant (section 6).
   The length k of the chain is arbitrary (it is bounded by the labels of the question name, at most
   127, since the depths increase strictly); section 5 is a worked chain with k = 3.

   Not covered: nameserver hosts without glue (nested resolution), aliases, the v6 modes, a cache
   warm from earlier questions, servers authoritative for several zones of the chain. *)
From Coq Require Import Permutation.
From RV Require Import Base.Prelude Name.NameModel Name.NameSpec Name.NameProofs
     Wire.WireTypes Wire.WireModel Wire.WireGrammar Wire.WireEncodeProofs Wire.WireDecodeProofs
     Zone.ZoneModel Zone.ZoneFlat Zone.ZoneProofs
     Resolver.LocalModel Resolver.LocalSpec Resolver.LocalProofs
     Resolver.ValidateModel Resolver.ValidateSpec Resolver.ValidateProofs
     Resolver.TransportModel Resolver.RecursiveModel Resolver.ForwardingModel
     Resolver.RecursiveProofs Resolver.ForwardingProofs
     Resolver.Universe Resolver.ResolverFacts Resolver.RecursiveCorrect Resolver.RecursiveDepth1.
Set Default Timeout 120.

(* ====================================================================== *)
(* 1. the chain of delegations                                              *)
(* ====================================================================== *)

Section ChainDefs.
  Variable u : universe.
  Variable hints : list rr.
  Variable q : question.

  (* [h] is a nameserver host of the delegation point [c] of [zp] *)
  Definition ns_host_of (zp : uzone) (c h : dname) : Prop :=
    exists r, In r (uz_cuts zp) /\ rr_name r = c /\ is_ns_rr r = Some h.

  (* [zc] is delegated from [zp] on the way to the question name, glue-complete for v4; [prev] are
     the zones of the chain above [zp].
       - the delegation point of [zp] on the way to the name is the apex of [zc];
       - the cut records of [zp] are NS records;
       - the apex of [zc] is strictly deeper than that of [zp];
       - the question name owns nothing in [zp]'s glue or data (else: the glue shortcut, F11);
       - every nameserver host of the delegation has a well-formed name and an A record with a
         positive TTL in [zp]'s glue or data; every A record for that host in the glue or data of
         [zp] or of a zone above it in the chain, and every A record the hints hold for it, names
         the address of a server whose closest zone for the question name is [zc]. *)
  Definition chain_link (prev : list uzone) (zp zc : uzone) : Prop :=
    cut_owner zp (q_name q) = Some (uz_apex zc)
    /\ Forall (fun r => exists h, is_ns_rr r = Some h) (uz_cuts zp)
    /\ llen (labels (uz_apex zp)) < llen (labels (uz_apex zc))
    /\ (forall r, In r (uz_glue zp ++ uz_rrs zp) -> rr_name r <> q_name q)
    /\ (forall h, ns_host_of zp (uz_apex zc) h ->
          wf_name h /\
          (exists g, In g (uz_glue zp ++ uz_rrs zp) /\ rr_name g = h /\ rr_type g = RT_A /\ 0 < rr_ttl g) /\
          (forall z' g, In z' (zp :: prev) -> In g (uz_glue z' ++ uz_rrs z') -> rr_name g = h -> rr_type g = RT_A ->
             exists a, rr_data g = RD_A a /\ serves_owner u (inl a) zc q) /\
          (forall g a, In g hints -> labels (rr_name g) = labels h -> rr_type g = RT_A -> rr_data g = RD_A a ->
             serves_owner u (inl a) zc q)).

  (* the chain from [z] downwards: [rest] are the zones below [z], each delegated from the one
     before; the last zone of [z :: rest] answers the question *)
  Fixpoint chain_from (prev : list uzone) (z : uzone) (rest : list uzone) : Prop :=
    match rest with
    | [] => answering_zone u z q
    | zc :: rest' => chain_link prev z zc /\ chain_from (z :: prev) zc rest'
    end.

  (* the depths along a chain increase strictly: every referral is strictly deeper *)
  Fixpoint depths_increase (z : uzone) (rest : list uzone) : Prop :=
    match rest with
    | [] => True
    | zc :: rest' => nlabels (uz_apex z) < nlabels (uz_apex zc) /\ depths_increase zc rest'
    end.

  Lemma chain_depths : forall rest prev z, chain_from prev z rest -> depths_increase z rest.
  Proof.
    induction rest as [|zc rest IH]; intros prev z H; cbn [chain_from depths_increase] in *; [exact I|].
    destruct H as ((_ & _ & Hd & _) & Hrest). split; [exact Hd|]. exact (IH _ _ Hrest).
  Qed.

  (* depth 1 of RecursiveDepth1.v is the chain with one link *)
  Lemma delegated_from_root_link zroot zc :
    uz_apex zroot = root_domain -> delegated_from_root u zroot zc hints q -> chain_link [] zroot zc.
  Proof.
    intros Ha (H1 & H2 & H3 & H4 & H5). split; [exact H1|]. split; [exact H2|]. split; [rewrite Ha; exact H3|].
    split; [exact H4|]. intros h Hh. destruct (H5 h Hh) as (G1 & G2 & G3 & G4).
    split; [exact G1|]. split; [exact G2|]. split; [|exact G4].
    intros z' g [<-|[]] Hg Hn Ht. exact (G3 g Hg Hn Ht).
  Qed.
End ChainDefs.

(* one logged exchange per zone of the chain: a UDP query about [q] to a server whose closest zone
   for the question name is that zone *)
Definition chain_log (u : universe) (port : N) (q : question) (chain : list uzone) (es : list exchange) : Prop :=
  Forall2 (fun z e => exists a, query_to port q a e /\ serves_owner u (inl a) z q) chain es.

(* ====================================================================== *)
(* 2. the induction, over an abstract cache with three laws                 *)
(* ====================================================================== *)

Section Chain.
  Variable cache : Type.
  Variable cache_get : cache -> dname -> N -> list rr.
  Variable cache_insert_all : cache -> list rr -> cache.
  Variable c0 : cache.

  (* the cache after a history of insert_all *)
  Definition cache_after (ls : list (list rr)) : cache := fold_left cache_insert_all ls c0.

  Hypothesis K_empty : forall n t, cache_get c0 n t = [].
  Hypothesis K_sound : forall ls n x, In x (cache_get (cache_after ls) n RT_A) ->
    rr_name x = n /\ rr_type x = RT_A /\ rr_class x = RC_IN /\
    exists r, In r (concat ls) /\ rr_name r = n /\ rr_type r = RT_A /\ rr_data r = rr_data x.
  Hypothesis K_complete : forall ls rrs r, In r rrs -> rr_type r = RT_A -> 0 < rr_ttl r ->
    cache_get (cache_after (ls ++ [rrs])) (rr_name r) RT_A <> [].

  Variable sort_names : list dname -> list dname.
  Hypothesis Hsort : forall l, Permutation (sort_names l) l.

  Variable zs : zones.
  Variable hints : list rr.
  Hypothesis Hz : hints_zones zs hints.
  Hypothesis Hh : Forall hint_ok hints.

  Variable o : oracle.
  Variable port : N.
  Variable u : universe.
  Variable q : question.

  Hypothesis Hdel : delivers_log o u port q.
  Hypothesis Hq_wf : wf_name (q_name q).
  Hypothesis Hq_cname : q_type q <> RT_CNAME.
  Hypothesis Hq_any : q_type q <> QT_Wildcard.
  Hypothesis Hq_nohint : forall x, ~ hint_match hints (q_name q) (q_type q) x.

  Notation rrn := (resolve_recursive_notimeout cache cache_get cache_insert_all sort_names zs o OnlyV4 port).
  Notation cloop := (candidate_loop cache cache_get cache_insert_all sort_names zs o OnlyV4 port).
  Notation cstep := (candidate_step cache cache_get cache_insert_all sort_names zs o OnlyV4 port).
  Notation rhi := (resolve_hostname_to_ip cache cache_get zs OnlyV4).

  Lemma cache_after_snoc ls rrs : cache_after (ls ++ [rrs]) = cache_insert_all (cache_after ls) rrs.
  Proof. unfold cache_after. rewrite fold_left_app. reflexivity. Qed.

  (* the candidate [h] resolves locally, in the cache [c], to the address of a server of [z] *)
  Definition cand_ok (z : uzone) (c : cache) (h : dname) : Prop :=
    forall rec ts, exists a, rhi rec [q] true h (c, ts) = (Val (Some (inl a)), (c, ts)) /\ serves_owner u (inl a) z q.

  (* every address record the history inserted is glue or data of a zone of [prev] *)
  Definition hist_ok (prev : list uzone) (ls : list (list rr)) : Prop :=
    forall x, In x (concat ls) -> rr_type x = RT_A -> exists z', In z' prev /\ In x (uz_glue z' ++ uz_rrs z').

  (* the records a referral from [z] to [zc] puts into the cache *)
  Definition referral_ins (z zc : uzone) (names : list dname) : list rr :=
    filter (ns_glue_filter (uz_apex zc) names true false) (sr_authority (referral z (uz_apex zc)))
    ++ filter (ns_glue_filter (uz_apex zc) names false true) (sr_additional (referral z (uz_apex zc))).

  Lemma hist_ok_snoc prev z zc ls names : hist_ok prev ls -> hist_ok (z :: prev) (ls ++ [referral_ins z zc names]).
  Proof.
    intros H x Hx Ht. rewrite concat_app in Hx. cbn [concat] in Hx. rewrite app_nil_r in Hx.
    apply in_app_or in Hx as [Hx|Hx].
    - destruct (H x Hx Ht) as (z' & Hz' & Hin). exists z'. split; [right; exact Hz'|exact Hin].
    - exists z. split; [left; reflexivity|]. exact (referral_addr_from z zc names x Hx Ht).
  Qed.

  (* after the referral from [z] to [zc], every nameserver host of the delegation resolves in the
     fast pass: from the hints, or from the glue just cached *)
  Lemma cand_after_referral prev z zc ls names h :
    chain_link u hints q prev z zc -> hist_ok prev ls ->
    (forall h', In h' names <-> ns_host_of z (uz_apex zc) h') -> In h names ->
    cand_ok zc (cache_after (ls ++ [referral_ins z zc names])) h.
  Proof.
    intros (Hcut & Hnsty & Hdeep & Hnoglue & Hglue) Hhist Hnames Hin rec ts.
    set (ins := referral_ins z zc names). set (c := cache_after (ls ++ [ins])).
    pose proof (proj1 (Hnames h) Hin) as Hhost.
    destruct (Hglue h Hhost) as (Hwf & (g & Hg & Hgn & Hgt & Hgttl) & Hgl3 & Hgl4).
    assert (Hdup : is_duplicate_question [q] (mkq h RT_A RC_IN) = false).
    { apply (q_not_dup hints q Hq_nohint h RT_A g). right. intro E. apply (Hnoglue g Hg). congruence. }
    destruct (hint_match_dec zs hints h RT_A Hz Hwf ltac:(discriminate)) as [[x0 Hx0]|Hno].
    - destruct (rhi_hint cache cache_get zs hints Hz Hh rec [q] h (c, ts) x0 eq_refl Hdup Hwf Hx0)
        as (r' & a & Hr' & Hl' & Ht' & Hd' & E).
      exists a. split; [exact E|]. exact (Hgl4 r' a Hr' Hl' Ht' Hd').
    - assert (Hgin : In g ins) by (apply (referral_addr_in z zc names g h); assumption).
      assert (Hcne : cache_get c h RT_A <> []).
      { rewrite <- Hgn. apply K_complete; assumption. }
      assert (Hfrom : forall x, In x (cache_get c h RT_A) ->
                rr_name x = h /\ rr_type x = RT_A /\ rr_class x = RC_IN /\
                exists a, rr_data x = RD_A a /\ serves_owner u (inl a) zc q).
      { intros x Hx. apply K_sound in Hx as (H1 & H2 & H3 & r & Hr & Hrn & Hrt & Hrd).
        repeat (split; [assumption|]).
        destruct (hist_ok_snoc prev z zc ls names Hhist r Hr Hrt) as (z' & Hz' & Hrg).
        destruct (Hgl3 z' r Hz' Hrg Hrn Hrt) as (a & Ha & Hsv). exists a. split; [congruence|exact Hsv]. }
      assert (Hall : Forall (addr_rr h) (cache_get c h RT_A)).
      { apply Forall_forall. intros x Hx. destruct (Hfrom x Hx) as (H1 & H2 & H3 & a & Ha & _). unfold addr_rr. eauto. }
      destruct (rhi_cached cache cache_get zs hints Hz rec [q] h (c, ts) eq_refl Hdup Hwf Hno Hcne Hall)
        as (x & a & Hx & Hd & E).
      exists a. split; [exact E|]. destruct (Hfrom x Hx) as (_ & _ & _ & a' & Ha' & Hsv). congruence.
  Qed.

  (* THE INDUCTION.  The loop stands at the zone [z] of the chain -- candidates that resolve in the
     fast pass to servers of [z], a match count not above the depth of [z], the cache of the
     referrals so far -- with enough fuel for the zones still to visit.  Then it returns exactly the
     authoritative answer, having logged one exchange per zone of [z :: rest], in order. *)
  Lemma chain_loop : forall rest prev z ls mc cands f ts,
    chain_from u hints q prev z rest -> hist_ok prev ls ->
    cands <> [] -> (forall h, In h cands -> cand_ok z (cache_after ls) h) ->
    mc <= llen (labels (uz_apex z)) -> ts_elapsed ts <= BUDGET_MS -> (length rest < f)%nat ->
    exists c' ts' es,
      cloop f [q] q [] mc cands [] true (cache_after ls, ts)
      = (Val (ROk (NonAuthoritative (aa_rrs (auth_answer u q)) (aa_soa (auth_answer u q)))), (c', ts'))
      /\ ts_rlog ts' = rev es ++ ts_rlog ts
      /\ chain_log u port q (z :: rest) es.
  Proof.
    induction rest as [|zc rest IH]; intros prev z ls mc cands f ts Hch Hhist Hne Hcok Hmc Hbud Hf.
    - (* the last zone: the answer *)
      destruct f as [|f]; [cbn [length] in Hf; lia|]. cbn [chain_from] in Hch.
      destruct Hch as (Hown & Hknown & Hsoat & Hsoan).
      destruct (pop_last_some _ Hne) as (cand & rest1 & Ep & Hc).
      destruct (Hcok cand Hc (rrn f) ts) as (a & Eh & Hsrv).
      rewrite cloop_S.
      destruct (last_hop_log cache cache_get cache_insert_all sort_names zs o OnlyV4 port u z q
                  (rrn f) (cloop f [q] q []) [q] mc cands [] true (cache_after ls, ts) cand rest1 (inl a) (cache_after ls, ts)
                  Hdel Hown Hsrv Hq_cname Hq_any Hknown Hsoat Hsoan Hmc Ep Eh Hbud)
        as (c' & ts' & E & (e & Hlog & Hk & Ha & Hqe & Hrd)).
      exists c', ts', [e]. split; [exact E|]. split; [cbn [snd] in Hlog; rewrite Hlog; reflexivity|].
      constructor; [|constructor]. exists a. unfold query_to. auto.
    - (* a zone with a delegation on the way: the referral, then the rest of the chain *)
      destruct f as [|f]; [cbn [length] in Hf; lia|]. cbn [length] in Hf. cbn [chain_from] in Hch.
      destruct Hch as (Hlink & Hrest).
      pose proof Hlink as (Hcut & Hnsty & Hdeep & Hnoglue & Hglue).
      destruct (pop_last_some _ Hne) as (cand & rest1 & Ep & Hc).
      destruct (Hcok cand Hc (rrn f) ts) as (a & Eh & Hsrv).
      rewrite cloop_S.
      destruct (referral_hop_log cache cache_get cache_insert_all sort_names zs o OnlyV4 port u (inl a) z (uz_apex zc) q
                  (rrn f) (cloop f [q] q []) [q] mc cands [] true (cache_after ls, ts) cand rest1 (cache_after ls, ts)
                  Hdel Hsrv Hcut Hnsty ltac:(lia) Hnoglue Ep Eh Hbud)
        as (names & ts1 & E1 & Hnames & Hbud1 & (e & Hlog & Hk & Ha & Hqe & Hrd)).
      cbn [fst snd] in E1, Hlog. rewrite E1. clear E1.
      fold (referral_ins z zc names). rewrite <- cache_after_snoc.
      (* the hosts of the delegation *)
      destruct (cut_owner_spec _ _ _ Hcut) as (_ & r0 & Hr0 & Hr0c).
      assert (Hnn : sort_names names <> []).
      { intro E. pose proof (Hsort names) as P. rewrite E in P. apply Permutation_nil in P.
        rewrite Forall_forall in Hnsty. destruct (Hnsty r0 Hr0) as [h0 Hh0].
        assert (Hx : In h0 names) by (apply Hnames; exists r0; auto). rewrite P in Hx. destruct Hx. }
      destruct (IH (z :: prev) zc (ls ++ [referral_ins z zc names]) (llen (labels (uz_apex zc))) (sort_names names) f ts1
                  Hrest (hist_ok_snoc prev z zc ls names Hhist) Hnn) as (c' & ts' & es & E & Hlog' & Hes).
      { intros h Hin. apply (Permutation_in _ (Hsort _)) in Hin.
        exact (cand_after_referral prev z zc ls names h Hlink Hhist Hnames Hin). }
      { lia. }
      { exact Hbud1. }
      { lia. }
      exists c', ts', (e :: es). split; [exact E|]. split.
      + rewrite Hlog', Hlog. cbn [rev]. rewrite <- app_assoc. reflexivity.
      + constructor; [|exact Hes]. exists a. unfold query_to. auto.
  Qed.

  (* ---- from the start: the root hints, then the chain ---- *)
  Variable zroot : uzone.
  Hypothesis Hroot_ns : exists x, hint_match hints root_domain RT_NS x.
  Hypothesis Hroot_addr : forall r h, In r hints -> rr_type r = RT_NS -> rr_data r = RD_Name h ->
    wf_name h /\ exists g, In g hints /\ labels (rr_name g) = labels h /\ rr_type g = RT_A.
  Hypothesis Hroot_srv : forall g a, In g hints -> rr_type g = RT_A -> rr_data g = RD_A a ->
    serves_owner u (inl a) zroot q.
  Hypothesis Hroot_apex : uz_apex zroot = root_domain.

  Theorem chain_resolve rest f ts :
    chain_from u hints q [] zroot rest -> ts_elapsed ts <= BUDGET_MS -> (length rest < f)%nat ->
    exists c' ts' es,
      rrn (S f) [] q (c0, ts)
      = (Val (ROk (NonAuthoritative (aa_rrs (auth_answer u q)) (aa_soa (auth_answer u q)))), (c', ts'))
      /\ ts_rlog ts' = rev es ++ ts_rlog ts
      /\ chain_log u port q (zroot :: rest) es.
  Proof.
    intros Hch Hbud Hf.
    destruct (start cache cache_get cache_insert_all c0 K_empty sort_names zs hints Hz Hh o port q
                Hq_wf Hq_any Hq_nohint Hroot_ns f ts) as (rrs & Hne & Hin & ->).
    pose proof (hint_ns_hosts hints Hh rrs Hne (fun x Hx => proj1 (Hin x) Hx)) as Hhosts.
    assert (Hs : sort_names (ns_hostnames_of rrs) <> []).
    { intro E. pose proof (Hsort (ns_hostnames_of rrs)) as P. rewrite E in P. apply Permutation_nil in P. exact (Hhosts P). }
    apply (chain_loop rest [] zroot [] 1 (sort_names (ns_hostnames_of rrs)) f ts Hch); try assumption.
    - intros x Hx. destruct Hx.
    - intros h Hc rec ts0. apply (Permutation_in _ (Hsort _)) in Hc.
      exact (root_candidate cache cache_get c0 zs hints Hz Hh u zroot q Hq_nohint Hroot_addr Hroot_srv rec rrs h ts0 Hin Hc).
    - rewrite Hroot_apex. cbn. lia.
  Qed.
End Chain.

(* ====================================================================== *)
(* 3. SimpleCache meets the three laws                                      *)
(* ====================================================================== *)

Lemma sc_insert_all_app c l1 l2 : sc_insert_all c (l1 ++ l2) = sc_insert_all (sc_insert_all c l1) l2.
Proof. unfold sc_insert_all. apply fold_left_app. Qed.

Lemma sc_after_concat : forall ls c, fold_left sc_insert_all ls c = sc_insert_all c (concat ls).
Proof.
  induction ls as [|l ls IH]; intro c; cbn [fold_left concat]; [reflexivity|].
  rewrite IH, sc_insert_all_app. reflexivity.
Qed.

Lemma sc_hist_sound ls n x :
  In x (sc_get (cache_after scache sc_insert_all sc_empty ls) n RT_A) ->
  rr_name x = n /\ rr_type x = RT_A /\ rr_class x = RC_IN /\
  exists r, In r (concat ls) /\ rr_name r = n /\ rr_type r = RT_A /\ rr_data r = rr_data x.
Proof. unfold cache_after. rewrite sc_after_concat. apply sc_get_a_sound. Qed.

Lemma sc_hist_complete ls rrs r : In r rrs -> rr_type r = RT_A -> 0 < rr_ttl r ->
  sc_get (cache_after scache sc_insert_all sc_empty (ls ++ [rrs])) (rr_name r) RT_A <> [].
Proof.
  intros Hin Ht Hpos. unfold cache_after. rewrite sc_after_concat. apply sc_get_a_complete; [|exact Ht|exact Hpos].
  rewrite concat_app. apply in_or_app. right. cbn [concat]. rewrite app_nil_r. exact Hin.
Qed.

(* ====================================================================== *)
(* 4. the statement for SimpleCache, the universe oracle and the built hints *)
(* ====================================================================== *)

Section FinalChain.
  Variable cache : Type.
  Variable cache_get : cache -> dname -> N -> list rr.
  Variable cache_insert_all : cache -> list rr -> cache.
  Variable c0 : cache.
  Hypothesis K_empty : forall n t, cache_get c0 n t = [].
  Hypothesis K_sound : forall ls n x, In x (cache_get (cache_after cache cache_insert_all c0 ls) n RT_A) ->
    rr_name x = n /\ rr_type x = RT_A /\ rr_class x = RC_IN /\
    exists r, In r (concat ls) /\ rr_name r = n /\ rr_type r = RT_A /\ rr_data r = rr_data x.
  Hypothesis K_complete : forall ls rrs r, In r rrs -> rr_type r = RT_A -> 0 < rr_ttl r ->
    cache_get (cache_after cache cache_insert_all c0 (ls ++ [rrs])) (rr_name r) RT_A <> [].

  Variable sort_names : list dname -> list dname.
  Hypothesis Hsort : forall l, Permutation (sort_names l) l.
  Variable port : N.
  Variable u : universe.
  Variable zroot : uzone.
  Variable hints : list rr.
  Variable hz : zone.
  Variable q : question.
  Hypothesis Hroot_apex : uz_apex zroot = root_domain.
  Hypothesis Hbuilt : zone_build root_domain None (hint_ops hints) = Ok hz.
  Hypothesis Hhints : hints_for u zroot hints q.
  Hypothesis Hq : plain_question u q.

  Theorem chain_correct_abstract rest fuel :
    chain_from u hints q [] zroot rest -> (length rest + 2 <= fuel)%nat ->
    exists c' ts',
      resolve cache cache_get cache_insert_all sort_names (ModeRecursive OnlyV4) port (zones_insert [] hz)
              (universe_oracle u []) fuel q (c0, tstate_init)
      = (Ok (NonAuthoritative (aa_rrs (auth_answer u q)) (aa_soa (auth_answer u q))), (c', ts'))
      /\ chain_log u port q (zroot :: rest) (ts_log ts')
      /\ depths_increase zroot rest.
  Proof.
    intros Hch Hfuel.
    pose proof (hints_no_match u zroot hints q Hhints) as Hnomatch.
    pose proof (hints_root_ns u zroot hints q Hhints) as Hrootns.
    destruct Hhints as (Hok & _ & Haddr & Hsrv & _). destruct Hq as (Hwf & Hq1 & Hq2 & Hreq & Hfits).
    destruct fuel as [|f]; [lia|].
    destruct (chain_resolve cache cache_get cache_insert_all c0 K_empty K_sound K_complete
                sort_names Hsort (zones_insert [] hz) hints (hints_zones_built hints hz Hok Hbuilt) Hok
                (universe_oracle u []) port u q (universe_oracle_delivers_log u port q Hwf Hreq Hfits)
                (proj1 Hwf) Hq1 Hq2 Hnomatch zroot Hrootns Haddr Hsrv Hroot_apex rest f tstate_init Hch)
      as (c' & ts' & es & E & Hlog & Hes).
    { cbn. lia. }
    { lia. }
    exists c', ts'. split; [|split].
    - unfold resolve, resolve_recursive. rewrite E. reflexivity.
    - unfold ts_log. rewrite Hlog. cbn [tstate_init ts_rlog]. rewrite app_nil_r, rev_involutive. exact Hes.
    - exact (chain_depths u hints q rest [] zroot Hch).
  Qed.
End FinalChain.

(* for SimpleCache: what the model driver runs *)
Theorem chain_correct sort_names (Hsort : forall l, Permutation (sort_names l) l) port u zroot hints hz q :
  uz_apex zroot = root_domain -> zone_build root_domain None (hint_ops hints) = Ok hz ->
  hints_for u zroot hints q -> plain_question u q ->
  forall rest fuel, chain_from u hints q [] zroot rest -> (length rest + 2 <= fuel)%nat ->
  exists c' ts',
    resolve scache sc_get sc_insert_all sort_names (ModeRecursive OnlyV4) port (zones_insert [] hz)
            (universe_oracle u []) fuel q (sc_empty, tstate_init)
    = (Ok (NonAuthoritative (aa_rrs (auth_answer u q)) (aa_soa (auth_answer u q))), (c', ts'))
    /\ chain_log u port q (zroot :: rest) (ts_log ts')
    /\ depths_increase zroot rest.
Proof.
  exact (chain_correct_abstract scache sc_get sc_insert_all sc_empty sc_empty_get sc_hist_sound sc_hist_complete
           sort_names Hsort port u zroot hints hz q).
Qed.

(* ====================================================================== *)
(* 5. a worked chain of depth 3: . -> com. -> example.com. -> sub.example.com. *)
(* ====================================================================== *)

Definition c3_nm (ls : list label) : dname :=
  {| labels := ls ++ [[]]; nlen := fold_right (fun l acc => 1 + llen l + acc) 1 ls |}.
Definition c3_rr (n : dname) (t ttl : N) (d : rdata) : rr :=
  {| rr_name := n; rr_type := t; rr_class := RC_IN; rr_ttl := ttl; rr_data := d |}.
Definition c3_l_a : label := [97].
Definition c3_l_ns : label := [110; 115].
Definition c3_l_com : label := [99; 111; 109].
Definition c3_l_example : label := [101; 120; 97; 109; 112; 108; 101].
Definition c3_l_sub : label := [115; 117; 98].
Definition c3_l_www : label := [119; 119; 119].

Definition c3_n_a := c3_nm [c3_l_a].                                         (* a.  (the root server) *)
Definition c3_n_com := c3_nm [c3_l_com].
Definition c3_n_ns_com := c3_nm [c3_l_ns; c3_l_com].
Definition c3_n_ex := c3_nm [c3_l_example; c3_l_com].
Definition c3_n_ns_ex := c3_nm [c3_l_ns; c3_l_example; c3_l_com].
Definition c3_n_sub := c3_nm [c3_l_sub; c3_l_example; c3_l_com].
Definition c3_n_ns_sub := c3_nm [c3_l_ns; c3_l_sub; c3_l_example; c3_l_com].
Definition c3_n_www := c3_nm [c3_l_www; c3_l_sub; c3_l_example; c3_l_com].

Definition c3_ip0 : N := 167772161.      (* 10.0.0.1 *)
Definition c3_ip1 : N := 167772162.
Definition c3_ip2 : N := 167772163.
Definition c3_ip3 : N := 167772164.

Definition c3_soa (apex host : dname) : rr := c3_rr apex RT_SOA 300 (RD_SOA host host 1 7200 3600 86400 300).

Definition c3_root : uzone :=
  {| uz_apex := root_domain; uz_soa := c3_soa root_domain c3_n_a;
     uz_rrs := [c3_rr root_domain RT_NS 3600 (RD_Name c3_n_a); c3_rr c3_n_a RT_A 3600 (RD_A c3_ip0)];
     uz_cuts := [c3_rr c3_n_com RT_NS 3600 (RD_Name c3_n_ns_com)];
     uz_glue := [c3_rr c3_n_ns_com RT_A 3600 (RD_A c3_ip1)] |}.
Definition c3_com : uzone :=
  {| uz_apex := c3_n_com; uz_soa := c3_soa c3_n_com c3_n_ns_com;
     uz_rrs := [c3_rr c3_n_com RT_NS 3600 (RD_Name c3_n_ns_com); c3_rr c3_n_ns_com RT_A 3600 (RD_A c3_ip1)];
     uz_cuts := [c3_rr c3_n_ex RT_NS 3600 (RD_Name c3_n_ns_ex)];
     uz_glue := [c3_rr c3_n_ns_ex RT_A 3600 (RD_A c3_ip2)] |}.
Definition c3_ex : uzone :=
  {| uz_apex := c3_n_ex; uz_soa := c3_soa c3_n_ex c3_n_ns_ex;
     uz_rrs := [c3_rr c3_n_ex RT_NS 3600 (RD_Name c3_n_ns_ex); c3_rr c3_n_ns_ex RT_A 3600 (RD_A c3_ip2)];
     uz_cuts := [c3_rr c3_n_sub RT_NS 3600 (RD_Name c3_n_ns_sub)];
     uz_glue := [c3_rr c3_n_ns_sub RT_A 3600 (RD_A c3_ip3)] |}.
Definition c3_sub : uzone :=
  {| uz_apex := c3_n_sub; uz_soa := c3_soa c3_n_sub c3_n_ns_sub;
     uz_rrs := [c3_rr c3_n_sub RT_NS 3600 (RD_Name c3_n_ns_sub); c3_rr c3_n_ns_sub RT_A 3600 (RD_A c3_ip3);
                c3_rr c3_n_www RT_A 300 (RD_A 3221225985)];
     uz_cuts := []; uz_glue := [] |}.

Definition c3_universe : universe :=
  {| u_zones := [c3_root; c3_com; c3_ex; c3_sub];
     u_servers := [(inl c3_ip0, [root_domain]); (inl c3_ip1, [c3_n_com]); (inl c3_ip2, [c3_n_ex]); (inl c3_ip3, [c3_n_sub])] |}.

Definition c3_hints : list rr := [c3_rr root_domain RT_NS 3600 (RD_Name c3_n_a); c3_rr c3_n_a RT_A 3600 (RD_A c3_ip0)].
Definition c3_hz : zone :=
  match zone_build root_domain None (hint_ops c3_hints) with Ok z => z | _ => zone_new root_domain None end.

(* www.sub.example.com. A (held by the deepest zone) and MX (NODATA there) *)
Definition c3_q : question := {| q_name := c3_n_www; q_type := RT_A; q_class := RC_IN |}.
Definition c3_q_mx : question := {| q_name := c3_n_www; q_type := RT_MX; q_class := RC_IN |}.

Lemma c3_hz_built : zone_build root_domain None (hint_ops c3_hints) = Ok c3_hz.
Proof. vm_compute. reflexivity. Qed.

Lemma c3_consistent : consistentb c3_universe = true.
Proof. vm_compute. reflexivity. Qed.

Ltac c3_q_cases H := destruct H as [-> | ->].

Lemma c3_serves a z q : (q = c3_q \/ q = c3_q_mx) ->
  (a, z) = (c3_ip0, c3_root) \/ (a, z) = (c3_ip1, c3_com) \/ (a, z) = (c3_ip2, c3_ex) \/ (a, z) = (c3_ip3, c3_sub) ->
  serves_owner c3_universe (inl a) z q.
Proof.
  intros Hq [E|[E|[E|E]]]; inversion E; subst a z; c3_q_cases Hq; eexists; split; vm_compute; reflexivity.
Qed.

Lemma c3_hints_for q : (q = c3_q \/ q = c3_q_mx) -> hints_for c3_universe c3_root c3_hints q.
Proof.
  intro Hq. split; [|split; [|split; [|split]]].
  - apply Forall_cons; [|apply Forall_cons; [|apply Forall_nil]]; (split; [apply wf_name_b_sound; vm_compute; reflexivity|]).
    + left. split; [reflexivity|]. split; [reflexivity|]. eexists. reflexivity.
    + right. split; [reflexivity|]. eexists. reflexivity.
  - eexists. split; [left; reflexivity|reflexivity].
  - intros r h [<-|[<-|[]]] Ht Hd; [|discriminate Ht]. inversion Hd; subst h.
    split; [apply wf_name_b_sound; vm_compute; reflexivity|].
    eexists. split; [right; left; reflexivity|]. split; reflexivity.
  - intros g a [<-|[<-|[]]] Ht Hd; [discriminate Ht|]. inversion Hd; subst a.
    apply c3_serves; [exact Hq|left; reflexivity].
  - intros r [<-|[<-|[]]] Hl; c3_q_cases Hq; vm_compute in Hl; discriminate Hl.
Qed.

Lemma c3_serve_fits q : (q = c3_q \/ q = c3_q_mx) -> serve_fits c3_universe q.
Proof.
  intros Hq a m H. unfold serve, zones_of_server in H. cbn [c3_universe u_servers find fst] in H.
  destruct (ip_eqb (inl c3_ip0) a);
    [|destruct (ip_eqb (inl c3_ip1) a); [|destruct (ip_eqb (inl c3_ip2) a); [|destruct (ip_eqb (inl c3_ip3) a); [|discriminate]]]];
    c3_q_cases Hq; inversion H; subst; (split; [apply wf_message_b_sound; vm_compute; reflexivity|]);
    eexists; (split; [vm_compute; reflexivity|vm_compute; discriminate]).
Qed.

Lemma c3_plain_question q : (q = c3_q \/ q = c3_q_mx) -> plain_question c3_universe q.
Proof.
  intro Hq. split; [|split; [|split; [|split]]].
  - apply wf_question_b_sound. c3_q_cases Hq; vm_compute; reflexivity.
  - c3_q_cases Hq; discriminate.
  - c3_q_cases Hq; discriminate.
  - intros req E. c3_q_cases Hq; vm_compute in E; inversion E; subst; vm_compute; discriminate.
  - apply c3_serve_fits, Hq.
Qed.

(* one link of the worked chain: [prev] lists the zones above [zp] *)
Ltac c3_in H := repeat (destruct H as [H|H]; [subst|]); try (destruct H; fail).

Lemma c3_chain q : (q = c3_q \/ q = c3_q_mx) -> chain_from c3_universe c3_hints q [] c3_root [c3_com; c3_ex; c3_sub].
Proof.
  intro Hq.
  assert (Hlink : forall prev zp zc h ipc,
            (prev, zp, zc, h, ipc) = ([], c3_root, c3_com, c3_n_ns_com, c3_ip1)
            \/ (prev, zp, zc, h, ipc) = ([c3_root], c3_com, c3_ex, c3_n_ns_ex, c3_ip2)
            \/ (prev, zp, zc, h, ipc) = ([c3_com; c3_root], c3_ex, c3_sub, c3_n_ns_sub, c3_ip3) ->
            chain_link c3_universe c3_hints q prev zp zc).
  { intros prev zp zc h ipc Hcase.
    assert (Hsrv : serves_owner c3_universe (inl ipc) zc q).
    { apply c3_serves; [exact Hq|]. destruct Hcase as [E|[E|E]]; inversion E; subst; auto. }
    split; [|split; [|split; [|split]]].
    - destruct Hcase as [E|[E|E]]; inversion E; subst; c3_q_cases Hq; vm_compute; reflexivity.
    - destruct Hcase as [E|[E|E]]; inversion E; subst; repeat constructor; eexists; vm_compute; reflexivity.
    - destruct Hcase as [E|[E|E]]; inversion E; subst; vm_compute; reflexivity.
    - intros r Hr Hn. destruct Hcase as [E|[E|E]]; inversion E; subst; cbn [c3_root c3_com c3_ex uz_glue uz_rrs app] in Hr;
        c3_in Hr; c3_q_cases Hq; vm_compute in Hn; discriminate Hn.
    - intros h' (r & Hr & _ & Hh').
      assert (h' = h /\ exists g, In g (uz_glue zp ++ uz_rrs zp) /\ rr_name g = h /\ rr_type g = RT_A /\ 0 < rr_ttl g) as [-> Hg].
      { destruct Hcase as [E|[E|E]]; inversion E; subst; cbn [c3_root c3_com c3_ex uz_cuts] in Hr; c3_in Hr;
          vm_compute in Hh'; inversion Hh'; (split; [reflexivity|]);
          eexists; (split; [left; reflexivity|]); (split; [reflexivity|]); (split; [reflexivity|vm_compute; reflexivity]). }
      split; [destruct Hcase as [E|[E|E]]; inversion E; subst; apply wf_name_b_sound; vm_compute; reflexivity|].
      split; [exact Hg|]. split.
      + intros z' g Hz' Hgin Hn Ht. exists ipc. split; [|exact Hsrv]. revert Hn Ht.
        destruct Hcase as [E|[E|E]]; inversion E; subst; c3_in Hz';
          cbn [c3_root c3_com c3_ex uz_glue uz_rrs app] in Hgin; c3_in Hgin; intros Hn Ht;
          try (vm_compute in Hn; discriminate Hn); try (vm_compute in Ht; discriminate Ht); reflexivity.
      + intros g a Hgin Hl. exfalso. unfold c3_hints in Hgin. c3_in Hgin;
          destruct Hcase as [E|[E|E]]; inversion E; subst; vm_compute in Hl; discriminate Hl. }
  cbn [chain_from].
  split; [eapply Hlink; left; reflexivity|]. split; [eapply Hlink; right; left; reflexivity|].
  split; [eapply Hlink; right; right; reflexivity|].
  split; [|split; [vm_compute; repeat constructor|split; reflexivity]].
  c3_q_cases Hq; repeat split; vm_compute; reflexivity.
Qed.

(* www.sub.example.com. A: three referrals, then the answer of the deepest zone; four exchanges *)
Example chain_example_depth3 : exists c' ts',
  resolve scache sc_get sc_insert_all sort_names_ord (ModeRecursive OnlyV4) 53 (zones_insert [] c3_hz)
          (universe_oracle c3_universe []) 5%nat c3_q (sc_empty, tstate_init)
  = (Ok (NonAuthoritative [c3_rr c3_n_www RT_A 300 (RD_A 3221225985)] None), (c', ts'))
  /\ chain_log c3_universe 53 c3_q [c3_root; c3_com; c3_ex; c3_sub] (ts_log ts')
  /\ depths_increase c3_root [c3_com; c3_ex; c3_sub].
Proof.
  exact (chain_correct sort_names_ord sort_names_ord_perm 53 c3_universe c3_root c3_hints c3_hz c3_q eq_refl c3_hz_built
           (c3_hints_for _ (or_introl eq_refl)) (c3_plain_question _ (or_introl eq_refl))
           [c3_com; c3_ex; c3_sub] 5%nat (c3_chain _ (or_introl eq_refl)) (le_n 5)).
Qed.

(* www.sub.example.com. MX: the same four exchanges, then NODATA with the SOA of sub.example.com. *)
Example chain_example_depth3_nodata : exists c' ts',
  resolve scache sc_get sc_insert_all sort_names_ord (ModeRecursive OnlyV4) 53 (zones_insert [] c3_hz)
          (universe_oracle c3_universe []) 5%nat c3_q_mx (sc_empty, tstate_init)
  = (Ok (NonAuthoritative [] (Some (uz_soa c3_sub))), (c', ts'))
  /\ chain_log c3_universe 53 c3_q_mx [c3_root; c3_com; c3_ex; c3_sub] (ts_log ts')
  /\ depths_increase c3_root [c3_com; c3_ex; c3_sub].
Proof.
  exact (chain_correct sort_names_ord sort_names_ord_perm 53 c3_universe c3_root c3_hints c3_hz c3_q_mx eq_refl c3_hz_built
           (c3_hints_for _ (or_intror eq_refl)) (c3_plain_question _ (or_intror eq_refl))
           [c3_com; c3_ex; c3_sub] 5%nat (c3_chain _ (or_intror eq_refl)) (le_n 5)).
Qed.

(* the same run evaluated inside Coq: the result, and the addresses asked, in order *)
Example chain_example_depth3_eval :
  let r := resolve scache sc_get sc_insert_all sort_names_ord (ModeRecursive OnlyV4) 53 (zones_insert [] c3_hz)
                   (universe_oracle c3_universe []) 5%nat c3_q (sc_empty, tstate_init) in
  fst r = Ok (NonAuthoritative [c3_rr c3_n_www RT_A 300 (RD_A 3221225985)] None)
  /\ map x_addr (ts_log (snd (snd r))) = [(inl c3_ip0, 53); (inl c3_ip1, 53); (inl c3_ip2, 53); (inl c3_ip3, 53)]
  /\ consistentb c3_universe = true.
Proof. vm_compute. repeat split. Qed.

(* ====================================================================== *)
(* 6. the real cache model (Cache/CacheModel.v) meets the three laws        *)
(* ====================================================================== *)
From RV Require Import Cache.CacheFacts Cache.CacheModel Cache.CacheSpec Cache.CacheInsert Cache.CacheProofs
     Resolver.ResolverCacheInstance.

Section RealCacheLaws.
  Variable now : N.                       (* the fixed virtual instant *)

  Notation rc_after ls := (cache_after rcache (rc_insert_all now) rc_new ls).

  Lemma rc_abs_insert_all c rrs k :
    abs_map (proj1_sig (rc_insert_all now c rrs)) k = a_insert_all (abs_map (proj1_sig c)) now rrs k.
  Proof.
    destruct (shared_insert_all_ok rrs (proj1_sig c) now (proj2_sig c)) as (c2 & E2 & _ & M & _).
    rewrite rc_insert_all_spec in E2. inversion E2 as [E3]. rewrite E3. apply M.
  Qed.

  Lemma rc_after_snoc ls rrs : rc_after (ls ++ [rrs]) = rc_insert_all now (rc_after ls) rrs.
  Proof. unfold cache_after. rewrite fold_left_app. reflexivity. Qed.

  (* what a history holds was given to one of its insert_all *)
  Lemma rc_after_some : forall ls k e, abs_map (proj1_sig (rc_after ls)) k = Some e ->
    exists r, In r (concat ls) /\ key_eqb (rr_key r) k = true.
  Proof.
    induction ls as [|l ls IH] using rev_ind; intros k e H.
    - discriminate H.
    - rewrite rc_after_snoc, rc_abs_insert_all in H.
      destruct (a_insert_all_some now _ _ _ _ H) as [[e' H1]|[r [H1 H2]]].
      + destruct (IH k e' H1) as (r & Hr & Hk). exists r. split; [|exact Hk].
        rewrite concat_app. apply in_or_app. left. exact Hr.
      + exists r. split; [|exact H2]. rewrite concat_app. apply in_or_app. right. cbn [concat]. rewrite app_nil_r. exact H1.
  Qed.

  (* a record with a positive TTL given to insert_all is held, alive for at least a second *)
  Lemma a_insert_all_live : forall rs m k,
    ((exists e, m k = Some e /\ now + NS_PER_S <= e) \/ (exists r, In r rs /\ 0 < rr_ttl r /\ rr_key r = k)) ->
    exists e, a_insert_all m now rs k = Some e /\ now + NS_PER_S <= e.
  Proof.
    induction rs as [|r rs IH]; intros m k H; cbn [a_insert_all].
    - destruct H as [H|(r & [] & _)]. exact H.
    - apply IH. unfold a_insert.
      destruct ((0 <? rr_ttl r) && key_eqb (rr_key r) k) eqn:E.
      + left. eexists. split; [reflexivity|]. apply andb_prop in E as [E _]. apply N.ltb_lt in E.
        unfold expiry_of, NS_PER_S. nia.
      + destruct H as [H|(r' & [<-|Hin] & Hpos & Hk)].
        * left. exact H.
        * exfalso. apply N.ltb_lt in Hpos. rewrite Hpos in E. cbn [andb] in E.
          assert (key_eqb (rr_key r) k = true) by (apply key_eqb_eq; exact Hk). congruence.
        * right. exists r'. auto.
  Qed.

  Lemma rc_get_in c n t r : In r (rc_get now c n t) <->
    rr_name r = n /\ rr_class r = RC_IN /\ cache_qmatch t (rr_type r) /\
    exists e, abs_map (proj1_sig c) (rr_key r) = Some e /\ rr_ttl r = remaining e now /\ 1 <= rr_ttl r.
  Proof.
    unfold rc_get. destruct (get (proj1_sig c) now n t) as [c' rrs] eqn:E. cbn [snd].
    destruct (get_ok _ _ _ _ _ _ (proj2_sig c) E) as (_ & _ & [_ A] & _). rewrite A. split.
    - intros (H1 & H2 & H3 & e & H4 & H5 & H6). repeat (split; [assumption|]). exists e. auto.
    - intros (H1 & H2 & H3 & e & H4 & H5 & H6). repeat (split; [assumption|]). exists e. auto.
  Qed.

  Lemma rc_empty_get n t : rc_get now rc_new n t = [].
  Proof.
    destruct (rc_get now rc_new n t) as [|r l] eqn:E; [reflexivity|]. exfalso.
    assert (H : In r (rc_get now rc_new n t)) by (rewrite E; left; reflexivity).
    apply rc_get_in in H as (_ & _ & _ & e & H & _). discriminate H.
  Qed.

  Lemma rc_hist_sound ls n x : In x (rc_get now (rc_after ls) n RT_A) ->
    rr_name x = n /\ rr_type x = RT_A /\ rr_class x = RC_IN /\
    exists r, In r (concat ls) /\ rr_name r = n /\ rr_type r = RT_A /\ rr_data r = rr_data x.
  Proof.
    intro H. apply rc_get_in in H as (H1 & H2 & H3 & e & H4 & _).
    assert (Ht : rr_type x = RT_A).
    { destruct H3 as [H3|(H3 & _)]; [discriminate H3|auto]. }
    repeat (split; [assumption|]).
    destruct (rc_after_some ls _ _ H4) as (r & Hr & Hk). apply key_eqb_eq in Hk.
    unfold rr_key in Hk. inversion Hk. exists r. repeat split; congruence.
  Qed.

  Lemma rc_hist_complete ls rrs r : In r rrs -> rr_type r = RT_A -> 0 < rr_ttl r ->
    rc_get now (rc_after (ls ++ [rrs])) (rr_name r) RT_A <> [].
  Proof.
    intros Hin Ht Hpos.
    destruct (a_insert_all_live rrs (abs_map (proj1_sig (rc_after ls))) (rr_key r)) as (e & He & Hlive).
    { right. exists r. auto. }
    set (x := {| rr_name := rr_name r; rr_type := RT_A; rr_class := RC_IN; rr_ttl := remaining e now; rr_data := rr_data r |}).
    assert (Hx : In x (rc_get now (rc_after (ls ++ [rrs])) (rr_name r) RT_A)).
    { apply rc_get_in. split; [reflexivity|]. split; [reflexivity|]. split.
      - right. cbn [x rr_type]. repeat split; discriminate.
      - exists e. split; [|split; [reflexivity|]].
        + rewrite rc_after_snoc, rc_abs_insert_all. unfold rr_key at 1. cbn [x rr_name rr_type rr_data].
          rewrite <- Ht. exact He.
        + cbn [x rr_ttl]. unfold remaining. apply N.min_glb; [|unfold U32_MAX; lia].
          apply N.div_le_lower_bound; [unfold NS_PER_S; lia|]. lia. }
    intro E. rewrite E in Hx. destruct Hx.
  Qed.

  (* the chain theorem for the real cache model, started empty (Cache::new) at the instant [now] *)
  Theorem chain_correct_real_cache sort_names (Hsort : forall l, Permutation (sort_names l) l) port u zroot hints hz q :
    uz_apex zroot = root_domain -> zone_build root_domain None (hint_ops hints) = Ok hz ->
    hints_for u zroot hints q -> plain_question u q ->
    forall rest fuel, chain_from u hints q [] zroot rest -> (length rest + 2 <= fuel)%nat ->
    exists c' ts',
      resolve rcache (rc_get now) (rc_insert_all now) sort_names (ModeRecursive OnlyV4) port (zones_insert [] hz)
              (universe_oracle u []) fuel q (rc_new, tstate_init)
      = (Ok (NonAuthoritative (aa_rrs (auth_answer u q)) (aa_soa (auth_answer u q))), (c', ts'))
      /\ chain_log u port q (zroot :: rest) (ts_log ts')
      /\ depths_increase zroot rest.
  Proof.
    exact (chain_correct_abstract rcache (rc_get now) (rc_insert_all now) rc_new rc_empty_get rc_hist_sound rc_hist_complete
             sort_names Hsort port u zroot hints hz q).
  Qed.
End RealCacheLaws.
