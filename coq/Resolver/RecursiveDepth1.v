(* Resolver/RecursiveDepth1.v -- C07_correct for DEPTH 1: in a universe where the root zone owns the
   question name, or a zone delegated from the root zone does, the recursive resolver model --
   started with the root hints as its only local zone, an empty cache, protocol mode only-v4,
   talking to the fault-free universe oracle through the wire codec -- returns EXACTLY
   [auth_answer]: the records of the asked type at the name, or no records and the SOA of the
   owning zone; after one exchange with a root server (root zone owns the name) or two (a referral
   from a root server, then the answer of a server of the delegated zone).

   Contents:
     1. the root-hints zone: a zone built by Zone::insert from NS records of the root and A records
        answers a lookup with exactly the hints that match, through C02's flat specification
        (resolve_refines_flat: tree lookup = flat lookup) -- for EVERY such list of hints;
     2. resolve_local against such zones and a cache: the three outcomes the resolution meets
        (nothing known; the hints answer; the cache answers);
     3. candidate_nameservers finds the root nameservers of the hints; resolve_hostname_to_ip finds
        a nameserver's address in the hints, or in the cache (the glue of a referral);
     4. SimpleCache: "get after insert_all" (soundness is in ForwardingProofs.v; completeness here);
     5. the two hops of RecursiveCorrect.v again, saying also which exchange they log, and the
        universe oracle's delivery with its log entry;
     6. the chain: start -> root server -> (referral -> server of the delegated zone) -> answer,
        over an abstract cache with three laws;
     7. the statement for SimpleCache, the universe oracle and the built hints zone.

   Not covered (what C07_correct_partial still lacks): aliases (CNAME chains, the NRCname
   continuation), delegation depth above 1, nameserver hosts whose address must itself be resolved
   recursively (no glue), protocol modes with v6. *)
From Coq Require Import Permutation.
From RV Require Import Base.Prelude Name.NameModel Name.NameSpec Name.NameProofs
     Wire.WireTypes Wire.WireModel Wire.WireGrammar Wire.WireEncodeProofs Wire.WireDecodeProofs
     Zone.ZoneModel Zone.ZoneFlat Zone.ZoneProofs
     Resolver.LocalModel Resolver.LocalSpec Resolver.LocalProofs
     Resolver.ValidateModel Resolver.ValidateSpec Resolver.ValidateProofs
     Resolver.TransportModel Resolver.RecursiveModel Resolver.ForwardingModel
     Resolver.RecursiveProofs Resolver.ForwardingProofs
     Resolver.Universe Resolver.ResolverFacts Resolver.RecursiveCorrect.
Set Default Timeout 120.

(* ====================================================================== *)
(* 1. the root-hints zone                                                   *)
(* ====================================================================== *)

(* a root hint: an NS record of the root, or an A record of a host *)
Definition hint_ok (r : rr) : Prop :=
  wf_name (rr_name r) /\
  ((rr_type r = RT_NS /\ labels (rr_name r) = [[]] /\ exists h, rr_data r = RD_Name h)
   \/ (rr_type r = RT_A /\ exists a, rr_data r = RD_A a)).

Definition hint_op (r : rr) : zop :=
  {| op_wild := false; op_name := rr_name r; op_type := rr_type r; op_data := rr_data r; op_ttl := rr_ttl r |}.
Definition hint_ops (hints : list rr) : list zop := map hint_op hints.

(* the record a lookup of (name, qt) makes of a hint: owner = the query name *)
Definition hint_match (hints : list rr) (name : dname) (qt : N) (x : rr) : Prop :=
  exists r, In r hints /\ labels (rr_name r) = labels name /\ rtype_matches (rr_type r) qt = true
            /\ x = {| rr_name := name; rr_type := rr_type r; rr_class := RC_IN; rr_ttl := rr_ttl r; rr_data := rr_data r |}.

Lemma hint_op_ok r : hint_ok r -> op_ok (hint_op r).
Proof.
  intros [Hwf [(Ht & _ & h & Hd)|(Ht & a & Hd)]]; split; try exact Hwf; cbn [hint_op op_data op_type]; rewrite Ht, Hd; reflexivity.
Qed.

Lemma hint_ops_ok hints : Forall hint_ok hints -> Forall op_ok (hint_ops hints).
Proof. intro H. unfold hint_ops. apply Forall_map. eapply Forall_impl; [|exact H]. exact hint_op_ok. Qed.

Section Hints.
  Variable hints : list rr.
  Hypothesis Hhints : Forall hint_ok hints.
  Let fz := flat_of_ops root_domain None (hint_ops hints).

  Lemma hint_norm p rec :
    In (p, rec) (f_norm fz) <->
    exists r, In r hints /\ rel_path [[]] (rr_name r) = Some p
              /\ rec = {| zr_type := rr_type r; zr_data := rr_data r; zr_ttl := rr_ttl r |}.
  Proof.
    split.
    - intro H. apply (flat_of_ops_sound root_domain None (hint_ops hints) false) in H.
      destruct H as [(_ & _ & so & Hso & _)|(o & Ho & _ & Hp & Hr)]; [discriminate|].
      unfold hint_ops in Ho. apply in_map_iff in Ho as (r & <- & Hr0). exists r. split; [exact Hr0|]. split; [exact Hp|].
      rewrite Hr. reflexivity.
    - intros (r & Hr & Hp & ->).
      apply (flat_of_ops_complete root_domain None (hint_ops hints) (hint_op r) p).
      + unfold hint_ops. apply in_map, Hr.
      + exact Hp.
  Qed.

  Lemma hint_wild p rec : ~ In (p, rec) (f_wild fz).
  Proof.
    intro H. apply (flat_of_ops_sound root_domain None (hint_ops hints) true) in H.
    destruct H as [(Hw & _)|(o & Ho & Hw & _)]; [discriminate|].
    unfold hint_ops in Ho. apply in_map_iff in Ho as (r & <- & _). discriminate.
  Qed.

  Lemma hint_rel_path name front : labels name = front ++ [[]] ->
    forall r, rel_path [[]] (rr_name r) = Some front <-> labels (rr_name r) = labels name.
  Proof.
    intros Hl r. rewrite Hl. split; [apply rel_path_some|apply rel_path_intro].
  Qed.

  Lemma hint_no_ns c : c <> [] -> recs_at (f_norm fz) c RT_NS = [].
  Proof.
    intro Hc. destruct (recs_at (f_norm fz) c RT_NS) as [|x l] eqn:E; [reflexivity|]. exfalso.
    assert (Hx : In x (recs_at (f_norm fz) c RT_NS)) by (rewrite E; left; reflexivity).
    apply In_recs_at in Hx as [Hin Ht]. apply hint_norm in Hin as (r & Hr & Hp & ->). cbn [zr_type] in Ht.
    rewrite Forall_forall in Hhints. destruct (Hhints r Hr) as [_ [(_ & Hl & _)|(Ht' & _)]].
    - apply rel_path_some in Hp. rewrite Hl in Hp. destruct c as [|a c]; [contradiction|].
      cbn [app] in Hp. inversion Hp. destruct c; discriminate.
    - rewrite Ht' in Ht. discriminate.
  Qed.

  Lemma hint_no_cname p : recs_at (f_norm fz) p RT_CNAME = [].
  Proof.
    destruct (recs_at (f_norm fz) p RT_CNAME) as [|x l] eqn:E; [reflexivity|]. exfalso.
    assert (Hx : In x (recs_at (f_norm fz) p RT_CNAME)) by (rewrite E; left; reflexivity).
    apply In_recs_at in Hx as [Hin Ht]. apply hint_norm in Hin as (r & Hr & Hp & ->). cbn [zr_type] in Ht.
    rewrite Forall_forall in Hhints. destruct (Hhints r Hr) as [_ [(Ht' & _)|(Ht' & _)]]; rewrite Ht' in Ht; discriminate.
  Qed.

  Lemma hint_no_occlusion : no_occlusion fz.
  Proof.
    intros c rns Hc Hin Ht. exfalso.
    assert (Hx : In rns (recs_at (f_norm fz) c RT_NS)) by (apply In_recs_at; auto).
    rewrite (hint_no_ns c Hc) in Hx. destruct Hx.
  Qed.

  (* a lookup in the hints zone: no record of the zone matches, or exactly the matching hints *)
  Lemma hints_zone_resolve hz name qt :
    zone_build root_domain None (hint_ops hints) = Ok hz -> wf_name name -> qt <> QT_Wildcard ->
    exists zr, zone_resolve hz name qt = Some (Ok zr) /\
      ((zr = ZNameError /\ forall x, ~ hint_match hints name qt x) \/
       (exists rrs, zr = ZAnswer rrs /\ forall x, In x rrs <-> hint_match hints name qt x)).
  Proof.
    intros Hb Hname Hqt.
    destruct (resolve_refines_flat root_domain None (hint_ops hints) name qt root_wf (hint_ops_ok _ Hhints) Hname)
      as (z & Hb' & H).
    rewrite Hb in Hb'. inversion Hb'; subst z. clear Hb'.
    destruct (proj1 Hname) as (front & Hl & Hfront & Hsum).
    change (labels root_domain) with ([[]] : list label) in H.
    rewrite (rel_path_intro [[]] name front Hl) in H. destruct H as (zr & Hzr & H).
    destruct (H hint_no_occlusion) as [_ Heq]. specialize (Heq Hqt). fold fz in Heq.
    exists zr. split; [exact Hzr|]. subst zr. unfold flat_resolve.
    rewrite find_none_all.
    2:{ intros c Hc. apply In_ancestors in Hc as [Hc _]. apply is_cut_no_ns, hint_no_ns, Hc. }
    destruct (exists_nodeb fz front) eqn:Eex.
    - right. rewrite classify_answer by (right; rewrite of_type_all_at; apply hint_no_cname).
      eexists. split; [reflexivity|]. intro x. rewrite in_map_iff. split.
      + intros (rec & <- & Hrec). apply filter_In in Hrec as [Hrec Hm]. apply In_all_at, hint_norm in Hrec as (r & Hr & Hp & ->).
        exists r. split; [exact Hr|]. split; [apply (hint_rel_path name front Hl), Hp|]. split; [exact Hm|reflexivity].
      + intros (r & Hr & Hlr & Hm & ->).
        exists {| zr_type := rr_type r; zr_data := rr_data r; zr_ttl := rr_ttl r |}. split; [reflexivity|].
        apply filter_In. split; [|exact Hm]. apply In_all_at, hint_norm. exists r. split; [exact Hr|].
        split; [apply (hint_rel_path name front Hl), Hlr|reflexivity].
    - left. split.
      + destruct (wild_source fz front) as [[l e]|]; [|reflexivity].
        destruct (has_wild fz e) eqn:Ew; [|reflexivity]. apply has_wild_spec in Ew as [r Hr]. destruct (hint_wild _ _ Hr).
      + intros x (r & Hr & Hlr & _). apply exists_nodeb_false in Eex. apply Eex. right.
        exists front, {| zr_type := rr_type r; zr_data := rr_data r; zr_ttl := rr_ttl r |}. split; [|apply is_suffix_refl].
        unfold entries. apply in_or_app. left. apply hint_norm. exists r. split; [exact Hr|].
        split; [apply (hint_rel_path name front Hl), Hlr|reflexivity].
  Qed.
End Hints.

(* ---- the zones: the hints zone alone ---- *)

(* what the local zones are to the resolver: every lookup ends in a zone without SOA and finds
   nothing, or exactly the hints that match *)
Definition hints_zones (zs : zones) (hints : list rr) : Prop :=
  no_authoritative_zone zs /\                     (* so cut_at_local_authority never cuts: cut_no_auth *)
  forall name qt, wf_name name -> qt <> QT_Wildcard ->
    exists hz zr, zones_resolve zs name qt = Some (hz, Ok zr) /\ zone_soa_rr hz = None /\
      ((zr = ZNameError /\ forall x, ~ hint_match hints name qt x) \/
       (exists rrs, zr = ZAnswer rrs /\ forall x, In x rrs <-> hint_match hints name qt x)).

Lemma from_labels_root : from_labels [[]] = Some root_domain.
Proof. reflexivity. Qed.

Lemma zones_get_root {Z} (z : Z) : forall front,
  zones_get_loop [(root_domain, z)] (suffixes (front ++ [[]])) = Some z.
Proof.
  induction front as [|l front IH]; cbn [app suffixes zones_get_loop].
  - rewrite from_labels_root. cbn [alookup]. reflexivity.
  - destruct (from_labels (l :: front ++ [[]])) as [nm|] eqn:E; [|exact IH].
    cbn [alookup]. destruct (dname_eqb nm root_domain) eqn:En; [|exact IH].
    apply dname_eqb_eq in En. subst nm. apply from_labels_inv in E. destruct E as [E _]. cbn [labels root_domain] in E.
    inversion E. destruct front; discriminate.
Qed.

Lemma hints_zones_built hints hz :
  Forall hint_ok hints -> zone_build root_domain None (hint_ops hints) = Ok hz ->
  hints_zones (zones_insert [] hz) hints.
Proof.
  intros Hh Hb.
  destruct (zone_build_R root_domain None (hint_ops hints) root_wf (Forall_op_names _ (hint_ops_ok _ Hh)))
    as (z & Hb' & Ha & Hs & _).
  rewrite Hb in Hb'. inversion Hb'; subst z. clear Hb'.
  split.
  { apply no_auth_of_all. unfold zones_insert, ainsert. cbn [alookup app]. intros n z [E|[]]. inversion E; subst.
    unfold zone_is_authoritative. rewrite Hs. reflexivity. }
  intros name qt Hname Hqt.
  destruct (hints_zone_resolve hints Hh hz name qt Hb Hname Hqt) as (zr & Hzr & Hcases).
  exists hz, zr. split; [|split; [|exact Hcases]].
  - unfold zones_resolve, zones_insert, ainsert. cbn [alookup app]. rewrite Ha. unfold zones_get.
    destruct (proj1 Hname) as (front & Hl & _). rewrite Hl, zones_get_root, Hzr. reflexivity.
  - unfold zone_soa_rr. rewrite Hs. reflexivity.
Qed.

(* ====================================================================== *)
(* 2. resolve_local against the hints and a cache                           *)
(* ====================================================================== *)

Lemma local_fuel_S : exists f, LOCAL_FUEL = S f.
Proof. eexists. unfold LOCAL_FUEL. vm_compute. reflexivity. Qed.

Section LocalHints.
  Variable zs : zones.
  Variable hints : list rr.
  Hypothesis Hz : hints_zones zs hints.
  Variable cget : dname -> N -> list rr.

  Lemma rl_dup f stack q :
    at_recursion_limit stack = false -> is_duplicate_question stack q = true ->
    resolve_local zs cget (S f) stack q = Err (EDuplicateQuestion q).
  Proof. intros H1 H2. rewrite resolve_local_eq, H1, H2. reflexivity. Qed.

  (* nothing in the hints, nothing in the cache *)
  Lemma rl_miss f stack q :
    at_recursion_limit stack = false -> is_duplicate_question stack q = false ->
    wf_name (q_name q) -> q_type q <> QT_Wildcard ->
    (forall x, ~ hint_match hints (q_name q) (q_type q) x) ->
    cget (q_name q) (q_type q) = [] -> cget (q_name q) RT_CNAME = [] ->
    resolve_local zs cget (S f) stack q = Err (EDeadEnd q).
  Proof.
    intros H1 H2 Hn Hq Hno Hc1 Hc2. rewrite resolve_local_eq, H1, H2. unfold local_step, zone_phase.
    destruct (proj2 Hz (q_name q) (q_type q) Hn Hq) as (hz & zr & -> & -> & [[-> _]|(rrs & -> & Hin)]).
    - unfold cache_phase, cache_part. rewrite Hc1, Hc2. cbn [is_nil andb]. destruct (negb (q_type q =? RT_CNAME)); reflexivity.
    - assert (rrs = []) as ->.
      { destruct rrs as [|x l]; [reflexivity|]. exfalso. apply (Hno x), Hin. left. reflexivity. }
      cbn [is_nil negb]. rewrite andb_false_r.
      unfold cache_phase, cache_part. rewrite Hc1, Hc2. cbn [is_nil andb]. destruct (negb (q_type q =? RT_CNAME)); reflexivity.
  Qed.

  (* the hints answer *)
  Lemma rl_hit f stack q x0 :
    at_recursion_limit stack = false -> is_duplicate_question stack q = false ->
    wf_name (q_name q) -> q_type q <> QT_Wildcard ->
    hint_match hints (q_name q) (q_type q) x0 ->
    exists rrs, resolve_local zs cget (S f) stack q = Ok (LDone (NonAuthoritative rrs None))
                /\ rrs <> [] /\ forall x, In x rrs <-> hint_match hints (q_name q) (q_type q) x.
  Proof.
    intros H1 H2 Hn Hq Hm. rewrite resolve_local_eq, H1, H2. unfold local_step, zone_phase.
    destruct (proj2 Hz (q_name q) (q_type q) Hn Hq) as (hz & zr & -> & -> & [[_ Hno]|(rrs & -> & Hin)]).
    - destruct (Hno x0 Hm).
    - assert (Hne : rrs <> []).
      { intros ->. apply (Hin x0) in Hm. destruct Hm. }
      exists rrs. apply N.eqb_neq in Hq. rewrite Hq. destruct rrs as [|r l]; [congruence|]. cbn [is_nil negb andb].
      split; [reflexivity|]. split; [exact Hne|exact Hin].
  Qed.

  (* nothing in the hints, something in the cache *)
  Lemma rl_cache f stack q :
    at_recursion_limit stack = false -> is_duplicate_question stack q = false ->
    wf_name (q_name q) -> q_type q <> QT_Wildcard ->
    (forall x, ~ hint_match hints (q_name q) (q_type q) x) ->
    cget (q_name q) (q_type q) <> [] ->
    resolve_local zs cget (S f) stack q = Ok (LDone (NonAuthoritative (cget (q_name q) (q_type q)) None)).
  Proof.
    intros H1 H2 Hn Hq Hno Hc1. rewrite resolve_local_eq, H1, H2. unfold local_step, zone_phase.
    assert (Hcp : cache_phase cget q (fun name => resolve_local zs cget f (stack ++ [q]) (subq q name)) []
                  = Ok (LDone (NonAuthoritative (cget (q_name q) (q_type q)) None))).
    { unfold cache_phase, cache_part. destruct (cget (q_name q) (q_type q)) as [|r l] eqn:E; [congruence|].
      cbn [is_nil andb]. rewrite merge_nil_l. cbn [is_nil]. apply N.eqb_neq in Hq. rewrite Hq. reflexivity. }
    destruct (proj2 Hz (q_name q) (q_type q) Hn Hq) as (hz & zr & -> & -> & [[-> _]|(rrs & -> & Hin)]).
    - exact Hcp.
    - assert (rrs = []) as ->.
      { destruct rrs as [|x l]; [reflexivity|]. exfalso. apply (Hno x), Hin. left. reflexivity. }
      cbn [is_nil negb]. rewrite andb_false_r. exact Hcp.
  Qed.
End LocalHints.

(* ====================================================================== *)
(* 3. the resolver's local steps: candidates and their addresses            *)
(* ====================================================================== *)

(* address records of the host [h] *)
Definition addr_rr (h : dname) (r : rr) : Prop :=
  rr_name r = h /\ rr_type r = RT_A /\ rr_class r = RC_IN /\ exists a, rr_data r = RD_A a.

Lemma get_ip_addr h rrs : rrs <> [] -> Forall (addr_rr h) rrs ->
  exists r a, In r rrs /\ rr_data r = RD_A a /\ get_ip rrs h RT_A = Ok (Some (inl a)).
Proof.
  intros Hne Hall. unfold get_ip.
  assert (Hplain : Forall (plain_rr (mkq h QT_Wildcard RC_IN)) rrs).
  { eapply Forall_impl; [|exact Hall]. intros r (Hn & Ht & Hc & _). unfold plain_rr. cbn [mkq q_name q_type].
    unfold rr_is_unknown. rewrite Ht, Hc. repeat split; [exact Hn|discriminate]. }
  pose proof (follow_plain _ rrs Hplain Hne) as Hf. cbn [mkq q_name q_type] in Hf. rewrite Hf.
  destruct rrs as [|r l]; [congruence|]. inversion Hall as [|? ? (Hn & Ht & Hc & a & Hd) _]; subst.
  unfold get_record. cbn [find]. rewrite Ht, N.eqb_refl, dname_eqb_refl. cbn [andb]. rewrite Hd.
  exists r, a. split; [left; reflexivity|]. split; [exact Hd|reflexivity].
Qed.

Lemma rtype_matches_ns t : rtype_matches t RT_NS = true -> t = RT_NS.
Proof. unfold rtype_matches. cbn. apply N.eqb_eq. Qed.
Lemma rtype_matches_a t : rtype_matches t RT_A = true -> t = RT_A.
Proof. unfold rtype_matches. cbn. apply N.eqb_eq. Qed.

Ltac tyconf := match goal with H1 : rr_type ?r = _, H2 : rr_type ?r = _ |- _ => rewrite H1 in H2; discriminate H2 end.

Section RMLocal.
  Variable cache : Type.
  Variable cache_get : cache -> dname -> N -> list rr.
  Variable zs : zones.
  Variable hints : list rr.
  Hypothesis Hz : hints_zones zs hints.
  Hypothesis Hh : Forall hint_ok hints.

  Notation local := (local cache cache_get zs).

  Lemma local_dup stack q st :
    at_recursion_limit stack = false -> is_duplicate_question stack q = true -> local stack q st = (Val None, st).
  Proof.
    intros H1 H2. destruct local_fuel_S as [f Ef]. unfold RecursiveModel.local. rewrite Ef, rl_dup by assumption. reflexivity.
  Qed.

  Lemma local_miss stack q st :
    at_recursion_limit stack = false -> is_duplicate_question stack q = false ->
    wf_name (q_name q) -> q_type q <> QT_Wildcard ->
    (forall x, ~ hint_match hints (q_name q) (q_type q) x) ->
    cache_get (fst st) (q_name q) (q_type q) = [] -> cache_get (fst st) (q_name q) RT_CNAME = [] ->
    local stack q st = (Val None, st).
  Proof.
    intros. destruct local_fuel_S as [f Ef]. unfold RecursiveModel.local.
    rewrite Ef, (rl_miss zs hints Hz) by assumption. reflexivity.
  Qed.

  (* the NS hosts a hints answer names *)
  Lemma hint_ns_hosts rrs : rrs <> [] -> (forall x, In x rrs -> hint_match hints root_domain RT_NS x) ->
    ns_hostnames_of rrs <> [].
  Proof.
    intros Hne Hin. destruct rrs as [|x l]; [congruence|].
    destruct (Hin x (or_introl eq_refl)) as (r & Hr & _ & Hm & ->). apply rtype_matches_ns in Hm.
    rewrite Forall_forall in Hh. destruct (Hh r Hr) as [_ [(_ & _ & h & Hd)|(Ht & _)]]; [|tyconf].
    unfold ns_hostnames_of. cbn [flat_map rr_type rr_data]. rewrite Hm, Hd, N.eqb_refl. discriminate.
  Qed.

  (* candidate_nameservers: the hints know no nameservers but the root's *)
  Lemma cand_ns stack st x0 :
    at_recursion_limit stack = false ->
    is_duplicate_question stack (mkq root_domain RT_NS RC_IN) = false ->
    (forall n t, cache_get (fst st) n t = []) ->
    hint_match hints root_domain RT_NS x0 ->
    forall front, wf_labels (front ++ [[]]) ->
    exists rrs, candidate_ns_loop cache cache_get zs stack (@suffixes label (front ++ [[]])) st
                = (Val (Some {| ns_hostnames := ns_hostnames_of rrs; ns_name := root_domain |}), st)
                /\ rrs <> [] /\ (forall x, In x rrs <-> hint_match hints root_domain RT_NS x).
  Proof.
    intros Hlim Hdup Hempty Hm0. induction front as [|l front IH]; intro Hwf; cbn [app suffixes candidate_ns_loop].
    - rewrite from_labels_root. destruct local_fuel_S as [f Ef].
      destruct (rl_hit zs hints Hz (cache_get (fst st)) f stack (mkq root_domain RT_NS RC_IN) x0 Hlim Hdup root_wf
                  ltac:(discriminate) Hm0) as (rrs & Hrl & Hne & Hin).
      exists rrs. split; [|split; assumption].
      unfold rbind, RecursiveModel.local. rewrite Ef, Hrl. cbn [resolved_rrs].
      pose proof (hint_ns_hosts rrs Hne (fun x Hx => proj1 (Hin x) Hx)) as Hhosts.
      destruct (ns_hostnames_of rrs); [congruence|]. reflexivity.
    - cbn [app] in Hwf. rewrite (from_labels_mkname _ Hwf).
      assert (Hnone : local stack (mkq (mkname (l :: front ++ [[]])) RT_NS RC_IN) st = (Val None, st)).
      { destruct (is_duplicate_question stack (mkq (mkname (l :: front ++ [[]])) RT_NS RC_IN)) eqn:Ed.
        - apply local_dup; assumption.
        - apply local_miss; try assumption; cbn [mkq q_name q_type].
          + split; [exact Hwf|reflexivity].
          + discriminate.
          + intros x (r & Hr & Hl & Hm & _). apply rtype_matches_ns in Hm.
            rewrite Forall_forall in Hh. destruct (Hh r Hr) as [_ [(_ & Hl' & _)|(Ht & _)]]; [|tyconf].
            rewrite Hl' in Hl. cbn [mkname labels] in Hl. inversion Hl. destruct front; discriminate.
          + apply Hempty.
          + apply Hempty. }
      unfold rbind at 1. rewrite Hnone. cbn [is_nil].
      apply IH. apply (wf_labels_suffix [l] (front ++ [[]])); [exact Hwf|]. destruct front; discriminate.
  Qed.

  (* resolve_hostname_to_ip (only v4), answered locally *)
  Lemma rhi_local rec stack h st rrs a :
    resolve_local zs (cache_get (fst st)) LOCAL_FUEL stack (mkq h RT_A RC_IN) = Ok (LDone (NonAuthoritative rrs None)) ->
    get_ip rrs h RT_A = Ok (Some a) ->
    resolve_hostname_to_ip cache cache_get zs OnlyV4 rec stack true h st = (Val (Some a), st).
  Proof.
    intros Hrl Hip. unfold resolve_hostname_to_ip. cbn [rtypes_of_mode hostname_loop].
    unfold rbind at 1. unfold hostname_try. unfold rbind at 1. unfold RecursiveModel.local. rewrite Hrl.
    cbn [resolved_rrs]. rewrite Hip. reflexivity.
  Qed.

  (* a host the hints have an address for *)
  Lemma rhi_hint rec stack h st x0 :
    at_recursion_limit stack = false -> is_duplicate_question stack (mkq h RT_A RC_IN) = false ->
    wf_name h -> hint_match hints h RT_A x0 ->
    exists r a, In r hints /\ labels (rr_name r) = labels h /\ rr_type r = RT_A /\ rr_data r = RD_A a /\
      resolve_hostname_to_ip cache cache_get zs OnlyV4 rec stack true h st = (Val (Some (inl a)), st).
  Proof.
    intros Hlim Hdup Hwf Hm0. destruct local_fuel_S as [f Ef].
    destruct (rl_hit zs hints Hz (cache_get (fst st)) f stack (mkq h RT_A RC_IN) x0 Hlim Hdup Hwf ltac:(discriminate) Hm0)
      as (rrs & Hrl & Hne & Hin). cbn [mkq q_name q_type] in Hin.
    assert (Hall : Forall (addr_rr h) rrs).
    { apply Forall_forall. intros x Hx. apply Hin in Hx as (r & Hr & _ & Hm & ->). apply rtype_matches_a in Hm.
      rewrite Forall_forall in Hh. destruct (Hh r Hr) as [_ [(Ht & _)|(_ & a & Hd)]]; [tyconf|].
      unfold addr_rr. cbn [rr_name rr_type rr_class rr_data]. eauto. }
    destruct (get_ip_addr h rrs Hne Hall) as (x & a & Hx & Hd & Hip).
    apply Hin in Hx as (r & Hr & Hl & Hm & ->). apply rtype_matches_a in Hm. cbn [rr_data] in Hd.
    exists r, a. repeat (split; [assumption|]). rewrite <- Ef in Hrl. eapply rhi_local; eassumption.
  Qed.

  (* a host the hints do not know and the cache has address records for *)
  Lemma rhi_cached rec stack h st :
    at_recursion_limit stack = false -> is_duplicate_question stack (mkq h RT_A RC_IN) = false ->
    wf_name h -> (forall x, ~ hint_match hints h RT_A x) ->
    cache_get (fst st) h RT_A <> [] -> Forall (addr_rr h) (cache_get (fst st) h RT_A) ->
    exists r a, In r (cache_get (fst st) h RT_A) /\ rr_data r = RD_A a /\
      resolve_hostname_to_ip cache cache_get zs OnlyV4 rec stack true h st = (Val (Some (inl a)), st).
  Proof.
    intros Hlim Hdup Hwf Hno Hne Hall. destruct local_fuel_S as [f Ef].
    pose proof (rl_cache zs hints Hz (cache_get (fst st)) f stack (mkq h RT_A RC_IN) Hlim Hdup Hwf ltac:(discriminate) Hno Hne) as Hrl.
    cbn [mkq q_name q_type] in Hrl.
    destruct (get_ip_addr h _ Hne Hall) as (x & a & Hx & Hd & Hip).
    exists x, a. split; [exact Hx|]. split; [exact Hd|]. rewrite <- Ef in Hrl. eapply rhi_local; eassumption.
  Qed.
End RMLocal.

(* ====================================================================== *)
(* 4. SimpleCache: what was inserted can be read                            *)
(* ====================================================================== *)

(* the key has an entry with a record of positive TTL *)
Definition sc_has (c : scache) (k : dname * N) : Prop :=
  exists vals, alookup sc_key_eqb k c = Some vals /\ exists e, In e vals /\ 0 < snd e.

Lemma sc_upsert_last vals d ttl : In (d, ttl) (sc_upsert vals d ttl).
Proof. unfold sc_upsert. destruct (find_index _ vals); apply in_or_app; right; left; reflexivity. Qed.

Lemma sc_insert_has_new c r : 0 < rr_ttl r -> sc_has (sc_insert c r) (rr_name r, rr_type r).
Proof.
  intro Ht. unfold sc_insert. apply N.ltb_lt in Ht. rewrite Ht. apply N.ltb_lt in Ht.
  destruct (alookup sc_key_eqb (rr_name r, rr_type r) c) as [vals|] eqn:El.
  - exists (sc_upsert vals (rr_data r) (rr_ttl r)). split.
    + apply (alookup_areplace_same sc_key_eqb _ vals). exact El.
    + exists (rr_data r, rr_ttl r). split; [apply sc_upsert_last|exact Ht].
  - exists [(rr_data r, rr_ttl r)]. split.
    + apply (alookup_app_new sc_key_eqb sc_key_eqb_eq). exact El.
    + exists (rr_data r, rr_ttl r). split; [left; reflexivity|exact Ht].
Qed.

Lemma sc_insert_has_keep c r k : sc_has c k -> sc_has (sc_insert c r) k.
Proof.
  intros (vals & El & e & He & Hpos). unfold sc_insert. destruct (0 <? rr_ttl r) eqn:Ht; [|exists vals; eauto].
  destruct (sc_key_eqb k (rr_name r, rr_type r)) eqn:Ek.
  - apply sc_key_eqb_eq in Ek. subst k. rewrite El.
    exists (sc_upsert vals (rr_data r) (rr_ttl r)). split.
    + apply (alookup_areplace_same sc_key_eqb _ vals). exact El.
    + exists (rr_data r, rr_ttl r). split; [apply sc_upsert_last|apply N.ltb_lt, Ht].
  - assert (Hne : k <> (rr_name r, rr_type r)).
    { intro E. apply sc_key_eqb_eq in E. congruence. }
    exists vals. split; [|eauto].
    destruct (alookup sc_key_eqb (rr_name r, rr_type r) c) as [old|].
    + rewrite (alookup_areplace_other sc_key_eqb sc_key_eqb_eq) by exact Hne. exact El.
    + rewrite (alookup_app_other sc_key_eqb sc_key_eqb_eq) by exact Hne. exact El.
Qed.

Lemma sc_insert_all_has : forall rrs c r, In r rrs -> 0 < rr_ttl r -> sc_has (sc_insert_all c rrs) (rr_name r, rr_type r).
Proof.
  unfold sc_insert_all.
  assert (Hkeep : forall rrs c k, sc_has c k -> sc_has (fold_left sc_insert rrs c) k).
  { induction rrs as [|x rrs IH]; intros c k H; cbn [fold_left]; [exact H|]. apply IH, sc_insert_has_keep, H. }
  induction rrs as [|x rrs IH]; intros c r Hin Ht; [destruct Hin|]. cbn [fold_left].
  destruct Hin as [->|Hin]; [apply Hkeep, sc_insert_has_new, Ht|apply IH; assumption].
Qed.

(* the three laws of the cache the depth-1 theorem uses, for SimpleCache *)
Lemma sc_empty_get n t : sc_get sc_empty n t = [].
Proof.
  unfold sc_get, sc_empty. destruct (t =? QT_Wildcard); [reflexivity|]. destruct (existsb _ qtype_table); reflexivity.
Qed.

Lemma sc_get_a_sound rrs n x :
  In x (sc_get (sc_insert_all sc_empty rrs) n RT_A) ->
  rr_name x = n /\ rr_type x = RT_A /\ rr_class x = RC_IN /\
  exists r, In r rrs /\ rr_name r = n /\ rr_type r = RT_A /\ rr_data r = rr_data x.
Proof.
  intro H.
  assert (Hshape : rr_name x = n /\ rr_type x = RT_A /\ rr_class x = RC_IN).
  { unfold sc_get in H. apply filter_In in H as [H _].
    change (RT_A =? QT_Wildcard) with false in H. cbv iota in H.
    change (existsb (fun p : N * list N => fst p =? RT_A) qtype_table) with false in H. cbv iota in H.
    destruct (alookup sc_key_eqb (n, RT_A) _) as [vals|]; [|destruct H].
    unfold sc_to_rrs in H. apply in_map_iff in H as (e & <- & _). cbn. auto. }
  destruct Hshape as (Hn & Ht & Hc). repeat (split; [assumption|]).
  apply sc_get_content in H as (x' & Hc' & Hs). apply sc_insert_all_content in Hc' as [Hc'|(r & Hr & Hs')].
  - destruct (sc_empty_content _ Hc').
  - destruct (rr_sim_trans _ _ _ Hs Hs') as (E1 & E2 & E3). exists r. repeat split; congruence.
Qed.

Lemma sc_get_a_complete rrs r :
  In r rrs -> rr_type r = RT_A -> 0 < rr_ttl r -> sc_get (sc_insert_all sc_empty rrs) (rr_name r) RT_A <> [].
Proof.
  intros Hin Ht Hpos. destruct (sc_insert_all_has rrs sc_empty r Hin Hpos) as (vals & El & e & He & Hepos).
  rewrite Ht in El. unfold sc_get.
  change (RT_A =? QT_Wildcard) with false. cbv iota.
  change (existsb (fun p : N * list N => fst p =? RT_A) qtype_table) with false. cbv iota. rewrite El.
  intro E.
  assert (Hx : In {| rr_name := rr_name r; rr_type := RT_A; rr_class := RC_IN; rr_ttl := snd e; rr_data := fst e |}
                  (filter (fun r0 => 0 <? rr_ttl r0) (sc_to_rrs (rr_name r, RT_A) vals))).
  { apply filter_In. split; [|apply N.ltb_lt; exact Hepos]. unfold sc_to_rrs. apply in_map_iff. exists e. auto. }
  rewrite E in Hx. destruct Hx.
Qed.

(* ====================================================================== *)
(* 5. the two hops, with the exchange they log                              *)
(* ====================================================================== *)

(* [ts'] is [ts] after one UDP exchange with [a] about [q], and nothing else *)
Definition one_udp (a : addr) (q : question) (ts ts' : tstate) : Prop :=
  exists e, ts_rlog ts' = e :: ts_rlog ts /\ x_kind e = KUdp /\ x_addr e = a /\ x_question e = q /\ x_rd e = false.

(* [delivers] of RecursiveCorrect.v, saying also what is logged *)
Definition delivers_log (o : oracle) (u : universe) (port : N) (q : question) : Prop :=
  forall a m ts, ts_elapsed ts <= BUDGET_MS -> serve u a q = Some m ->
    response_matches_request (make_request q false) m = true ->
    exists ts', query_nameserver o (a, port) q false ts = (Val (Some m), ts') /\ ts_elapsed ts' <= BUDGET_MS
                /\ one_udp (a, port) q ts ts'.

Lemma delivers_log_delivers o u port q : delivers_log o u port q -> delivers o u port q.
Proof. intros H a m ts H1 H2 H3. destruct (H a m ts H1 H2 H3) as (ts' & E & Hb & _). eauto. Qed.

(* universe_oracle_delivers of RecursiveCorrect.v with the log *)
Theorem universe_oracle_delivers_log u port q :
  wf_question q ->
  (forall req, encode (make_request q false) = Ok req -> llen req <= 512) ->
  serve_fits u q ->
  delivers_log (universe_oracle u []) u port q.
Proof.
  intros Hq Hreq Hfits a m ts Hbud Hs Hm.
  destruct (Hfits a m Hs) as (Hwf & bs & Ebs & Hlen).
  destruct (encode_request_shape q) as [os Ereq].
  set (req := [0;0;0;0;0;1;0;0;0;0;0;0] ++ os) in *.
  pose proof (Hreq req Ereq) as Hreqlen.
  pose proof (request_wf q false Hq) as Hrwf.
  assert (Hdreq : decode req = Ok (make_request q false)).
  { apply decode_complete; [exact (encode_bytes _ req Hrwf Ereq)|exact (encode_parses _ req Hrwf Ereq)]. }
  assert (Hdbs : decode bs = Ok m).
  { apply decode_complete; [exact (encode_bytes m bs Hwf Ebs)|exact (encode_parses m bs Hwf Ebs)]. }
  assert (Hid : h_id (m_header m) = 0).
  { unfold serve in Hs. destruct (zones_of_server u a); [|discriminate]. inversion Hs. reflexivity. }
  destruct (parses_id0 bs m (encode_parses m bs Hwf Ebs) Hid) as [t Ebst].
  assert (Hclear : clear_tc req = req) by reflexivity.
  assert (Hreq12 : (@llen byte req <? 12) = false).
  { apply N.ltb_ge. subst req. rewrite llen_app. unfold llen at 1. cbn [length N.of_nat]. lia. }
  assert (Hreq512 : (512 <? @llen byte req) = false) by (apply N.ltb_ge; exact Hreqlen).
  assert (Hrq : request_question req = Some q).
  { unfold request_question. rewrite Hdreq. reflexivity. }
  assert (Horacle : forall n, universe_oracle u [] n Udp (a, port) req = mk_reply (Some bs) 0 true).
  { intro n. rewrite (universe_oracle_request u n Udp (a, port) req q m bs); [|subst req; discriminate|exact Hrq|exact Hs|exact Ebs].
    unfold reply_of. subst req. cbn [app option_map header_fault frame patch_id]. rewrite Ebst.
    cbn [patch_id]. reflexivity. }
  set (ts' := next_exchange (log_call KUdp (a, port) q false (ts_nexch ts) (mk_reply (Some bs) 0 true) ts)).
  assert (Hudp : udp_exchange (universe_oracle u []) (a, port) q false req ts = (Val (Some m, req), ts')).
  { unfold udp_exchange. rewrite Hreq512, Hreq12, Hclear, Horacle.
    unfold udp_outcome, mk_reply. cbn [t_refuse t_bytes t_delay_ms].
    replace (UDP_TIMEOUT_MS <? 0) with false by reflexivity.
    assert (Hfirst : firstn (N.to_nat UDP_RECV_BUF) bs = bs).
    { apply firstn_all2. unfold llen in Hlen. unfold UDP_RECV_BUF. lia. }
    rewrite Hfirst.
    unfold charge. cbn [ts_elapsed next_exchange log_call].
    assert (Hch : (BUDGET_MS <? ts_elapsed ts + 0) = false) by (apply N.ltb_ge; lia).
    rewrite Hch. unfold decode_opt. rewrite Hdbs.
    subst ts'. unfold next_exchange, log_call, mk_reply. cbn [ts_rlog ts_elapsed ts_nexch]. rewrite N.add_0_r. reflexivity. }
  exists ts'. split; [|split].
  - unfold query_nameserver. cbv zeta. rewrite Ereq, Hudp. unfold gate. rewrite Hm. reflexivity.
  - subst ts'. cbn [ts_elapsed next_exchange log_call]. exact Hbud.
  - subst ts'. eexists. cbn [ts_rlog next_exchange log_call]. split; [reflexivity|]. cbn. auto.
Qed.

Section HopsLog.
  Variable cache : Type.
  Variable cache_get : cache -> dname -> N -> list rr.
  Variable cache_insert_all : cache -> list rr -> cache.
  Variable sort_names : list dname -> list dname.
  Variable zs : zones.
  Variable o : oracle.
  Variable pmode : protocol_mode.
  Variable port : N.

  Notation cstep := (candidate_step cache cache_get cache_insert_all sort_names zs o pmode port).
  Notation rhi := (resolve_hostname_to_ip cache cache_get zs pmode).
  Notation qav := (query_and_validate cache o).

  Lemma qav_delivered_log u a q m mc st nr :
    delivers_log o u port q -> ts_elapsed (snd st) <= BUDGET_MS -> serve u a q = Some m ->
    response_matches_request (make_request q false) m = true ->
    validate_nameserver_response q m mc = Ok (Some nr) ->
    exists ts', qav (a, port) q mc st = (Val (Some nr), (fst st, ts')) /\ ts_elapsed ts' <= BUDGET_MS
                /\ one_udp (a, port) q (snd st) ts'.
  Proof.
    intros Hd Hb Hs Hm Hv. destruct (Hd a m (snd st) Hb Hs Hm) as (ts' & E & Hb' & Hlog).
    exists ts'. split; [|split; assumption]. unfold query_and_validate, rbind, lift_t. rewrite E. cbn [fst snd]. rewrite Hv. reflexivity.
  Qed.

  (* last_hop of RecursiveCorrect.v, with the state it ends in *)
  Theorem last_hop_log u z q rec loop stack mc cands next locally st candidate rest a st1 :
    delivers_log o u port q -> owns_plainly u z q -> serves_owner u a z q ->
    q_type q <> RT_CNAME -> q_type q <> QT_Wildcard ->
    Forall (fun r => rr_is_unknown r = false) (zone_data z) ->
    rr_type (uz_soa z) = RT_SOA -> rr_name (uz_soa z) = uz_apex z -> mc <= llen (labels (uz_apex z)) ->
    pop_last cands = Some (candidate, rest) ->
    rhi rec stack locally candidate st = (Val (Some a), st1) -> ts_elapsed (snd st1) <= BUDGET_MS ->
    exists c' ts',
      cstep rec loop stack q [] mc cands next locally st
      = (Val (ROk (NonAuthoritative (aa_rrs (auth_answer u q)) (aa_soa (auth_answer u q)))), (c', ts'))
      /\ one_udp (a, port) q (snd st1) ts'.
  Proof.
    intros Hd Ho Hs Hq1 Hq2 Hknown Hsoat Hsoan Hmc Ep Eh Hbud.
    destruct (serve_is_auth_answer u a z q Ho Hs) as (_ & Hrrs & Hcases).
    destruct Hcases as [(Hne & Hsoa & Hserve)|(Hnil & Hsoa & rcode & Hrc & Hserve)].
    - assert (Hplain : Forall (plain_rr q) (aa_rrs (auth_answer u q))).
      { rewrite Hrrs. apply Forall_forall. intros r Hr. apply filter_In in Hr. destruct Hr as [Hin Hm].
        apply rrs_at_in in Hin. destruct Hin as [Hin Hn]. apply dname_eqb_eq in Hn.
        split; [eapply Forall_forall in Hknown; [exact Hknown|exact Hin]|]. split; [exact Hn|]. split; [exact Hm|].
        rewrite (rtype_matches_concrete _ _ Hq2 Hm). exact Hq1. }
      pose proof (validate_plain_answer q true RCODE_NoError _ [] [] mc Hplain Hne) as Hv.
      destruct (qav_delivered_log u a q _ mc st1 _ Hd Hbud Hserve (msg_matches _ _ _ _ _ _ (or_introl eq_refl)) Hv) as (ts' & Eq & _ & Hlog).
      eexists. exists ts'. split; [|exact Hlog].
      rewrite (cstep_answer _ _ _ _ _ _ _ _ _ _ _ _ _ _ _ _ _ _ _ _ _ _ _ _ _ Ep Eh Eq).
      2:{ intros r Hr. apply owned_elsewhere_qname. eapply Forall_forall in Hplain; [|exact Hr]. exact (proj1 (proj2 Hplain)). }
      rewrite merge_nil_l, Hsoa. reflexivity.
    - destruct Ho as (Hb & _).
      apply best_zone_spec in Hb. destruct Hb as [Hb|[_ Hsub]]; [discriminate|].
      assert (Hv : validate_nameserver_response q (msg q true rcode [] [uz_soa z] []) mc = Ok (Some (NRAnswer [] (Some (uz_soa z))))).
      { apply validate_denial; [exact Hrc|exact Hsoat|rewrite Hsoan; exact Hsub|rewrite Hsoan; exact Hmc]. }
      destruct (qav_delivered_log u a q _ mc st1 _ Hd Hbud Hserve (msg_matches _ _ _ _ _ _ Hrc) Hv) as (ts' & Eq & _ & Hlog).
      eexists. exists ts'. split; [|exact Hlog].
      rewrite (cstep_answer _ _ _ _ _ _ _ _ _ _ _ _ _ _ _ _ _ _ _ _ _ _ _ _ _ Ep Eh Eq) by (intros r []).
      rewrite merge_nil_l, Hnil, Hsoa. reflexivity.
  Qed.

  (* referral_hop of RecursiveCorrect.v, with the exchange it logs *)
  Theorem referral_hop_log u a z0 c q rec loop stack mc cands next locally st candidate rest st1 :
    delivers_log o u port q ->
    (exists zs', zones_of_server u a = Some zs' /\ best_zone zs' (q_name q) None = Some z0) ->
    cut_owner z0 (q_name q) = Some c ->
    Forall (fun r => exists h, is_ns_rr r = Some h) (uz_cuts z0) ->
    mc < llen (labels c) ->
    (forall r, In r (uz_glue z0 ++ uz_rrs z0) -> rr_name r <> q_name q) ->
    pop_last cands = Some (candidate, rest) ->
    rhi rec stack locally candidate st = (Val (Some a), st1) -> ts_elapsed (snd st1) <= BUDGET_MS ->
    let ns := sr_authority (referral z0 c) in
    let ad := sr_additional (referral z0 c) in
    exists names ts3,
      cstep rec loop stack q [] mc cands next locally st
      = loop (llen (labels c)) (sort_names names) [] true
             (cache_insert_all (fst st1) (filter (ns_glue_filter c names true false) ns
                                          ++ filter (ns_glue_filter c names false true) ad), ts3)
      /\ (forall h, In h names <-> exists r, In r (uz_cuts z0) /\ rr_name r = c /\ is_ns_rr r = Some h)
      /\ ts_elapsed ts3 <= BUDGET_MS
      /\ one_udp (a, port) q (snd st1) ts3.
  Proof.
    intros Hd (zs' & Hz & Hbz) Hcut Hnsty Hmc Hnoglue Ep Eh Hbud ns ad.
    assert (Hserve : serve u a q = Some (msg q false RCODE_NoError [] ns ad)).
    { unfold serve. rewrite Hz. change CHAIN_FUEL with (S 63). rewrite serve_name_S, Hbz, Hcut. reflexivity. }
    destruct (cut_owner_spec _ _ _ Hcut) as [Hsub [r0 [Hr0 Hr0c]]].
    assert (Hns_in : forall r, In r ns <-> In r (uz_cuts z0) /\ rr_name r = c).
    { intro r. unfold ns, referral. cbn [sr_authority]. rewrite filter_In. split.
      - intros [H1 H2]. apply dname_eqb_eq in H2. auto.
      - intros [H1 H2]. split; [exact H1|]. apply dname_eqb_eq. exact H2. }
    assert (Hne : ns <> []).
    { intro E. assert (In r0 ns) by (apply Hns_in; auto). rewrite E in H. destruct H. }
    assert (Hall : Forall (referral_ns q c) ns).
    { apply Forall_forall. intros r Hr. apply Hns_in in Hr. destruct Hr as [H1 H2]. split; [exact H2|].
      eapply Forall_forall in Hnsty; [exact Hnsty|exact H1]. }
    destruct (validate_referral q false RCODE_NoError c ns ad mc Hne Hall Hsub Hmc) as (rrs & names & Hv & Hnames).
    destruct (qav_delivered_log u a q _ mc st1 _ Hd Hbud Hserve (msg_matches _ _ _ _ _ _ (or_introl eq_refl)) Hv) as (ts' & Eq & Hbud' & Hlog).
    exists names, ts'.
    destruct (validate_delegation_inv _ _ _ _ _ Hv) as [_ Hrrs]. cbn [ns_name ns_hostnames] in Hrrs.
    unfold delegation_rrs, msg, reply_message in Hrrs. cbn [m_answers m_authority m_additional sr_answers sr_authority sr_additional filter app] in Hrrs.
    assert (Hglue : glue_answer [] rrs q = None).
    { assert (Hno : forall t, (t = RT_A \/ t = RT_AAAA) -> get_records rrs (q_name q) t = []).
      { intros t Ht. unfold get_records.
        destruct (filter (fun r => (rr_type r =? t) && dname_eqb (rr_name r) (q_name q)) rrs) as [|x l] eqn:Ef; [reflexivity|].
        exfalso. assert (Hx : In x (x :: l)) by (left; reflexivity). rewrite <- Ef in Hx. apply filter_In in Hx.
        destruct Hx as [Hin Hb]. apply andb_prop in Hb. destruct Hb as [Hty Hnm]. apply N.eqb_eq in Hty. apply dname_eqb_eq in Hnm.
        rewrite Hrrs in Hin. apply in_app_or in Hin. destruct Hin as [Hin|Hin]; apply filter_In in Hin; destruct Hin as [Hin Hf].
        - apply ns_glue_filter_true in Hf. destruct Hf as [(h & [Hnst _] & _)|(_ & Hfalse & _)]; [|discriminate].
          rewrite Hnst in Hty. destruct Ht as [-> | ->]; discriminate.
        - unfold ad, referral in Hin. cbn [sr_additional] in Hin. apply filter_In in Hin. destruct Hin as [Hin _].
          exact (Hnoglue x Hin Hnm). }
      unfold glue_answer. destruct (q_type q =? RT_A).
      - rewrite (Hno RT_A (or_introl eq_refl)). reflexivity.
      - destruct (q_type q =? RT_AAAA); [|reflexivity]. rewrite (Hno RT_AAAA (or_intror eq_refl)). reflexivity. }
    split.
    - unfold candidate_step. rewrite Ep. unfold rbind at 1. rewrite Eh. unfold rbind at 1. rewrite Eq.
      unfold resolve_with_nameserver_response, resolve_with_response_match, cut_at_local_authority, lift_res, rbind, insert_all, ret.
      rewrite Hglue. cbn [fst snd ns_match_count ns_name ns_hostnames].
      rewrite Hrrs. reflexivity.
    - split; [|split; [exact Hbud'|exact Hlog]]. intro h. rewrite Hnames. split.
      + intros [r [H1 H2]]. apply Hns_in in H1. exists r. tauto.
      + intros [r [H1 [H2 H3]]]. exists r. split; [apply Hns_in; auto|exact H3].
  Qed.
End HopsLog.

(* ====================================================================== *)
(* 6. depth 1: root hints -> a root server -> (a referral -> a server of    *)
(*    the child zone) -> the authoritative answer                           *)
(* ====================================================================== *)

Lemma pop_last_some {A} (l : list A) : l <> [] -> exists x rest, pop_last l = Some (x, rest) /\ In x l.
Proof.
  induction l as [|y t IH]; [congruence|]. intros _. cbn [pop_last].
  destruct t as [|z t'].
  - exists y, []. split; [reflexivity|left; reflexivity].
  - destruct IH as (x & rest & E & Hin); [discriminate|]. rewrite E. exists x, (y :: rest). split; [reflexivity|right; exact Hin].
Qed.

Lemma hint_match_dec zs hints name qt : hints_zones zs hints -> wf_name name -> qt <> QT_Wildcard ->
  (exists x, hint_match hints name qt x) \/ (forall x, ~ hint_match hints name qt x).
Proof.
  intros Hz Hn Hq. destruct (proj2 Hz name qt Hn Hq) as (hz & zr & _ & _ & [[_ Hno]|(rrs & _ & Hin)]); [right; exact Hno|].
  destruct rrs as [|x l].
  - right. intros x Hx. apply Hin in Hx. destruct Hx.
  - left. exists x. apply Hin. left. reflexivity.
Qed.

Lemma question_eqb_true a b : question_eqb a b = true -> q_name a = q_name b /\ q_type a = q_type b.
Proof.
  unfold question_eqb. intro H. apply andb_prop in H as [H _]. apply andb_prop in H as [H1 H2].
  apply dname_eqb_eq in H1. apply N.eqb_eq in H2. auto.
Qed.

Section Depth1.
  Variable cache : Type.
  Variable cache_get : cache -> dname -> N -> list rr.
  Variable cache_insert_all : cache -> list rr -> cache.
  Variable c0 : cache.
  (* the laws of the cache: empty at the start; what is read after one insert_all into the empty
     cache was inserted; an inserted address record with a positive TTL can be read *)
  Hypothesis K_empty : forall n t, cache_get c0 n t = [].
  Hypothesis K_sound : forall rrs n x, In x (cache_get (cache_insert_all c0 rrs) n RT_A) ->
    rr_name x = n /\ rr_type x = RT_A /\ rr_class x = RC_IN /\
    exists r, In r rrs /\ rr_name r = n /\ rr_type r = RT_A /\ rr_data r = rr_data x.
  Hypothesis K_complete : forall rrs r, In r rrs -> rr_type r = RT_A -> 0 < rr_ttl r ->
    cache_get (cache_insert_all c0 rrs) (rr_name r) RT_A <> [].

  Variable sort_names : list dname -> list dname.
  Hypothesis Hsort : forall l, Permutation (sort_names l) l.

  Variable zs : zones.
  Variable hints : list rr.
  Hypothesis Hz : hints_zones zs hints.
  Hypothesis Hh : Forall hint_ok hints.

  Variable o : oracle.
  Variable port : N.
  Variable u : universe.
  Variable zroot : uzone.
  Variable q : question.

  Hypothesis Hdel : delivers_log o u port q.
  Hypothesis Hq_wf : wf_name (q_name q).
  Hypothesis Hq_cname : q_type q <> RT_CNAME.
  Hypothesis Hq_any : q_type q <> QT_Wildcard.
  (* the hints do not answer the question themselves *)
  Hypothesis Hq_nohint : forall x, ~ hint_match hints (q_name q) (q_type q) x.
  (* the hints: at least one root NS record; every root nameserver has an A record; at every such
     address a server listens whose closest zone for the question name is the root zone *)
  Hypothesis Hroot_ns : exists x, hint_match hints root_domain RT_NS x.
  Hypothesis Hroot_addr : forall r h, In r hints -> rr_type r = RT_NS -> rr_data r = RD_Name h ->
    wf_name h /\ exists g, In g hints /\ labels (rr_name g) = labels h /\ rr_type g = RT_A.
  Hypothesis Hroot_srv : forall g a, In g hints -> rr_type g = RT_A -> rr_data g = RD_A a ->
    serves_owner u (inl a) zroot q.
  Hypothesis Hroot_apex : uz_apex zroot = root_domain.

  Notation rrn := (resolve_recursive_notimeout cache cache_get cache_insert_all sort_names zs o OnlyV4 port).
  Notation cloop := (candidate_loop cache cache_get cache_insert_all sort_names zs o OnlyV4 port).
  Notation cstep := (candidate_step cache cache_get cache_insert_all sort_names zs o OnlyV4 port).
  Notation rhi := (resolve_hostname_to_ip cache cache_get zs OnlyV4).

  Lemma cloop_S f stack q' combined mc cands next locally :
    cloop (S f) stack q' combined mc cands next locally
    = cstep (rrn f) (cloop f stack q' combined) stack q' combined mc cands next locally.
  Proof. reflexivity. Qed.

  Lemma q_not_dup name t x : hint_match hints name t x \/ (name <> q_name q) ->
    is_duplicate_question [q] (mkq name t RC_IN) = false.
  Proof.
    intro H. unfold is_duplicate_question. cbn [existsb]. rewrite orb_false_r.
    destruct (question_eqb (mkq name t RC_IN) q) eqn:E; [|reflexivity]. exfalso.
    apply question_eqb_true in E as [E1 E2]. cbn [mkq q_name q_type] in E1, E2. subst name t.
    destruct H as [H|H]; [exact (Hq_nohint x H)|congruence].
  Qed.

  (* the resolution begins at the root nameservers of the hints *)
  Lemma start f ts :
    exists rrs, rrs <> [] /\ (forall x, In x rrs <-> hint_match hints root_domain RT_NS x) /\
      rrn (S f) [] q (c0, ts) = cloop f [q] q [] 1 (sort_names (ns_hostnames_of rrs)) [] true (c0, ts).
  Proof.
    destruct Hroot_ns as [x0 Hx0]. destruct (proj1 Hq_wf) as (front & Hl & _).
    destruct (cand_ns cache cache_get zs hints Hz Hh [q] (c0, ts) x0 eq_refl
                (q_not_dup root_domain RT_NS x0 (or_introl Hx0)) (fun n t => K_empty n t) Hx0 front)
      as (rrs & Hc & Hne & Hin).
    { rewrite <- Hl. exact (proj1 Hq_wf). }
    exists rrs. split; [exact Hne|]. split; [exact Hin|].
    cbn [resolve_recursive_notimeout]. unfold recursive_body.
    change (at_recursion_limit []) with false. cbn [is_duplicate_question existsb].
    unfold rbind at 1.
    rewrite (local_miss cache cache_get zs hints Hz [] q (c0, ts) eq_refl eq_refl Hq_wf Hq_any Hq_nohint (K_empty _ _) (K_empty _ _)).
    unfold rbind at 1. unfold candidate_nameservers. cbn [app]. rewrite Hl, Hc. reflexivity.
  Qed.

  (* every root nameserver of the hints resolves, locally, to the address of a root server *)
  Lemma root_candidate rec rrs cand ts :
    (forall x, In x rrs <-> hint_match hints root_domain RT_NS x) -> In cand (ns_hostnames_of rrs) ->
    exists a, rhi rec [q] true cand (c0, ts) = (Val (Some (inl a)), (c0, ts)) /\ serves_owner u (inl a) zroot q.
  Proof.
    intros Hin Hc. unfold ns_hostnames_of in Hc. apply in_flat_map in Hc as (x & Hx & Hc).
    apply Hin in Hx as (r & Hr & _ & Hm & ->). apply rtype_matches_ns in Hm. cbn [rr_type rr_data] in Hc.
    rewrite Hm, N.eqb_refl in Hc. destruct (rr_data r) as [|h| | | | | |] eqn:Hd; try (destruct Hc; fail). destruct Hc as [->|[]].
    destruct (Hroot_addr r cand Hr Hm Hd) as (Hwf & g & Hg & Hgl & Hgt).
    assert (Hm0 : hint_match hints cand RT_A
                    {| rr_name := cand; rr_type := rr_type g; rr_class := RC_IN; rr_ttl := rr_ttl g; rr_data := rr_data g |}).
    { exists g. split; [exact Hg|]. split; [exact Hgl|]. split; [rewrite Hgt; reflexivity|reflexivity]. }
    destruct (rhi_hint cache cache_get zs hints Hz Hh rec [q] cand (c0, ts) _ eq_refl
                (q_not_dup cand RT_A _ (or_introl Hm0)) Hwf Hm0) as (r' & a & Hr' & _ & Ht' & Hd' & E).
    exists a. split; [exact E|]. exact (Hroot_srv r' a Hr' Ht' Hd').
  Qed.

  (* ---- the root zone owns the name: one exchange ---- *)
  Theorem depth0 f ts :
    owns_plainly u zroot q ->
    Forall (fun r => rr_is_unknown r = false) (zone_data zroot) ->
    rr_type (uz_soa zroot) = RT_SOA -> rr_name (uz_soa zroot) = uz_apex zroot ->
    ts_elapsed ts <= BUDGET_MS ->
    exists a c' ts',
      rrn (S (S f)) [] q (c0, ts)
      = (Val (ROk (NonAuthoritative (aa_rrs (auth_answer u q)) (aa_soa (auth_answer u q)))), (c', ts'))
      /\ serves_owner u (inl a) zroot q /\ one_udp (inl a, port) q ts ts'.
  Proof.
    intros Hown Hknown Hsoat Hsoan Hbud.
    destruct (start (S f) ts) as (rrs & Hne & Hin & ->).
    pose proof (hint_ns_hosts hints Hh rrs Hne (fun x Hx => proj1 (Hin x) Hx)) as Hhosts.
    assert (Hs : sort_names (ns_hostnames_of rrs) <> []).
    { intro E. pose proof (Hsort (ns_hostnames_of rrs)) as P. rewrite E in P. apply Permutation_nil in P. exact (Hhosts P). }
    destruct (pop_last_some _ Hs) as (cand & rest & Ep & Hc).
    apply (Permutation_in _ (Hsort _)) in Hc.
    rewrite cloop_S.
    destruct (root_candidate (rrn f) rrs cand ts Hin Hc) as (a & Eh & Hsrv).
    destruct (last_hop_log cache cache_get cache_insert_all sort_names zs o OnlyV4 port u zroot q
                (rrn f) (cloop f [q] q []) [q] 1 (sort_names (ns_hostnames_of rrs)) [] true (c0, ts) cand rest (inl a) (c0, ts)
                Hdel Hown Hsrv Hq_cname Hq_any Hknown Hsoat Hsoan) as (c' & ts' & E & Hlog); try assumption.
    { rewrite Hroot_apex. cbn. lia. }
    exists a, c', ts'. split; [exact E|]. split; [exact Hsrv|exact Hlog].
  Qed.

  (* ---- a zone delegated from the root owns the name: a referral, then the answer ---- *)
  Variable zc : uzone.

  (* the address records of the referral for the host [h] *)
  Lemma referral_addr_in names g h :
    In g (uz_glue zroot ++ uz_rrs zroot) -> rr_name g = h -> rr_type g = RT_A -> In h names ->
    (exists r, In r (uz_cuts zroot) /\ rr_name r = uz_apex zc /\ is_ns_rr r = Some h) ->
    In g (filter (ns_glue_filter (uz_apex zc) names true false) (sr_authority (referral zroot (uz_apex zc)))
          ++ filter (ns_glue_filter (uz_apex zc) names false true) (sr_additional (referral zroot (uz_apex zc)))).
  Proof.
    intros Hg Hn Ht Hnames (r & Hr & Hrc & Hrh). apply in_or_app. right. apply filter_In. split.
    - unfold referral. cbn [sr_additional]. apply filter_In. split; [exact Hg|].
      unfold is_addr_rr. rewrite Ht. cbn [orb andb]. change (RT_A =? RT_A) with true. cbn [orb andb].
      apply existsb_exists. exists h. split; [|apply dname_eqb_eq; exact Hn].
      apply in_flat_map. exists r. split.
      + apply filter_In. split; [exact Hr|apply dname_eqb_eq; exact Hrc].
      + change (ns_target r) with (is_ns_rr r). rewrite Hrh. left. reflexivity.
    - unfold ns_glue_filter. unfold is_ns_rr. rewrite Ht. change (RT_A =? RT_NS) with false. cbv iota.
      change (RT_A =? RT_A) with true. cbn [orb andb]. rewrite Hn. apply set_mem_in. exact Hnames.
  Qed.

  Lemma referral_addr_from names x :
    In x (filter (ns_glue_filter (uz_apex zc) names true false) (sr_authority (referral zroot (uz_apex zc)))
          ++ filter (ns_glue_filter (uz_apex zc) names false true) (sr_additional (referral zroot (uz_apex zc)))) ->
    rr_type x = RT_A -> In x (uz_glue zroot ++ uz_rrs zroot).
  Proof.
    intros Hin Ht. apply in_app_or in Hin as [Hin|Hin]; apply filter_In in Hin as [Hin Hf].
    - apply ns_glue_filter_true in Hf. destruct Hf as [(h & [Hnst _] & _)|(_ & Hfalse & _)]; [|discriminate].
      rewrite Hnst in Ht. discriminate.
    - unfold referral in Hin. cbn [sr_additional] in Hin. apply filter_In in Hin. exact (proj1 Hin).
  Qed.

  Theorem depth1 f ts :
    cut_owner zroot (q_name q) = Some (uz_apex zc) ->
    Forall (fun r => exists h, is_ns_rr r = Some h) (uz_cuts zroot) ->
    1 < llen (labels (uz_apex zc)) ->
    (forall r, In r (uz_glue zroot ++ uz_rrs zroot) -> rr_name r <> q_name q) ->
    (forall h, (exists r, In r (uz_cuts zroot) /\ rr_name r = uz_apex zc /\ is_ns_rr r = Some h) ->
       wf_name h /\
       (exists g, In g (uz_glue zroot ++ uz_rrs zroot) /\ rr_name g = h /\ rr_type g = RT_A /\ 0 < rr_ttl g) /\
       (forall g, In g (uz_glue zroot ++ uz_rrs zroot) -> rr_name g = h -> rr_type g = RT_A ->
          exists a, rr_data g = RD_A a /\ serves_owner u (inl a) zc q) /\
       (forall g a, In g hints -> labels (rr_name g) = labels h -> rr_type g = RT_A -> rr_data g = RD_A a ->
          serves_owner u (inl a) zc q)) ->
    owns_plainly u zc q ->
    Forall (fun r => rr_is_unknown r = false) (zone_data zc) ->
    rr_type (uz_soa zc) = RT_SOA -> rr_name (uz_soa zc) = uz_apex zc ->
    ts_elapsed ts <= BUDGET_MS ->
    exists a0 a1 c' ts1 ts',
      rrn (S (S (S f))) [] q (c0, ts)
      = (Val (ROk (NonAuthoritative (aa_rrs (auth_answer u q)) (aa_soa (auth_answer u q)))), (c', ts'))
      /\ serves_owner u (inl a0) zroot q /\ serves_owner u (inl a1) zc q
      /\ one_udp (inl a0, port) q ts ts1 /\ one_udp (inl a1, port) q ts1 ts'.
  Proof.
    intros Hcut Hnsty Hdeep Hnoglue Hglue Hown Hknown Hsoat Hsoan Hbud.
    set (c := uz_apex zc) in *.
    destruct (start (S (S f)) ts) as (rrs & Hne & Hin & ->).
    pose proof (hint_ns_hosts hints Hh rrs Hne (fun x Hx => proj1 (Hin x) Hx)) as Hhosts.
    assert (Hs : sort_names (ns_hostnames_of rrs) <> []).
    { intro E. pose proof (Hsort (ns_hostnames_of rrs)) as P. rewrite E in P. apply Permutation_nil in P. exact (Hhosts P). }
    destruct (pop_last_some _ Hs) as (cand & rest & Ep & Hc).
    apply (Permutation_in _ (Hsort _)) in Hc.
    rewrite cloop_S.
    destruct (root_candidate (rrn (S f)) rrs cand ts Hin Hc) as (a0 & Eh & Hsrv).
    (* first hop: the referral *)
    destruct (referral_hop_log cache cache_get cache_insert_all sort_names zs o OnlyV4 port u (inl a0) zroot c q
                (rrn (S f)) (cloop (S f) [q] q []) [q] 1 (sort_names (ns_hostnames_of rrs)) [] true (c0, ts) cand rest (c0, ts)
                Hdel Hsrv Hcut Hnsty Hdeep Hnoglue Ep Eh Hbud) as (names & ts1 & E1 & Hnames & Hbud1 & Hlog1).
    cbn [fst snd] in E1, Hlog1. rewrite E1. clear E1.
    set (ins := filter (ns_glue_filter c names true false) (sr_authority (referral zroot c))
                ++ filter (ns_glue_filter c names false true) (sr_additional (referral zroot c))) in *.
    (* the hosts of the delegation *)
    destruct (cut_owner_spec _ _ _ Hcut) as (_ & r0 & Hr0 & Hr0c).
    assert (Hnn : sort_names names <> []).
    { intro E. pose proof (Hsort names) as P. rewrite E in P. apply Permutation_nil in P.
      rewrite Forall_forall in Hnsty. destruct (Hnsty r0 Hr0) as [h0 Hh0].
      assert (Hx : In h0 names) by (apply Hnames; exists r0; auto). rewrite P in Hx. destruct Hx. }
    destruct (pop_last_some _ Hnn) as (cand1 & rest1 & Ep1 & Hc1).
    apply (Permutation_in _ (Hsort _)) in Hc1.
    pose proof (proj1 (Hnames cand1) Hc1) as Hcut1.
    destruct (Hglue cand1 Hcut1) as (Hwf1 & (g & Hg & Hgn & Hgt & Hgttl) & Hgl3 & Hgl4).
    rewrite cloop_S.
    (* the address of the candidate: from the hints or from the cached glue *)
    assert (Hdup1 : is_duplicate_question [q] (mkq cand1 RT_A RC_IN) = false).
    { apply (q_not_dup cand1 RT_A g). right. intro E. apply (Hnoglue g Hg). congruence. }
    assert (Haddr : exists a1, rhi (rrn f) [q] true cand1 (cache_insert_all c0 ins, ts1)
                               = (Val (Some (inl a1)), (cache_insert_all c0 ins, ts1)) /\ serves_owner u (inl a1) zc q).
    { destruct (hint_match_dec zs hints cand1 RT_A Hz Hwf1 ltac:(discriminate)) as [[x0 Hx0]|Hno].
      - destruct (rhi_hint cache cache_get zs hints Hz Hh (rrn f) [q] cand1 (cache_insert_all c0 ins, ts1) x0 eq_refl Hdup1 Hwf1 Hx0)
          as (r' & a & Hr' & Hl' & Ht' & Hd' & E).
        exists a. split; [exact E|]. exact (Hgl4 r' a Hr' Hl' Ht' Hd').
      - assert (Hgin : In g ins) by (apply (referral_addr_in names g cand1); assumption).
        assert (Hcne : cache_get (cache_insert_all c0 ins) cand1 RT_A <> []).
        { rewrite <- Hgn. apply K_complete; assumption. }
        assert (Hfrom : forall x, In x (cache_get (cache_insert_all c0 ins) cand1 RT_A) ->
                  rr_name x = cand1 /\ rr_type x = RT_A /\ rr_class x = RC_IN /\
                  exists a, rr_data x = RD_A a /\ serves_owner u (inl a) zc q).
        { intros x Hx. apply K_sound in Hx as (H1 & H2 & H3 & r & Hr & Hrn & Hrt & Hrd).
          repeat (split; [assumption|]).
          pose proof (referral_addr_from names r Hr Hrt) as Hrg.
          destruct (Hgl3 r Hrg Hrn Hrt) as (a & Ha & Hsv). exists a. split; [congruence|exact Hsv]. }
        assert (Hall : Forall (addr_rr cand1) (cache_get (cache_insert_all c0 ins) cand1 RT_A)).
        { apply Forall_forall. intros x Hx. destruct (Hfrom x Hx) as (H1 & H2 & H3 & a & Ha & _). unfold addr_rr. eauto. }
        destruct (rhi_cached cache cache_get zs hints Hz (rrn f) [q] cand1 (cache_insert_all c0 ins, ts1) eq_refl Hdup1 Hwf1 Hno Hcne Hall)
          as (x & a & Hx & Hd & E).
        exists a. split; [exact E|]. destruct (Hfrom x Hx) as (_ & _ & _ & a' & Ha' & Hsv). congruence. }
    destruct Haddr as (a1 & Eh1 & Hsrv1).
    (* second hop: the answer *)
    destruct (last_hop_log cache cache_get cache_insert_all sort_names zs o OnlyV4 port u zc q
                (rrn f) (cloop f [q] q []) [q] (llen (labels c)) (sort_names names) [] true (cache_insert_all c0 ins, ts1)
                cand1 rest1 (inl a1) (cache_insert_all c0 ins, ts1)
                Hdel Hown Hsrv1 Hq_cname Hq_any Hknown Hsoat Hsoan) as (c' & ts' & E & Hlog); try assumption.
    { subst c. lia. }
    exists a0, a1, c', ts1, ts'. split; [exact E|]. repeat (split; [assumption|]). exact Hlog.
  Qed.
End Depth1.

(* ====================================================================== *)
(* 7. the statement for SimpleCache, the universe oracle and the built hints *)
(* ====================================================================== *)

Lemma insert_sorted_perm x : forall l, Permutation (insert_sorted x l) (x :: l).
Proof.
  induction l as [|y t IH]; cbn [insert_sorted]; [apply Permutation_refl|].
  destruct (dname_leb x y); [apply Permutation_refl|].
  eapply perm_trans; [apply perm_skip, IH|apply perm_swap].
Qed.

(* the order of hook H5 is a permutation *)
Lemma sort_names_ord_perm l : Permutation (sort_names_ord l) l.
Proof.
  unfold sort_names_ord. induction l as [|x t IH]; cbn [fold_right]; [apply perm_nil|].
  eapply perm_trans; [apply insert_sorted_perm|apply perm_skip, IH].
Qed.

(* ---- the hypotheses, named ---- *)

(* the root hints: NS records of the root and A records; at least one NS record; every nameserver
   they name has an A record among them; at each of those addresses a server listens whose closest
   zone for the question name is the root zone [zroot]; and the hints themselves hold no record that
   answers the question (the resolver would return it, non-authoritatively, without asking anybody) *)
Definition hints_for (u : universe) (zroot : uzone) (hints : list rr) (q : question) : Prop :=
  Forall hint_ok hints
  /\ (exists r, In r hints /\ rr_type r = RT_NS)
  /\ (forall r h, In r hints -> rr_type r = RT_NS -> rr_data r = RD_Name h ->
        wf_name h /\ exists g, In g hints /\ labels (rr_name g) = labels h /\ rr_type g = RT_A)
  /\ (forall g a, In g hints -> rr_type g = RT_A -> rr_data g = RD_A a -> serves_owner u (inl a) zroot q)
  /\ (forall r, In r hints -> labels (rr_name r) = labels (q_name q) -> rtype_matches (rr_type r) (q_type q) = false).

(* the question: well formed, neither for CNAME nor for ANY; its request fits a datagram and the
   replies of the universe's servers to it are well-formed messages of at most 512 octets *)
Definition plain_question (u : universe) (q : question) : Prop :=
  wf_question q /\ q_type q <> RT_CNAME /\ q_type q <> QT_Wildcard
  /\ (forall req, encode (make_request q false) = Ok req -> llen req <= 512)
  /\ serve_fits u q.

(* the zone [z] of the universe owns the question name -- longest apex, no delegation point on the
   way -- and holds no alias for it; its records are of known types and its SOA is an SOA at its apex *)
Definition answering_zone (u : universe) (z : uzone) (q : question) : Prop :=
  owns_plainly u z q
  /\ Forall (fun r => rr_is_unknown r = false) (zone_data z)
  /\ rr_type (uz_soa z) = RT_SOA /\ rr_name (uz_soa z) = uz_apex z.

(* [zc] is delegated from the root zone on the way to the question name, glue-complete for v4:
   the root zone's delegation point on the way to the name is the apex of [zc]; the cut records are
   NS records; the question name owns nothing in the root zone's glue or data (else: the glue
   shortcut, finding F11); every nameserver of the delegation has a well-formed name and an A record
   with a positive TTL in the root zone's glue or data; at every address of such a record, and at
   every address the hints hold for such a host, a server listens whose closest zone for the
   question name is [zc] *)
Definition delegated_from_root (u : universe) (zroot zc : uzone) (hints : list rr) (q : question) : Prop :=
  cut_owner zroot (q_name q) = Some (uz_apex zc)
  /\ Forall (fun r => exists h, is_ns_rr r = Some h) (uz_cuts zroot)
  /\ 1 < llen (labels (uz_apex zc))
  /\ (forall r, In r (uz_glue zroot ++ uz_rrs zroot) -> rr_name r <> q_name q)
  /\ (forall h, (exists r, In r (uz_cuts zroot) /\ rr_name r = uz_apex zc /\ is_ns_rr r = Some h) ->
        wf_name h /\
        (exists g, In g (uz_glue zroot ++ uz_rrs zroot) /\ rr_name g = h /\ rr_type g = RT_A /\ 0 < rr_ttl g) /\
        (forall g, In g (uz_glue zroot ++ uz_rrs zroot) -> rr_name g = h -> rr_type g = RT_A ->
           exists a, rr_data g = RD_A a /\ serves_owner u (inl a) zc q) /\
        (forall g a, In g hints -> labels (rr_name g) = labels h -> rr_type g = RT_A -> rr_data g = RD_A a ->
           serves_owner u (inl a) zc q)).

(* one logged exchange: a UDP query about [q] to port [port] of [a] *)
Definition query_to (port : N) (q : question) (a : N) (e : exchange) : Prop :=
  x_kind e = KUdp /\ x_addr e = (inl a, port) /\ x_question e = q /\ x_rd e = false.

Section Final.
  Variable sort_names : list dname -> list dname.
  Hypothesis Hsort : forall l, Permutation (sort_names l) l.
  Variable port : N.
  Variable u : universe.
  Variable zroot : uzone.
  Variable hints : list rr.
  Variable hz : zone.
  Variable q : question.
  Hypothesis Hroot_apex : uz_apex zroot = root_domain.
  Hypothesis Hbuilt : zone_build root_domain None (hint_ops hints) = Ok hz.
  Hypothesis Hhints : hints_for u zroot hints q.
  Hypothesis Hq : plain_question u q.

  Notation run fuel :=
    (resolve scache sc_get sc_insert_all sort_names (ModeRecursive OnlyV4) port (zones_insert [] hz)
             (universe_oracle u []) fuel q (sc_empty, tstate_init)).

  Lemma hints_no_match : forall x, ~ hint_match hints (q_name q) (q_type q) x.
  Proof.
    destruct Hhints as (_ & _ & _ & _ & Hno). intros x (r & Hr & Hl & Hm & _). rewrite (Hno r Hr Hl) in Hm. discriminate.
  Qed.

  Lemma hints_root_ns : exists x, hint_match hints root_domain RT_NS x.
  Proof.
    destruct Hhints as (Hok & (r & Hr & Ht) & _). rewrite Forall_forall in Hok.
    destruct (Hok r Hr) as [_ [(_ & Hl & _)|(Ht' & _)]]; [|rewrite Ht in Ht'; discriminate].
    eexists. exists r. split; [exact Hr|]. split; [exact Hl|]. split; [rewrite Ht; reflexivity|reflexivity].
  Qed.

  (* the root zone owns the name: the authoritative answer after one exchange with a root server *)
  Theorem depth0_correct fuel :
    answering_zone u zroot q -> (3 <= fuel)%nat ->
    exists c' ts' a e,
      run fuel = (Ok (NonAuthoritative (aa_rrs (auth_answer u q)) (aa_soa (auth_answer u q))), (c', ts'))
      /\ ts_log ts' = [e] /\ query_to port q a e /\ serves_owner u (inl a) zroot q.
  Proof.
    intros (Hown & Hknown & Hsoat & Hsoan) Hfuel.
    destruct Hhints as (Hok & _ & Haddr & Hsrv & _). destruct Hq as (Hwf & Hq1 & Hq2 & Hreq & Hfits).
    destruct fuel as [|[|f]]; try lia.
    destruct (depth0 scache sc_get sc_insert_all sc_empty sc_empty_get sort_names Hsort (zones_insert [] hz) hints
                (hints_zones_built hints hz Hok Hbuilt) Hok (universe_oracle u []) port u zroot q
                (universe_oracle_delivers_log u port q Hwf Hreq Hfits) (proj1 Hwf) Hq1 Hq2 hints_no_match hints_root_ns
                Haddr Hsrv Hroot_apex f tstate_init Hown Hknown Hsoat Hsoan) as (a & c' & ts' & E & Hs & (e & Hlog & Hk & Ha & Hqe & Hrd)).
    { cbn. lia. }
    exists c', ts', a, e. split; [|split; [|split; [|exact Hs]]].
    - unfold resolve, resolve_recursive. rewrite E. reflexivity.
    - unfold ts_log. rewrite Hlog. reflexivity.
    - unfold query_to. auto.
  Qed.

  (* a zone delegated from the root owns the name: the authoritative answer after two exchanges,
     the first with a root server (the referral), the second with a server of that zone *)
  Theorem depth1_correct zc fuel :
    answering_zone u zc q -> delegated_from_root u zroot zc hints q -> (3 <= fuel)%nat ->
    exists c' ts' a0 a1 e1 e2,
      run fuel = (Ok (NonAuthoritative (aa_rrs (auth_answer u q)) (aa_soa (auth_answer u q))), (c', ts'))
      /\ ts_log ts' = [e1; e2] /\ query_to port q a0 e1 /\ query_to port q a1 e2
      /\ serves_owner u (inl a0) zroot q /\ serves_owner u (inl a1) zc q.
  Proof.
    intros (Hown & Hknown & Hsoat & Hsoan) (Hcut & Hnsty & Hdeep & Hnoglue & Hglue) Hfuel.
    destruct Hhints as (Hok & _ & Haddr & Hsrv & _). destruct Hq as (Hwf & Hq1 & Hq2 & Hreq & Hfits).
    destruct fuel as [|[|[|f]]]; try lia.
    destruct (depth1 scache sc_get sc_insert_all sc_empty sc_empty_get sc_get_a_sound sc_get_a_complete sort_names Hsort
                (zones_insert [] hz) hints (hints_zones_built hints hz Hok Hbuilt) Hok (universe_oracle u []) port u zroot q
                (universe_oracle_delivers_log u port q Hwf Hreq Hfits) (proj1 Hwf) Hq1 Hq2 hints_no_match hints_root_ns
                Haddr Hsrv zc f tstate_init Hcut Hnsty Hdeep Hnoglue Hglue Hown Hknown Hsoat Hsoan)
      as (a0 & a1 & c' & ts1 & ts' & E & Hs0 & Hs1 & (e1 & Hlog1 & Hk1 & Ha1 & Hqe1 & Hrd1) & (e2 & Hlog2 & Hk2 & Ha2 & Hqe2 & Hrd2)).
    { cbn. lia. }
    exists c', ts', a0, a1, e1, e2. split; [|split; [|split; [|split; [|split; assumption]]]].
    - unfold resolve, resolve_recursive. rewrite E. reflexivity.
    - unfold ts_log. rewrite Hlog2, Hlog1. reflexivity.
    - unfold query_to. auto.
    - unfold query_to. auto.
  Qed.
End Final.
