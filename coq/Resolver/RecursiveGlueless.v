(* Resolver/RecursiveGlueless.v -- C07 with GLUELESS nameservers: delegations whose nameserver
   hosts have no usable glue in the parent ("out-of-bailiwick nameserver names").

   At such a cut the fast pass of the candidate loop finds no address for any candidate (unless the
   cache happens to hold one): every candidate is moved to next_candidate_hostnames; then the slow pass
   pops the first of them, [h], and resolve_hostname_to_ip calls resolve_recursive_notimeout on
   (h, A) (or AAAA, by the mode) with the question under way on the stack.  That nested resolution
   is itself a walk down the delegation chain of [h] from the root hints or the warm cache -- the
   theorem of RecursiveModes.v with a non-empty stack -- whose chain may again have glueless cuts.
   It yields the address records of [h] (from its owning zone, or from the cache), the first of which
   is the address of a server of the child zone; the query proceeds there.  The nested resolutions
   warm the cache; it stays consistent.

   Well-foundedness.  The nested resolution of [h] must not need [h] again, nor any name whose
   resolution is under way (the resolver would answer DuplicateQuestion, find no address and end
   with DeadEnd).  This is asked as a RANK function on nameserver host names: every nameserver host
   (with glue or without) of every zone on the delegation chain of a glueless host [h] has a rank
   below that of [h] ([plan_ok]).  Ranks are below 30: the stack of questions under way is limited to
   32 (RECURSION_LIMIT).

   Contents: 1. fuel monotonicity of the model (more fuel never changes a finished computation);
   2. the plan of the glueless hosts; 3. the candidate loop at one zone: the fast pass skipping, the
   slow pass with the nested resolution; 4. the induction down the chain, given the nested
   resolutions; 5. the induction on the rank; 6. the statement for [resolve]; 7. a worked universe. *)
From Coq Require Import Permutation.
From RV Require Import Base.Prelude Name.NameModel Name.NameSpec Name.NameProofs
     Wire.WireTypes Wire.WireModel Wire.WireGrammar Wire.WireEncodeProofs Wire.WireDecodeProofs
     Zone.ZoneModel Zone.ZoneFlat Zone.ZoneProofs
     Resolver.LocalModel Resolver.LocalSpec Resolver.LocalProofs
     Resolver.ValidateModel Resolver.ValidateSpec Resolver.ValidateProofs
     Resolver.TransportModel Resolver.RecursiveModel Resolver.ForwardingModel
     Resolver.RecursiveProofs Resolver.ForwardingProofs
     Resolver.Universe Resolver.ResolverFacts Resolver.RecursiveCorrect Resolver.RecursiveDepth1
     Resolver.RecursiveChain Resolver.RecursiveWarm Resolver.RecursiveModes.
Set Default Timeout 120.

(* ====================================================================== *)
(* 1. fuel monotonicity                                                     *)
(* ====================================================================== *)

Section FuelMono.
  Variable cache : Type.
  Variable cache_get : cache -> dname -> N -> list rr.
  Variable cache_insert_all : cache -> list rr -> cache.
  Variable sort_names : list dname -> list dname.
  Variable zs : zones.
  Variable o : oracle.
  Variable pmode : protocol_mode.
  Variable port : N.

  (* [m'] finishes wherever [m] does, with the same value and state *)
  Definition le_rm {A} (m m' : RM cache A) : Prop := forall st v st', m st = (Val v, st') -> m' st = (Val v, st').

  Lemma le_rm_refl {A} (m : RM cache A) : le_rm m m.
  Proof. intros st v st' H. exact H. Qed.

  Lemma rbind_mono {A B} (m m' : RM cache A) (f f' : A -> RM cache B) :
    le_rm m m' -> (forall a, le_rm (f a) (f' a)) -> le_rm (rbind cache m f) (rbind cache m' f').
  Proof.
    intros Hm Hf st v st' H. unfold rbind in *. destruct (m st) as [[a|w] st1] eqn:E.
    - rewrite (Hm st a st1 E). exact (Hf a st1 v st' H).
    - discriminate H.
  Qed.

  Section Knot.
    Variables rec rec' : list question -> question -> RM cache rres.
    Hypothesis Hrec : forall stack q, le_rm (rec stack q) (rec' stack q).

    Lemma rcr_mono stack rrs q :
      le_rm (resolve_combined_recursive cache rec stack rrs q) (resolve_combined_recursive cache rec' stack rrs q).
    Proof. unfold resolve_combined_recursive. apply rbind_mono; [apply Hrec|intro a; apply le_rm_refl]. Qed.

    Lemma rwnr_mono stack combined nr q :
      le_rm (resolve_with_nameserver_response cache cache_insert_all zs rec stack combined nr q)
            (resolve_with_nameserver_response cache cache_insert_all zs rec' stack combined nr q).
    Proof.
      unfold resolve_with_nameserver_response. apply rbind_mono; [apply le_rm_refl|]. clear nr. intro nr.
      unfold resolve_with_response_match. destruct nr; try apply le_rm_refl.
      apply rbind_mono; [apply le_rm_refl|]. intros _. apply rbind_mono; [apply rcr_mono|intro; apply le_rm_refl].
    Qed.

    Lemma htry_mono stack locally h t :
      le_rm (hostname_try cache cache_get zs rec stack locally h t) (hostname_try cache cache_get zs rec' stack locally h t).
    Proof.
      unfold hostname_try. destruct locally; [apply le_rm_refl|].
      apply rbind_mono; [apply Hrec|intro; apply le_rm_refl].
    Qed.

    Lemma hloop_mono stack locally h : forall types,
      le_rm (hostname_loop cache cache_get zs rec stack locally h types) (hostname_loop cache cache_get zs rec' stack locally h types).
    Proof.
      induction types as [|t types IH]; cbn [hostname_loop]; [apply le_rm_refl|].
      apply rbind_mono; [apply htry_mono|]. intros [a|]; [apply le_rm_refl|exact IH].
    Qed.

    Lemma rhi_mono stack locally h :
      le_rm (resolve_hostname_to_ip cache cache_get zs pmode rec stack locally h)
            (resolve_hostname_to_ip cache cache_get zs pmode rec' stack locally h).
    Proof. unfold resolve_hostname_to_ip. apply hloop_mono. Qed.

    Lemma cstep_mono (loop loop' : N -> list dname -> list dname -> bool -> RM cache rres) stack q combined mc cands next locally :
      (forall mc cands next locally, le_rm (loop mc cands next locally) (loop' mc cands next locally)) ->
      le_rm (candidate_step cache cache_get cache_insert_all sort_names zs o pmode port rec loop stack q combined mc cands next locally)
            (candidate_step cache cache_get cache_insert_all sort_names zs o pmode port rec' loop' stack q combined mc cands next locally).
    Proof.
      intro Hloop. unfold candidate_step. destruct (pop_last cands) as [[cand rest]|]; [|apply le_rm_refl].
      apply rbind_mono; [apply rhi_mono|]. intros [a|].
      - apply rbind_mono; [apply le_rm_refl|]. intros [nr|]; [|apply le_rm_refl].
        apply rbind_mono; [apply rwnr_mono|]. intros [r|d]; [apply le_rm_refl|apply Hloop].
      - destruct locally; [destruct (is_nil rest); apply Hloop|apply Hloop].
    Qed.

    Lemma body_mono (loop loop' : list question -> question -> list rr -> N -> list dname -> list dname -> bool -> RM cache rres) stack q :
      (forall stack q combined mc cands next locally,
         le_rm (loop stack q combined mc cands next locally) (loop' stack q combined mc cands next locally)) ->
      le_rm (recursive_body cache cache_get sort_names zs rec loop stack q)
            (recursive_body cache cache_get sort_names zs rec' loop' stack q).
    Proof.
      intro Hloop. unfold recursive_body.
      destruct (at_recursion_limit stack); [apply le_rm_refl|].
      destruct (is_duplicate_question stack q); [apply le_rm_refl|].
      apply rbind_mono; [apply le_rm_refl|]. intros [[r|rrs|rrs soa d|rrs cq]|].
      - apply le_rm_refl.
      - apply rbind_mono; [apply le_rm_refl|]. intros [d|]; [apply Hloop|apply le_rm_refl].
      - apply rbind_mono; [apply le_rm_refl|]. intros [d'|]; [apply Hloop|apply le_rm_refl].
      - apply rcr_mono.
      - apply rbind_mono; [apply le_rm_refl|]. intros [d|]; [apply Hloop|apply le_rm_refl].
    Qed.
  End Knot.

  Notation rrn := (resolve_recursive_notimeout cache cache_get cache_insert_all sort_names zs o pmode port).
  Notation cloop := (candidate_loop cache cache_get cache_insert_all sort_names zs o pmode port).

  Lemma fuel_mono_S : forall f,
    (forall stack q, le_rm (rrn f stack q) (rrn (S f) stack q))
    /\ (forall stack q combined mc cands next locally,
          le_rm (cloop f stack q combined mc cands next locally) (cloop (S f) stack q combined mc cands next locally)).
  Proof.
    induction f as [|f [IH1 IH2]].
    - split; intros; intros st v st' H; discriminate H.
    - split.
      + intros stack q.
        change (le_rm (recursive_body cache cache_get sort_names zs (rrn f) (cloop f) stack q)
                      (recursive_body cache cache_get sort_names zs (rrn (S f)) (cloop (S f)) stack q)).
        apply body_mono; assumption.
      + intros stack q combined mc cands next locally.
        change (le_rm (candidate_step cache cache_get cache_insert_all sort_names zs o pmode port (rrn f) (cloop f stack q combined)
                                      stack q combined mc cands next locally)
                      (candidate_step cache cache_get cache_insert_all sort_names zs o pmode port (rrn (S f)) (cloop (S f) stack q combined)
                                      stack q combined mc cands next locally)).
        apply cstep_mono; [exact IH1|]. intros. apply IH2.
  Qed.

  (* more fuel never changes a computation that finished *)
  Theorem rrn_fuel_mono f f' stack q st v st' : (f <= f')%nat ->
    rrn f stack q st = (Val v, st') -> rrn f' stack q st = (Val v, st').
  Proof.
    intro Hle. induction Hle as [|f' _ IH]; intro H; [exact H|]. exact (proj1 (fuel_mono_S f') stack q st v st' (IH H)).
  Qed.

  Theorem cloop_fuel_mono f f' stack q combined mc cands next locally st v st' : (f <= f')%nat ->
    cloop f stack q combined mc cands next locally st = (Val v, st') ->
    cloop f' stack q combined mc cands next locally st = (Val v, st').
  Proof.
    intro Hle. induction Hle as [|f' _ IH]; intro H; [exact H|].
    exact (proj2 (fuel_mono_S f') stack q combined mc cands next locally st v st' (IH H)).
  Qed.
End FuelMono.

(* ====================================================================== *)
(* 2. the log with nested resolutions; the plan of the glueless hosts       *)
(* ====================================================================== *)

(* the exchanges about [q], in order one per zone of [used], each with a server whose closest zone
   for the question name is that zone -- interleaved with the exchanges of the nested resolutions,
   which are about nameserver host names *)
Inductive glog (u : universe) (port : N) (q : question) : list uzone -> list exchange -> Prop :=
| gl_nil : glog u port q [] []
| gl_host e es used : ns_host_name u (q_name (x_question e)) -> glog u port q used es -> glog u port q used (e :: es)
| gl_own z e es used : (exists a, query_toi port q a e /\ serves_owner u a z q) -> glog u port q used es ->
    glog u port q (z :: used) (e :: es).

Definition host_exchange (u : universe) (e : exchange) : Prop := ns_host_name u (q_name (x_question e)).

Lemma glog_app_host u port q used es1 es2 : Forall (host_exchange u) es1 -> glog u port q used es2 -> glog u port q used (es1 ++ es2).
Proof. intros H1 H2. induction H1 as [|e es1 He _ IH]; cbn [app]; [exact H2|]. apply gl_host; assumption. Qed.

Lemma glog_all_host u port q used es : ns_host_name u (q_name q) -> glog u port q used es -> Forall (host_exchange u) es.
Proof.
  intros Hq H. induction H as [|e es used He _ IH|z e es used (a & (_ & _ & Hqe & _) & _) _ IH]; constructor; try assumption.
  unfold host_exchange. rewrite Hqe. exact Hq.
Qed.

(* without nested resolutions it is chain_logm *)
Lemma chain_logm_glog u port q used es : chain_logm u port q used es -> glog u port q used es.
Proof. intro H. induction H as [|z e l l' Hze _ IH]; [constructor|]. apply gl_own; assumption. Qed.

Section PlanDefs.
  Variable u : universe.
  Variable hints : list rr.
  Variable mode : protocol_mode.
  Variable multi : bool.
  Variable zroot : uzone.
  (* the glueless hosts; for each the zones of its delegation chain below the root and the zone that
     owns it; a rank *)
  Variable planned : dname -> Prop.
  Variable plan : dname -> list uzone * uzone.
  Variable hrank : dname -> nat.

  (* the zone owning [h] holds a record of type [t] for it *)
  Definition has_addr (h : dname) (t : N) : Prop :=
    exists r, In r (zone_data (snd (plan h))) /\ rr_name r = h /\ rr_type r = t.

  (* what is asked of a glueless host [h]:
     - for every record type [t] of the mode, the question (h, t) walks down the chain [plan h] (the
       hypotheses of C07_correct_modes that concern the walk, glueless cuts allowed for planned
       hosts), the last zone of the chain owns [h] plainly, requests and replies fit 512 octets;
     - the owning zone holds an address record of [h] of SOME type of the mode; its records of [h]
       are of class IN; no record of the universe owned by [h] is a CNAME;
     - every nameserver host (with glue or not) of every zone of the chain has a rank below [h]'s;
     - the rank is below 30 *)
  Definition plan_ok (h : dname) : Prop :=
    (forall t, mode_usable mode t ->
       walkm u hints mode multi planned (mkq h t RC_IN) zroot (fst (plan h)) (snd (plan h))
       /\ answering_zone u (snd (plan h)) (mkq h t RC_IN)
       /\ plain_question u (mkq h t RC_IN))
    /\ (exists t, mode_usable mode t /\ has_addr h t)
    /\ (forall r, u_record u r -> rr_name r = h -> rr_type r <> RT_CNAME)
    /\ (forall r, In r (zone_data (snd (plan h))) -> rr_name r = h -> rr_class r = RC_IN)
    /\ (forall h', chain_host u zroot (fst (plan h)) h' -> (hrank h' < hrank h)%nat)
    /\ (hrank h < 30)%nat.
End PlanDefs.

(* referral_hop_log of RecursiveDepth1.v with the witnesses chosen before the state of the loop: the
   delegation followed, what is cached and the exchange logged depend only on the server asked, the
   question, the match count and the state in which the address was found *)
Section HopUniform.
  Variable cache : Type.
  Variable cache_get : cache -> dname -> N -> list rr.
  Variable cache_insert_all : cache -> list rr -> cache.
  Variable sort_names : list dname -> list dname.
  Variable zs : zones.
  Variable o : oracle.
  Variable pmode : protocol_mode.
  Variable port : N.

  Notation cstep := (candidate_step cache cache_get cache_insert_all sort_names zs o pmode port).
  Notation rhi := (resolve_hostname_to_ip cache cache_get zs pmode).

  Theorem referral_hop_u u a z0 c q mc (st1 : rstate cache) :
    delivers_log o u port q -> serves_owner u a z0 q ->
    cut_owner z0 (q_name q) = Some c ->
    Forall (fun r => exists h, is_ns_rr r = Some h) (uz_cuts z0) ->
    mc < llen (labels c) ->
    (forall r, In r (uz_glue z0 ++ uz_rrs z0) -> rr_name r <> q_name q) ->
    ts_elapsed (snd st1) <= BUDGET_MS ->
    let ns := sr_authority (referral z0 c) in
    let ad := sr_additional (referral z0 c) in
    exists names ts3,
      (forall h, In h names <-> exists r, In r (uz_cuts z0) /\ rr_name r = c /\ is_ns_rr r = Some h)
      /\ ts_elapsed ts3 <= BUDGET_MS
      /\ one_udp (a, port) q (snd st1) ts3
      /\ forall rec loop stack cands next locally st candidate rest,
           pop_last cands = Some (candidate, rest) ->
           rhi rec stack locally candidate st = (Val (Some a), st1) ->
           cstep rec loop stack q [] mc cands next locally st
           = loop (llen (labels c)) (sort_names names) [] true
                  (cache_insert_all (fst st1) (filter (ns_glue_filter c names true false) ns
                                               ++ filter (ns_glue_filter c names false true) ad), ts3).
  Proof.
    intros Hd (zs' & Hz & Hbz) Hcut Hnsty Hmc Hnoglue Hbud ns ad.
    assert (Hserve : serve u a q = Some (msg q false RCODE_NoError [] ns ad)).
    { unfold serve. rewrite Hz. change CHAIN_FUEL with (S 63). rewrite serve_name_S, Hbz, Hcut. reflexivity. }
    destruct (cut_owner_spec _ _ _ Hcut) as [Hsub [r0 [Hr0 Hr0c]]].
    assert (Hns_in : forall r, In r ns <-> In r (uz_cuts z0) /\ rr_name r = c).
    { intro r. unfold ns, referral. cbn [sr_authority]. rewrite filter_In. split.
      - intros [H1 H2]. apply dname_eqb_eq in H2. auto.
      - intros [H1 H2]. split; [exact H1|]. apply dname_eqb_eq. exact H2. }
    assert (Hne : ns <> []).
    { intro E. assert (In r0 ns) by (apply Hns_in; auto). rewrite E in H. destruct H. }
    assert (Hall : Forall (referral_ns q c) ns).
    { apply Forall_forall. intros r Hr. apply Hns_in in Hr. destruct Hr as [H1 H2]. split; [exact H2|].
      eapply Forall_forall in Hnsty; [exact Hnsty|exact H1]. }
    destruct (validate_referral q false RCODE_NoError c ns ad mc Hne Hall Hsub Hmc) as (rrs & names & Hv & Hnames).
    destruct (qav_delivered_log cache o port u a q _ mc st1 _ Hd Hbud Hserve (msg_matches _ _ _ _ _ _ (or_introl eq_refl)) Hv) as (ts' & Eq & Hbud' & Hlog).
    exists names, ts'.
    destruct (validate_delegation_inv _ _ _ _ _ Hv) as [_ Hrrs]. cbn [ns_name ns_hostnames] in Hrrs.
    unfold delegation_rrs, msg, reply_message in Hrrs. cbn [m_answers m_authority m_additional sr_answers sr_authority sr_additional filter app] in Hrrs.
    assert (Hglue : glue_answer [] rrs q = None).
    { assert (Hno : forall t, (t = RT_A \/ t = RT_AAAA) -> get_records rrs (q_name q) t = []).
      { intros t Ht. unfold get_records.
        destruct (filter (fun r => (rr_type r =? t) && dname_eqb (rr_name r) (q_name q)) rrs) as [|x l] eqn:Ef; [reflexivity|].
        exfalso. assert (Hx : In x (x :: l)) by (left; reflexivity). rewrite <- Ef in Hx. apply filter_In in Hx.
        destruct Hx as [Hin Hb]. apply andb_prop in Hb. destruct Hb as [Hty Hnm]. apply N.eqb_eq in Hty. apply dname_eqb_eq in Hnm.
        rewrite Hrrs in Hin. apply in_app_or in Hin. destruct Hin as [Hin|Hin]; apply filter_In in Hin; destruct Hin as [Hin Hf].
        - apply ns_glue_filter_true in Hf. destruct Hf as [(h & [Hnst _] & _)|(_ & Hfalse & _)]; [|discriminate].
          rewrite Hnst in Hty. destruct Ht as [-> | ->]; discriminate.
        - unfold ad, referral in Hin. cbn [sr_additional] in Hin. apply filter_In in Hin. destruct Hin as [Hin _].
          exact (Hnoglue x Hin Hnm). }
      unfold glue_answer. destruct (q_type q =? RT_A).
      - rewrite (Hno RT_A (or_introl eq_refl)). reflexivity.
      - destruct (q_type q =? RT_AAAA); [|reflexivity]. rewrite (Hno RT_AAAA (or_intror eq_refl)). reflexivity. }
    split; [|split; [exact Hbud'|split; [exact Hlog|]]].
    - intro h. rewrite Hnames. split.
      + intros [r [H1 H2]]. apply Hns_in in H1. exists r. tauto.
      + intros [r [H1 [H2 H3]]]. exists r. split; [apply Hns_in; auto|exact H3].
    - intros rec loop stack cands next locally st candidate rest Ep Eh.
      unfold candidate_step. rewrite Ep. unfold rbind at 1. rewrite Eh. unfold rbind at 1. rewrite Eq.
      unfold resolve_with_nameserver_response, resolve_with_response_match, cut_at_local_authority, lift_res, rbind, insert_all, ret.
      rewrite Hglue. cbn [fst snd ns_match_count ns_name ns_hostnames].
      rewrite Hrrs. reflexivity.
  Qed.
End HopUniform.

(* ====================================================================== *)
(* 3. the candidate loop at one zone, and the induction down the chain      *)
(* ====================================================================== *)

Lemma le_max_a a b : (a <= Nat.max a b)%nat. Proof. lia. Qed.
Lemma le_max_b a b : (b <= Nat.max a b)%nat. Proof. lia. Qed.

Lemma pop_last_snoc {A} (x : A) : forall l, pop_last (l ++ [x]) = Some (x, l).
Proof.
  induction l as [|y l IH]; cbn [app pop_last]; [reflexivity|]. rewrite IH. reflexivity.
Qed.

(* what the nested resolution of the host question (h, t), for every type of the mode, gives from
   any consistent cache: a result whose records are address records of [h] of that type with the data
   of records of the universe -- non-empty when the zone owning [h] has such a record ([haddr]) --, a
   consistent cache, a log of exchanges about nameserver host names *)
Definition nested_ok (cache : Type) (cache_get : cache -> dname -> N -> list rr) (cache_insert_all : cache -> list rr -> cache)
           (sort_names : list dname -> list dname) (zs : zones) (o : oracle) (mode : protocol_mode) (port : N)
           (u : universe) (hints : list rr) (planned : dname -> Prop) (haddr : dname -> N -> Prop)
           (stack : list question) (h : dname) : Prop :=
  forall t c ts,
    mode_usable mode t -> consistentm u hints mode planned cache cache_get c -> ts_elapsed ts <= BUDGET_MS ->
    exists f rrs soa c' ts' es,
      resolve_recursive_notimeout cache cache_get cache_insert_all sort_names zs o mode port f stack (mkq h t RC_IN) (c, ts)
      = (Val (ROk (NonAuthoritative rrs soa)), (c', ts'))
      /\ ts_rlog ts' = rev es ++ ts_rlog ts /\ ts_elapsed ts' <= BUDGET_MS
      /\ consistentm u hints mode planned cache cache_get c'
      /\ Forall (host_exchange u) es
      /\ (forall x, In x rrs -> rr_name x = h /\ rr_type x = t /\ rr_class x = RC_IN
                               /\ exists r, u_record u r /\ rr_name r = h /\ rr_type r = t /\ rr_data r = rr_data x)
      /\ (haddr h t -> rrs <> []).

Section GlueM.
  Variable cache : Type.
  Variable cache_get : cache -> dname -> N -> list rr.
  Variable cache_insert_all : cache -> list rr -> cache.
  Hypothesis LAWS : cache_laws cache cache_get cache_insert_all.

  Variable sort_names : list dname -> list dname.
  Hypothesis Hsort : forall l, Permutation (sort_names l) l.

  Variable zs : zones.
  Variable hints : list rr.
  Hypothesis Hz : hints_zones zs hints.
  Hypothesis Hh : Forall hint_okm hints.

  Variable o : oracle.
  Variable port : N.
  Variable u : universe.
  Hypothesis UNS : universe_ns_ok u.
  Variable mode : protocol_mode.
  Variable multi : bool.
  Variable planned : dname -> Prop.
  Variable haddr : dname -> N -> Prop.

  Variable q : question.
  Variable zroot : uzone.
  Variable rest0 : list uzone.
  Variable zk : uzone.
  Hypothesis WK : walkm u hints mode multi planned q zroot rest0 zk.
  Hypothesis Hdel : delivers_log o u port q.

  Variable stk : list question.
  Hypothesis Hstk_len : (length stk + 1 < 32)%nat.
  Hypothesis Hstk_q : is_duplicate_question stk q = false.
  Hypothesis Hstk : Forall (fun s => q_type s <> RT_NS) stk.
  Notation istk := (stk ++ [q]).
  Hypothesis Hfresh : forall s h, In s istk -> chain_host u zroot rest0 h -> q_name s <> h.

  Notation rrn := (resolve_recursive_notimeout cache cache_get cache_insert_all sort_names zs o mode port).
  Notation cloop := (candidate_loop cache cache_get cache_insert_all sort_names zs o mode port).
  Notation cstep := (candidate_step cache cache_get cache_insert_all sort_names zs o mode port).
  Notation rhi := (resolve_hostname_to_ip cache cache_get zs mode).
  Notation hloop := (hostname_loop cache cache_get zs).
  Notation consistent := (consistentm u hints mode planned cache cache_get).
  Notation ready := (readym hints mode cache cache_get).
  Notation A := (auth_answer u q).
  Notation landsq := (lands u multi q).
  Notation chost := (chain_host u zroot rest0).
  Notation hostx := (host_exchange u).

  (* the nested resolutions of the planned hosts of the chain, with [q] on the stack *)
  Hypothesis NEST : forall h, planned h -> chost h ->
    nested_ok cache cache_get cache_insert_all sort_names zs o mode port u hints planned haddr istk h.
  Hypothesis HADDR : forall h, planned h -> exists t, mode_usable mode t /\ haddr h t.

  Let Hlim_in : at_recursion_limit istk = false := Hlim_inm q stk Hstk_len.
  Let Hlim_out : at_recursion_limit stk = false := Hlim_outm stk Hstk_len.

  Lemma rec_le f f' : (f <= f')%nat -> forall stack q', le_rm cache (rrn f stack q') (rrn f' stack q').
  Proof. intros Hle stack q' st v st'. apply rrn_fuel_mono. exact Hle. Qed.

  (* a host is ready, or no type of the mode has a hint or a cached RRset for it *)
  Lemma ready_dec c h : wf_name h ->
    ready c h \/ (forall t, In t (rtypes_of_mode mode) -> (forall x, ~ hint_match hints h t x) /\ cache_get c h t = []).
  Proof.
    intro Hwf. unfold readym, mode_usable.
    assert (H : forall types, Forall addr_type types ->
              (exists t, In t types /\ ((exists x, hint_match hints h t x) \/ cache_get c h t <> []))
              \/ (forall t, In t types -> (forall x, ~ hint_match hints h t x) /\ cache_get c h t = [])).
    { induction types as [|t types IH]; intro Hty; [right; intros t []|].
      inversion Hty as [|? ? Ht Hty']; subst.
      destruct (hint_match_dec zs hints h t Hz Hwf (addr_type_not_any t Ht)) as [Hx|Hno];
        [left; exists t; split; [left; reflexivity|left; exact Hx]|].
      destruct (cache_get c h t) as [|y l] eqn:E.
      - destruct (IH Hty') as [(t' & Hin & Hr)|Hnone]; [left; exists t'; split; [right; exact Hin|exact Hr]|].
        right. intros t' [<-|Hin]; [split; [exact Hno|exact E]|exact (Hnone t' Hin)].
      - left. exists t. split; [left; reflexivity|right; rewrite E; discriminate]. }
    destruct (H _ (rtypes_addr mode)) as [(t & Hin & Hr)|Hnone]; [left; split; [exact Hwf|exists t; auto]|right; exact Hnone].
  Qed.

  (* the fast pass finds nothing for a host that is not ready *)
  Lemma rhi_fast_none rec c ts h : consistent c -> wf_name h ->
    (forall r, u_record u r -> rr_name r = h -> rr_type r <> RT_CNAME) ->
    (forall t, In t (rtypes_of_mode mode) -> (forall x, ~ hint_match hints h t x) /\ cache_get c h t = []) ->
    rhi rec istk true h (c, ts) = (Val None, (c, ts)).
  Proof.
    intros HC Hwf Hnc Hnone. unfold resolve_hostname_to_ip.
    apply (hloop_fast_none cache cache_get zs hints Hz rec istk h (c, ts) Hlim_in Hwf).
    - cbn [fst]. exact (no_cached_cname cache cache_get hints u mode planned c h HC Hnc).
    - apply rtypes_addr.
    - exact Hnone.
  Qed.

  (* one iteration of the fast pass over a candidate without a local address: it is moved to
     next_candidate_hostnames; after the last one the slow pass starts with them *)
  Lemma skip_step f mc cands next c ts h rest :
    pop_last cands = Some (h, rest) -> (forall rec, rhi rec istk true h (c, ts) = (Val None, (c, ts))) ->
    cloop (S f) istk q [] mc cands next true (c, ts)
    = if is_nil rest then cloop f istk q [] mc (next ++ [h]) [] false (c, ts)
      else cloop f istk q [] mc rest (next ++ [h]) true (c, ts).
  Proof.
    intros Ep Eh. rewrite cloopm_S. unfold candidate_step. rewrite Ep. unfold rbind at 1. rewrite Eh.
    destruct (is_nil rest); reflexivity.
  Qed.

  Definition cand_facts (z : uzone) (below : list uzone) (c : cache) (h : dname) : Prop :=
    host_okm u hints multi q z below h /\ chost h /\ (ready c h \/ planned h).

  (* THE FAST PASS over a list of candidates (popped from the end): it stops at the first candidate
     that is ready, or moves them all to the slow pass, in the order popped; the state is unchanged *)
  Lemma scan z below c mc ts : consistent c -> forall l next, l <> [] -> (forall h, In h l -> cand_facts z below c h) ->
    (exists k pre cand next1, In cand l /\ ready c cand
        /\ forall f, cloop (k + f) istk q [] mc l next true (c, ts) = cloop f istk q [] mc (pre ++ [cand]) next1 true (c, ts))
    \/ (exists k, (forall h, In h l -> ~ ready c h)
        /\ forall f, cloop (k + f) istk q [] mc l next true (c, ts) = cloop f istk q [] mc (next ++ rev l) [] false (c, ts)).
  Proof.
    intro HC. induction l as [|h l IH] using rev_ind; intros next Hne Hfacts; [congruence|].
    destruct (Hfacts h ltac:(apply in_or_app; right; left; reflexivity)) as ((Hwf & _ & _ & Hnc) & Hch & _).
    destruct (ready_dec c h Hwf) as [Hr|Hnone].
    - left. exists 0%nat, l, h, next. split; [apply in_or_app; right; left; reflexivity|]. split; [exact Hr|]. intro f. reflexivity.
    - assert (Hnr : ~ ready c h).
      { intros (_ & t & Ht & Hx). destruct (Hnone t Ht) as [Hno Hc]. destruct Hx as [[x Hx]|Hx]; [exact (Hno x Hx)|exact (Hx Hc)]. }
      assert (Eh : forall rec, rhi rec istk true h (c, ts) = (Val None, (c, ts))).
      { intro rec. exact (rhi_fast_none rec c ts h HC Hwf Hnc Hnone). }
      pose proof (pop_last_snoc h l) as Ep.
      destruct l as [|y l'].
      + right. exists 1%nat. split.
        * intros h' [<-|[]]. exact Hnr.
        * intro f. cbn [Nat.add app] in *. rewrite (skip_step f mc [h] next c ts h [] Ep Eh). reflexivity.
      + destruct (IH (next ++ [h]) ltac:(discriminate)) as [(k & pre & cand & next1 & Hin & Hr & E)|(k & Hnone' & E)].
        { intros h' Hin. apply Hfacts. apply in_or_app. left. exact Hin. }
        * left. exists (S k), pre, cand, next1. split; [apply in_or_app; left; exact Hin|]. split; [exact Hr|].
          intro f. cbn [Nat.add]. rewrite (skip_step (k + f) mc _ next c ts h (y :: l') Ep Eh). cbn [is_nil]. apply E.
        * right. exists (S k). split.
          -- intros h' Hin. apply in_app_or in Hin as [Hin|[<-|[]]]; [exact (Hnone' h' Hin)|exact Hnr].
          -- intro f. cbn [Nat.add]. rewrite (skip_step (k + f) mc _ next c ts h (y :: l') Ep Eh). cbn [is_nil].
             rewrite E, rev_app_distr. cbn [rev app]. rewrite <- app_assoc. reflexivity.
  Qed.

  (* THE SLOW PASS on a planned host: the nested resolutions for the types of the mode, in order,
     until one returns address records; the first of them leads to a server of the zone *)
  Lemma slow_types z below h : planned h -> chost h -> host_okm u hints multi q z below h ->
    forall types, (forall t, In t types -> mode_usable mode t) -> (exists t, In t types /\ haddr h t) ->
    forall c ts, consistent c -> ts_elapsed ts <= BUDGET_MS ->
    exists f a c2 ts2 es, hloop (rrn f) istk false h types (c, ts) = (Val (Some a), (c2, ts2))
      /\ landsq a z below /\ consistent c2 /\ ts_elapsed ts2 <= BUDGET_MS /\ ts_rlog ts2 = rev es ++ ts_rlog ts /\ Forall hostx es.
  Proof.
    intros Hp Hch (Hwf & Hu & _ & _).
    induction types as [|t types IH]; intros Hmode (t0 & Hin0 & Ha0) c ts HC Hbud; [destruct Hin0|].
    destruct (NEST h Hp Hch t c ts (Hmode t (or_introl eq_refl)) HC Hbud)
      as (f1 & rrs & soa & c' & ts' & es1 & E1 & Hlog1 & Hbud1 & HC1 & Hhost1 & Hsound & Hne).
    pose proof (mode_usable_addr mode t (Hmode t (or_introl eq_refl))) as Ht.
    destruct rrs as [|x0 rrs0].
    - (* no records of this type: the next type *)
      assert (Hrest : exists t1, In t1 types /\ haddr h t1).
      { destruct Hin0 as [<-|Hin0]; [exfalso; exact (Hne Ha0 eq_refl)|exists t0; auto]. }
      destruct (IH (fun t1 H1 => Hmode t1 (or_intror H1)) Hrest c' ts' HC1 Hbud1) as (f2 & a & c2 & ts2 & es2 & E2 & Hl & HC2 & Hbud2 & Hlog2 & Hhost2).
      exists (Nat.max f1 f2), a, c2, ts2, (es1 ++ es2).
      split; [|split; [exact Hl|split; [exact HC2|split; [exact Hbud2|split]]]].
      + cbn [hostname_loop]. unfold rbind at 1. unfold hostname_try. unfold rbind at 1.
        rewrite (rrn_fuel_mono cache cache_get cache_insert_all sort_names zs o mode port f1 (Nat.max f1 f2) istk _ _ _ _ (le_max_a _ _) E1).
        cbn [resolved_rrs]. change (get_ip [] h t) with (@Ok unit (option ip) None). cbn [lift_res]. unfold ret at 1.
        exact (hloop_mono cache cache_get zs (rrn f2) (rrn (Nat.max f1 f2)) (rec_le f2 _ (le_max_b _ _)) istk false h types _ _ _ E2).
      + rewrite Hlog2, Hlog1, rev_app_distr, <- app_assoc. reflexivity.
      + apply Forall_app. split; assumption.
    - (* address records: the first one *)
      assert (Hfrom : forall x, In x (x0 :: rrs0) -> addr_rrm h t x /\ forall a, addr_of x a -> landsq a z below).
      { intros x Hx. destruct (Hsound x Hx) as (H1 & H2 & H3 & r & Hr & Hrn & Hrt & Hrd).
        destruct (Hu r Hr Hrn ltac:(rewrite Hrt; exact Ht)) as (a & Ha & Hl).
        assert (Hxa : addr_of x a) by (apply (addr_of_same r x a); congruence).
        split; [unfold addr_rrm; repeat (split; [assumption|]); exists a; exact Hxa|].
        intros a' Ha'. rewrite (addr_of_fun x a' a Ha' Hxa). exact Hl. }
      assert (Hall : Forall (addr_rrm h t) (x0 :: rrs0)) by (apply Forall_forall; intros x Hx; exact (proj1 (Hfrom x Hx))).
      destruct (get_ip_addrm h t (x0 :: rrs0) Ht ltac:(discriminate) Hall) as (x & a & Hx & Ha & Hip).
      exists f1, a, c', ts', es1.
      split; [|split; [exact (proj2 (Hfrom x Hx) a Ha)|split; [exact HC1|split; [exact Hbud1|split; [exact Hlog1|exact Hhost1]]]]].
      cbn [hostname_loop]. unfold rbind at 1. unfold hostname_try. unfold rbind at 1. rewrite E1. cbn [resolved_rrs]. rewrite Hip. reflexivity.
  Qed.

  (* AT ONE ZONE: from the fresh state of the loop -- candidates that are nameserver hosts of the zone,
     each ready or planned -- the loop comes, without changing the state, to an iteration in which
     the popped candidate's address is found: in the fast pass (a ready candidate), or, when none is
     ready, in the slow pass by the nested resolution of the first candidate *)
  Lemma zone_reach z below c mc cands ts :
    In z (zroot :: rest0) -> hosts_okm u hints multi q z below -> consistent c -> ts_elapsed ts <= BUDGET_MS ->
    cands <> [] -> (forall h, In h cands -> ns_host_any u (uz_apex z) h /\ (ready c h \/ planned h)) ->
    exists k cands1 next1 locally1 cand rest1 f0 a c2 ts2 es,
      pop_last cands1 = Some (cand, rest1)
      /\ (forall f, cloop (k + f) istk q [] mc cands [] true (c, ts) = cloop f istk q [] mc cands1 next1 locally1 (c, ts))
      /\ rhi (rrn f0) istk locally1 cand (c, ts) = (Val (Some a), (c2, ts2))
      /\ landsq a z below /\ consistent c2 /\ ts_elapsed ts2 <= BUDGET_MS /\ ts_rlog ts2 = rev es ++ ts_rlog ts /\ Forall hostx es.
  Proof.
    intros Hzin Hhosts HC Hbud Hne Hcands.
    assert (Hfacts : forall h, In h cands -> cand_facts z below c h).
    { intros h Hin. destruct (Hcands h Hin) as [Hany Hr]. split; [exact (Hhosts h Hany)|]. split; [exact (chost_in u zroot rest0 z h Hzin Hany)|exact Hr]. }
    destruct (scan z below c mc ts HC cands [] Hne Hfacts) as [(k & pre & cand & next1 & Hin & Hr & E)|(k & Hnone & E)].
    - destruct (Hfacts cand Hin) as (Hok & Hch & _).
      destruct (host_cand_okm cache cache_get cache_insert_all LAWS zs hints Hz Hh u mode multi planned q zroot rest0 stk Hstk_len Hfresh
                  z below c cand HC Hok Hch Hr (rrn 0) ts) as (a & Eh & Hl).
      exists k, (pre ++ [cand]), next1, true, cand, pre, 0%nat, a, c, ts, [].
      split; [apply pop_last_snoc|]. split; [exact E|]. split; [exact Eh|]. split; [exact Hl|]. split; [exact HC|]. split; [exact Hbud|].
      split; [reflexivity|constructor].
    - destruct cands as [|h1 l]; [congruence|]. cbn [app] in E.
      destruct (Hfacts h1 (or_introl eq_refl)) as (Hok & Hch & [Hr|Hp]); [destruct (Hnone h1 (or_introl eq_refl) Hr)|].
      destruct (HADDR h1 Hp) as (t0 & Ht0 & Ha0).
      destruct (slow_types z below h1 Hp Hch Hok (rtypes_of_mode mode) (fun t H => H) (ex_intro _ t0 (conj Ht0 Ha0)) c ts HC Hbud)
        as (f0 & a & c2 & ts2 & es & Eh & Hl & HC2 & Hbud2 & Hlog2 & Hhost2).
      exists k, (rev (h1 :: l)), [], false, h1, (rev l), f0, a, c2, ts2, es.
      split; [cbn [rev]; apply pop_last_snoc|]. split; [exact E|]. split; [exact Eh|]. auto 10.
  Qed.

  (* the referral hop with its witnesses chosen before the loop's state: see referral_hop_u *)
  Lemma hop_referral_u z' zc below mc a c2 ts2 :
    wlinkm u hints mode multi planned q z' zc below -> consistent c2 -> serves_owner u a z' q ->
    mc < llen (labels (uz_apex zc)) -> ts_elapsed ts2 <= BUDGET_MS ->
    exists names ts3 e,
      ts_elapsed ts3 <= BUDGET_MS /\ ts_rlog ts3 = e :: ts_rlog ts2 /\ query_toi port q a e
      /\ consistent (cache_insert_all c2 (referral_ins z' zc names)) /\ sort_names names <> []
      /\ (forall h, In h (sort_names names) ->
            ns_host_any u (uz_apex zc) h /\ (ready (cache_insert_all c2 (referral_ins z' zc names)) h \/ planned h))
      /\ forall rec loop cands next locally st cand rest1, pop_last cands = Some (cand, rest1) ->
           rhi rec istk locally cand st = (Val (Some a), (c2, ts2)) ->
           cstep rec loop istk q [] mc cands next locally st
           = loop (llen (labels (uz_apex zc))) (sort_names names) [] true (cache_insert_all c2 (referral_ins z' zc names), ts3).
  Proof.
    intros Hlink HC Hsrv Hmc Hbud.
    pose proof Hlink as (Hzin & Hcut & Hdeep & Hnoglue & Hglue & Hhosts).
    destruct (referral_hop_u cache cache_get cache_insert_all sort_names zs o mode port u a z' (uz_apex zc) q mc (c2, ts2)
                Hdel Hsrv Hcut (cuts_nsm u UNS z' Hzin) Hmc Hnoglue Hbud)
      as (names & ts3 & Hnames & Hbud3 & (e & Hlog & Hk & Ha & Hqe & Hrd) & Huni).
    cbn [fst snd] in Huni, Hlog. fold (referral_ins z' zc names) in Huni.
    assert (Hnames' : forall h, In h names <-> ns_host_of z' (uz_apex zc) h) by exact Hnames.
    destruct (consistentm_insert_referral cache cache_get cache_insert_all LAWS u hints mode multi planned q c2 z' zc below names
                UNS HC Hlink Hnames') as (HC3 & Hready).
    exists names, ts3, e. split; [exact Hbud3|]. split; [exact Hlog|]. split; [unfold query_toi; auto|]. split; [exact HC3|]. split; [|split].
    - intro E. pose proof (Hsort names) as P. rewrite E in P. apply Permutation_nil in P.
      destruct (cut_owner_spec _ _ _ Hcut) as (_ & r0 & Hr0 & Hr0c).
      pose proof (cuts_nsm u UNS z' Hzin) as Hnsty. rewrite Forall_forall in Hnsty. destruct (Hnsty r0 Hr0) as [h0 Hh0].
      assert (Hx : In h0 names) by (apply Hnames; exists r0; auto). rewrite P in Hx. destruct Hx.
    - intros h Hin. apply (Permutation_in _ (Hsort _)) in Hin. exact (Hready h Hin).
    - intros rec loop cands next locally st cand rest1 Ep Eh. exact (Huni rec loop istk cands next locally st cand rest1 Ep Eh).
  Qed.

  Section PlainG.
    Hypothesis AZ : answering_zone u zk q.
    Hypothesis HS3 : ~ ns_host_name u (q_name q) -> plain_at u q zk.
    Hypothesis Hnocn : forall r, u_record u r -> rr_type r = RT_CNAME -> rr_name r <> q_name q.

    (* THE INDUCTION down the chain with glueless cuts: for SOME fuel the loop, standing at the zone
       [z] with candidates that are hosts of [z], each ready or planned, returns the authoritative
       answer; the log is the exchanges about [q], one per zone of [used], interleaved with the
       exchanges of the nested resolutions *)
    Lemma descend_g : forall n rest z c mc cands ts, (length rest <= n)%nat ->
      wchainm u hints mode multi planned q zk z rest -> incl (z :: rest) (zroot :: rest0) -> hosts_okm u hints multi q z rest ->
      consistent c -> cands <> [] -> (forall h, In h cands -> ns_host_any u (uz_apex z) h /\ (ready c h \/ planned h)) ->
      mc <= llen (labels (uz_apex z)) -> ts_elapsed ts <= BUDGET_MS ->
      exists f c' ts' es used,
        cloop f istk q [] mc cands [] true (c, ts) = (Val (ROk (NonAuthoritative (aa_rrs A) (aa_soa A))), (c', ts'))
        /\ ts_rlog ts' = rev es ++ ts_rlog ts /\ ts_elapsed ts' <= BUDGET_MS
        /\ subseq used (z :: rest) /\ (exists used0, used = used0 ++ [zk])
        /\ glog u port q used es /\ consistent c'.
    Proof.
      induction n as [|n IH]; intros rest z c mc cands ts Hn Hch Hincl Hhosts HC Hne Hcands Hmc Hbud.
      - destruct rest as [|? ?]; [|cbn [length] in Hn; lia]. cbn [wchainm] in Hch. subst z.
        destruct (zone_reach zk [] c mc cands ts (Hincl zk (or_introl eq_refl)) Hhosts HC Hbud Hne Hcands)
          as (k & cands1 & next1 & locally1 & cand & rest1 & f0 & a & c2 & ts2 & esn & Ep & Ek & Eh & Hland & HC2 & Hbud2 & Hlog2 & Hhostn).
        destruct (lands_split u multi q a zk [] Hland) as (pre & z' & post & E & Hs & Hpre).
        assert (pre = [] /\ z' = zk /\ post = []) as (-> & -> & ->).
        { destruct pre as [|x pre]; cbn [app] in E; [inversion E; auto|]. inversion E. destruct pre; discriminate. }
        destruct (hop_last cache cache_get cache_insert_all LAWS sort_names zs hints o port u mode multi planned q zroot rest0 zk WK Hdel stk
                    (rrn f0) (cloop f0 istk q []) mc cands1 next1 locally1 (c, ts) cand rest1 a c2 ts2 AZ HS3 HC2 Ep Eh Hs Hmc Hbud2)
          as (ts' & e & E' & Hbud' & Hlog & Hq' & HC').
        exists (k + S f0)%nat, (cache_insert_all c2 (aa_rrs A)), ts', (esn ++ [e]), [zk].
        split; [rewrite Ek, cloopm_S; exact E'|].
        split; [rewrite Hlog, Hlog2, rev_app_distr; reflexivity|]. split; [exact Hbud'|]. split; [apply subseq_refl|].
        split; [exists []; reflexivity|]. split; [|exact HC'].
        apply glog_app_host; [exact Hhostn|]. apply gl_own; [exists a; auto|constructor].
      - destruct (zone_reach z rest c mc cands ts (Hincl z (or_introl eq_refl)) Hhosts HC Hbud Hne Hcands)
          as (k & cands1 & next1 & locally1 & cand & rest1 & f0 & a & c2 & ts2 & esn & Ep & Ek & Eh & Hland & HC2 & Hbud2 & Hlog2 & Hhostn).
        destruct (lands_split u multi q a z rest Hland) as (pre & z' & post & E & Hs & Hpre).
        pose proof (wchainm_at u hints mode multi planned q pre zk z rest z' post Hch E) as Hch'.
        assert (Hz'in : In z' (z :: rest)) by (rewrite E; apply in_or_app; right; left; reflexivity).
        pose proof (wchainm_depth u hints mode multi planned q rest zk z z' Hch Hz'in) as Hdep.
        assert (Hlen : length (z :: rest) = (length pre + S (length post))%nat) by (rewrite E, app_length; reflexivity).
        cbn [length] in Hlen.
        destruct post as [|zc post].
        + cbn [wchainm] in Hch'. subst z'.
          destruct (hop_last cache cache_get cache_insert_all LAWS sort_names zs hints o port u mode multi planned q zroot rest0 zk WK Hdel stk
                      (rrn f0) (cloop f0 istk q []) mc cands1 next1 locally1 (c, ts) cand rest1 a c2 ts2 AZ HS3 HC2 Ep Eh Hs ltac:(lia) Hbud2)
            as (ts' & e & E' & Hbud' & Hlog & Hq' & HC').
          exists (k + S f0)%nat, (cache_insert_all c2 (aa_rrs A)), ts', (esn ++ [e]), [zk].
          split; [rewrite Ek, cloopm_S; exact E'|].
          split; [rewrite Hlog, Hlog2, rev_app_distr; reflexivity|]. split; [exact Hbud'|].
          split; [rewrite E; apply subseq_app_skip, subseq_refl|].
          split; [exists []; reflexivity|]. split; [|exact HC'].
          apply glog_app_host; [exact Hhostn|]. apply gl_own; [exists a; auto|constructor].
        + cbn [wchainm] in Hch'. destruct Hch' as (Hlink & Hrest). cbn [length] in Hlen, Hn.
          pose proof Hlink as (_ & _ & Hdeep & _ & _ & Hhosts').
          destruct (hop_referral_u z' zc post mc a c2 ts2 Hlink HC2 Hs ltac:(lia) Hbud2)
            as (names & ts3 & e & Hbud3 & Hlog3 & Hq3 & HC3 & Hnn & Hnames & Huni).
          assert (Hincl' : incl (zc :: post) (zroot :: rest0)).
          { intros x Hx. apply Hincl. rewrite E. apply in_or_app. right. right. exact Hx. }
          destruct (IH post zc (cache_insert_all c2 (referral_ins z' zc names)) (llen (labels (uz_apex zc))) (sort_names names) ts3
                      ltac:(lia) Hrest Hincl' Hhosts' HC3 Hnn Hnames ltac:(lia) Hbud3)
            as (f' & c' & ts' & es & used & E' & Hlog' & Hbud' & Hsub & (used0 & Hused0) & Hes & HC').
          exists (k + S (Nat.max f0 f'))%nat, c', ts', (esn ++ e :: es), (z' :: used).
          split.
          { rewrite Ek, cloopm_S.
            rewrite (Huni (rrn (Nat.max f0 f')) (cloop (Nat.max f0 f') istk q []) cands1 next1 locally1 (c, ts) cand rest1 Ep
                       (rhi_mono cache cache_get zs mode (rrn f0) (rrn (Nat.max f0 f')) (rec_le f0 _ (le_max_a _ _)) istk locally1 cand _ _ _ Eh)).
            exact (cloop_fuel_mono cache cache_get cache_insert_all sort_names zs o mode port f' (Nat.max f0 f') istk q [] _ _ _ _ _ _ _
                     (le_max_b _ _) E'). }
          split; [rewrite Hlog', Hlog3, Hlog2, rev_app_distr; cbn [rev]; rewrite <- !app_assoc; reflexivity|].
          split; [exact Hbud'|]. split; [rewrite E; apply subseq_app_skip; constructor; exact Hsub|].
          split; [exists (z' :: used0); rewrite Hused0; reflexivity|]. split; [|exact HC'].
          apply glog_app_host; [exact Hhostn|]. apply gl_own; [exists a; auto|exact Hes].
    Qed.

    (* the whole resolution when the cache holds no RRset for the question *)
    Theorem resolve_net_g c ts :
      consistent c -> ts_elapsed ts <= BUDGET_MS -> cache_get c (q_name q) (q_type q) = [] ->
      exists f c' ts' es used,
        rrn f stk q (c, ts) = (Val (ROk (NonAuthoritative (aa_rrs A) (aa_soa A))), (c', ts'))
        /\ ts_rlog ts' = rev es ++ ts_rlog ts /\ ts_elapsed ts' <= BUDGET_MS
        /\ subseq used (zroot :: rest0) /\ (exists used0, used = used0 ++ [zk])
        /\ glog u port q used es /\ consistent c'.
    Proof.
      intros HC Hbud Eget.
      pose proof (wm_wf _ _ _ _ _ _ _ _ _ WK) as Hq_wf.
      assert (Hcn : cache_get c (q_name q) RT_CNAME = []).
      { apply (no_cached_cname cache cache_get hints u mode planned c (q_name q) HC). intros r Hr Hn Ht. exact (Hnocn r Hr Ht Hn). }
      destruct (proj1 Hq_wf) as (front & Hlq & _).
      destruct (cand_nsm cache cache_get cache_insert_all LAWS zs hints Hz Hh u UNS mode multi planned q zroot rest0 zk WK stk Hstk_len Hstk
                  c ts HC Hcn front [] ltac:(rewrite Hlq; reflexivity) ltac:(rewrite <- Hlq; exact (proj1 Hq_wf)))
        as (d & Hd & Hdne & zi & pre & post & Esplit & Hdn & _ & Hhosts).
      assert (Hs : sort_names (ns_hostnames d) <> []).
      { intro E. pose proof (Hsort (ns_hostnames d)) as P. rewrite E in P. apply Permutation_nil in P. exact (Hdne P). }
      pose proof (wchainm_at u hints mode multi planned q pre zk zroot rest0 zi post (wm_chain _ _ _ _ _ _ _ _ _ WK) Esplit) as Hpost.
      assert (Hincl : incl (zi :: post) (zroot :: rest0)).
      { intros x Hx. rewrite Esplit. apply in_or_app. right. exact Hx. }
      assert (Hzi_hosts : hosts_okm u hints multi q zi post).
      { destruct pre as [|p0 pre]; cbn [app] in Esplit.
        - inversion Esplit; subst. exact (wm_roothosts _ _ _ _ _ _ _ _ _ WK).
        - inversion Esplit as [[E0 E1]]. subst p0.
          destruct (exists_last (l := zroot :: pre)) as (pre1 & zp & Epre); [discriminate|].
          assert (E2 : zroot :: rest0 = pre1 ++ zp :: zi :: post).
          { rewrite E1. change (zroot :: pre ++ zi :: post) with ((zroot :: pre) ++ zi :: post). rewrite Epre, <- app_assoc. reflexivity. }
          pose proof (wchainm_at u hints mode multi planned q pre1 zk zroot rest0 zp (zi :: post) (wm_chain _ _ _ _ _ _ _ _ _ WK) E2) as Hzp.
          cbn [wchainm] in Hzp. exact (proj2 (proj2 (proj2 (proj2 (proj2 (proj1 Hzp)))))). }
      destruct (descend_g (length post) post zi c (ns_match_count d) (sort_names (ns_hostnames d)) ts (le_n _) Hpost Hincl Hzi_hosts HC Hs)
        as (f & c' & ts' & es & used & E & Hlog & Hbud' & Hsub & Hused0 & Hes & HC').
      { intros h Hc0. apply (Permutation_in _ (Hsort _)) in Hc0. exact (Hhosts h Hc0). }
      { unfold ns_match_count. rewrite Hdn. lia. }
      { exact Hbud. }
      exists (S f), c', ts', es, used. split; [|split; [exact Hlog|split; [exact Hbud'|split; [|split; [exact Hused0|split; [exact Hes|exact HC']]]]]].
      - cbn [resolve_recursive_notimeout]. unfold recursive_body.
        rewrite Hlim_out, Hstk_q.
        unfold rbind at 1.
        rewrite (local_miss cache cache_get zs hints Hz stk q (c, ts) Hlim_out Hstk_q Hq_wf
                   (Hq_anym hints u mode multi planned q zroot rest0 zk WK) (Hq_nohintm hints u mode multi planned q zroot rest0 zk WK) Eget Hcn).
        unfold rbind at 1. unfold candidate_nameservers. rewrite Hlq, Hd. exact E.
      - rewrite Esplit. apply subseq_app_skip. exact Hsub.
    Qed.
  End PlainG.
End GlueM.

(* ====================================================================== *)
(* 4. the induction on the rank: every planned host's nested resolution     *)
(* ====================================================================== *)

Lemma not_dup_names stk q : (forall s, In s stk -> q_name s <> q_name q) -> is_duplicate_question stk q = false.
Proof.
  intro H. unfold is_duplicate_question. destruct (existsb (question_eqb q) stk) eqn:E; [|reflexivity]. exfalso.
  apply existsb_exists in E as (s & Hs & Hq). apply question_eqb_true in Hq as [H1 _]. exact (H s Hs (eq_sym H1)).
Qed.

Section RankInd.
  Variable cache : Type.
  Variable cache_get : cache -> dname -> N -> list rr.
  Variable cache_insert_all : cache -> list rr -> cache.
  Hypothesis LAWS : cache_laws cache cache_get cache_insert_all.
  Variable sort_names : list dname -> list dname.
  Hypothesis Hsort : forall l, Permutation (sort_names l) l.
  Variable zs : zones.
  Variable hints : list rr.
  Hypothesis Hz : hints_zones zs hints.
  Hypothesis Hh : Forall hint_okm hints.
  Variable o : oracle.
  Variable port : N.
  Variable u : universe.
  Hypothesis UNS : universe_ns_ok u.
  Variable mode : protocol_mode.
  Variable multi : bool.
  Variable zroot : uzone.
  Variable planned : dname -> Prop.
  Variable plan : dname -> list uzone * uzone.
  Variable hrank : dname -> nat.
  Hypothesis PL : forall h, planned h -> plan_ok u hints mode multi zroot planned plan hrank h.
  Hypothesis DEL : forall h t, planned h -> mode_usable mode t -> delivers_log o u port (mkq h t RC_IN).

  Notation rrn := (resolve_recursive_notimeout cache cache_get cache_insert_all sort_names zs o mode port).
  Notation consistent := (consistentm u hints mode planned cache cache_get).
  Notation haddr := (has_addr plan).
  Notation nested := (nested_ok cache cache_get cache_insert_all sort_names zs o mode port u hints planned haddr).

  (* the questions under way when the host [h] is resolved: none for NS; each about a name that is not
     a nameserver host (the question asked of the resolver) or about a host of a higher rank; few
     enough for the recursion limit *)
  Definition stack_ok (stk : list question) (h : dname) : Prop :=
    Forall (fun s => q_type s <> RT_NS /\ (~ ns_host_name u (q_name s) \/ (hrank h < hrank (q_name s))%nat)) stk
    /\ (length stk + hrank h + 1 < 32)%nat.

  Lemma haddr_all : forall h, planned h -> exists t, mode_usable mode t /\ haddr h t.
  Proof. intros h Hp. exact (proj1 (proj2 (PL h Hp))). Qed.

  Theorem nested_all : forall n h stk, (hrank h < n)%nat -> planned h -> ns_host_name u h -> stack_ok stk h -> nested stk h.
  Proof.
    induction n as [|n IH]; intros h stk Hr Hp Hhost (Hstk & Hlen) t c ts Hmode HC Hbud; [lia|].
    destruct (PL h Hp) as (Hq & _ & Hnocn & Hclass & Hrank & H30).
    destruct (Hq t Hmode) as (WK & AZ & PQ).
    pose proof (mode_usable_addr mode t Hmode) as Ht.
    set (q := mkq h t RC_IN) in *.
    assert (Hlim : at_recursion_limit stk = false) by (apply limit_falsem; lia).
    assert (Hdup : is_duplicate_question stk q = false).
    { apply not_dup_names. intros s Hs E. cbn [q mkq q_name] in E.
      destruct (proj1 (Forall_forall _ _) Hstk s Hs) as (_ & [Hn|Hlt]); [apply Hn; rewrite E; exact Hhost|rewrite E in Hlt; lia]. }
    assert (Hqwf : wf_name (q_name q)) by exact (wm_wf _ _ _ _ _ _ _ _ _ WK).
    destruct (cache_get c h t) as [|y0 l0] eqn:Eget.
    - (* over the network: the theorem of section 3, the nested resolutions by the induction hypothesis *)
      destruct (resolve_net_g cache cache_get cache_insert_all LAWS sort_names Hsort zs hints Hz Hh o port u UNS mode multi planned haddr
                  q zroot (fst (plan h)) (snd (plan h)) WK (DEL h t Hp Hmode) stk ltac:(lia) Hdup
                  (Forall_impl _ (fun s H => proj1 H) Hstk))
        with (c := c) (ts := ts) as (f & c' & ts' & es & used & E & Hlog & Hbud' & _ & _ & Hes & HC'); try assumption.
      { (* no candidate host is the name of a question under way *)
        intros s h' Hs Hch E. subst h'. pose proof (Hrank _ Hch) as Hlt.
        apply in_app_or in Hs as [Hs|[<-|[]]].
        - destruct (proj1 (Forall_forall _ _) Hstk s Hs) as (_ & [Hn|Hlt']); [exact (Hn (chain_host_name _ _ _ _ Hch))|lia].
        - cbn [q mkq q_name] in Hlt. lia. }
      { (* the nested resolutions of the planned hosts of the chain *)
        intros h' Hp' Hch'. pose proof (Hrank _ Hch') as Hlt.
        apply (IH h' (stk ++ [q]) ltac:(lia) Hp' (chain_host_name _ _ _ _ Hch')). split.
        - apply Forall_app. split.
          + eapply Forall_impl; [|exact Hstk]. intros s (H1 & [H2|H2]); (split; [exact H1|]); [left; exact H2|right; lia].
          + constructor; [|constructor]. cbn [q mkq q_name q_type]. split; [destruct Ht as [-> | ->]; discriminate|right; exact Hlt].
        - rewrite app_length. cbn [length]. lia. }
      { exact haddr_all. }
      { intro Hn. destruct (Hn Hhost). }
      { intros r Hur Hrt Hrn. exact (Hnocn r Hur Hrn Hrt). }
      exists f, (aa_rrs (auth_answer u q)), (aa_soa (auth_answer u q)), c', ts', es.
      split; [exact E|]. split; [exact Hlog|]. split; [exact Hbud'|]. split; [exact HC'|].
      split; [exact (glog_all_host u port q used es Hhost Hes)|]. split.
      + intros x Hx. destruct (answer_inm u q (snd (plan h)) (addr_type_concrete t Ht) AZ x Hx) as (Hin & Hn & Hty).
        cbn [q mkq q_name q_type] in Hn, Hty. split; [exact Hn|]. split; [exact Hty|]. split; [exact (Hclass x Hin Hn)|].
        exists x. split; [|auto]. exists (snd (plan h)). split; [exact (zk_inm u q _ AZ)|].
        apply in_or_app. right. apply in_or_app. right. exact Hin.
      + intros (r & Hin & Hn & Hty) Enil. rewrite (answer_rrsm u q _ AZ) in Enil.
        assert (Hx : In r (filter (fun r0 => rtype_matches (rr_type r0) (q_type q)) (rrs_at (snd (plan h)) (q_name q)))).
        { apply filter_In. split.
          - unfold rrs_at. apply filter_In. split; [exact Hin|]. apply dname_eqb_eq. exact Hn.
          - cbn [q mkq q_type]. rewrite Hty. apply concrete_matches_refl, addr_type_concrete, Ht. }
        rewrite Enil in Hx. destruct Hx.
    - (* cached: the cached RRset, whose records have the data of records of the universe *)
      assert (Hne : cache_get c h t <> []) by (rewrite Eget; discriminate).
      exists 1%nat, (cache_get c h t), None, c, ts, []. split.
      + cbn [resolve_recursive_notimeout]. unfold recursive_body. rewrite Hlim, Hdup. unfold rbind at 1.
        rewrite (local_cache_hit cache cache_get zs hints Hz stk q (c, ts) Hlim Hdup Hqwf (addr_type_not_any t Ht)
                   (Hq_nohintm hints u mode multi planned q zroot _ _ WK) Hne).
        reflexivity.
      + split; [reflexivity|]. split; [exact Hbud|]. split; [exact HC|]. split; [constructor|]. split; [|intros _; exact Hne].
        intros x Hx. destruct (L_shape _ _ _ LAWS c h t x (addr_type_concrete t Ht) Hx) as (H1 & H2 & H3).
        destruct (proj1 HC h t x (addr_type_concrete t Ht) Hx) as (r & Hur & Hrn & Hrt & Hrd).
        repeat (split; [assumption|]). exists r. auto.
  Qed.

  (* ---- the question asked of the resolver: not about a nameserver host; its chain may have glueless
     cuts whose hosts are planned ---- *)
  Variable q : question.
  Variable rest : list uzone.
  Variable zk : uzone.
  Hypothesis WQ : warm_questionm u hints mode multi planned q zroot rest zk.
  Hypothesis Hdel : delivers_log o u port q.

  Theorem glueless_resolve c ts :
    consistent c -> ts_elapsed ts <= BUDGET_MS ->
    exists f rrs c' ts' es,
      rrn f [] q (c, ts) = (Val (ROk (NonAuthoritative rrs (aa_soa (auth_answer u q)))), (c', ts'))
      /\ ts_rlog ts' = rev es ++ ts_rlog ts /\ ts_elapsed ts' <= BUDGET_MS /\ consistent c'
      /\ ((es = [] /\ c' = c /\ rrs = cache_get c (q_name q) (q_type q) /\ rrs <> [] /\ same_data rrs (aa_rrs (auth_answer u q)))
          \/ (rrs = aa_rrs (auth_answer u q) /\ cache_get c (q_name q) (q_type q) = []
              /\ exists used, subseq used (zroot :: rest) /\ (exists used0, used = used0 ++ [zk]) /\ glog u port q used es)).
  Proof.
    intros HC Hbud. destruct WQ as (WK & PA & Hnot).
    pose proof (wm_wf _ _ _ _ _ _ _ _ _ WK) as Hqwf.
    destruct (cache_get c (q_name q) (q_type q)) as [|y0 l0] eqn:Eget.
    - destruct (resolve_net_g cache cache_get cache_insert_all LAWS sort_names Hsort zs hints Hz Hh o port u UNS mode multi planned haddr
                  q zroot rest zk WK Hdel [] ltac:(cbn; lia) eq_refl (Forall_nil _))
        with (c := c) (ts := ts) as (f & c' & ts' & es & used & E & Hlog & Hbud' & Hsub & Hused0 & Hes & HC'); try assumption.
      { intros s h [<-|[]] Hch E. apply Hnot. rewrite E. exact (chain_host_name _ _ _ _ Hch). }
      { intros h Hp Hch. destruct (PL h Hp) as (_ & _ & _ & _ & _ & H30).
        apply (nested_all (S (hrank h)) h [q] ltac:(lia) Hp (chain_host_name _ _ _ _ Hch)). split.
        - constructor; [|constructor]. split; [exact (proj1 (proj2 (wm_type _ _ _ _ _ _ _ _ _ WK)))|left; exact Hnot].
        - cbn [length]. lia. }
      { exact haddr_all. }
      { exact (pa_owner _ _ _ PA). }
      { intros _. exact PA. }
      { exact (pa_nocname _ _ _ PA). }
      exists f, (aa_rrs (auth_answer u q)), c', ts', es. split; [exact E|]. split; [exact Hlog|]. split; [exact Hbud'|]. split; [exact HC'|].
      right. split; [reflexivity|]. split; [reflexivity|]. exists used. auto.
    - assert (Hne : cache_get c (q_name q) (q_type q) <> []) by (rewrite Eget; discriminate).
      rewrite <- Eget.
      destruct (cached_same_datam cache cache_get cache_insert_all LAWS hints u UNS mode multi planned q zroot rest zk WK PA Hnot c HC Hne)
        as (Hsame & Hsoa).
      exists 1%nat, (cache_get c (q_name q) (q_type q)), c, ts, []. rewrite Hsoa. split.
      + cbn [resolve_recursive_notimeout]. unfold recursive_body. change (at_recursion_limit []) with false. cbn [is_duplicate_question existsb].
        unfold rbind at 1.
        rewrite (local_cache_hit cache cache_get zs hints Hz [] q (c, ts) eq_refl eq_refl Hqwf
                   (Hq_anym hints u mode multi planned q zroot rest zk WK) (Hq_nohintm hints u mode multi planned q zroot rest zk WK) Hne).
        reflexivity.
      + split; [reflexivity|]. split; [exact Hbud|]. split; [exact HC|]. left. auto.
  Qed.
End RankInd.

(* ====================================================================== *)
(* 5. the statement for [resolve], the universe oracle and the built hints  *)
(* ====================================================================== *)

Section FinalG.
  Variable cache : Type.
  Variable cache_get : cache -> dname -> N -> list rr.
  Variable cache_insert_all : cache -> list rr -> cache.
  Hypothesis LAWS : cache_laws cache cache_get cache_insert_all.
  Variable sort_names : list dname -> list dname.
  Hypothesis Hsort : forall l, Permutation (sort_names l) l.
  Variable port : N.
  Variable u : universe.
  Hypothesis UNS : universe_ns_ok u.
  Variable hints : list rr.
  Variable hz : zone.
  Hypothesis Hbuilt : zone_build root_domain None (hint_ops hints) = Ok hz.
  Variable mode : protocol_mode.
  Variable multi : bool.
  Variable zroot : uzone.
  Variable planned : dname -> Prop.
  Variable plan : dname -> list uzone * uzone.
  Variable hrank : dname -> nat.
  Hypothesis PL : forall h, planned h -> plan_ok u hints mode multi zroot planned plan hrank h.

  Notation consistent := (consistentm u hints mode planned cache cache_get).

  (* what a resolution of [q] from the cache [c] must look like when cuts may be glueless *)
  Definition outcomeg (q : question) (rest : list uzone) (zk : uzone) (c : cache) (r : res rerror resolved * rstate cache) : Prop :=
    exists rrs c' ts',
      r = (Ok (NonAuthoritative rrs (aa_soa (auth_answer u q))), (c', ts'))
      /\ consistent c'
      /\ ((ts_log ts' = [] /\ c' = c /\ rrs = cache_get c (q_name q) (q_type q) /\ rrs <> []
           /\ same_data rrs (aa_rrs (auth_answer u q)))
          \/ (rrs = aa_rrs (auth_answer u q) /\ cache_get c (q_name q) (q_type q) = []
              /\ exists used, subseq used (zroot :: rest) /\ (exists used0, used = used0 ++ [zk])
                   /\ glog u port q used (ts_log ts'))).

  Theorem glueless_correct_abstract q rest zk c :
    warm_questionm u hints mode multi planned q zroot rest zk -> plain_question u q -> consistent c ->
    exists F, forall fuel, (F <= fuel)%nat ->
      outcomeg q rest zk c
        (resolve cache cache_get cache_insert_all sort_names (ModeRecursive mode) port (zones_insert [] hz)
                 (universe_oracle u []) fuel q (c, tstate_init)).
  Proof.
    intros WQ Hq HC. pose proof WQ as (WK & _).
    pose proof (wm_hints _ _ _ _ _ _ _ _ _ WK) as (Hok & _).
    destruct Hq as (Hwf & Hq1 & Hq2 & Hreq & Hfits).
    destruct (glueless_resolve cache cache_get cache_insert_all LAWS sort_names Hsort (zones_insert [] hz) hints
                (hintsm_zones_built hints hz Hok Hbuilt) Hok (universe_oracle u []) port u UNS mode multi zroot planned plan hrank PL)
      with (q := q) (rest := rest) (zk := zk) (c := c) (ts := tstate_init)
      as (f & rrs & c' & ts' & es & E & Hlog & _ & HC' & Hcases); try assumption.
    { intros h t Hp Ht. destruct (PL h Hp) as (Hall & _). destruct (Hall t Ht) as (_ & _ & (Hwf' & _ & _ & Hreq' & Hfits')).
      exact (universe_oracle_delivers_log u port _ Hwf' Hreq' Hfits'). }
    { exact (universe_oracle_delivers_log u port q Hwf Hreq Hfits). }
    { cbn. lia. }
    exists f. intros fuel Hfuel. exists rrs, c', ts'. split; [|split; [exact HC'|]].
    - unfold resolve, resolve_recursive.
      rewrite (rrn_fuel_mono cache cache_get cache_insert_all sort_names _ _ mode port f fuel [] q _ _ _ Hfuel E). reflexivity.
    - assert (Hl : ts_log ts' = es).
      { unfold ts_log. rewrite Hlog. cbn [tstate_init ts_rlog]. rewrite app_nil_r, rev_involutive. reflexivity. }
      rewrite Hl. destruct Hcases as [(H1 & H2)|(H1 & H2 & H3)]; [left; auto|right; auto].
  Qed.
End FinalG.

From RV Require Import Cache.CacheFacts Cache.CacheModel Cache.CacheSpec Cache.CacheInsert Cache.CacheProofs
     Resolver.ResolverCacheInstance.

Theorem glueless_correct sort_names (Hsort : forall l, Permutation (sort_names l) l) port u hints hz mode multi zroot (planned : dname -> Prop) (plan : dname -> list uzone * uzone) (hrank : dname -> nat) q rest zk c :
  universe_ns_ok u -> zone_build root_domain None (hint_ops hints) = Ok hz ->
  (forall h, planned h -> plan_ok u hints mode multi zroot planned plan hrank h) ->
  warm_questionm u hints mode multi planned q zroot rest zk -> plain_question u q ->
  consistentm u hints mode planned scache sc_get c ->
  exists F, forall fuel, (F <= fuel)%nat ->
    outcomeg scache sc_get port u hints mode zroot planned q rest zk c
      (resolve scache sc_get sc_insert_all sort_names (ModeRecursive mode) port (zones_insert [] hz)
               (universe_oracle u []) fuel q (c, tstate_init)).
Proof.
  intros UNS Hb PL. exact (glueless_correct_abstract scache sc_get sc_insert_all sc_cache_laws sort_names Hsort port u UNS hints hz Hb
                             mode multi zroot planned plan hrank PL q rest zk c).
Qed.

Theorem glueless_correct_real_cache now sort_names (Hsort : forall l, Permutation (sort_names l) l) port u hints hz mode multi zroot (planned : dname -> Prop) (plan : dname -> list uzone * uzone) (hrank : dname -> nat) q rest zk c :
  universe_ns_ok u -> zone_build root_domain None (hint_ops hints) = Ok hz ->
  (forall h, planned h -> plan_ok u hints mode multi zroot planned plan hrank h) ->
  warm_questionm u hints mode multi planned q zroot rest zk -> plain_question u q ->
  consistentm u hints mode planned rcache (rc_get now) c ->
  exists F, forall fuel, (F <= fuel)%nat ->
    outcomeg rcache (rc_get now) port u hints mode zroot planned q rest zk c
      (resolve rcache (rc_get now) (rc_insert_all now) sort_names (ModeRecursive mode) port (zones_insert [] hz)
               (universe_oracle u []) fuel q (c, tstate_init)).
Proof.
  intros UNS Hb PL. exact (glueless_correct_abstract rcache (rc_get now) (rc_insert_all now) (rc_cache_laws now) sort_names Hsort port u UNS hints hz Hb
                             mode multi zroot planned plan hrank PL q rest zk c).
Qed.

(* ====================================================================== *)
(* 6. a worked universe: the depth-3 chain with a zone hosted on a          *)
(*    nameserver named in another branch, without glue                      *)
(*      .             -> com. (ns.com. 10.0.0.2, glue)  -> example.com. -> sub.example.com. (as before)  *)
(*      com.          -> hosted.com.   NS ns.hoster.net.   NO GLUE          *)
(*      .             -> net. (ns.net. 10.0.0.6, glue)                      *)
(*      net.          -> hoster.net. (ns1.hoster.net. 10.0.0.7, glue)       *)
(*      hoster.net.   holds  ns.hoster.net. A 10.0.0.8 , the server of hosted.com.                      *)
(* ====================================================================== *)

Definition g_l_net : label := [110; 101; 116].
Definition g_l_hoster : label := [104; 111; 115; 116; 101; 114].
Definition g_l_hosted : label := [104; 111; 115; 116; 101; 100].
Definition g_l_ns1 : label := [110; 115; 49].
Definition g_n_net := c3_nm [g_l_net].
Definition g_n_ns_net := c3_nm [c3_l_ns; g_l_net].
Definition g_n_hoster := c3_nm [g_l_hoster; g_l_net].
Definition g_n_ns1_hoster := c3_nm [g_l_ns1; g_l_hoster; g_l_net].
Definition g_n_ns_hoster := c3_nm [c3_l_ns; g_l_hoster; g_l_net].
Definition g_n_hosted := c3_nm [g_l_hosted; c3_l_com].
Definition g_n_www_hosted := c3_nm [c3_l_www; g_l_hosted; c3_l_com].
Definition g_ip5 : N := 167772166.      (* 10.0.0.6 *)
Definition g_ip6 : N := 167772167.
Definition g_ip7 : N := 167772168.

Definition g_root : uzone :=
  {| uz_apex := root_domain; uz_soa := uz_soa c3_root; uz_rrs := uz_rrs c3_root;
     uz_cuts := uz_cuts c3_root ++ [c3_rr g_n_net RT_NS 3600 (RD_Name g_n_ns_net)];
     uz_glue := uz_glue c3_root ++ [c3_rr g_n_ns_net RT_A 3600 (RD_A g_ip5)] |}.
Definition g_com : uzone :=
  {| uz_apex := c3_n_com; uz_soa := uz_soa c3_com; uz_rrs := uz_rrs c3_com;
     uz_cuts := uz_cuts c3_com ++ [c3_rr g_n_hosted RT_NS 3600 (RD_Name g_n_ns_hoster)];
     uz_glue := uz_glue c3_com |}.
Definition g_net : uzone :=
  {| uz_apex := g_n_net; uz_soa := c3_soa g_n_net g_n_ns_net;
     uz_rrs := [c3_rr g_n_net RT_NS 3600 (RD_Name g_n_ns_net); c3_rr g_n_ns_net RT_A 3600 (RD_A g_ip5)];
     uz_cuts := [c3_rr g_n_hoster RT_NS 3600 (RD_Name g_n_ns1_hoster)];
     uz_glue := [c3_rr g_n_ns1_hoster RT_A 3600 (RD_A g_ip6)] |}.
Definition g_hoster : uzone :=
  {| uz_apex := g_n_hoster; uz_soa := c3_soa g_n_hoster g_n_ns1_hoster;
     uz_rrs := [c3_rr g_n_hoster RT_NS 3600 (RD_Name g_n_ns1_hoster); c3_rr g_n_ns1_hoster RT_A 3600 (RD_A g_ip6);
                c3_rr g_n_ns_hoster RT_A 3600 (RD_A g_ip7)];
     uz_cuts := []; uz_glue := [] |}.
Definition g_hosted : uzone :=
  {| uz_apex := g_n_hosted; uz_soa := c3_soa g_n_hosted g_n_ns_hoster;
     uz_rrs := [c3_rr g_n_hosted RT_NS 3600 (RD_Name g_n_ns_hoster); c3_rr g_n_www_hosted RT_A 300 (RD_A 3221225991)];
     uz_cuts := []; uz_glue := [] |}.

Definition g_universe : universe :=
  {| u_zones := [g_root; g_com; c3_ex; c3_sub; g_net; g_hoster; g_hosted];
     u_servers := [(inl c3_ip0, [root_domain]); (inl c3_ip1, [c3_n_com]); (inl c3_ip2, [c3_n_ex]); (inl c3_ip3, [c3_n_sub]);
                   (inl g_ip5, [g_n_net]); (inl g_ip6, [g_n_hoster]); (inl g_ip7, [g_n_hosted])] |}.

(* www.hosted.com. A, and the host question the slow pass asks *)
Definition g_q : question := {| q_name := g_n_www_hosted; q_type := RT_A; q_class := RC_IN |}.
Definition g_qh : question := mkq g_n_ns_hoster RT_A RC_IN.

Lemma g_consistent : consistentb g_universe = true.
Proof. vm_compute. reflexivity. Qed.

Notation g_run fuel q c :=
  (resolve scache sc_get sc_insert_all sort_names_ord (ModeRecursive OnlyV4) 53 (zones_insert [] c3_hz)
           (universe_oracle g_universe []) fuel q (c, tstate_init)).

(* the plan: one glueless host, ns.hoster.net., whose chain is . > net. > hoster.net.; rank 1, all
   other names rank 0 *)
Definition g_planned (h : dname) : Prop := h = g_n_ns_hoster.
Definition g_plan (h : dname) : list uzone * uzone := ([g_net; g_hoster], g_hoster).
Definition g_rank (h : dname) : nat := if dname_eqb h g_n_ns_hoster then 1%nat else 0%nat.

Lemma g_universe_ns_ok : universe_ns_ok g_universe.
Proof.
  split.
  - intros z r Hz Hr. cbn [g_universe u_zones] in Hz. in_cases Hz; cbn in Hr; in_cases Hr; reflexivity.
  - intros r Hr Ht. apply u_record_all in Hr. vm_compute in Hr. in_cases Hr; try (vm_compute in Ht; discriminate Ht); eexists; reflexivity.
Qed.

(* (question, zone, address): a server at the address has the zone as its closest for the name *)
Definition g_triples : list (question * uzone * N) :=
  [(g_q, g_root, c3_ip0); (g_q, g_com, c3_ip1); (g_q, g_hosted, g_ip7);
   (g_qh, g_root, c3_ip0); (g_qh, g_net, g_ip5); (g_qh, g_hoster, g_ip6)].

Lemma g_serves q z a : In (q, z, a) g_triples -> serves_owner g_universe (inl a) z q.
Proof. intro H. unfold g_triples in H. tup_cases H; eexists; split; vm_compute; reflexivity. Qed.

Lemma g_serve_fits q : (q = g_q \/ q = g_qh) -> serve_fits g_universe q.
Proof.
  intros Hq a m H. unfold serve, zones_of_server in H. cbn [g_universe u_servers find fst] in H.
  repeat match type of H with
         | context [ip_eqb ?x a] => destruct (ip_eqb x a)
         end; try discriminate H;
    destruct Hq as [-> | ->]; inversion H; subst; (split; [apply wf_message_b_sound; vm_compute; reflexivity|]);
    eexists; (split; [vm_compute; reflexivity|vm_compute; discriminate]).
Qed.

Lemma g_plain_question q : (q = g_q \/ q = g_qh) -> plain_question g_universe q.
Proof.
  intro Hq. split; [|split; [|split; [|split]]].
  - apply wf_question_b_sound. destruct Hq as [-> | ->]; vm_compute; reflexivity.
  - destruct Hq as [-> | ->]; discriminate.
  - destruct Hq as [-> | ->]; discriminate.
  - intros req E. destruct Hq as [-> | ->]; vm_compute in E; inversion E; subst; vm_compute; discriminate.
  - apply g_serve_fits, Hq.
Qed.

(* the nameserver hosts of a zone of a chain lead, by every address, to the zone's server *)
Lemma g_hosts_ok q z a below : In (q, z, a) g_triples -> hosts_okm g_universe c3_hints false q z below.
Proof.
  intros Hcase h (r & Hr & Hn & Hh).
  assert (Hsrv : lands g_universe false q (inl a) z below) by exact (g_serves q z a Hcase).
  apply u_record_all in Hr. vm_compute in Hr.
  unfold g_triples in Hcase. tup_cases Hcase;
    in_cases Hr; try (vm_compute in Hn; discriminate Hn); try (vm_compute in Hh; discriminate Hh);
    vm_compute in Hh; inversion Hh; subst h; clear Hh Hn;
    (split; [apply wf_name_b_sound; vm_compute; reflexivity|]);
    (split; [intros g Hg Hgn Hgt; apply u_record_all in Hg; vm_compute in Hg; in_cases Hg;
               try (vm_compute in Hgn; discriminate Hgn); try (destruct Hgt as [Hgt|Hgt]; vm_compute in Hgt; discriminate Hgt);
               eexists; (split; [left; split; [reflexivity|eexists; split; reflexivity]|exact Hsrv])|]);
    (split; [intros g Hg Hl Hgt; unfold c3_hints in Hg; in_cases Hg;
               try (vm_compute in Hl; discriminate Hl); try (destruct Hgt as [Hgt|Hgt]; vm_compute in Hgt; discriminate Hgt);
               eexists; (split; [left; split; [reflexivity|eexists; split; reflexivity]|exact Hsrv])|]);
    intros g Hg Hgn Hgt; apply u_record_all in Hg; vm_compute in Hg; in_cases Hg;
      try (vm_compute in Hgn; discriminate Hgn); vm_compute in Hgt; discriminate Hgt.
Qed.

(* (question, parent, child, zones below the child, the address of the child's server) *)
Definition g_links : list (question * uzone * uzone * list uzone * N) :=
  [(g_q, g_root, g_com, [g_hosted], c3_ip1); (g_q, g_com, g_hosted, [], g_ip7);
   (g_qh, g_root, g_net, [g_hoster], g_ip5); (g_qh, g_net, g_hoster, [], g_ip6)].

Ltac glue_with tac :=
  eexists; split; [cbn; tac; left; reflexivity|]; split; [reflexivity|]; split; [left; reflexivity|vm_compute; reflexivity].

Lemma g_wlink q zp zc below a : In (q, zp, zc, below, a) g_links ->
  wlinkm g_universe c3_hints OnlyV4 false g_planned q zp zc below.
Proof.
  intro Hcase. split; [|split; [|split; [|split; [|split]]]].
  - unfold g_links in Hcase. tup_cases Hcase; cbn; auto 10.
  - unfold g_links in Hcase. tup_cases Hcase; vm_compute; reflexivity.
  - unfold g_links in Hcase. tup_cases Hcase; vm_compute; reflexivity.
  - intros r Hr Hn. unfold g_links in Hcase. tup_cases Hcase; cbn in Hr; in_cases Hr; vm_compute in Hn; discriminate Hn.
  - intros h' (r & Hr & Hrn & Hh'). unfold g_links in Hcase. tup_cases Hcase; cbn in Hr; in_cases Hr;
      try (vm_compute in Hrn; discriminate Hrn); vm_compute in Hh'; inversion Hh';
      first [right; reflexivity | left; glue_with idtac | left; glue_with ltac:(right) | left; glue_with ltac:(right; right)].
  - apply (g_hosts_ok q zc a). unfold g_links in Hcase. tup_cases Hcase; unfold g_triples; in_solve.
Qed.

(* (question, the zones of its chain below the root, the zone owning its name) *)
Definition g_chains : list (question * list uzone * uzone) :=
  [(g_q, [g_com; g_hosted], g_hosted); (g_qh, [g_net; g_hoster], g_hoster)].

Lemma g_walk q rest zk : In (q, rest, zk) g_chains -> walkm g_universe c3_hints OnlyV4 false g_planned q g_root rest zk.
Proof.
  intro Hcase. constructor.
  - apply wf_name_b_sound. unfold g_chains in Hcase. tup_cases Hcase; vm_compute; reflexivity.
  - unfold g_chains in Hcase. tup_cases Hcase; (split; [split; [discriminate|reflexivity]|split; discriminate]).
  - reflexivity.
  - split; [|split; [|split]].
    + repeat (apply Forall_cons; [split; [apply wf_name_b_sound; vm_compute; reflexivity|]|]); [| |apply Forall_nil].
      * left. split; [reflexivity|]. split; [reflexivity|]. eexists. reflexivity.
      * right. left. split; [reflexivity|]. eexists. reflexivity.
    + eexists. split; [left; reflexivity|reflexivity].
    + intros r h Hr Ht Hd. unfold c3_hints in Hr. in_cases Hr; try discriminate Ht. inversion Hd; subst h. split.
      * exists (c3_rr root_domain RT_NS 3600 (RD_Name c3_n_a)). split; [exists g_root; split; [cbn; auto|cbn; in_solve]|]. split; reflexivity.
      * eexists. split; [right; left; reflexivity|]. split; [reflexivity|left; reflexivity].
    + intros r Hr Hl. unfold c3_hints in Hr. unfold g_chains in Hcase. in_cases Hr; tup_cases Hcase; vm_compute in Hl; discriminate Hl.
  - apply (g_hosts_ok q g_root c3_ip0). unfold g_chains in Hcase. tup_cases Hcase; unfold g_triples; in_solve.
  - unfold g_chains in Hcase. tup_cases Hcase; cbn [wchainm];
      repeat (split; [eapply g_wlink; unfold g_links; in_solve|]); reflexivity.
  - intros r Hr Ht Hin. apply u_record_all in Hr. vm_compute in Hr. in_cases Hr; vm_compute in Ht; discriminate Ht.
  - intros r Hr Ht Hin. apply u_record_all in Hr. vm_compute in Hr.
    unfold g_chains in Hcase. tup_cases Hcase; in_cases Hr; try (vm_compute in Ht; discriminate Ht);
      try (left; reflexivity);
      try (right; exists g_com; split; [cbn; auto|reflexivity]);
      try (right; exists g_hosted; split; [cbn; auto|reflexivity]);
      try (right; exists g_net; split; [cbn; auto|reflexivity]);
      try (right; exists g_hoster; split; [cbn; auto|reflexivity]);
      exfalso; vm_compute in Hin; repeat (destruct Hin as [Hin|Hin]; [discriminate Hin|]); exact Hin.
Qed.

Lemma g_answering q zk : In (q, zk) [(g_q, g_hosted); (g_qh, g_hoster)] -> answering_zone g_universe zk q.
Proof.
  intro Hcase. tup_cases Hcase; (split; [repeat split; vm_compute; reflexivity|split; [vm_compute; repeat constructor|split; reflexivity]]).
Qed.

Lemma g_plain_at : plain_at g_universe g_q g_hosted.
Proof.
  constructor.
  - apply g_answering. cbn; auto.
  - intros z r Hz Hr Hn. cbn [g_universe u_zones] in Hz. in_cases Hz; cbn in Hr; in_cases Hr; vm_compute in Hn; discriminate Hn.
  - intros z r Hz Hr Hn. cbn [g_universe u_zones] in Hz. in_cases Hz; cbn in Hr; in_cases Hr;
      try (vm_compute in Hn; discriminate Hn); cbn; auto 10.
  - intros r Hr Hn Ht. cbn in Hr. in_cases Hr; try (vm_compute in Hn; discriminate Hn);
      try (vm_compute in Ht; discriminate Ht); vm_compute; reflexivity.
  - intros r Hr Ht Hn. apply u_record_all in Hr. vm_compute in Hr. in_cases Hr; vm_compute in Ht; discriminate Ht.
Qed.

Lemma g_warm_question : warm_questionm g_universe c3_hints OnlyV4 false g_planned g_q g_root [g_com; g_hosted] g_hosted.
Proof.
  split; [apply g_walk; unfold g_chains; in_solve|]. split; [exact g_plain_at|].
  intros (r & Hr & Hh). apply u_record_all in Hr. vm_compute in Hr. in_cases Hr; vm_compute in Hh; discriminate Hh.
Qed.

(* the plan is sound: ns.hoster.net. A walks down . > net. > hoster.net. (with glue), hoster.net. holds its
   address, the hosts of that chain (a., ns.net., ns1.hoster.net.) have rank 0 < 1 *)
Lemma g_plan_ok : forall h, g_planned h -> plan_ok g_universe c3_hints OnlyV4 false g_root g_planned g_plan g_rank h.
Proof.
  intros h ->. split; [|split; [|split; [|split; [|split]]]].
  - intros t [<-|[]]. change (mkq g_n_ns_hoster RT_A RC_IN) with g_qh. cbn [g_plan fst snd].
    split; [apply g_walk; unfold g_chains; in_solve|]. split; [apply g_answering; cbn; auto|apply g_plain_question; auto].
  - exists RT_A. split; [left; reflexivity|]. eexists. split; [cbn; right; right; right; left; reflexivity|]. split; reflexivity.
  - intros r Hr Hn Ht. apply u_record_all in Hr. vm_compute in Hr. in_cases Hr; vm_compute in Ht; discriminate Ht.
  - intros r Hr Hn. cbn in Hr. in_cases Hr; reflexivity.
  - intros h' (zi & Hzi & r & Hr & Hn & Hh'). apply u_record_all in Hr. vm_compute in Hr. cbn [g_plan fst] in Hzi.
    in_cases Hzi; in_cases Hr; try (vm_compute in Hn; discriminate Hn); try (vm_compute in Hh'; discriminate Hh');
      vm_compute in Hh'; inversion Hh'; vm_compute; lia.
  - vm_compute. lia.
Qed.

(* the hypotheses are satisfiable, and what the theorem then says: www.hosted.com. A from the empty
   cache, in a universe where hosted.com. is served by ns.hoster.net. without glue *)
Example glueless_example : exists F, forall fuel, (F <= fuel)%nat ->
  outcomeg scache sc_get 53 g_universe c3_hints OnlyV4 g_root g_planned g_q [g_com; g_hosted] g_hosted sc_empty (g_run fuel g_q sc_empty).
Proof.
  exact (glueless_correct sort_names_ord sort_names_ord_perm 53 g_universe c3_hints c3_hz OnlyV4 false g_root g_planned g_plan g_rank
           g_q [g_com; g_hosted] g_hosted sc_empty g_universe_ns_ok c3_hz_built g_plan_ok g_warm_question
           (g_plain_question _ (or_introl eq_refl)) (emptym_consistent _ _ _ _ _ _ sc_empty sc_empty_get)).
Qed.

(* the same run evaluated inside Coq (fuel 20): the root and com. are asked about www.hosted.com.; then
   the nested resolution asks the root, net. and hoster.net. about ns.hoster.net.; then hosted.com.'s
   server 10.0.0.8 answers; asked again from the cache left, no exchange *)
Example glueless_example_eval :
  let r := g_run 20%nat g_q sc_empty in
  let r' := g_run 20%nat g_q (fst (snd r)) in
  fst r = Ok (NonAuthoritative [c3_rr g_n_www_hosted RT_A 300 (RD_A 3221225991)] None)
  /\ map (fun e => (x_addr e, x_question e)) (ts_log (snd (snd r)))
     = [((inl c3_ip0, 53), g_q); ((inl c3_ip1, 53), g_q);
        ((inl c3_ip0, 53), g_qh); ((inl g_ip5, 53), g_qh); ((inl g_ip6, 53), g_qh);
        ((inl g_ip7, 53), g_q)]
  /\ fst r' = fst r /\ ts_log (snd (snd r')) = []
  /\ consistentb g_universe = true.
Proof. vm_compute. repeat split. Qed.
