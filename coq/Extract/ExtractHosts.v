(* Extract/ExtractHosts.v -- extraction roots of the "hosts" model driver (C14).
   ExtrOcamlBasic only; N stays a Coq datatype.  The NameModel roots are those
   ocaml/drv_name.ml (linked into every driver for the token syntax) refers to. *)
Require Extraction.
Require Import ExtrOcamlBasic.
From RV Require Import Base.Prelude Base.Cursor Name.NameModel Wire.WireTypes Zone.ZoneModel
  Ip.IpModel Hosts.HostsModel.

Extraction Blacklist String List Nat Bool.
Set Extraction Optimize.

Separate Extraction
  Name.NameModel.label_try_from Name.NameModel.from_labels Name.NameModel.from_dotted_string
  Name.NameModel.to_dotted_string Name.NameModel.from_relative_dotted_string
  Name.NameModel.make_subdomain_of Name.NameModel.is_subdomain_of Name.NameModel.decode_name_at
  Name.NameModel.zones_get Name.NameModel.dname_eqb
  Base.Prelude.show_dec
  Wire.WireTypes.rr_eqb Wire.WireTypes.rdata_eqb Wire.WireTypes.question_eqb
  Zone.ZoneModel.zone_new Zone.ZoneModel.zone_insert Zone.ZoneModel.zone_resolve
  Zone.ZoneModel.zone_all_records Zone.ZoneModel.zone_all_wildcard_records
  Ip.IpModel.parse_ip Ip.IpModel.show_ip Ip.IpModel.ipaddr_eqb
  Hosts.HostsModel.parse_line Hosts.HostsModel.deserialise Hosts.HostsModel.serialise
  Hosts.HostsModel.hosts_merge Hosts.HostsModel.hosts_to_zone Hosts.HostsModel.from_zone_lossy
  Hosts.HostsModel.hosts_try_from Hosts.HostsModel.str_lines.
