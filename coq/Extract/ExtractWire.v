(* Extract/ExtractWire.v -- extraction roots of the "wire" model driver (C03, C04).
   ExtrOcamlBasic only; N, positive, nat stay Coq datatypes.  No Extract Constant.
   Compiled from the build directory: the .ml/.mli files land in the cwd. *)
Require Extraction.
Require Import ExtrOcamlBasic.
From RV Require Import Base.Prelude Base.Cursor Name.NameModel Wire.WireTypes Wire.WireModel.

Extraction Blacklist String List Nat Bool.
Set Extraction Optimize.

Separate Extraction
  (* what ocaml/drv_name.ml (always linked) refers to *)
  Name.NameModel.label_try_from Name.NameModel.from_labels Name.NameModel.from_dotted_string
  Name.NameModel.to_dotted_string Name.NameModel.from_relative_dotted_string
  Name.NameModel.make_subdomain_of Name.NameModel.is_subdomain_of Name.NameModel.decode_name_at
  Name.NameModel.zones_get Name.NameModel.dname_eqb
  Base.Prelude.show_dec
  (* ocaml/vrr.ml *)
  Wire.WireTypes.rr_eqb Wire.WireTypes.question_eqb
  (* the wire codec *)
  Wire.WireModel.decode Wire.WireModel.encode Wire.WireModel.werr_id.
