(* Extract/ExtractConfig.v -- extraction roots of the "config" model driver (C12, C19).
   ExtrOcamlBasic only; N stays a Coq datatype.  The NameModel roots are those
   ocaml/drv_name.ml (linked into every driver for the token syntax) refers to. *)
Require Extraction.
Require Import ExtrOcamlBasic.
From RV Require Import Base.Prelude Base.Cursor Name.NameModel Wire.WireTypes Zone.ZoneModel
     Resolver.LocalModel Config.ConfigModel.

Extraction Blacklist String List Nat Bool.
Set Extraction Optimize.

Separate Extraction
  Name.NameModel.label_try_from Name.NameModel.from_labels Name.NameModel.from_dotted_string
  Name.NameModel.to_dotted_string Name.NameModel.from_relative_dotted_string
  Name.NameModel.make_subdomain_of Name.NameModel.is_subdomain_of Name.NameModel.decode_name_at
  Name.NameModel.zones_get Name.NameModel.dname_eqb Name.NameModel.root_domain
  Base.Prelude.show_dec
  Wire.WireTypes.rr_eqb Wire.WireTypes.rdata_eqb Wire.WireTypes.question_eqb
  Zone.ZoneModel.zone_new Zone.ZoneModel.zone_insert Zone.ZoneModel.zone_resolve
  Zone.ZoneModel.zone_all_records Zone.ZoneModel.zone_all_wildcard_records
  Zone.ZoneModel.zone_is_authoritative Zone.ZoneModel.zone_soa_rr Zone.ZoneModel.soa_to_rdata
  Zone.ZoneModel.zones_insert Zone.ZoneModel.zones_insert_merge Zone.ZoneModel.zones_resolve
  Resolver.LocalModel.resolve_authoritative_only
  Config.ConfigModel.hosts_of_entries Config.ConfigModel.hosts_merge Config.ConfigModel.hosts_to_zone
  Config.ConfigModel.ZoneFile Config.ConfigModel.HostsFile
  Config.ConfigModel.get_files_from_dir Config.ConfigModel.zone_file_seq Config.ConfigModel.hosts_file_seq
  Config.ConfigModel.load_res Config.ConfigModel.load Config.ConfigModel.start Config.ConfigModel.reload
  Config.ConfigModel.query Config.ConfigModel.run.
