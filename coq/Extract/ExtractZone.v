(* Extract/ExtractZone.v -- extraction roots of the "zone" model driver (C02, zone part of C12).
   ExtrOcamlBasic only; N stays a Coq datatype.  The NameModel roots are those
   ocaml/drv_name.ml (linked into every driver for the token syntax) refers to. *)
Require Extraction.
Require Import ExtrOcamlBasic.
From RV Require Import Base.Prelude Base.Cursor Name.NameModel Name.NameSpec Wire.WireTypes Zone.ZoneModel Zone.ZoneFlat.

Extraction Blacklist String List Nat Bool.
Set Extraction Optimize.

Separate Extraction
  Name.NameModel.label_try_from Name.NameModel.from_labels Name.NameModel.from_dotted_string
  Name.NameModel.to_dotted_string Name.NameModel.from_relative_dotted_string
  Name.NameModel.make_subdomain_of Name.NameModel.is_subdomain_of Name.NameModel.decode_name_at
  Name.NameModel.zones_get Name.NameModel.dname_eqb
  Base.Prelude.show_dec
  Wire.WireTypes.rr_eqb Wire.WireTypes.rdata_eqb Wire.WireTypes.question_eqb
  Zone.ZoneModel.zone_new Zone.ZoneModel.zone_insert Zone.ZoneModel.zone_merge Zone.ZoneModel.zone_resolve
  Zone.ZoneModel.zone_all_records Zone.ZoneModel.zone_all_wildcard_records
  Zone.ZoneModel.zone_is_authoritative Zone.ZoneModel.zone_soa_rr Zone.ZoneModel.soa_to_rdata
  Zone.ZoneModel.zones_insert Zone.ZoneModel.zones_insert_merge Zone.ZoneModel.zones_resolve
  Zone.ZoneFlat.flat_resolve Zone.ZoneFlat.flat_of_ops Zone.ZoneFlat.fz_merge Zone.ZoneFlat.rel_path
  Zone.ZoneFlat.no_occlusionb Zone.ZoneFlat.zres_equivb Zone.ZoneFlat.zone_build.
