(* Extract/ExtractLocal.v -- extraction roots of the "local" model driver (local part of
   C01 and C10): zones (ZoneModel), the cache read through CacheModel, resolve_local
   (LocalModel).  ExtrOcamlBasic only; N stays a Coq datatype.  The NameModel roots are
   those ocaml/drv_name.ml (linked into every driver for the token syntax) refers to. *)
Require Extraction.
Require Import ExtrOcamlBasic.
From RV Require Import Base.Prelude Base.Cursor Name.NameModel Wire.WireTypes Cache.CacheModel
     Zone.ZoneModel Resolver.LocalModel.

Extraction Blacklist String List Nat Bool.
Set Extraction Optimize.

Separate Extraction
  Name.NameModel.label_try_from Name.NameModel.from_labels Name.NameModel.from_dotted_string
  Name.NameModel.to_dotted_string Name.NameModel.from_relative_dotted_string
  Name.NameModel.make_subdomain_of Name.NameModel.is_subdomain_of Name.NameModel.decode_name_at
  Name.NameModel.zones_get Name.NameModel.dname_eqb
  Base.Prelude.show_dec
  Wire.WireTypes.rr_eqb Wire.WireTypes.rdata_eqb Wire.WireTypes.question_eqb
  Cache.CacheModel.cache_new Cache.CacheModel.shared_insert Cache.CacheModel.get
  Zone.ZoneModel.zone_new Zone.ZoneModel.zone_insert Zone.ZoneModel.zones_insert
  Zone.ZoneModel.zones_resolve
  Resolver.LocalModel.resolve_local Resolver.LocalModel.LOCAL_FUEL
  Resolver.LocalModel.resolve_authoritative_only Resolver.LocalModel.resolved_of_lresult.
