(* Extract/ExtractCache.v -- extraction roots of the "cache" model driver (C05, C15).
   ExtrOcamlBasic only; N stays a Coq datatype.  The NameModel roots are those
   ocaml/drv_name.ml (linked into every driver for the token syntax) refers to. *)
Require Extraction.
Require Import ExtrOcamlBasic.
From RV Require Import Base.Prelude Base.Cursor Name.NameModel Wire.WireTypes Cache.CacheModel.

Extraction Blacklist String List Nat Bool.
Set Extraction Optimize.

Separate Extraction
  Name.NameModel.label_try_from Name.NameModel.from_labels Name.NameModel.from_dotted_string
  Name.NameModel.to_dotted_string Name.NameModel.from_relative_dotted_string
  Name.NameModel.make_subdomain_of Name.NameModel.is_subdomain_of Name.NameModel.decode_name_at
  Name.NameModel.zones_get Name.NameModel.dname_eqb
  Base.Prelude.show_dec
  Wire.WireTypes.rr_eqb Wire.WireTypes.rdata_eqb Wire.WireTypes.question_eqb
  Cache.CacheModel.with_desired_size Cache.CacheModel.cache_new Cache.CacheModel.tb_first
  Cache.CacheModel.step Cache.CacheModel.run Cache.CacheModel.prune.
