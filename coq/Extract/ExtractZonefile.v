(* Extract/ExtractZonefile.v -- extraction roots of the "zonefile" model driver (C11, C13,
   C17): the zone-file parser and serialiser models instantiated with an address codec
   (ZoneFile/ZfInstance.v: std's address parsers and printers from Ip/IpModel.v).  ExtrOcamlBasic only; N stays a Coq datatype.  The NameModel
   roots are those ocaml/drv_name.ml (linked into every driver for the token syntax)
   refers to. *)
Require Extraction.
Require Import ExtrOcamlBasic.
From RV Require Import Base.Prelude Base.Cursor Name.NameModel Wire.WireTypes Zone.ZoneModel Ip.IpModel ZoneFile.ZoneFileModel ZoneFile.ZoneSerialiseModel ZoneFile.ZfInstance.

Extraction Blacklist String List Nat Bool.
Set Extraction Optimize.

Separate Extraction
  Name.NameModel.label_try_from Name.NameModel.from_labels Name.NameModel.from_dotted_string
  Name.NameModel.to_dotted_string Name.NameModel.from_relative_dotted_string
  Name.NameModel.make_subdomain_of Name.NameModel.is_subdomain_of Name.NameModel.decode_name_at
  Name.NameModel.zones_get Name.NameModel.dname_eqb
  Base.Prelude.show_dec
  Wire.WireTypes.rr_eqb Wire.WireTypes.rdata_eqb Wire.WireTypes.question_eqb
  Zone.ZoneModel.zone_new Zone.ZoneModel.zone_insert
  Zone.ZoneModel.zone_all_records Zone.ZoneModel.zone_all_wildcard_records
  Zone.ZoneModel.zone_is_authoritative Zone.ZoneModel.soa_to_rdata
  ZoneFile.ZoneFileModel.tokenise_entry
  ZoneFile.ZfInstance.zf_deserialise ZoneFile.ZfInstance.zf_serialise.
