(* Extract/Extract.v -- the single extraction file (DESIGN 8).
   ExtrOcamlBasic only: bool, option, unit, list, prod, sumbool, comparison map
   to OCaml's types; N, positive, nat stay Coq datatypes.  No Extract Constant.
   Compiled from the build directory: the .ml/.mli files land in the cwd. *)
Require Extraction.
Require Import ExtrOcamlBasic.
From RV Require Import Base.Prelude Base.Cursor Name.NameModel.

Extraction Blacklist String List Nat Bool.
Set Extraction Optimize.

Separate Extraction
  Name.NameModel.label_try_from Name.NameModel.from_labels Name.NameModel.from_dotted_string
  Name.NameModel.to_dotted_string Name.NameModel.from_relative_dotted_string
  Name.NameModel.make_subdomain_of Name.NameModel.is_subdomain_of Name.NameModel.decode_name_at
  Name.NameModel.zones_get Name.NameModel.dname_eqb
  Base.Prelude.show_dec.
