(* Extract/ExtractValidate.v -- extraction roots of the "validate" model driver (C06).
   ExtrOcamlBasic only; N, positive, nat stay Coq datatypes.  No Extract Constant.
   Compiled from the build directory: the .ml/.mli files land in the cwd. *)
Require Extraction.
Require Import ExtrOcamlBasic.
From RV Require Import Base.Prelude Base.Cursor Name.NameModel Wire.WireTypes Wire.WireModel
     Resolver.LocalModel Resolver.ValidateModel Resolver.GateModel.

Extraction Blacklist String List Nat Bool.
Set Extraction Optimize.

Separate Extraction
  (* what ocaml/drv_name.ml (always linked) refers to *)
  Name.NameModel.label_try_from Name.NameModel.from_labels Name.NameModel.from_dotted_string
  Name.NameModel.to_dotted_string Name.NameModel.from_relative_dotted_string
  Name.NameModel.make_subdomain_of Name.NameModel.is_subdomain_of Name.NameModel.decode_name_at
  Name.NameModel.zones_get Name.NameModel.dname_eqb
  Base.Prelude.show_dec
  (* ocaml/vrr.ml, ocaml/vmsg.ml *)
  Wire.WireTypes.rr_eqb Wire.WireTypes.question_eqb Wire.WireTypes.make_response Wire.WireTypes.from_question
  (* the wire codec (the replies of the Q op are encoded by the model's encoder) *)
  Wire.WireModel.decode Wire.WireModel.encode Wire.WireModel.werr_id
  (* the filter and the gate *)
  Resolver.ValidateModel.validate_nameserver_response Resolver.ValidateModel.get_nxdomain_nodata_soa
  Resolver.ValidateModel.response_matches_request Resolver.ValidateModel.follow_cnames
  Resolver.ValidateModel.get_better_ns_names Resolver.ValidateModel.get_ip
  Resolver.GateModel.query_nameserver.
