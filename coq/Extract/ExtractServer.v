(* Extract/ExtractServer.v -- extraction roots of the "server" model driver (C09):
   the wire codec, zones, resolve_local, the server model and its framing.
   ExtrOcamlBasic only; N stays a Coq datatype.  The NameModel roots are those
   ocaml/drv_name.ml (linked into every driver for the token syntax) refers to. *)
Require Extraction.
Require Import ExtrOcamlBasic.
From RV Require Import Base.Prelude Base.Cursor Name.NameModel Wire.WireTypes Wire.WireModel
     Zone.ZoneModel Resolver.LocalModel Server.ServerModel.

Extraction Blacklist String List Nat Bool.
Set Extraction Optimize.

Separate Extraction
  Name.NameModel.label_try_from Name.NameModel.from_labels Name.NameModel.from_dotted_string
  Name.NameModel.to_dotted_string Name.NameModel.from_relative_dotted_string
  Name.NameModel.make_subdomain_of Name.NameModel.is_subdomain_of Name.NameModel.decode_name_at
  Name.NameModel.zones_get Name.NameModel.dname_eqb Name.NameModel.root_domain
  Base.Prelude.show_dec
  Wire.WireTypes.rr_eqb Wire.WireTypes.rdata_eqb Wire.WireTypes.question_eqb
  Wire.WireTypes.make_response Wire.WireTypes.make_format_error_response
  Wire.WireModel.decode Wire.WireModel.encode Wire.WireModel.werr_id
  Zone.ZoneModel.zone_new Zone.ZoneModel.zone_insert Zone.ZoneModel.zones_insert
  Zone.ZoneModel.zones_insert_merge Zone.ZoneModel.zones_resolve
  Resolver.LocalModel.resolve_authoritative_only
  Server.ServerModel.triage Server.ServerModel.handle_raw_message
  Server.ServerModel.send_udp_bytes_to Server.ServerModel.send_tcp_bytes
  Server.ServerModel.read_tcp_bytes Server.ServerModel.serve_udp Server.ServerModel.serve_tcp
  Server.ServerModel.udp_reply_message Server.ServerModel.tcp_reply_message
  Server.ServerModel.reply_unserialisable Server.ServerModel.resolve_dead_upstream.
