(* Extract/ExtractResolver.v -- extraction roots of the "resolver" model driver
   (C07, C08, C18; network-mode clauses of C01/C10): zones, the resolver models
   over SimpleCache, the universe (serve, auth_answer) and the table oracle.
   ExtrOcamlBasic only; N, positive, nat stay Coq datatypes.  The NameModel roots
   are those ocaml/drv_name.ml (linked into every driver) refers to. *)
Require Extraction.
Require Import ExtrOcamlBasic.
From RV Require Import Base.Prelude Base.Cursor Name.NameModel Wire.WireTypes Wire.WireModel
     Zone.ZoneModel Resolver.LocalModel Resolver.ValidateModel Resolver.TransportModel
     Resolver.RecursiveModel Resolver.ForwardingModel Resolver.Universe.

Extraction Blacklist String List Nat Bool.
Set Extraction Optimize.

Separate Extraction
  Name.NameModel.label_try_from Name.NameModel.from_labels Name.NameModel.from_dotted_string
  Name.NameModel.to_dotted_string Name.NameModel.from_relative_dotted_string
  Name.NameModel.make_subdomain_of Name.NameModel.is_subdomain_of Name.NameModel.decode_name_at
  Name.NameModel.zones_get Name.NameModel.dname_eqb
  Base.Prelude.show_dec
  Wire.WireTypes.rr_eqb Wire.WireTypes.rdata_eqb Wire.WireTypes.question_eqb
  Wire.WireModel.decode Wire.WireModel.encode
  Zone.ZoneModel.zone_new Zone.ZoneModel.zone_insert Zone.ZoneModel.zones_insert
  Resolver.TransportModel.tstate_init Resolver.TransportModel.tstate_next Resolver.TransportModel.ts_log
  Resolver.RecursiveModel.RESOLVER_FUEL Resolver.RecursiveModel.sort_names_ord
  Resolver.ForwardingModel.resolve_simple Resolver.ForwardingModel.sc_empty
  Resolver.ForwardingModel.sc_insert_all Resolver.ForwardingModel.sc_get
  Resolver.Universe.serve Resolver.Universe.auth_answer Resolver.Universe.consistentb
  Resolver.Universe.table_oracle Resolver.Universe.universe_oracle.
