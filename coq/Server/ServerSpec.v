(* Server/ServerSpec.v -- what property C09 says, written without reference to how
   main.rs / util/net.rs compute it: predicates on (request octets, reply) and on
   (message octets, framed octets).  Short and declarative; the theorems in
   ServerProofs.v connect it with Server/ServerModel.v. *)
From RV Require Import Base.Prelude Name.NameModel Wire.WireTypes Wire.WireModel
     Zone.ZoneModel Resolver.LocalModel.

(* the ID a sender put on its message: the first two octets, big endian *)
Definition wire_id (bs : list byte) : option N :=
  match bs with a :: b :: _ => Some (a * 256 + b) | _ => None end.

(* "a message flagged as a response or too short to hold an ID" *)
Definition silent_input (bs : list byte) : Prop :=
  llen bs < 2 \/ exists m, decode bs = Ok m /\ h_qr (m_header m) = true.

(* a parseable query *)
Definition query_of (bs : list byte) (m : message) : Prop :=
  decode bs = Ok m /\ h_qr (m_header m) = false.

(* RFC 1035 codes this server knows: the 18 record types, AXFR MAILB MAILA *;
   classes IN and * *)
Definition KNOWN_QTYPES : list N := [1;2;3;4;5;6;7;8;9;10;11;12;13;14;15;16;28;33;252;253;254;255].
Definition KNOWN_QCLASSES : list N := [1;255].

(* "several questions or an unknown type or class" *)
Definition must_refuse (m : message) : Prop :=
  (exists q1 q2 rest, m_questions m = q1 :: q2 :: rest)
  \/ (exists q, m_questions m = [q] /\ (~ In (q_type q) KNOWN_QTYPES \/ ~ In (q_class q) KNOWN_QCLASSES)).

(* "the answer and authority sections, AA and RCODE are those the resolver produced":
   the table from resolver result to (answers, authority, AA, RCODE) *)
Definition outcome := (list rr * list rr * bool * N)%type.

Definition spec_outcome (r : res rerror resolved) : outcome :=
  match r with
  | Ok (Authoritative rrs soa) => (rrs, [soa], true, RCODE_NoError)
  | Ok (AuthoritativeNameError soa) => ([], [soa], true, RCODE_NameError)
  | Ok (NonAuthoritative [] None) => ([], [], false, RCODE_ServerFailure)       (* nothing was resolved *)
  | Ok (NonAuthoritative rrs None) => (rrs, [], false, RCODE_NoError)
  | Ok (NonAuthoritative rrs (Some soa)) => (rrs, [soa], false, RCODE_NoError)
  | _ => ([], [], false, RCODE_ServerFailure)                                    (* resolution failed *)
  end.

Definition outcome_of (m : message) : outcome :=
  (m_answers m, m_authority m, h_aa (m_header m), h_rcode (m_header m)).

(* ---- a reply that does not fit the wire format ---- *)

(* "a reply that cannot be serialised is answered with SERVFAIL": [f] stands in for the reply
   [r] -- same id, QR, opcode, TC, RD, RA and questions; AA clear, RCODE SERVFAIL, no records *)
Definition servfail_of (r f : message) : Prop :=
  h_id (m_header f) = h_id (m_header r) /\ h_qr (m_header f) = h_qr (m_header r)
  /\ h_opcode (m_header f) = h_opcode (m_header r) /\ h_tc (m_header f) = h_tc (m_header r)
  /\ h_rd (m_header f) = h_rd (m_header r) /\ h_ra (m_header f) = h_ra (m_header r)
  /\ h_aa (m_header f) = false /\ h_rcode (m_header f) = RCODE_ServerFailure
  /\ m_questions f = m_questions r
  /\ m_answers f = [] /\ m_authority f = [] /\ m_additional f = [].

(* the message that goes on the wire for the reply [r]: [r] itself when it can be serialised,
   its SERVFAIL stand-in when it cannot *)
Definition sent_for (r sent : message) : Prop :=
  ((exists bs, encode r = Ok bs) /\ sent = r)
  \/ ((exists e, encode r = Err e) /\ servfail_of r sent).

(* ---- framing ---- *)

(* TC is bit 1 of octet 2 *)
Definition tc_of (bs : list byte) : bool :=
  match bs with _ :: _ :: c :: _ => N.testbit c 1 | _ => false end.

(* equal octet strings except, possibly, for the TC bit of octet 2
   ([N.ldiff c 2] is c with bit 1 cleared) *)
Definition same_but_tc (a b : list byte) : Prop :=
  a = b \/ exists x y c c' t, a = x :: y :: c :: t /\ b = x :: y :: c' :: t
                              /\ N.ldiff c 2 = N.ldiff c' 2.

(* a UDP datagram [out] carrying the serialised message [bs] *)
Definition udp_framed (bs out : list byte) : Prop :=
  llen out <= 512
  /\ same_but_tc out (firstn (N.to_nat 512) bs)
  /\ (tc_of out = true <-> 512 < llen bs).

(* the octets [out] written on a TCP stream for the serialised message [bs] *)
Definition tcp_framed (bs out : list byte) : Prop :=
  exists hi lo payload,
    out = hi :: lo :: payload
    /\ hi < 256 /\ lo < 256
    /\ hi * 256 + lo = llen payload
    /\ same_but_tc payload (firstn (N.to_nat 65535) bs)
    /\ (tc_of payload = true <-> 65535 < llen bs).

(* ---- the answer section ---- *)

(* names reachable from the question name through CNAME records of the section *)
Inductive on_chain (qname : dname) (rrs : list rr) : dname -> Prop :=
| oc_start : on_chain qname rrs qname
| oc_step n r t : on_chain qname rrs n -> In r rrs -> rr_name r = n -> rr_type r = RT_CNAME ->
                  rr_data r = RD_Name t -> on_chain qname rrs t.

(* "an answer section holds only records for the question name or its CNAME chain" *)
Definition answers_on_chain (q : question) (answers : list rr) : Prop :=
  Forall (fun r => on_chain (q_name q) answers (rr_name r)) answers.

(* the known finding F12: the question is at or below a delegation point of an
   authoritative local zone (Zones::resolve gives a Delegation and the zone has a SOA) *)
Definition Known_referral (zs : zones) (q : question) : Prop :=
  exists zone ns_rrs soa_rr,
    zones_resolve zs (q_name q) (q_type q) = Some (zone, Ok (ZDelegation ns_rrs))
    /\ zone_soa_rr zone = Some soa_rr.
