(* Server/ServerProofs.v -- lemmas connecting Server/ServerModel.v with Server/ServerSpec.v
   (property C09). *)
From RV Require Import Base.Prelude Base.Cursor Name.NameModel Wire.WireTypes Wire.WireModel
     Wire.WireDecodeProofs Zone.ZoneModel Resolver.LocalModel Server.ServerModel Server.ServerSpec.

(* ------------------------------------------------------------------ *)
(* small facts                                                         *)
(* ------------------------------------------------------------------ *)

Lemma wire_id_first bs : wire_id bs = first_u16 bs.
Proof. destruct bs as [|a [|b t]]; reflexivity. Qed.

Lemma id_of_prefix_wire_id bs : id_of_prefix bs = wire_id bs.
Proof. destruct bs as [|a [|b t]]; reflexivity. Qed.

Lemma llen_lt2 {A} (l : list A) : llen l < 2 <-> (l = [] \/ exists a, l = [a]).
Proof.
  destruct l as [|a [|b t]]; unfold llen; cbn [length]; split; intro H; try lia; eauto.
  - destruct H as [H|[x H]]; discriminate H.
Qed.

Lemma wire_id_none bs : wire_id bs = None <-> llen bs < 2.
Proof.
  rewrite llen_lt2. destruct bs as [|a [|b t]]; cbn [wire_id]; split; intro H; eauto; try discriminate.
  destruct H as [H|[x H]]; discriminate H.
Qed.

(* a message that decodes carries the first two octets as its id *)
Lemma decode_ok_id bs m : decode bs = Ok m -> wire_id bs = Some (h_id (m_header m)).
Proof.
  intro H. pose proof (decode_header_id bs) as Hid. unfold decode in H.
  destruct (decode_header (cur_new bs)) as [[h c0]| | |]; cbn [bind] in H; try discriminate.
  cbv zeta in H.
  repeat match type of H with
         | bind ?r _ = Ok _ => destruct r as [[? ?]| | |]; cbn [bind] in H; try discriminate
         end.
  injection H as <-. cbn [m_header]. rewrite wire_id_first. exact Hid.
Qed.

(* ------------------------------------------------------------------ *)
(* which type and class codes are refused                              *)
(* ------------------------------------------------------------------ *)

Lemma existsb_fst {B} (t : N) (tbl : list (N * B)) :
  existsb (fun p => N.eqb (fst p) t) tbl = existsb (fun x => N.eqb x t) (map fst tbl).
Proof. induction tbl as [|p tbl IH]; cbn [existsb map]; [reflexivity|]. rewrite IH. reflexivity. Qed.

Lemma existsb_In (t : N) (l : list N) : existsb (fun x => N.eqb x t) l = true <-> In t l.
Proof.
  rewrite existsb_exists. split.
  - intros (x & Hin & Hx). apply N.eqb_eq in Hx. subst. exact Hin.
  - intro Hin. exists t. split; [exact Hin|apply N.eqb_refl].
Qed.

Lemma rtype_codes : map fst rtype_table = [1;2;3;4;5;6;7;8;9;10;11;12;13;14;15;16;28;33].
Proof. reflexivity. Qed.
Lemma qtype_codes : map fst qtype_table = [252;253;254;255].
Proof. reflexivity. Qed.

Lemma qtype_unknown_spec t : qtype_is_unknown t = true <-> ~ In t KNOWN_QTYPES.
Proof.
  unfold qtype_is_unknown, rtype_is_unknown, rtype_known.
  rewrite !existsb_fst, rtype_codes, qtype_codes, andb_true_iff, !negb_true_iff.
  rewrite <- !not_true_iff_false, !existsb_In.
  unfold KNOWN_QTYPES. cbn [In]. intuition (subst; try discriminate; auto 30).
Qed.

Lemma qclass_unknown_spec c : qclass_is_unknown c = true <-> ~ In c KNOWN_QCLASSES.
Proof.
  unfold qclass_is_unknown, rclass_is_unknown, QC_Wildcard, RC_IN, KNOWN_QCLASSES.
  rewrite andb_true_iff, !negb_true_iff, !N.eqb_neq. cbn [In]. intuition auto.
Qed.

Lemma question_unknown_spec q :
  question_is_unknown q = true <-> (~ In (q_type q) KNOWN_QTYPES \/ ~ In (q_class q) KNOWN_QCLASSES).
Proof.
  unfold question_is_unknown. rewrite orb_true_iff, qtype_unknown_spec, qclass_unknown_spec. reflexivity.
Qed.

Lemma triage_refused m : (exists why, triage m = TRefused why) <-> must_refuse m.
Proof.
  unfold triage, must_refuse. destruct (m_questions m) as [|q [|q2 rest]].
  - split; [intros (w & H); discriminate H|].
    intros [(a & b & r & H)|(a & H & _)]; discriminate H.
  - destruct (question_is_unknown q) eqn:E.
    + split; [intros _|eauto]. right. exists q. split; [reflexivity|]. apply question_unknown_spec. exact E.
    + split; [intros (w & H); discriminate H|].
      intros [(a & b & r & H)|(a & H & Hu)]; [discriminate H|]. injection H as <-.
      apply question_unknown_spec in Hu. congruence.
  - split; [intros _|eauto]. left. eauto.
Qed.

(* ------------------------------------------------------------------ *)
(* resolve_and_build_response and handle_raw_message                   *)
(* ------------------------------------------------------------------ *)

Section Srv.
  Variable authoritative_only : bool.
  Variable resolve : bool -> question -> res rerror resolved.
  (* a panic inside the resolver kills the task that handles the message: the
     statements below are about a resolver that returns *)
  Hypothesis resolve_returns : forall r q, resolve r q <> Panic /\ resolve r q <> OutOfFuel.

  Notation rabr := (resolve_and_build_response authoritative_only resolve).
  Notation handle := (handle_raw_message authoritative_only resolve).

  (* what every reply built by resolve_and_build_response has in common with the query *)
  Definition echoes (query r : message) : Prop :=
    h_id (m_header r) = h_id (m_header query)
    /\ h_qr (m_header r) = true
    /\ h_opcode (m_header r) = h_opcode (m_header query)
    /\ h_rd (m_header r) = h_rd (m_header query)
    /\ h_tc (m_header r) = false
    /\ m_questions r = m_questions query
    /\ m_additional r = [].

  Lemma rabr_shape query :
    exists r, rabr query = Ok r /\ echoes query r /\ h_ra (m_header r) = negb authoritative_only
              /\ match triage query with
                 | TRefused _ => outcome_of r = ([], [], false, RCODE_Refused)
                 | TNone => outcome_of r = ([], [], false, RCODE_ServerFailure)
                 | TOne q => outcome_of r =
                             spec_outcome (resolve (h_rd (m_header query) && negb authoritative_only) q)
                 end.
  Proof.
    unfold resolve_and_build_response.
    destruct (triage query) as [|q|why]; cbn [bind].
    - eexists. split; [reflexivity|]. unfold echoes. cbn. auto 10.
    - cbn [set_ra make_response with_header m_header h_ra].
      destruct (resolve_returns (h_rd (m_header query) && negb authoritative_only) q) as [Hp Hf].
      destruct (resolve (h_rd (m_header query) && negb authoritative_only) q) as [r|e| |];
        [| |congruence|congruence]; cbn [bind].
      + destruct r as [rrs soa|soa|rrs [soa|]]; (eexists; split; [reflexivity|]).
        * unfold echoes. cbn. destruct rrs; cbn; auto 10.
        * unfold echoes. cbn. auto 10.
        * unfold echoes. cbn. destruct rrs; cbn; auto 10.
        * unfold echoes. destruct rrs; cbn; auto 10.
      + eexists; split; [reflexivity|]. unfold echoes. cbn. auto 10.
    - eexists. split; [reflexivity|]. unfold echoes. cbn. auto 10.
  Qed.

  (* ---- reply_or_silence ---- *)
  Theorem reply_or_silence bs :
    bytes_ok bs ->
    (silent_input bs /\ handle bs = Ok None)
    \/ (~ silent_input bs
        /\ exists r, handle bs = Ok (Some r)
                     /\ h_qr (m_header r) = true
                     /\ wire_id bs = Some (h_id (m_header r))).
  Proof.
    intro Hbs. unfold handle_raw_message.
    destruct (decode_total bs Hbs) as [Hp Hf].
    destruct (decode bs) as [m|e| |] eqn:E; [| |congruence|congruence].
    - pose proof (decode_ok_id _ _ E) as Hid.
      destruct (h_qr (m_header m)) eqn:Eqr.
      + left. split; [right; eauto|reflexivity].
      + right. split.
        * intros [Hs|(m' & Hm' & Hq)].
          { apply wire_id_none in Hs. congruence. }
          { rewrite E in Hm'. injection Hm' as <-. congruence. }
        * destruct (h_opcode (m_header m) =? OPCODE_Standard).
          { destruct (rabr_shape m) as (r & Hr & (Hi & Hq & _) & _). rewrite Hr. cbn [bind].
            exists r. repeat split; [exact Hq|]. rewrite Hid, Hi. reflexivity. }
          { eexists. split; [reflexivity|]. cbn. auto. }
    - pose proof (decode_err_first _ _ E) as Ee. rewrite <- wire_id_first in Ee. rewrite Ee.
      destruct (wire_id bs) as [id|] eqn:Ew; cbn [option_map].
      + right. split.
        * intros [Hs|(m' & Hm' & _)].
          { apply wire_id_none in Hs. congruence. }
          { congruence. }
        * eexists. split; [reflexivity|]. cbn. auto.
      + left. split; [left; apply wire_id_none; exact Ew|reflexivity].
  Qed.

  (* handle_raw_message on a parseable query *)
  Lemma handle_query bs m :
    query_of bs m ->
    handle bs = if h_opcode (m_header m) =? OPCODE_Standard
                then match rabr m with Ok r => Ok (Some r) | Err e => Err e | Panic => Panic | OutOfFuel => OutOfFuel end
                else Ok (Some (set_rcode RCODE_NotImplemented (make_response m))).
  Proof.
    intros [Hd Hq]. unfold handle_raw_message. rewrite Hd, Hq.
    destruct (h_opcode (m_header m) =? OPCODE_Standard); [|reflexivity].
    destruct (rabr m); reflexivity.
  Qed.

  (* ---- reply_echo: opcode, RD and the questions of a parseable query come back ---- *)
  Theorem reply_echo bs m r :
    query_of bs m -> handle bs = Ok (Some r) ->
    h_opcode (m_header r) = h_opcode (m_header m)
    /\ h_rd (m_header r) = h_rd (m_header m)
    /\ m_questions r = m_questions m.
  Proof.
    intros Hq H. rewrite (handle_query _ _ Hq) in H.
    destruct (h_opcode (m_header m) =? OPCODE_Standard).
    - destruct (rabr_shape m) as (r' & Hr & (_ & _ & Ho & Hrd & _ & Hqs & _) & _).
      rewrite Hr in H. injection H as <-. auto.
    - injection H as <-. cbn. auto.
  Qed.

  (* ---- formerr_on_garbage ---- *)
  Theorem formerr_on_garbage bs e :
    decode bs = Err e -> 2 <= llen bs ->
    exists r, handle bs = Ok (Some r)
              /\ h_rcode (m_header r) = RCODE_FormatError
              /\ h_qr (m_header r) = true
              /\ wire_id bs = Some (h_id (m_header r))
              /\ m_questions r = [] /\ m_answers r = [] /\ m_authority r = [] /\ m_additional r = [].
  Proof.
    intros E Hl. unfold handle_raw_message. rewrite E.
    pose proof (decode_err_first _ _ E) as Ee. rewrite <- wire_id_first in Ee. rewrite Ee.
    destruct (wire_id bs) as [id|] eqn:Ew.
    - eexists. split; [reflexivity|]. cbn. auto 10.
    - apply wire_id_none in Ew. lia.
  Qed.

  (* ---- notimp_on_opcode ---- *)
  Theorem notimp_on_opcode bs m :
    query_of bs m -> h_opcode (m_header m) <> OPCODE_Standard ->
    exists r, handle bs = Ok (Some r)
              /\ h_rcode (m_header r) = RCODE_NotImplemented
              /\ m_answers r = [] /\ m_authority r = [] /\ m_additional r = [].
  Proof.
    intros Hq Ho. rewrite (handle_query _ _ Hq).
    apply N.eqb_neq in Ho. rewrite Ho. eexists. split; [reflexivity|]. cbn. auto.
  Qed.

  (* the reply to a standard query, with what resolve_and_build_response guarantees *)
  Lemma handle_standard bs m :
    query_of bs m -> h_opcode (m_header m) = OPCODE_Standard ->
    exists r, handle bs = Ok (Some r) /\ rabr m = Ok r.
  Proof.
    intros Hq Ho. rewrite (handle_query _ _ Hq). apply N.eqb_eq in Ho. rewrite Ho.
    destruct (rabr_shape m) as (r & Hr & _). rewrite Hr. eauto.
  Qed.

  Lemma spec_outcome_not_refused x : snd (spec_outcome x) <> RCODE_Refused.
  Proof.
    destruct x as [[rrs soa|soa|[|r rrs] [soa|]]|e| |]; cbn; discriminate.
  Qed.

  (* ---- refused_rules: REFUSED exactly for several questions or an unknown type or class ---- *)
  Theorem refused_rules bs m r :
    query_of bs m -> h_opcode (m_header m) = OPCODE_Standard -> handle bs = Ok (Some r) ->
    (h_rcode (m_header r) = RCODE_Refused <-> must_refuse m)
    /\ (must_refuse m -> m_answers r = [] /\ m_authority r = [] /\ h_aa (m_header r) = false).
  Proof.
    intros Hq Ho H. destruct (handle_standard _ _ Hq Ho) as (r' & H' & Hr).
    rewrite H' in H. injection H as <-.
    destruct (rabr_shape m) as (r2 & Hr2 & _ & _ & Hout). rewrite Hr in Hr2. injection Hr2 as <-.
    rewrite <- triage_refused.
    destruct (triage m) as [|q|why]; unfold outcome_of in Hout.
    - injection Hout as Ha Hau Haa Hrc. rewrite Hrc. split.
      + split; [discriminate|intros (w & Hw); discriminate Hw].
      + intros (w & Hw); discriminate Hw.
    - split.
      + split; [|intros (w & Hw); discriminate Hw].
        intro Hrc. exfalso.
        apply (spec_outcome_not_refused (resolve (h_rd (m_header m) && negb authoritative_only) q)).
        rewrite <- Hout. exact Hrc.
      + intros (w & Hw); discriminate Hw.
    - injection Hout as Ha Hau Haa Hrc. split; [split; eauto|auto].
  Qed.

  (* ---- ra_iff_recursion: on replies to standard queries RA says whether recursion is offered ---- *)
  Theorem ra_iff_recursion bs m r :
    query_of bs m -> h_opcode (m_header m) = OPCODE_Standard -> handle bs = Ok (Some r) ->
    h_ra (m_header r) = negb authoritative_only.
  Proof.
    intros Hq Ho H. destruct (handle_standard _ _ Hq Ho) as (r' & H' & Hr).
    rewrite H' in H. injection H as <-.
    destruct (rabr_shape m) as (r2 & Hr2 & _ & Hra & _). rewrite Hr in Hr2. injection Hr2 as <-. exact Hra.
  Qed.

  (* ---- sections_are_resolver_output: for one question of known type and class the answer and
     authority sections, AA and RCODE are the table [spec_outcome] of what the resolver returned,
     and the resolver was asked to recurse exactly when the query wanted it and it is offered ---- *)
  Theorem sections_are_resolver_output bs m q r :
    query_of bs m -> h_opcode (m_header m) = OPCODE_Standard ->
    m_questions m = [q] -> ~ must_refuse m -> handle bs = Ok (Some r) ->
    outcome_of r = spec_outcome (resolve (h_rd (m_header m) && negb authoritative_only) q).
  Proof.
    intros Hq Ho Hqs Hnr H. destruct (handle_standard _ _ Hq Ho) as (r' & H' & Hr).
    rewrite H' in H. injection H as <-.
    destruct (rabr_shape m) as (r2 & Hr2 & _ & _ & Hout). rewrite Hr in Hr2. injection Hr2 as <-.
    rewrite <- triage_refused in Hnr.
    unfold triage in *. rewrite Hqs in *.
    destruct (question_is_unknown q); [exfalso; eauto|exact Hout].
  Qed.

  (* no questions: nothing to resolve, SERVFAIL *)
  Lemma no_question_servfail bs m r :
    query_of bs m -> h_opcode (m_header m) = OPCODE_Standard -> m_questions m = [] ->
    handle bs = Ok (Some r) -> outcome_of r = ([], [], false, RCODE_ServerFailure).
  Proof.
    intros Hq Ho Hqs H. destruct (handle_standard _ _ Hq Ho) as (r' & H' & Hr).
    rewrite H' in H. injection H as <-.
    destruct (rabr_shape m) as (r2 & Hr2 & _ & _ & Hout). rewrite Hr in Hr2. injection Hr2 as <-.
    unfold triage in Hout. rewrite Hqs in Hout. exact Hout.
  Qed.
End Srv.
