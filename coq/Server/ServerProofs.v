(* Server/ServerProofs.v -- lemmas connecting Server/ServerModel.v with Server/ServerSpec.v
   (property C09). *)
From Coq Require Import PeanoNat.
From RV Require Import Base.Prelude Base.Cursor Name.NameModel Wire.WireTypes Wire.WireModel
     Wire.WireDecodeProofs Zone.ZoneModel Resolver.LocalModel Server.ServerModel Server.ServerSpec.
From RV Require Wire.WireGrammar Wire.WireEncodeProofs.

(* ------------------------------------------------------------------ *)
(* small facts                                                         *)
(* ------------------------------------------------------------------ *)

Lemma wire_id_first bs : wire_id bs = first_u16 bs.
Proof. destruct bs as [|a [|b t]]; reflexivity. Qed.

Lemma id_of_prefix_wire_id bs : id_of_prefix bs = wire_id bs.
Proof. destruct bs as [|a [|b t]]; reflexivity. Qed.

Lemma llen_lt2 {A} (l : list A) : llen l < 2 <-> (l = [] \/ exists a, l = [a]).
Proof.
  destruct l as [|a [|b t]]; unfold llen; cbn [length]; split; intro H; try lia; eauto.
  - destruct H as [H|[x H]]; discriminate H.
Qed.

Lemma wire_id_none bs : wire_id bs = None <-> llen bs < 2.
Proof.
  rewrite llen_lt2. destruct bs as [|a [|b t]]; cbn [wire_id]; split; intro H; eauto; try discriminate.
  destruct H as [H|[x H]]; discriminate H.
Qed.

(* a message that decodes carries the first two octets as its id *)
Lemma decode_ok_id bs m : decode bs = Ok m -> wire_id bs = Some (h_id (m_header m)).
Proof.
  intro H. pose proof (decode_header_id bs) as Hid. unfold decode in H.
  destruct (decode_header (cur_new bs)) as [[h c0]| | |]; cbn [bind] in H; try discriminate.
  cbv zeta in H.
  repeat match type of H with
         | bind ?r _ = Ok _ => destruct r as [[? ?]| | |]; cbn [bind] in H; try discriminate
         end.
  injection H as <-. cbn [m_header]. rewrite wire_id_first. exact Hid.
Qed.

(* ------------------------------------------------------------------ *)
(* which type and class codes are refused                              *)
(* ------------------------------------------------------------------ *)

Lemma existsb_fst {B} (t : N) (tbl : list (N * B)) :
  existsb (fun p => N.eqb (fst p) t) tbl = existsb (fun x => N.eqb x t) (map fst tbl).
Proof. induction tbl as [|p tbl IH]; cbn [existsb map]; [reflexivity|]. rewrite IH. reflexivity. Qed.

Lemma existsb_In (t : N) (l : list N) : existsb (fun x => N.eqb x t) l = true <-> In t l.
Proof.
  rewrite existsb_exists. split.
  - intros (x & Hin & Hx). apply N.eqb_eq in Hx. subst. exact Hin.
  - intro Hin. exists t. split; [exact Hin|apply N.eqb_refl].
Qed.

Lemma rtype_codes : map fst rtype_table = [1;2;3;4;5;6;7;8;9;10;11;12;13;14;15;16;28;33].
Proof. reflexivity. Qed.
Lemma qtype_codes : map fst qtype_table = [252;253;254;255].
Proof. reflexivity. Qed.

Lemma qtype_unknown_spec t : qtype_is_unknown t = true <-> ~ In t KNOWN_QTYPES.
Proof.
  unfold qtype_is_unknown, rtype_is_unknown, rtype_known.
  rewrite !existsb_fst, rtype_codes, qtype_codes, andb_true_iff, !negb_true_iff.
  rewrite <- !not_true_iff_false, !existsb_In.
  unfold KNOWN_QTYPES. cbn [In]. intuition (subst; try discriminate; auto 30).
Qed.

Lemma qclass_unknown_spec c : qclass_is_unknown c = true <-> ~ In c KNOWN_QCLASSES.
Proof.
  unfold qclass_is_unknown, rclass_is_unknown, QC_Wildcard, RC_IN, KNOWN_QCLASSES.
  rewrite andb_true_iff, !negb_true_iff, !N.eqb_neq. cbn [In]. intuition auto.
Qed.

Lemma question_unknown_spec q :
  question_is_unknown q = true <-> (~ In (q_type q) KNOWN_QTYPES \/ ~ In (q_class q) KNOWN_QCLASSES).
Proof.
  unfold question_is_unknown. rewrite orb_true_iff, qtype_unknown_spec, qclass_unknown_spec. reflexivity.
Qed.

Lemma triage_refused m : (exists why, triage m = TRefused why) <-> must_refuse m.
Proof.
  unfold triage, must_refuse. destruct (m_questions m) as [|q [|q2 rest]].
  - split; [intros (w & H); discriminate H|].
    intros [(a & b & r & H)|(a & H & _)]; discriminate H.
  - destruct (question_is_unknown q) eqn:E.
    + split; [intros _|eauto]. right. exists q. split; [reflexivity|]. apply question_unknown_spec. exact E.
    + split; [intros (w & H); discriminate H|].
      intros [(a & b & r & H)|(a & H & Hu)]; [discriminate H|]. injection H as <-.
      apply question_unknown_spec in Hu. congruence.
  - split; [intros _|eauto]. left. eauto.
Qed.

(* ------------------------------------------------------------------ *)
(* resolve_and_build_response and handle_raw_message                   *)
(* ------------------------------------------------------------------ *)

Section Srv.
  Variable authoritative_only : bool.
  Variable resolve : bool -> question -> res rerror resolved.
  (* a panic inside the resolver kills the task that handles the message: the
     statements below are about a resolver that returns *)
  Hypothesis resolve_returns : forall r q, resolve r q <> Panic /\ resolve r q <> OutOfFuel.

  Notation rabr := (resolve_and_build_response authoritative_only resolve).
  Notation handle := (handle_raw_message authoritative_only resolve).

  (* what every reply built by resolve_and_build_response has in common with the query *)
  Definition echoes (query r : message) : Prop :=
    h_id (m_header r) = h_id (m_header query)
    /\ h_qr (m_header r) = true
    /\ h_opcode (m_header r) = h_opcode (m_header query)
    /\ h_rd (m_header r) = h_rd (m_header query)
    /\ h_tc (m_header r) = false
    /\ m_questions r = m_questions query
    /\ m_additional r = [].

  Lemma rabr_shape query :
    exists r, rabr query = Ok r /\ echoes query r /\ h_ra (m_header r) = negb authoritative_only
              /\ match triage query with
                 | TRefused _ => outcome_of r = ([], [], false, RCODE_Refused)
                 | TNone => outcome_of r = ([], [], false, RCODE_ServerFailure)
                 | TOne q => outcome_of r =
                             spec_outcome (resolve (h_rd (m_header query) && negb authoritative_only) q)
                 end.
  Proof.
    unfold resolve_and_build_response.
    destruct (triage query) as [|q|why]; cbn [bind].
    - eexists. split; [reflexivity|]. unfold echoes. cbn. auto 10.
    - cbn [set_ra make_response with_header m_header h_ra].
      destruct (resolve_returns (h_rd (m_header query) && negb authoritative_only) q) as [Hp Hf].
      destruct (resolve (h_rd (m_header query) && negb authoritative_only) q) as [r|e| |];
        [| |congruence|congruence]; cbn [bind].
      + destruct r as [rrs soa|soa|rrs [soa|]]; (eexists; split; [reflexivity|]).
        * unfold echoes. cbn. destruct rrs; cbn; auto 10.
        * unfold echoes. cbn. auto 10.
        * unfold echoes. cbn. destruct rrs; cbn; auto 10.
        * unfold echoes. destruct rrs; cbn; auto 10.
      + eexists; split; [reflexivity|]. unfold echoes. cbn. auto 10.
    - eexists. split; [reflexivity|]. unfold echoes. cbn. auto 10.
  Qed.

  (* ---- reply_or_silence ---- *)
  Theorem reply_or_silence bs :
    bytes_ok bs ->
    (silent_input bs /\ handle bs = Ok None)
    \/ (~ silent_input bs
        /\ exists r, handle bs = Ok (Some r)
                     /\ h_qr (m_header r) = true
                     /\ wire_id bs = Some (h_id (m_header r))).
  Proof.
    intro Hbs. unfold handle_raw_message.
    destruct (decode_total bs Hbs) as [Hp Hf].
    destruct (decode bs) as [m|e| |] eqn:E; [| |congruence|congruence].
    - pose proof (decode_ok_id _ _ E) as Hid.
      destruct (h_qr (m_header m)) eqn:Eqr.
      + left. split; [right; eauto|reflexivity].
      + right. split.
        * intros [Hs|(m' & Hm' & Hq)].
          { apply wire_id_none in Hs. congruence. }
          { rewrite E in Hm'. injection Hm' as <-. congruence. }
        * destruct (h_opcode (m_header m) =? OPCODE_Standard).
          { destruct (rabr_shape m) as (r & Hr & (Hi & Hq & _) & _). rewrite Hr. cbn [bind].
            exists r. repeat split; [exact Hq|]. rewrite Hid, Hi. reflexivity. }
          { eexists. split; [reflexivity|]. cbn. auto. }
    - pose proof (decode_err_first _ _ E) as Ee. rewrite <- wire_id_first in Ee. rewrite Ee.
      destruct (wire_id bs) as [id|] eqn:Ew; cbn [option_map].
      + right. split.
        * intros [Hs|(m' & Hm' & _)].
          { apply wire_id_none in Hs. congruence. }
          { congruence. }
        * eexists. split; [reflexivity|]. cbn. auto.
      + left. split; [left; apply wire_id_none; exact Ew|reflexivity].
  Qed.

  (* handle_raw_message on a parseable query *)
  Lemma handle_query bs m :
    query_of bs m ->
    handle bs = if h_opcode (m_header m) =? OPCODE_Standard
                then match rabr m with Ok r => Ok (Some r) | Err e => Err e | Panic => Panic | OutOfFuel => OutOfFuel end
                else Ok (Some (set_rcode RCODE_NotImplemented (make_response m))).
  Proof.
    intros [Hd Hq]. unfold handle_raw_message. rewrite Hd, Hq.
    destruct (h_opcode (m_header m) =? OPCODE_Standard); [|reflexivity].
    destruct (rabr m); reflexivity.
  Qed.

  (* ---- reply_echo: opcode, RD and the questions of a parseable query come back ---- *)
  Theorem reply_echo bs m r :
    query_of bs m -> handle bs = Ok (Some r) ->
    h_opcode (m_header r) = h_opcode (m_header m)
    /\ h_rd (m_header r) = h_rd (m_header m)
    /\ m_questions r = m_questions m.
  Proof.
    intros Hq H. rewrite (handle_query _ _ Hq) in H.
    destruct (h_opcode (m_header m) =? OPCODE_Standard).
    - destruct (rabr_shape m) as (r' & Hr & (_ & _ & Ho & Hrd & _ & Hqs & _) & _).
      rewrite Hr in H. injection H as <-. auto.
    - injection H as <-. cbn. auto.
  Qed.

  (* ---- formerr_on_garbage ---- *)
  Theorem formerr_on_garbage bs e :
    decode bs = Err e -> 2 <= llen bs ->
    exists r, handle bs = Ok (Some r)
              /\ h_rcode (m_header r) = RCODE_FormatError
              /\ h_qr (m_header r) = true
              /\ wire_id bs = Some (h_id (m_header r))
              /\ m_questions r = [] /\ m_answers r = [] /\ m_authority r = [] /\ m_additional r = [].
  Proof.
    intros E Hl. unfold handle_raw_message. rewrite E.
    pose proof (decode_err_first _ _ E) as Ee. rewrite <- wire_id_first in Ee. rewrite Ee.
    destruct (wire_id bs) as [id|] eqn:Ew.
    - eexists. split; [reflexivity|]. cbn. auto 10.
    - apply wire_id_none in Ew. lia.
  Qed.

  (* ---- notimp_on_opcode ---- *)
  Theorem notimp_on_opcode bs m :
    query_of bs m -> h_opcode (m_header m) <> OPCODE_Standard ->
    exists r, handle bs = Ok (Some r)
              /\ h_rcode (m_header r) = RCODE_NotImplemented
              /\ m_answers r = [] /\ m_authority r = [] /\ m_additional r = [].
  Proof.
    intros Hq Ho. rewrite (handle_query _ _ Hq).
    apply N.eqb_neq in Ho. rewrite Ho. eexists. split; [reflexivity|]. cbn. auto.
  Qed.

  (* the reply to a standard query, with what resolve_and_build_response guarantees *)
  Lemma handle_standard bs m :
    query_of bs m -> h_opcode (m_header m) = OPCODE_Standard ->
    exists r, handle bs = Ok (Some r) /\ rabr m = Ok r.
  Proof.
    intros Hq Ho. rewrite (handle_query _ _ Hq). apply N.eqb_eq in Ho. rewrite Ho.
    destruct (rabr_shape m) as (r & Hr & _). rewrite Hr. eauto.
  Qed.

  Lemma spec_outcome_not_refused x : snd (spec_outcome x) <> RCODE_Refused.
  Proof.
    destruct x as [[rrs soa|soa|[|r rrs] [soa|]]|e| |]; cbn; discriminate.
  Qed.

  (* ---- refused_rules: REFUSED exactly for several questions or an unknown type or class ---- *)
  Theorem refused_rules bs m r :
    query_of bs m -> h_opcode (m_header m) = OPCODE_Standard -> handle bs = Ok (Some r) ->
    (h_rcode (m_header r) = RCODE_Refused <-> must_refuse m)
    /\ (must_refuse m -> m_answers r = [] /\ m_authority r = [] /\ h_aa (m_header r) = false).
  Proof.
    intros Hq Ho H. destruct (handle_standard _ _ Hq Ho) as (r' & H' & Hr).
    rewrite H' in H. injection H as <-.
    destruct (rabr_shape m) as (r2 & Hr2 & _ & _ & Hout). rewrite Hr in Hr2. injection Hr2 as <-.
    rewrite <- triage_refused.
    destruct (triage m) as [|q|why]; unfold outcome_of in Hout.
    - injection Hout as Ha Hau Haa Hrc. rewrite Hrc. split.
      + split; [discriminate|intros (w & Hw); discriminate Hw].
      + intros (w & Hw); discriminate Hw.
    - split.
      + split; [|intros (w & Hw); discriminate Hw].
        intro Hrc. exfalso.
        apply (spec_outcome_not_refused (resolve (h_rd (m_header m) && negb authoritative_only) q)).
        rewrite <- Hout. exact Hrc.
      + intros (w & Hw); discriminate Hw.
    - injection Hout as Ha Hau Haa Hrc. split; [split; eauto|auto].
  Qed.

  (* ---- ra_iff_recursion: on replies to standard queries RA says whether recursion is offered ---- *)
  Theorem ra_iff_recursion bs m r :
    query_of bs m -> h_opcode (m_header m) = OPCODE_Standard -> handle bs = Ok (Some r) ->
    h_ra (m_header r) = negb authoritative_only.
  Proof.
    intros Hq Ho H. destruct (handle_standard _ _ Hq Ho) as (r' & H' & Hr).
    rewrite H' in H. injection H as <-.
    destruct (rabr_shape m) as (r2 & Hr2 & _ & Hra & _). rewrite Hr in Hr2. injection Hr2 as <-. exact Hra.
  Qed.

  (* ---- sections_are_resolver_output: for one question of known type and class the answer and
     authority sections, AA and RCODE are the table [spec_outcome] of what the resolver returned,
     and the resolver was asked to recurse exactly when the query wanted it and it is offered ---- *)
  Theorem sections_are_resolver_output bs m q r :
    query_of bs m -> h_opcode (m_header m) = OPCODE_Standard ->
    m_questions m = [q] -> ~ must_refuse m -> handle bs = Ok (Some r) ->
    outcome_of r = spec_outcome (resolve (h_rd (m_header m) && negb authoritative_only) q).
  Proof.
    intros Hq Ho Hqs Hnr H. destruct (handle_standard _ _ Hq Ho) as (r' & H' & Hr).
    rewrite H' in H. injection H as <-.
    destruct (rabr_shape m) as (r2 & Hr2 & _ & _ & Hout). rewrite Hr in Hr2. injection Hr2 as <-.
    rewrite <- triage_refused in Hnr.
    unfold triage in *. rewrite Hqs in *.
    destruct (question_is_unknown q); [exfalso; eauto|exact Hout].
  Qed.

  (* no questions: nothing to resolve, SERVFAIL *)
  Lemma no_question_servfail bs m r :
    query_of bs m -> h_opcode (m_header m) = OPCODE_Standard -> m_questions m = [] ->
    handle bs = Ok (Some r) -> outcome_of r = ([], [], false, RCODE_ServerFailure).
  Proof.
    intros Hq Ho Hqs H. destruct (handle_standard _ _ Hq Ho) as (r' & H' & Hr).
    rewrite H' in H. injection H as <-.
    destruct (rabr_shape m) as (r2 & Hr2 & _ & _ & Hout). rewrite Hr in Hr2. injection Hr2 as <-.
    unfold triage in Hout. rewrite Hqs in Hout. exact Hout.
  Qed.
End Srv.

(* ------------------------------------------------------------------ *)
(* framing: send_udp_bytes_to, send_tcp_bytes                          *)
(* ------------------------------------------------------------------ *)

Lemma byte_sweep (P : N -> bool) :
  forallb P (map N.of_nat (seq 0 256)) = true -> forall c, c < 256 -> P c = true.
Proof.
  intros H c Hc. rewrite forallb_forall in H. apply H.
  rewrite <- (N2Nat.id c). apply in_map. apply in_seq. lia.
Qed.

Lemma tc_set_facts c : c < 256 ->
  N.testbit (N.lor c TC_SET) 1 = true /\ N.ldiff (N.lor c TC_SET) 2 = N.ldiff c 2.
Proof.
  intro Hc.
  pose proof (byte_sweep (fun c => N.testbit (N.lor c TC_SET) 1 && (N.ldiff (N.lor c TC_SET) 2 =? N.ldiff c 2))) as S.
  specialize (S eq_refl c Hc). cbv beta in S. apply andb_true_iff in S as [S1 S2].
  apply N.eqb_eq in S2. auto.
Qed.

Lemma tc_clear_facts c : c < 256 ->
  N.testbit (N.land c TC_CLEAR) 1 = false /\ N.ldiff (N.land c TC_CLEAR) 2 = N.ldiff c 2.
Proof.
  intro Hc.
  pose proof (byte_sweep (fun c => negb (N.testbit (N.land c TC_CLEAR) 1) && (N.ldiff (N.land c TC_CLEAR) 2 =? N.ldiff c 2))) as S.
  specialize (S eq_refl c Hc). cbv beta in S. apply andb_true_iff in S as [S1 S2].
  apply N.eqb_eq in S2. apply negb_true_iff in S1. auto.
Qed.

Lemma bytes_ok_firstn n : forall l, bytes_ok l -> bytes_ok (firstn n l).
Proof.
  unfold bytes_ok. induction n as [|n IH]; intros [|x l] H; cbn [firstn]; auto.
  inversion H; subst. constructor; auto.
Qed.

Lemma llen_firstn_le {A} k (l : list A) : llen (firstn (N.to_nat k) l) <= k.
Proof. unfold llen. rewrite firstn_length. lia. Qed.

Lemma llen_firstn_exact {A} k (l : list A) : k <= llen l -> llen (firstn (N.to_nat k) l) = k.
Proof. unfold llen. rewrite firstn_length. lia. Qed.

Lemma firstn_all_N {A} k (l : list A) : llen l <= k -> firstn (N.to_nat k) l = l.
Proof. unfold llen. intro H. apply firstn_all2. lia. Qed.

Lemma firstn_map_byte2 f n bs : (3 <= n)%nat -> firstn n (map_byte2 f bs) = map_byte2 f (firstn n bs).
Proof.
  intro Hn. destruct n as [|[|[|n]]]; try lia.
  destruct bs as [|x [|y [|c t]]]; reflexivity.
Qed.

Lemma llen_map_byte2 f bs : llen (map_byte2 f bs) = llen bs.
Proof. destruct bs as [|x [|y [|c t]]]; reflexivity. Qed.

Lemma same_but_tc_map f l :
  bytes_ok l -> (forall c, c < 256 -> N.ldiff (f c) 2 = N.ldiff c 2) -> same_but_tc (map_byte2 f l) l.
Proof.
  intros Hl Hf. destruct l as [|x [|y [|c t]]]; try (left; reflexivity).
  right. exists x, y, (f c), c, t. repeat split. apply Hf.
  unfold bytes_ok in Hl. inversion Hl as [|? ? _ H1]; subst. inversion H1 as [|? ? _ H2]; subst.
  inversion H2; subst. assumption.
Qed.

Lemma tc_of_map_byte2 f l (v : bool) :
  bytes_ok l -> 3 <= llen l -> (forall c, c < 256 -> N.testbit (f c) 1 = v) -> tc_of (map_byte2 f l) = v.
Proof.
  intros Hl H3 Hf. destruct l as [|x [|y [|c t]]]; try (unfold llen in H3; cbn [length] in H3; lia).
  cbn [map_byte2 tc_of]. apply Hf.
  unfold bytes_ok in Hl. inversion Hl as [|? ? _ H1]; subst. inversion H1 as [|? ? _ H2]; subst.
  inversion H2; subst. assumption.
Qed.

(* ---- udp_512_tc_exact ---- *)
Theorem udp_512_tc_exact bs :
  bytes_ok bs -> 12 <= llen bs ->
  exists out, send_udp_bytes_to bs = Ok out /\ udp_framed bs out.
Proof.
  intros Hb H12. unfold send_udp_bytes_to, MIN_MESSAGE, UDP_MAX.
  rewrite (proj2 (N.ltb_ge _ _) H12).
  destruct (512 <? llen bs) eqn:E.
  - apply N.ltb_lt in E. eexists. split; [reflexivity|]. unfold udp_framed, set_tc.
    rewrite firstn_map_byte2 by (change 3%nat with (N.to_nat 3); lia).
    split; [rewrite llen_map_byte2; apply llen_firstn_le|]. split.
    + apply same_but_tc_map; [apply bytes_ok_firstn; exact Hb|]. intros c Hc. apply tc_set_facts. exact Hc.
    + split; [intros _; exact E|intros _].
      apply tc_of_map_byte2; [apply bytes_ok_firstn; exact Hb| |intros c Hc; apply tc_set_facts; exact Hc].
      rewrite llen_firstn_exact by lia. lia.
  - apply N.ltb_ge in E. eexists. split; [reflexivity|]. unfold udp_framed, clear_tc.
    split; [rewrite llen_map_byte2; exact E|]. split.
    + rewrite (firstn_all_N 512 bs E).
      apply same_but_tc_map; [exact Hb|]. intros c Hc. apply tc_clear_facts. exact Hc.
    + rewrite (tc_of_map_byte2 _ bs false Hb); [|lia|intros c Hc; apply tc_clear_facts; exact Hc].
      split; [discriminate|lia].
Qed.

Lemma u16_bytes_split v : v < 65536 ->
  u16_hi v < 256 /\ u16_lo v < 256 /\ u16_hi v * 256 + u16_lo v = v.
Proof.
  intro Hv. unfold u16_hi, u16_lo.
  assert (v / 256 < 256) by (apply N.div_lt_upper_bound; lia).
  rewrite (N.mod_small (v / 256) 256) by assumption.
  repeat split; [assumption|apply N.mod_lt; lia|].
  rewrite (N.div_mod v 256) at 3 by lia. lia.
Qed.

(* ---- tcp_prefix_exact ---- *)
Theorem tcp_prefix_exact bs :
  bytes_ok bs -> 12 <= llen bs ->
  exists out, send_tcp_bytes bs = Ok out /\ tcp_framed bs out.
Proof.
  intros Hb H12. unfold send_tcp_bytes, MIN_MESSAGE, TCP_MAX.
  rewrite (proj2 (N.ltb_ge _ _) H12).
  destruct (llen bs <? 65536) eqn:E.
  - apply N.ltb_lt in E. eexists. split; [reflexivity|].
    destruct (u16_bytes_split (llen bs) E) as (Hh & Hl & Hv).
    unfold tcp_framed, u16_bytes. cbn [app].
    exists (u16_hi (llen bs)), (u16_lo (llen bs)), (clear_tc bs). unfold clear_tc.
    split; [reflexivity|]. split; [exact Hh|]. split; [exact Hl|].
    split; [rewrite llen_map_byte2; exact Hv|]. split.
    + rewrite (firstn_all_N 65535 bs) by lia.
      apply same_but_tc_map; [exact Hb|]. intros c Hc. apply tc_clear_facts. exact Hc.
    + rewrite (tc_of_map_byte2 _ bs false Hb); [|lia|intros c Hc; apply tc_clear_facts; exact Hc].
      split; [discriminate|lia].
  - apply N.ltb_ge in E. eexists. split; [reflexivity|].
    unfold tcp_framed. change (u16_bytes 65535) with [255; 255]. cbn [app].
    exists 255, 255, (firstn (N.to_nat 65535) (set_tc bs)). unfold set_tc.
    rewrite firstn_map_byte2 by (change 3%nat with (N.to_nat 3); lia).
    split; [reflexivity|]. split; [lia|]. split; [lia|].
    split; [rewrite llen_map_byte2, llen_firstn_exact by lia; reflexivity|]. split.
    + apply same_but_tc_map; [apply bytes_ok_firstn; exact Hb|]. intros c Hc. apply tc_set_facts. exact Hc.
    + split; [intros _; lia|intros _].
      apply tc_of_map_byte2; [apply bytes_ok_firstn; exact Hb| |intros c Hc; apply tc_set_facts; exact Hc].
      rewrite llen_firstn_exact by lia. lia.
Qed.

(* ------------------------------------------------------------------ *)
(* every serialised message has at least 12 octets: the panic!() sites  *)
(* of util/net.rs are unreachable from the listen loops                 *)
(* ------------------------------------------------------------------ *)

Definition wl (b : wbuf) : nat := length (wb_rev b).

Lemma wl_write_octets os b : wl (write_octets os b) = (length os + wl b)%nat.
Proof. unfold wl, write_octets. cbn [wb_rev]. rewrite rev_append_rev, app_length, rev_length. reflexivity. Qed.

Lemma wl_memoise n b : wl (memoise_name n b) = wl b.
Proof.
  unfold memoise_name.
  destruct (negb (is_root n) && _); [|reflexivity].
  destruct ((wb_len b <? 65536) && (wb_len b <? 16384)); reflexivity.
Qed.

Lemma wl_write_labels ls : forall b, (wl b <= wl (write_labels ls b))%nat.
Proof.
  unfold write_labels. induction ls as [|l ls IH]; intro b; cbn [fold_left]; [lia|].
  eapply Nat.le_trans; [|apply IH]. unfold write_u8. rewrite !wl_write_octets. lia.
Qed.

Lemma wl_encode_name n c b : (wl b <= wl (encode_name n c b))%nat.
Proof.
  unfold encode_name.
  destruct (if c then alookup dname_eqb n (wb_ptrs b) else None).
  - unfold write_u16. rewrite wl_write_octets. lia.
  - eapply Nat.le_trans; [|apply wl_write_labels]. rewrite wl_memoise. lia.
Qed.

Lemma wl_encode_question q b : (wl b <= wl (encode_question q b))%nat.
Proof.
  unfold encode_question, write_u16. rewrite !wl_write_octets.
  pose proof (wl_encode_name (q_name q) true b). lia.
Qed.

Lemma wl_encode_questions qs : forall b, (wl b <= wl (fold_left (fun acc q => encode_question q acc) qs b))%nat.
Proof.
  induction qs as [|q qs IH]; intro b; cbn [fold_left]; [lia|].
  eapply Nat.le_trans; [apply (wl_encode_question q b)|apply IH].
Qed.

Lemma wl_encode_rdata d b : (wl b <= wl (encode_rdata d b))%nat.
Proof.
  destruct d; cbn [encode_rdata]; unfold write_u32, write_u16; rewrite ?wl_write_octets;
    repeat match goal with
           | |- context[encode_name ?n ?c ?b] =>
             lazymatch goal with
             | _ : (wl b <= wl (encode_name n c b))%nat |- _ => fail
             | _ => pose proof (wl_encode_name n c b)
             end
           end; unfold write_u16 in *; rewrite ?wl_write_octets in *; lia.
Qed.

Lemma wl_patch at_ v b : (wl b <= wl (patch_u16 at_ v b))%nat.
Proof.
  unfold wl, patch_u16. cbn [wb_rev]. rewrite app_length. cbn [length].
  rewrite firstn_length, skipn_length. lia.
Qed.

Lemma wl_encode_rr r b b' : encode_rr r b = Ok b' -> (wl b <= wl b')%nat.
Proof.
  unfold encode_rr. cbv zeta.
  match goal with |- (if ?c then _ else _) = _ -> _ => destruct c end; [|discriminate].
  intro H. injection H as <-.
  eapply Nat.le_trans; [|apply wl_patch].
  eapply Nat.le_trans; [|apply wl_encode_rdata].
  unfold write_u16, write_u32. rewrite !wl_write_octets.
  pose proof (wl_encode_name (rr_name r) true b). lia.
Qed.

Lemma wl_encode_rrs rs : forall b b', encode_rrs rs b = Ok b' -> (wl b <= wl b')%nat.
Proof.
  induction rs as [|r rs IH]; intros b b' H; cbn [encode_rrs] in H.
  - injection H as <-. lia.
  - destruct (encode_rr r b) as [b1| | |] eqn:E; cbn [bind] in H; try discriminate.
    apply wl_encode_rr in E. apply IH in H. lia.
Qed.

Theorem encode_at_least_12 m bs : encode m = Ok bs -> 12 <= llen bs.
Proof.
  unfold encode. intro H.
  repeat match type of H with
         | bind ?r _ = Ok _ =>
           let E := fresh "E" in destruct r eqn:E; cbn [bind] in H; try discriminate
         end.
  cbv zeta in H.
  repeat match type of H with
         | bind ?r _ = Ok _ =>
           let E := fresh "E" in destruct r eqn:E; cbn [bind] in H; try discriminate
         end.
  injection H as <-.
  repeat match goal with E : encode_rrs _ _ = Ok _ |- _ => apply wl_encode_rrs in E end.
  match goal with
  | E : (wl (fold_left _ ?qs ?b0) <= _)%nat |- _ =>
    pose proof (wl_encode_questions qs b0) as Hq;
    assert (H0 : wl b0 = 12%nat)
      by (unfold encode_header, write_u16, write_u8; rewrite !wl_write_octets; reflexivity)
  end.
  match goal with
  | |- _ <= llen (wb_octets ?w) =>
    unfold wb_octets, llen; rewrite rev_append_rev, app_nil_r, rev_length; fold (wl w)
  end.
  lia.
Qed.

(* the encoder itself has no panic site and no fuel *)
Lemma encode_rr_fine r b : fine (encode_rr r b).
Proof. unfold encode_rr. cbv zeta. match goal with |- fine (if ?c then _ else _) => destruct c end; [apply fine_ok|apply fine_err]. Qed.

Lemma encode_rrs_fine rs : forall b, fine (encode_rrs rs b).
Proof.
  induction rs as [|r rs IH]; intro b; cbn [encode_rrs]; [apply fine_ok|].
  apply fine_bind; [apply encode_rr_fine|]. intros b1 _. apply IH.
Qed.

Lemma usize_to_u16_fine n : fine (usize_to_u16 n).
Proof. unfold usize_to_u16. destruct (n <? 65536); [apply fine_ok|apply fine_err]. Qed.

Lemma encode_fine m : fine (encode m).
Proof.
  unfold encode.
  repeat (apply fine_bind; [apply usize_to_u16_fine|]; intros ? _).
  cbv zeta.
  repeat (apply fine_bind; [apply encode_rrs_fine|]; intros ? _).
  apply fine_ok.
Qed.

(* ---- framing_never_panics: a reply that serialises is always sent, framed as the spec says ---- *)
Theorem framing_never_panics m bs :
  encode m = Ok bs -> bytes_ok bs ->
  (exists out, send_udp_bytes_to bs = Ok out /\ udp_framed bs out)
  /\ (exists out, send_tcp_bytes bs = Ok out /\ tcp_framed bs out).
Proof.
  intros E Hb. pose proof (encode_at_least_12 _ _ E) as H12.
  split; [apply udp_512_tc_exact|apply tcp_prefix_exact]; assumption.
Qed.

(* ------------------------------------------------------------------ *)
(* read_tcp_bytes / listen_tcp_task on incomplete streams               *)
(* ------------------------------------------------------------------ *)

Section Tcp.
  Variable authoritative_only : bool.
  Variable resolve : bool -> question -> res rerror resolved.

  (* ---- tcp_short_read: the peer announced more octets than it delivered before closing its
     side: FORMERR carrying the first two delivered octets as id, silence if fewer than two
     arrived; an incomplete length prefix: silence; while the peer stays connected and silent
     nothing is sent ---- *)
  Theorem tcp_short_read :
    (forall hi lo rest, llen rest < hi * 256 + lo ->
       tcp_reply_message authoritative_only resolve (hi :: lo :: rest) EndEof
       = Ok (option_map make_format_error_response (wire_id rest))
       /\ tcp_reply_message authoritative_only resolve (hi :: lo :: rest) EndIoError
          = Ok (option_map make_format_error_response (wire_id rest))
       /\ tcp_reply_message authoritative_only resolve (hi :: lo :: rest) EndOpen = Ok None)
    /\ (forall stream e, llen stream < 2 -> tcp_reply_message authoritative_only resolve stream e = Ok None)
    /\ (forall hi lo rest e, hi * 256 + lo <= llen rest ->
          tcp_reply_message authoritative_only resolve (hi :: lo :: rest) e
          = handle_raw_message authoritative_only resolve (firstn (N.to_nat (hi * 256 + lo)) rest)).
  Proof.
    split; [|split].
    - intros hi lo rest Hs. unfold tcp_reply_message, read_tcp_bytes, u16_be. cbv beta iota zeta.
      match goal with |- context[if ?c then _ else _] => destruct c eqn:E end;
        [apply N.leb_le in E; unfold byte in *; lia|].
      rewrite id_of_prefix_wire_id. cbn [tcp_error_id]. auto.
    - intros stream e Hs. apply llen_lt2 in Hs. unfold tcp_reply_message, read_tcp_bytes.
      destruct Hs as [->|(a & ->)]; destruct e; reflexivity.
    - intros hi lo rest e Hs. unfold tcp_reply_message, read_tcp_bytes, u16_be. cbv beta iota zeta.
      match goal with |- context[if ?c then _ else _] => destruct c eqn:E end;
        [reflexivity|apply N.leb_gt in E; unfold byte in *; lia].
  Qed.
End Tcp.


(* ------------------------------------------------------------------ *)
(* a reply that cannot be serialised: its SERVFAIL stand-in always can  *)
(* (commit 35946be), so every reply message reaches the wire            *)
(* ------------------------------------------------------------------ *)

Lemma fallback_shape r : servfail_of r (unserialisable_fallback r).
Proof. unfold servfail_of, unserialisable_fallback. cbn. auto 20. Qed.

Lemma servfail_of_unique r f : servfail_of r f -> f = unserialisable_fallback r.
Proof.
  intros (H1 & H2 & H3 & H4 & H5 & H6 & H7 & H8 & H9 & H10 & H11 & H12).
  destruct f as [[fid fqr fop faa ftc frd fra frc] fq fa fau fad]. cbn in *. subst.
  reflexivity.
Qed.

(* all the stand-in needs of the reply it replaces: a 16-bit id, a 4-bit opcode and a question
   section that fits the wire format *)
Definition fallback_ok (r : message) : Prop :=
  h_id (m_header r) < 65536 /\ h_opcode (m_header r) < 16
  /\ Forall WireGrammar.wf_question (m_questions r) /\ llen (m_questions r) < 65536.

Lemma fallback_wf r : fallback_ok r -> WireGrammar.wf_message (unserialisable_fallback r).
Proof.
  intros (Hid & Hop & Hq & _). unfold WireGrammar.wf_message, WireGrammar.wf_header, unserialisable_fallback. cbn.
  repeat split; try assumption; try constructor; try (unfold RCODE_ServerFailure; lia).
Qed.

Theorem fallback_encodes r : fallback_ok r -> exists bs, encode (unserialisable_fallback r) = Ok bs.
Proof.
  intros H. apply WireEncodeProofs.encode_succeeds; [apply fallback_wf; exact H|].
  destruct H as (_ & _ & _ & Hn). unfold WireEncodeProofs.encodable, unserialisable_fallback. cbn.
  repeat split; try exact Hn; try constructor.
Qed.

(* ... and what is sent decodes to exactly that message *)
Theorem fallback_roundtrip r bs : fallback_ok r -> encode (unserialisable_fallback r) = Ok bs ->
  bytes_ok bs /\ decode bs = Ok (unserialisable_fallback r).
Proof.
  intros H E. pose proof (fallback_wf r H) as Hwf.
  assert (Hb : bytes_ok bs) by (eapply WireEncodeProofs.encode_bytes; eauto).
  split; [exact Hb|]. apply decode_complete; [exact Hb|]. eapply WireEncodeProofs.encode_parses; eauto.
Qed.

Lemma wire_id_lt bs id : bytes_ok bs -> wire_id bs = Some id -> id < 65536.
Proof.
  intros Hb H. destruct bs as [|a [|b t]]; try discriminate. cbn [wire_id] in H. injection H as <-.
  unfold bytes_ok in Hb. inversion Hb as [|? ? Ha Hb1]; subst. inversion Hb1 as [|? ? Hb2 _]; subst. cbv beta in *. lia.
Qed.

(* whatever decodes has a question section that can be written again *)
Lemma decoded_fallback_ok bs m : bytes_ok bs -> decode bs = Ok m -> fallback_ok m.
Proof.
  intros Hb Hd.
  pose proof (decode_wf bs m Hb Hd) as ((Hid & Hop & _) & Hq & _).
  pose proof (WireEncodeProofs.parses_encodable bs m Hb (decode_sound bs m Hb Hd)) as (Hn & _).
  unfold fallback_ok. auto.
Qed.

Lemma formerr_fallback_ok id : id < 65536 -> fallback_ok (make_format_error_response id).
Proof.
  intro H. unfold fallback_ok. cbn. repeat split; try assumption; try constructor;
    try (unfold OPCODE_Standard; lia).
Qed.

Section Served.
  Variable authoritative_only : bool.
  Variable resolve : bool -> question -> res rerror resolved.
  Hypothesis resolve_returns : forall r q, resolve r q <> Panic /\ resolve r q <> OutOfFuel.

  Notation handle := (handle_raw_message authoritative_only resolve).

  (* every reply handle_raw_message builds has a stand-in that serialises *)
  Lemma handle_fallback_ok bs r : bytes_ok bs -> handle bs = Ok (Some r) -> fallback_ok r.
  Proof.
    intros Hb H. unfold handle_raw_message in H.
    destruct (decode bs) as [m|e| |] eqn:E; try discriminate.
    - pose proof (decoded_fallback_ok bs m Hb E) as (Hid & Hop & Hq & Hn).
      destruct (h_qr (m_header m)); [discriminate|].
      destruct (h_opcode (m_header m) =? OPCODE_Standard).
      + destruct (rabr_shape authoritative_only resolve resolve_returns m)
          as (r' & Hr & (Ei & _ & Eo & _ & _ & Eq & _) & _).
        rewrite Hr in H. cbn [bind] in H. injection H as <-.
        unfold fallback_ok. rewrite Ei, Eo, Eq. auto.
      + injection H as <-. unfold fallback_ok. cbn. auto.
    - pose proof (decode_err_first _ _ E) as Ee. rewrite <- wire_id_first in Ee. rewrite Ee in H.
      destruct (wire_id bs) as [id|] eqn:Ew; cbn [option_map] in H; [|discriminate].
      injection H as <-. apply formerr_fallback_ok. eapply wire_id_lt; eauto.
  Qed.

  Lemma tcp_reply_fallback_ok stream e r :
    bytes_ok stream -> tcp_reply_message authoritative_only resolve stream e = Ok (Some r) -> fallback_ok r.
  Proof.
    intros Hb H. unfold tcp_reply_message, read_tcp_bytes in H.
    destruct stream as [|hi [|lo rest]]; try (destruct e; discriminate).
    assert (Hr : bytes_ok rest).
    { unfold bytes_ok in *. inversion Hb as [|? ? _ H1]; subst. inversion H1; subst. assumption. }
    cbv zeta in H.
    destruct (u16_be hi lo <=? llen rest).
    - apply (handle_fallback_ok _ r (bytes_ok_firstn _ _ Hr) H).
    - rewrite id_of_prefix_wire_id in H.
      destruct e; cbn [tcp_error_id] in H; try discriminate;
        (destruct (wire_id rest) as [id|] eqn:Ew; cbn [option_map] in H; [|discriminate];
         injection H as <-; apply formerr_fallback_ok; eapply wire_id_lt; eauto).
  Qed.

  (* the framing step never drops a reply: it sends the reply or, if that cannot be
     serialised, its SERVFAIL stand-in *)
  Lemma frame_with_sends (send : list byte -> res unit (list byte)) r :
    (forall bs, 12 <= llen bs -> exists out, send bs = Ok out) -> fallback_ok r ->
    exists sent wire out,
      sent_for r sent /\ encode sent = Ok wire /\ send wire = Ok out
      /\ frame_with send (Some r) = Ok (Some out).
  Proof.
    intros Hsend Hok. cbn [frame_with].
    destruct (encode_fine r) as [Hp Hf].
    destruct (encode r) as [bs|e| |] eqn:E; try congruence.
    - destruct (Hsend bs (encode_at_least_12 _ _ E)) as (out & Ho).
      exists r, bs, out. rewrite Ho. cbn [bind].
      split; [left; split; [eauto|reflexivity]|]. auto.
    - destruct (fallback_encodes r Hok) as (bs & Eb). rewrite Eb.
      destruct (Hsend bs (encode_at_least_12 _ _ Eb)) as (out & Ho).
      exists (unserialisable_fallback r), bs, out. rewrite Ho. cbn [bind].
      split; [right; split; [eauto|apply fallback_shape]|]. auto.
  Qed.

  Lemma send_udp_total bs : 12 <= llen bs -> exists out, send_udp_bytes_to bs = Ok out.
  Proof.
    intro H. unfold send_udp_bytes_to, MIN_MESSAGE. rewrite (proj2 (N.ltb_ge _ _) H).
    destruct (UDP_MAX <? llen bs); eauto.
  Qed.

  Lemma send_tcp_total bs : 12 <= llen bs -> exists out, send_tcp_bytes bs = Ok out.
  Proof.
    intro H. unfold send_tcp_bytes, MIN_MESSAGE. rewrite (proj2 (N.ltb_ge _ _) H).
    destruct (llen bs <? 65536); eauto.
  Qed.

  (* ---- udp_served_or_silence: reply_or_silence at the level of datagrams.  No premise about
     `to_octets`: a datagram that is not silent input gets exactly one datagram back, carrying
     the reply handle_raw_message built or its SERVFAIL stand-in ---- *)
  Theorem udp_served_or_silence datagram :
    bytes_ok datagram ->
    let bs := firstn (N.to_nat 512) datagram in
    (silent_input bs /\ serve_udp authoritative_only resolve datagram = Ok None)
    \/ (~ silent_input bs
        /\ exists r sent wire out,
             handle bs = Ok (Some r)
             /\ h_qr (m_header r) = true /\ wire_id bs = Some (h_id (m_header r))
             /\ sent_for r sent /\ encode sent = Ok wire /\ send_udp_bytes_to wire = Ok out
             /\ serve_udp authoritative_only resolve datagram = Ok (Some out)).
  Proof.
    intros Hb bs. assert (Hbs : bytes_ok bs) by (apply bytes_ok_firstn; exact Hb).
    unfold serve_udp, udp_reply_message. change (N.to_nat UDP_MAX) with (N.to_nat 512). fold bs.
    destruct (reply_or_silence authoritative_only resolve resolve_returns bs Hbs)
      as [[Hs Hn]|(Hs & r & Hr & Hq & Hi)].
    - left. rewrite Hn. split; [exact Hs|reflexivity].
    - right. split; [exact Hs|]. rewrite Hr. cbn [bind].
      destruct (frame_with_sends send_udp_bytes_to r send_udp_total (handle_fallback_ok bs r Hbs Hr))
        as (sent & wire & out & H1 & H2 & H3 & H4).
      exists r, sent, wire, out. auto 10.
  Qed.

  (* ---- tcp_served: the same for one connection, in terms of the reply message
     tcp_reply_message determines (tcp_short_read / reply_or_silence say which) ---- *)
  Theorem tcp_served stream e :
    bytes_ok stream ->
    (tcp_reply_message authoritative_only resolve stream e = Ok None ->
     serve_tcp authoritative_only resolve stream e = Ok None)
    /\ (forall r, tcp_reply_message authoritative_only resolve stream e = Ok (Some r) ->
          exists sent wire out,
            sent_for r sent /\ encode sent = Ok wire /\ send_tcp_bytes wire = Ok out
            /\ serve_tcp authoritative_only resolve stream e = Ok (Some out)).
  Proof.
    intros Hb. unfold serve_tcp. split.
    - intros ->. reflexivity.
    - intros r Hr. rewrite Hr. cbn [bind].
      apply (frame_with_sends send_tcp_bytes r send_tcp_total (tcp_reply_fallback_ok stream e r Hb Hr)).
  Qed.
End Served.

(* ------------------------------------------------------------------ *)
(* the answer section: on the CNAME chain, except for the known referral *)
(* ------------------------------------------------------------------ *)

Definition lresult_rrs (l : lresult) : list rr :=
  match l with
  | LDone r => resolved_rrs r
  | LPartial rrs => rrs
  | LDelegation rrs _ _ => rrs
  | LCname rrs _ => rrs
  end.

Section Referral.
  Variable zs : zones.
  Variable cget : dname -> N -> list rr.

  (* resolve_local returns a Delegation only in one place: the zone lookup of the question
     itself gave a delegation and the zone is authoritative *)
  Lemma local_delegation_is_known f stack q rrs soa ns :
    resolve_local zs cget f stack q = Ok (LDelegation rrs soa ns) -> Known_referral zs q.
  Proof.
    destruct f as [|f]; [discriminate|]. cbn [resolve_local]. cbv zeta. intro H.
    repeat match goal with
           | Hx : context[if ?c then _ else _] |- _ =>
             destruct c eqn:?; try match goal with Hd : _ = _ |- _ => discriminate Hd end
           | Hx : context[match ?x with _ => _ end] |- _ =>
             destruct x eqn:?; try match goal with Hd : _ = _ |- _ => discriminate Hd end
           end;
      subst; try match goal with Hd : _ = _ |- _ => discriminate Hd end;
      unfold Known_referral; eauto 10.
  Qed.

  (* the chain property of the local resolver (C10), for every result but the delegation *)
  Hypothesis local_chain_ok : forall q l,
      resolve_local zs cget LOCAL_FUEL [] q = Ok l ->
      (forall a b c, l <> LDelegation a b c) ->
      answers_on_chain q (lresult_rrs l).
  Hypothesis local_returns : forall q,
      resolve_authoritative_only zs cget q <> Panic /\ resolve_authoritative_only zs cget q <> OutOfFuel.

  Lemma answers_of_lresult l :
    fst (fst (fst (spec_outcome (Ok (resolved_of_lresult l))))) = lresult_rrs l.
  Proof.
    destruct l as [[rrs s|s|rrs s]|rrs|rrs [s|] ns|rrs cq]; cbn; try reflexivity;
      destruct rrs; try destruct s; reflexivity.
  Qed.

  (* ---- answers_on_chain_unless_referral (authoritative-only mode) ---- *)
  Theorem answers_on_chain_unless_referral bs m q r :
    query_of bs m -> h_opcode (m_header m) = OPCODE_Standard ->
    m_questions m = [q] -> ~ must_refuse m ->
    ~ Known_referral zs q ->
    handle_raw_message true (fun _ => resolve_authoritative_only zs cget) bs = Ok (Some r) ->
    answers_on_chain q (m_answers r).
  Proof.
    intros Hq Ho Hqs Hnr Hk H.
    pose proof (sections_are_resolver_output true (fun _ => resolve_authoritative_only zs cget)
                  (fun _ q => local_returns q) bs m q r Hq Ho Hqs Hnr H) as Hout.
    cbv beta in Hout. unfold outcome_of in Hout.
    assert (Ha : m_answers r = fst (fst (fst (spec_outcome (resolve_authoritative_only zs cget q)))))
      by (rewrite <- Hout; reflexivity).
    rewrite Ha. unfold resolve_authoritative_only.
    destruct (resolve_local zs cget LOCAL_FUEL [] q) as [l|e| |] eqn:El;
      try (cbn; apply Forall_nil).
    rewrite answers_of_lresult. apply (local_chain_ok q l El).
    intros a b c ->. apply Hk. eapply local_delegation_is_known. exact El.
  Qed.
End Referral.

(* ------------------------------------------------------------------ *)
(* witnesses (evaluated by vm_compute on the executable model)          *)
(* ------------------------------------------------------------------ *)

Module Witness.
  Definition nm (ls : list label) : dname :=
    match from_labels ls with Some n => n | None => root_domain end.
  Definition L_example := [101;120;97;109;112;108;101].
  Definition L_com := [99;111;109].
  Definition example_com := nm [L_example; L_com; []].
  Definition sub_example_com := nm [[115;117;98]; L_example; L_com; []].
  Definition ns_sub_example_com := nm [[110;115]; [115;117;98]; L_example; L_com; []].
  Definition www_sub_example_com := nm [[119;119;119]; [115;117;98]; L_example; L_com; []].
  Definition big_example_com := nm [[98;105;103]; L_example; L_com; []].

  Definition the_soa : soa :=
    {| soa_mname := nm [[110;115;49]; L_example; L_com; []]; soa_rname := nm [[97;100;109;105;110]; L_example; L_com; []];
       soa_serial := 1; soa_refresh := 3600; soa_retry := 600; soa_expire := 86400; soa_minimum := 300 |}.

  Definition ins (z : zone) (name : dname) (ty : N) (d : rdata) : zone :=
    match zone_insert false z name ty d 300 with Ok z' => z' | _ => z end.

  (* 2^k copies of the octet 'x' *)
  Fixpoint doubled (k : nat) (l : list byte) : list byte :=
    match k with O => l | S k' => doubled k' (l ++ l) end.

  (* zone example.com: sub.example.com is delegated *)
  Definition zone_example : zone :=
    ins (zone_new example_com (Some the_soa)) sub_example_com RT_NS (RD_Name ns_sub_example_com).
  Definition zs : zones := zones_insert [] zone_example.
  (* the same zone where big.example.com has a TXT record of the octets [os] *)
  Definition zs_big (os : list byte) : zones :=
    zones_insert [] (ins zone_example big_example_com RT_TXT (RD_Octets os)).
  Definition cget : dname -> N -> list rr := fun _ _ => [].

  Definition question_for (n : dname) (t : N) : question := {| q_name := n; q_type := t; q_class := RC_IN |}.
  Definition query_bytes (n : dname) (t : N) : list byte :=
    match encode (from_question 7 (question_for n t)) with Ok bs => bs | _ => [] end.

  Definition big_query : list byte := query_bytes big_example_com RT_TXT.
End Witness.

(* ---- the known finding F12 is real in the model: the reply to `www.sub.example.com A` has AA set
   and an answer section that is not on the question's CNAME chain ---- *)
Theorem known_referral_witness :
  exists zs cget bs m q r,
    query_of bs m /\ h_opcode (m_header m) = OPCODE_Standard /\ m_questions m = [q] /\ ~ must_refuse m
    /\ Known_referral zs q
    /\ handle_raw_message true (fun _ => resolve_authoritative_only zs cget) bs = Ok (Some r)
    /\ h_aa (m_header r) = true
    /\ ~ answers_on_chain q (m_answers r).
Proof.
  exists Witness.zs, Witness.cget, (Witness.query_bytes Witness.www_sub_example_com RT_A).
  exists (from_question 7 (Witness.question_for Witness.www_sub_example_com RT_A)).
  exists (Witness.question_for Witness.www_sub_example_com RT_A).
  eexists.
  split; [split; [vm_compute; reflexivity|reflexivity]|].
  split; [reflexivity|]. split; [reflexivity|].
  split.
  { intros [(a & b & c & H)|(q & H & Hu)]; [discriminate H|].
    injection H as <-. cbn in Hu. unfold KNOWN_QTYPES, KNOWN_QCLASSES in Hu. cbn [In] in Hu.
    destruct Hu as [Hu|Hu]; apply Hu; auto 30. }
  split.
  { unfold Known_referral. do 3 eexists. split; vm_compute; reflexivity. }
  split; [vm_compute; reflexivity|].
  split; [reflexivity|].
  cbn [m_answers]. intro H. inversion H as [|r0 l Hhd _]; subst. clear H.
  cbn [rr_name Witness.question_for q_name] in Hhd.
  (* oc_start would make the owner of the NS record the question name; oc_step needs a CNAME
     record in the section *)
  inversion Hhd;
    try match goal with Hin : In _ _ |- _ => destruct Hin as [<-|[]] end;
    match goal with
    | Hty : rr_type _ = RT_CNAME |- _ => vm_compute in Hty; discriminate Hty
    | Hd : _ = _ |- _ => vm_compute in Hd; discriminate Hd
    end.
Qed.

(* ---- `to_octets` can fail on a reply: RDATA of 65536 octets or more makes it refuse the
   record ... ---- *)
Lemma encode_rr_too_large r b os :
  rr_data r = RD_Octets os -> 65536 <= llen os -> exists e, encode_rr r b = Err e.
Proof.
  intros Hd Hl. unfold encode_rr. cbv zeta. rewrite Hd. cbn [encode_rdata].
  match goal with |- exists e, (if ?c then _ else _) = _ => assert (Hc : c = false) end.
  { apply N.ltb_ge. unfold write_octets, write_u16, write_u32, write_octets. cbn [wb_len].
    change (llen (u16_bytes 0)) with 2. lia. }
  rewrite Hc. eauto.
Qed.

Lemma encode_too_large m r rest os :
  m_answers m = r :: rest -> rr_data r = RD_Octets os -> 65536 <= llen os -> exists e, encode m = Err e.
Proof.
  intros Ha Hd Hl. unfold encode, usize_to_u16.
  repeat match goal with
         | |- exists e, bind (if ?c then _ else _) _ = _ => destruct c; cbn [bind]; [|eauto]
         end.
  cbv zeta. rewrite Ha. cbn [encode_rrs].
  match goal with |- context[encode_rr r ?b] => destruct (encode_rr_too_large r b os Hd Hl) as (e & He); rewrite He end.
  cbn [bind]. eauto.
Qed.

Lemma llen_doubled k : forall l, llen (Witness.doubled k l) = 2 ^ N.of_nat k * llen l.
Proof.
  induction k as [|k IH]; intro l; cbn [Witness.doubled].
  - change (N.of_nat 0) with 0. rewrite N.pow_0_r. lia.
  - rewrite IH. unfold llen at 1. rewrite app_length, Nat2N.inj_add. fold (llen l).
    rewrite Nat2N.inj_succ, N.pow_succ_r'. lia.
Qed.

(* ... the reply to `big.example.com TXT` (id 7) is built, carries such a record and cannot be
   serialised; both listen loops answer with its SERVFAIL stand-in -- id 7, QR set, the question
   echoed, no records -- framed as usual (before 35946be they sent nothing: the former finding
   unserialisable-reply-silence) *)
Theorem unserialisable_reply_servfail_witness :
  exists zs cget bs q r e f wire,
    handle_raw_message true (fun _ => resolve_authoritative_only zs cget) bs = Ok (Some r)
    /\ encode r = Err e
    /\ servfail_of r f /\ encode f = Ok wire /\ decode wire = Ok f
    /\ wire_id bs = Some 7 /\ h_id (m_header f) = 7 /\ h_qr (m_header f) = true
    /\ h_rcode (m_header f) = RCODE_ServerFailure /\ h_aa (m_header f) = false
    /\ m_questions f = [q] /\ m_answers f = [] /\ m_authority f = [] /\ m_additional f = []
    /\ serve_udp true (fun _ => resolve_authoritative_only zs cget) bs = Ok (Some wire)
    /\ serve_tcp true (fun _ => resolve_authoritative_only zs cget) (u16_bytes (llen bs) ++ bs) EndEof
       = Ok (Some (u16_bytes (llen wire) ++ wire)).
Proof.
  set (os := Witness.doubled 16 [120]).
  assert (Hos : 65536 <= llen os).
  { unfold os. rewrite llen_doubled. change (llen [120]) with 1. change (N.of_nat 16) with 16. vm_compute. discriminate. }
  clearbody os.
  exists (Witness.zs_big os), Witness.cget, Witness.big_query, (Witness.question_for Witness.big_example_com RT_TXT).
  assert (Hh : exists r, handle_raw_message true (fun _ => resolve_authoritative_only (Witness.zs_big os) Witness.cget)
                           Witness.big_query = Ok (Some r)
                         /\ (exists a rest, m_answers r = a :: rest /\ rr_data a = RD_Octets os)
                         /\ exists wire, encode (unserialisable_fallback r) = Ok wire
                              /\ decode wire = Ok (unserialisable_fallback r)
                              /\ h_id (m_header (unserialisable_fallback r)) = 7
                              /\ h_qr (m_header (unserialisable_fallback r)) = true
                              /\ m_questions (unserialisable_fallback r) = [Witness.question_for Witness.big_example_com RT_TXT]
                              /\ send_udp_bytes_to wire = Ok wire
                              /\ send_tcp_bytes wire = Ok (u16_bytes (llen wire) ++ wire)).
  { eexists. split; [vm_compute; reflexivity|]. split; [cbn [m_answers]; do 2 eexists; split; reflexivity|].
    eexists. split; [vm_compute; reflexivity|]. repeat split; vm_compute; reflexivity. }
  destruct Hh as (r & Hr & (a & rest & Ha & Hd) & wire & Ew & Dw & Hid & Hqr & Hqs & Su & St).
  destruct (encode_too_large r a rest os Ha Hd Hos) as (e & He).
  exists r, e, (unserialisable_fallback r), wire.
  split; [exact Hr|]. split; [exact He|]. split; [apply fallback_shape|]. split; [exact Ew|]. split; [exact Dw|].
  split; [vm_compute; reflexivity|]. split; [exact Hid|]. split; [exact Hqr|].
  split; [reflexivity|]. split; [reflexivity|]. split; [exact Hqs|].
  split; [reflexivity|]. split; [reflexivity|]. split; [reflexivity|].
  split.
  - unfold serve_udp, udp_reply_message.
    replace (firstn (N.to_nat UDP_MAX) Witness.big_query) with Witness.big_query by (vm_compute; reflexivity).
    rewrite Hr. cbn [bind frame_with]. rewrite He, Ew, Su. reflexivity.
  - unfold serve_tcp, tcp_reply_message.
    replace (read_tcp_bytes (u16_bytes (llen Witness.big_query) ++ Witness.big_query) EndEof)
      with (ReadOk Witness.big_query) by (vm_compute; reflexivity).
    rewrite Hr. cbn [bind frame_with]. rewrite He, Ew, St. reflexivity.
Qed.

(* ------------------------------------------------------------------ *)
(* the hypotheses of the theorems above are satisfiable                 *)
(* ------------------------------------------------------------------ *)

Example ex_silent_short : silent_input [7].
Proof. left. reflexivity. Qed.

Example ex_silent_response :
  exists bs m, bytes_ok bs /\ decode bs = Ok m /\ h_qr (m_header m) = true /\ silent_input bs.
Proof.
  exists [0;7;128;0;0;0;0;0;0;0;0;0]. eexists.
  split; [repeat constructor|].
  split; [vm_compute; reflexivity|]. split; [reflexivity|].
  right. eexists. split; [vm_compute; reflexivity|reflexivity].
Qed.

Example ex_garbage : exists bs e, bytes_ok bs /\ decode bs = Err e /\ 2 <= llen bs.
Proof.
  exists [18;52;1], (HeaderTooShort, Some 4660). split; [repeat constructor|].
  split; [vm_compute; reflexivity|]. vm_compute. discriminate.
Qed.

Example ex_notimp : exists bs m, query_of bs m /\ h_opcode (m_header m) <> OPCODE_Standard.
Proof.
  exists [0;7;16;0;0;0;0;0;0;0;0;0]. eexists.
  split; [split; [vm_compute; reflexivity|reflexivity]|]. vm_compute. discriminate.
Qed.

Example ex_must_refuse :
  must_refuse (from_question 1 {| q_name := root_domain; q_type := 99; q_class := RC_IN |}).
Proof.
  right. eexists. split; [reflexivity|]. left. cbn [q_type]. unfold KNOWN_QTYPES. cbn [In].
  intro H. repeat (destruct H as [H|H]; [discriminate H|]). exact H.
Qed.

Example ex_udp_cut : exists bs, bytes_ok bs /\ 12 <= llen bs /\ 512 < llen bs.
Proof.
  exists (repeat 0 600). split; [apply Forall_forall; intros x Hx; apply repeat_spec in Hx; subst; reflexivity|].
  unfold llen. rewrite repeat_length. split; lia.
Qed.
