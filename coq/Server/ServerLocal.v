(* Server/ServerLocal.v -- the server of Server/ServerModel.v composed with the local resolver of
   Resolver/LocalModel.v in authoritative-only mode (ListenArgs.authoritative_only = true, the
   executable instance [fun _ => resolve_authoritative_only zs cget]): ties C09 to C01/C02.

   1. in authoritative-only mode the resolver is only ever asked with is_recursive = false, so
      the reply is a function of the zones and the cache read function ([ao_never_recurses],
      [ao_reply_cache_noninterference]); RA = 0 on standard queries;
   2. a standard query with one known question about a name an authoritative zone OWNS
      (LocalSpec.owned_by) is answered from that zone alone ([owned_answer_reply],
      [owned_nxdomain_reply]);
   3. RCODE 3 leaves the server only on the word of an authoritative zone for the question name
      ([nxdomain_reply_only_from_auth_zone]);
   4. an evaluated example on the worked configuration of Resolver/LocalProofs.v. *)
From RV Require Import Base.Prelude Base.Cursor Name.NameModel Wire.WireTypes Wire.WireModel
     Zone.ZoneModel Resolver.LocalModel Resolver.LocalSpec Resolver.LocalProofs
     Server.ServerModel Server.ServerSpec Server.ServerProofs.

Set Default Timeout 120.

(* the server as it runs with `--authoritative-only` over zones [zs] and a cache whose read
   function is [cget] *)
Definition ao_handle (zs : zones) (cget : dname -> N -> list rr) : list byte -> res unit (option message) :=
  handle_raw_message true (fun _ => resolve_authoritative_only zs cget).

(* ------------------------------------------------------------------ *)
(* 1. never recurses                                                   *)
(* ------------------------------------------------------------------ *)

(* resolve_and_build_response with authoritative_only = true calls the resolver with
   is_recursive = RD && RA = RD && false = false: two resolvers that agree on is_recursive = false
   give the same reply, whatever they do when asked to recurse *)
Lemma rabr_ao_only_false (resolve resolve' : bool -> question -> res rerror resolved) query :
  (forall q, resolve false q = resolve' false q) ->
  resolve_and_build_response true resolve query = resolve_and_build_response true resolve' query.
Proof.
  intro H. unfold resolve_and_build_response.
  destruct (triage query) as [|q|why]; try reflexivity.
  cbn [negb set_ra make_response with_header m_header h_ra]. rewrite andb_false_r, H. reflexivity.
Qed.

Theorem ao_never_recurses (resolve resolve' : bool -> question -> res rerror resolved) bs :
  (forall q, resolve false q = resolve' false q) ->
  handle_raw_message true resolve bs = handle_raw_message true resolve' bs.
Proof.
  intro H. unfold handle_raw_message. destruct (decode bs) as [m|e| |]; try reflexivity.
  destruct (h_qr (m_header m)); [reflexivity|].
  destruct (h_opcode (m_header m) =? OPCODE_Standard); [|reflexivity].
  rewrite (rabr_ao_only_false resolve resolve' m H). reflexivity.
Qed.

(* in particular ServerModel's instance with a dead upstream ([resolve_dead_upstream]: the
   recursive resolver when asked to recurse) is, in authoritative-only mode, the local resolver *)
Corollary ao_dead_upstream_is_local zs cget bs :
  handle_raw_message true (resolve_dead_upstream zs cget) bs = ao_handle zs cget bs.
Proof. apply ao_never_recurses. intro q. reflexivity. Qed.

(* the reply depends on the cache only through its read function, and not even on that for the
   names inside authoritative zones (C01_cache_noninterference_local lifted to replies) *)
Theorem ao_reply_cache_noninterference zs c1 c2 bs :
  cache_agree_outside (in_auth_zone zs) c1 c2 -> ao_handle zs c1 bs = ao_handle zs c2 bs.
Proof.
  intro H. unfold ao_handle. apply ao_never_recurses. intro q.
  unfold resolve_authoritative_only. rewrite (cache_noninterference zs c1 c2 H). reflexivity.
Qed.

(* RA = 0 on every reply to a standard query: no premise on the resolver is needed, a reply that
   exists was built by resolve_and_build_response *)
Lemma rabr_ra (ao : bool) resolve query r :
  resolve_and_build_response ao resolve query = Ok r -> h_ra (m_header r) = negb ao.
Proof.
  unfold resolve_and_build_response.
  assert (Hs : forall x, h_ra (m_header (servfail_if_empty x)) = h_ra (m_header x)).
  { intro x. unfold servfail_if_empty. destruct (_ && _); reflexivity. }
  destruct (triage query) as [|q|why]; cbn [bind].
  - intro H. inversion H; subst r. rewrite Hs. reflexivity.
  - destruct (resolve _ q) as [res|e| |]; cbn [bind]; try discriminate; intro H; inversion H; subst r; rewrite Hs;
      [destruct res as [rrs s|s|rrs [s|]]|]; reflexivity.
  - intro H. inversion H; subst r. rewrite Hs. reflexivity.
Qed.

Theorem ao_ra_clear zs cget bs m r :
  query_of bs m -> h_opcode (m_header m) = OPCODE_Standard -> ao_handle zs cget bs = Ok (Some r) ->
  h_ra (m_header r) = false.
Proof.
  intros Hq Ho H. unfold ao_handle in H. rewrite (handle_query _ _ _ _ Hq) in H.
  apply N.eqb_eq in Ho. rewrite Ho in H.
  destruct (resolve_and_build_response true _ m) as [r'| | |] eqn:E; try discriminate.
  inversion H; subst r'. exact (rabr_ra true _ m r E).
Qed.

(* ------------------------------------------------------------------ *)
(* 2. the reply for an owned name                                      *)
(* ------------------------------------------------------------------ *)

Lemma local_fuel_S : LOCAL_FUEL = S (pred LOCAL_FUEL).
Proof. reflexivity. Qed.

(* the reply to a standard query with exactly one question of known type and class, as a function
   of what the local resolver returns for it *)
Lemma ao_handle_one zs cget bs m q :
  query_of bs m -> h_opcode (m_header m) = OPCODE_Standard -> m_questions m = [q] -> ~ must_refuse m ->
  ao_handle zs cget bs =
  match resolve_authoritative_only zs cget q with
  | Ok res => Ok (Some (servfail_if_empty (apply_resolved (set_ra false (make_response m)) res)))
  | Err _ => Ok (Some (servfail_if_empty (set_ra false (make_response m))))
  | Panic => Panic
  | OutOfFuel => OutOfFuel
  end.
Proof.
  intros Hq Ho Hqs Hnr. unfold ao_handle. rewrite (handle_query _ _ _ _ Hq).
  apply N.eqb_eq in Ho. rewrite Ho. unfold resolve_and_build_response.
  rewrite <- triage_refused in Hnr. unfold triage in *. rewrite Hqs in *.
  destruct (question_is_unknown q); [exfalso; eauto|].
  cbn [negb]. destruct (resolve_authoritative_only zs cget q); reflexivity.
Qed.

(* the zone owning the question name has an Answer for it: AA, NOERROR, the answer section is
   exactly the zone's records for that name and type, the authority section the zone's SOA --
   whatever the cache holds, whatever other zones are configured *)
Theorem owned_answer_reply zs cget bs m q z rrs :
  query_of bs m -> h_opcode (m_header m) = OPCODE_Standard -> m_questions m = [q] -> ~ must_refuse m ->
  owned_by zs (q_name q) z ->
  zones_resolve zs (q_name q) (q_type q) = Some (z, Ok (ZAnswer rrs)) ->
  exists r soa_rr, ao_handle zs cget bs = Ok (Some r) /\ zone_soa_rr z = Some soa_rr
    /\ h_aa (m_header r) = true /\ h_rcode (m_header r) = RCODE_NoError
    /\ m_answers r = rrs /\ m_authority r = [soa_rr] /\ m_additional r = []
    /\ h_ra (m_header r) = false /\ h_id (m_header r) = h_id (m_header m) /\ m_questions r = [q].
Proof.
  intros Hq Ho Hqs Hnr Hown Hz. rewrite (ao_handle_one zs cget bs m q Hq Ho Hqs Hnr).
  destruct (auth_zone_alone zs cget (pred LOCAL_FUEL) [] q z Hown (guards_pass_nil q)) as (s & Hs & r0 & Hr0 & Hres).
  rewrite Hz in Hr0. inversion Hr0; subst r0. rewrite <- local_fuel_S in Hres.
  unfold resolve_authoritative_only. rewrite Hres. cbn [resolved_of_lresult].
  eexists. exists s. split; [reflexivity|]. split; [exact Hs|].
  unfold servfail_if_empty. cbn. destruct rrs; cbn; auto 12.
Qed.

(* ... the zone says the name does not exist: AA, NXDOMAIN, empty answer, the zone's SOA *)
Theorem owned_nxdomain_reply zs cget bs m q z :
  query_of bs m -> h_opcode (m_header m) = OPCODE_Standard -> m_questions m = [q] -> ~ must_refuse m ->
  owned_by zs (q_name q) z ->
  zones_resolve zs (q_name q) (q_type q) = Some (z, Ok ZNameError) ->
  exists r soa_rr, ao_handle zs cget bs = Ok (Some r) /\ zone_soa_rr z = Some soa_rr
    /\ h_aa (m_header r) = true /\ h_rcode (m_header r) = RCODE_NameError
    /\ m_answers r = [] /\ m_authority r = [soa_rr] /\ m_additional r = []
    /\ h_ra (m_header r) = false /\ h_id (m_header r) = h_id (m_header m) /\ m_questions r = [q].
Proof.
  intros Hq Ho Hqs Hnr Hown Hz. rewrite (ao_handle_one zs cget bs m q Hq Ho Hqs Hnr).
  destruct (auth_zone_alone zs cget (pred LOCAL_FUEL) [] q z Hown (guards_pass_nil q)) as (s & Hs & r0 & Hr0 & Hres).
  rewrite Hz in Hr0. inversion Hr0; subst r0. rewrite <- local_fuel_S in Hres.
  unfold resolve_authoritative_only. rewrite Hres. cbn [resolved_of_lresult].
  eexists. exists s. split; [reflexivity|]. split; [exact Hs|].
  unfold servfail_if_empty. cbn. rewrite Hqs. auto 12.
Qed.

(* ------------------------------------------------------------------ *)
(* 3. RCODE 3 only from an authoritative zone                          *)
(* ------------------------------------------------------------------ *)

Lemma servfail_if_empty_rcode x :
  h_rcode (m_header (servfail_if_empty x)) = RCODE_NameError -> h_rcode (m_header x) = RCODE_NameError.
Proof.
  unfold servfail_if_empty. destruct (_ && _); [|auto]. cbn. intro H. discriminate H.
Qed.

(* For EVERY input (any octets: no premise that they decode, that the opcode is standard, that
   the resolver returns): if the server replies with RCODE 3 then the input is a standard query with
   exactly one question, and the zone Zones::get selects for the question NAME is authoritative and
   returned NameError for that name and type; the reply has AA set, no answers, and that zone's SOA
   as its authority section.  In particular never through an alias and never from the cache. *)
Theorem nxdomain_reply_only_from_auth_zone zs cget bs r :
  ao_handle zs cget bs = Ok (Some r) -> h_rcode (m_header r) = RCODE_NameError ->
  exists m q z s,
    query_of bs m /\ h_opcode (m_header m) = OPCODE_Standard /\ m_questions m = [q]
    /\ zones_resolve zs (q_name q) (q_type q) = Some (z, Ok ZNameError) /\ zone_soa_rr z = Some s
    /\ in_auth_zone zs (q_name q)
    /\ h_aa (m_header r) = true /\ m_answers r = [] /\ m_authority r = [s].
Proof.
  unfold ao_handle, handle_raw_message. intros H Hrc.
  destruct (decode bs) as [m|e| |] eqn:Ed; try discriminate.
  2:{ destruct (werr_id e); cbn [option_map] in H; inversion H; subst r. discriminate Hrc. }
  destruct (h_qr (m_header m)) eqn:Eqr; [discriminate|].
  destruct (h_opcode (m_header m) =? OPCODE_Standard) eqn:Eop.
  2:{ inversion H; subst r. discriminate Hrc. }
  apply N.eqb_eq in Eop. unfold resolve_and_build_response in H.
  unfold triage in H. destruct (m_questions m) as [|q [|q2 rest]] eqn:Eqs; cbn [bind] in H.
  - inversion H; subst r. apply servfail_if_empty_rcode in Hrc. discriminate Hrc.
  - destruct (question_is_unknown q); cbn [bind] in H.
    { inversion H; subst r. apply servfail_if_empty_rcode in Hrc. discriminate Hrc. }
    destruct (resolve_authoritative_only zs cget q) as [res|e| |] eqn:Er; cbn [bind] in H; try discriminate.
    2:{ inversion H; subst r. apply servfail_if_empty_rcode in Hrc. discriminate Hrc. }
    inversion H; subst r. clear H. pose proof (servfail_if_empty_rcode _ Hrc) as Hrc'.
    destruct res as [rrs s|s|rrs [s|]]; try (cbn in Hrc'; discriminate Hrc').
    destruct (nxdomain_resolved zs cget q s Er) as (z & Hz & Hs & Hin).
    exists m, q, z, s. split; [split; assumption|]. split; [exact Eop|]. split; [exact Eqs|].
    split; [exact Hz|]. split; [exact Hs|]. split; [exact Hin|].
    unfold servfail_if_empty. cbn. auto.
  - inversion H; subst r. apply servfail_if_empty_rcode in Hrc. discriminate Hrc.
Qed.

(* ------------------------------------------------------------------ *)
(* 4. evaluated on the worked configuration of Resolver/LocalProofs.v   *)
(* ------------------------------------------------------------------ *)

Module SLExample.
  Import LocalExample.
  (* "w.e.c. A", id 7, RD set *)
  Definition query_for (n : dname) : message := from_question 7 (qa n).
  Definition bytes_for (n : dname) : list byte :=
    match encode (query_for n) with Ok bs => bs | _ => [] end.
  Definition n_nec := mk [[110]; [101]; [99]].          (* n.e.c.: not in the zone e.c. *)

  (* the owned name w.e.c.: AA, NOERROR, the zone's A record (not the cached 9), the zone's SOA *)
  Example ex_owned_answer :
    option_map (fun o => option_map (fun r => (outcome_of r, h_ra (m_header r), h_id (m_header r))) o)
               (match ao_handle ex_zones ex_cget (bytes_for n_wec) with Ok o => Some o | _ => None end)
    = Some (Some (([{| rr_name := n_wec; rr_type := RT_A; rr_class := RC_IN; rr_ttl := 300; rr_data := RD_A 1 |}],
                   [LocalExample.soa_rr], true, RCODE_NoError), false, 7)).
  Proof. vm_compute. reflexivity. Qed.

  (* a name of the zone e.c. that does not exist: AA, NXDOMAIN, the zone's SOA *)
  Example ex_owned_nxdomain :
    option_map (fun o => option_map outcome_of o)
               (match ao_handle ex_zones ex_cget (bytes_for n_nec) with Ok o => Some o | _ => None end)
    = Some (Some ([], [LocalExample.soa_rr], true, RCODE_NameError)).
  Proof. vm_compute. reflexivity. Qed.

  Example ex_query_ok : query_of (bytes_for n_wec) (query_for n_wec)
                        /\ h_opcode (m_header (query_for n_wec)) = OPCODE_Standard
                        /\ m_questions (query_for n_wec) = [qa n_wec] /\ ~ must_refuse (query_for n_wec).
  Proof.
    split; [split; [vm_compute; reflexivity|reflexivity]|]. split; [reflexivity|]. split; [reflexivity|].
    intros [(a & b & c & H)|(q & H & Hu)]; [discriminate H|].
    injection H as <-. cbn in Hu. unfold KNOWN_QTYPES, KNOWN_QCLASSES in Hu. cbn [In] in Hu.
    destruct Hu as [Hu|Hu]; apply Hu; auto 30.
  Qed.
End SLExample.
