(* Server/ServerModel.v -- executable model of crates/resolved/src/main.rs
   (triage, resolve_and_build_response, handle_raw_message, the reply paths of
   listen_udp_task / listen_tcp_task) and crates/dns-resolver/src/util/net.rs
   (read_tcp_bytes, send_udp_bytes_to, send_tcp_bytes).  Definitions only.

   The resolver is ABSTRACT: [resolve is_recursive question] stands for
   dns_resolver::resolve(is_recursive, protocol_mode, upstream_dns_port,
   forward_address, &zones, &cache, question) of the running server.  Two
   executable instances are given at the end:
   * authoritative-only mode / RD=0: LocalModel.resolve_authoritative_only;
   * recursive mode in an environment where EVERY upstream exchange fails
     (nothing listens on the upstream port): [resolve_recursive_dead], the
     transcription of recursive.rs resolve_recursive_notimeout with
     query_nameserver = None.

   What is not in the model: metrics, logging, the cache prune after each
   request (it changes no reply), the tokio scheduling of the spawned tasks. *)
From RV Require Import Base.Prelude Base.Cursor Name.NameModel Wire.WireTypes Wire.WireModel
     Zone.ZoneModel Resolver.LocalModel.

(* ------------------------------------------------------------------ *)
(* header / section updates (`response.header.x = v`, `push`, `append`) *)
(* ------------------------------------------------------------------ *)

Definition with_header (h : header) (m : message) : message :=
  {| m_header := h; m_questions := m_questions m; m_answers := m_answers m;
     m_authority := m_authority m; m_additional := m_additional m |}.

Definition set_ra (v : bool) (m : message) : message :=
  let h := m_header m in
  with_header {| h_id := h_id h; h_qr := h_qr h; h_opcode := h_opcode h; h_aa := h_aa h; h_tc := h_tc h;
                 h_rd := h_rd h; h_ra := v; h_rcode := h_rcode h |} m.

Definition set_aa (v : bool) (m : message) : message :=
  let h := m_header m in
  with_header {| h_id := h_id h; h_qr := h_qr h; h_opcode := h_opcode h; h_aa := v; h_tc := h_tc h;
                 h_rd := h_rd h; h_ra := h_ra h; h_rcode := h_rcode h |} m.

Definition set_rcode (v : N) (m : message) : message :=
  let h := m_header m in
  with_header {| h_id := h_id h; h_qr := h_qr h; h_opcode := h_opcode h; h_aa := h_aa h; h_tc := h_tc h;
                 h_rd := h_rd h; h_ra := h_ra h; h_rcode := v |} m.

Definition append_answers (rrs : list rr) (m : message) : message :=
  {| m_header := m_header m; m_questions := m_questions m; m_answers := m_answers m ++ rrs;
     m_authority := m_authority m; m_additional := m_additional m |}.

Definition push_authority (r : rr) (m : message) : message :=
  {| m_header := m_header m; m_questions := m_questions m; m_answers := m_answers m;
     m_authority := m_authority m ++ [r]; m_additional := m_additional m |}.

(* ------------------------------------------------------------------ *)
(* main.rs                                                             *)
(* ------------------------------------------------------------------ *)

Inductive refusal := RefusedUnknownQtypeOrQclass | RefusedMultipleQuestions.

(* Result<Option<&Question>, &'static str> *)
Inductive triaged :=
| TNone
| TOne (q : question)
| TRefused (why : refusal).

(* fn triage *)
Definition triage (query : message) : triaged :=
  match m_questions query with
  | [] => TNone
  | [q] => if question_is_unknown q then TRefused RefusedUnknownQtypeOrQclass else TOne q
  | _ :: _ :: _ => TRefused RefusedMultipleQuestions
  end.

(* the `match rr { Authoritative .. | AuthoritativeNameError .. | NonAuthoritative .. }` of
   resolve_and_build_response *)
Definition apply_resolved (response : message) (r : resolved) : message :=
  match r with
  | Authoritative rrs soa_rr =>
    set_aa true (push_authority soa_rr (append_answers rrs response))
  | AuthoritativeNameError soa_rr =>
    set_aa true (set_rcode RCODE_NameError (push_authority soa_rr response))
  | NonAuthoritative rrs soa_rr =>
    let r1 := append_answers rrs response in
    let r2 := match soa_rr with Some s => push_authority s r1 | None => r1 end in
    set_aa false r2
  end.

(* the final `if answers.is_empty() && authority.is_empty() && rcode == NoError` *)
Definition servfail_if_empty (response : message) : message :=
  if is_nil (m_answers response) && is_nil (m_authority response)
     && (h_rcode (m_header response) =? RCODE_NoError)
  then set_aa false (set_rcode RCODE_ServerFailure response)
  else response.

Section Server.
  (* ListenArgs.authoritative_only *)
  Variable authoritative_only : bool.
  (* dns_resolver::resolve with everything but (is_recursive, question) fixed by the
     running server.  Panic / OutOfFuel stand for a panic inside the resolver: the
     spawned task dies, nothing is sent for that message, the process lives on. *)
  Variable resolve : bool -> question -> res rerror resolved.

  (* async fn resolve_and_build_response *)
  Definition resolve_and_build_response (query : message) : res unit message :=
    let response := set_ra (negb authoritative_only) (make_response query) in
    let* response1 :=
       match triage query with
       | TRefused _ => Ok (set_rcode RCODE_Refused response)
       | TNone => Ok response
       | TOne question =>
         match resolve (h_rd (m_header query) && h_ra (m_header response)) question with
         | Ok r => Ok (apply_resolved response r)
         | Err _ => Ok response                       (* only logged *)
         | Panic => Panic
         | OutOfFuel => OutOfFuel
         end
       end in
    Ok (servfail_if_empty response1).

  (* async fn handle_raw_message *)
  Definition handle_raw_message (buf : list byte) : res unit (option message) :=
    match decode buf with
    | Ok msg =>
      if h_qr (m_header msg) then Ok None
      else if h_opcode (m_header msg) =? OPCODE_Standard then
             let* r := resolve_and_build_response msg in Ok (Some r)
           else Ok (Some (set_rcode RCODE_NotImplemented (make_response msg)))
    | Err e => Ok (option_map make_format_error_response (werr_id e))
    | Panic => Panic
    | OutOfFuel => OutOfFuel
    end.
End Server.

(* fn unserialisable_fallback (commit 35946be): the reply sent when the real one cannot be
   serialised -- the same message with the three record sections cleared,
   is_authoritative = false and rcode = ServerFailure; id, QR, opcode, TC, RD, RA and the
   question section stay as they are *)
Definition unserialisable_fallback (m : message) : message :=
  set_rcode RCODE_ServerFailure
    (set_aa false
       {| m_header := m_header m; m_questions := m_questions m;
          m_answers := []; m_authority := []; m_additional := [] |}).

(* ------------------------------------------------------------------ *)
(* util/net.rs: framing                                                *)
(* ------------------------------------------------------------------ *)

Definition UDP_MAX : N := 512.           (* the literal 512 of send_udp_bytes_to / the receive buffer *)
Definition MIN_MESSAGE : N := 12.        (* `bytes.len() < 12` => panic!("expected complete message") *)
Definition TC_SET : N := 2.              (* bytes[2] |= 0b0000_0010 *)
Definition TC_CLEAR : N := 253.          (* bytes[2] &= 0b1111_1101 *)
Definition TCP_MAX : N := 65535.         (* u16::MAX *)

(* `bytes[2] = f(bytes[2])`; callers have checked len >= 12 *)
Definition map_byte2 (f : N -> N) (bs : list byte) : list byte :=
  match bs with
  | a :: b :: c :: t => a :: b :: f c :: t
  | _ => bs
  end.

Definition set_tc (bs : list byte) : list byte := map_byte2 (fun c => N.lor c TC_SET) bs.
Definition clear_tc (bs : list byte) : list byte := map_byte2 (fun c => N.land c TC_CLEAR) bs.

(* send_udp_bytes_to: the datagram handed to the socket *)
Definition send_udp_bytes_to (bs : list byte) : res unit (list byte) :=
  if llen bs <? MIN_MESSAGE then Panic
  else if UDP_MAX <? llen bs then Ok (firstn (N.to_nat UDP_MAX) (set_tc bs))
       else Ok (clear_tc bs).

(* send_tcp_bytes: the octets written to the stream (length prefix, then payload) *)
Definition send_tcp_bytes (bs : list byte) : res unit (list byte) :=
  if llen bs <? MIN_MESSAGE then Panic
  else if llen bs <? 65536                     (* bytes.len().try_into::<u16>() *)
       then Ok (u16_bytes (llen bs) ++ clear_tc bs)
       else Ok (u16_bytes TCP_MAX ++ firstn (N.to_nat TCP_MAX) (set_tc bs)).

(* How the octets a TCP peer sends end: the peer shuts its sending side down
   (read returns 0), the connection fails (read returns an io::Error), or the
   peer stays connected and silent (the read never completes). *)
Inductive stream_end := EndEof | EndIoError | EndOpen.

Inductive tcp_error :=
| TooShort (id : option N) (expected actual : N)
| TcpIO (id : option N).

Definition tcp_error_id (e : tcp_error) : option N :=
  match e with TooShort id _ _ => id | TcpIO id => id end.

Inductive tcp_read :=
| ReadOk (bytes : list byte)
| ReadErr (e : tcp_error)
| ReadPending.                            (* the future never resolves; the task waits *)

(* `if bytes.len() >= 2 { Some(u16::from_be_bytes([bytes[0], bytes[1]])) } else { None }` *)
Definition id_of_prefix (bs : list byte) : option N :=
  match bs with
  | a :: b :: _ => Some (u16_be a b)
  | _ => None
  end.

(* read_tcp_bytes as a function of everything the peer sends on the connection and
   of how that ends.  BytesMut::with_capacity(expected) + read_buf never reads
   beyond `expected` octets (the spare capacity is what is still missing), so
   octets after the announced length stay unread (DESIGN D8: were the buffer to
   over-allocate, the decoder would ignore the surplus anyway). *)
Definition read_tcp_bytes (stream : list byte) (e : stream_end) : tcp_read :=
  match stream with
  | hi :: lo :: rest =>
    let expected := u16_be hi lo in
    if expected <=? llen rest then ReadOk (firstn (N.to_nat expected) rest)
    else match e with
         | EndEof => ReadErr (TooShort (id_of_prefix rest) expected (llen rest))
         | EndIoError => ReadErr (TcpIO (id_of_prefix rest))
         | EndOpen => ReadPending
         end
  | _ =>                                  (* read_u16 fails: UnexpectedEof is an io::Error *)
    match e with
    | EndOpen => ReadPending
    | _ => ReadErr (TcpIO None)
    end
  end.

(* ------------------------------------------------------------------ *)
(* the listen loops: from received octets to sent octets               *)
(* ------------------------------------------------------------------ *)

Section Listen.
  Variable authoritative_only : bool.
  Variable resolve : bool -> question -> res rerror resolved.

  (* `message.to_octets()` then the framing function; a message that cannot be
     serialised is logged ("could not serialise message") and its
     [unserialisable_fallback] is serialised and sent the same way instead
     (`if let Ok(..) = unserialisable_fallback(&message).to_octets()`: were that to
     fail as well, nothing would be sent) *)
  Definition frame_with (send : list byte -> res unit (list byte)) (o : option message)
    : res unit (option (list byte)) :=
    match o with
    | None => Ok None
    | Some m =>
      match encode m with
      | Ok bs => let* out := send bs in Ok (Some out)
      | Err _ =>
        match encode (unserialisable_fallback m) with
        | Ok bs => let* out := send bs in Ok (Some out)
        | Err _ => Ok None
        | Panic => Panic
        | OutOfFuel => OutOfFuel
        end
      | Panic => Panic
      | OutOfFuel => OutOfFuel
      end
    end.

  (* listen_udp_task for one datagram: recv_from into a 512-octet buffer (a longer
     datagram is cut by the kernel), then handle_raw_message: the reply message, if any *)
  Definition udp_reply_message (datagram : list byte) : res unit (option message) :=
    handle_raw_message authoritative_only resolve (firstn (N.to_nat UDP_MAX) datagram).

  (* ... serialise, send_udp_bytes_to.  Result: the datagram sent back, if any. *)
  Definition serve_udp (datagram : list byte) : res unit (option (list byte)) :=
    let* r := udp_reply_message datagram in
    frame_with send_udp_bytes_to r.

  (* listen_tcp_task for one connection: the reply message, if any ([Ok None] also when the
     read never completes) *)
  Definition tcp_reply_message (stream : list byte) (e : stream_end) : res unit (option message) :=
    match read_tcp_bytes stream e with
    | ReadPending => Ok None
    | ReadOk bytes => handle_raw_message authoritative_only resolve bytes
    | ReadErr err => Ok (option_map make_format_error_response (tcp_error_id err))
    end.

  (* ... the octets written before the stream is dropped *)
  Definition serve_tcp (stream : list byte) (e : stream_end) : res unit (option (list byte)) :=
    let* r := tcp_reply_message stream e in
    frame_with send_tcp_bytes r.
End Listen.

(* a reply was built but `to_octets` fails (CounterTooLarge): its fallback is sent (used by
   the model driver to label such cases) *)
Definition reply_unserialisable (o : option message) : bool :=
  match o with
  | Some m => match encode m with Err _ => true | _ => false end
  | None => false
  end.

(* ------------------------------------------------------------------ *)
(* executable resolver instances                                       *)
(* ------------------------------------------------------------------ *)

Section Instances.
  Variable zs : zones.
  Variable cget : dname -> N -> list rr.

  (* recursive.rs resolve_recursive_notimeout when every query_nameserver returns
     None (no reachable upstream) and no time-out fires: local answers and local
     alias chains ending in a local answer succeed, everything else is an error
     (which error does not matter to the server).  The question stack is the
     shared Context stack: resolve_local sees the questions pushed here. *)
  Fixpoint resolve_recursive_dead (fuel : nat) (stack : list question) (q : question)
    : res rerror resolved :=
    match fuel with
    | O => OutOfFuel
    | S f =>
      if at_recursion_limit stack then Err ERecursionLimit
      else if is_duplicate_question stack q then Err (EDuplicateQuestion q)
      else
        match resolve_local zs cget (LOCAL_FUEL) stack q with
        | Ok (LDone r) => Ok r
        | Ok (LCname rrs cq) =>
          (* resolve_combined_recursive *)
          match resolve_recursive_dead f (stack ++ [q]) cq with
          | Ok resolved => Ok (NonAuthoritative (rrs ++ resolved_rrs resolved) (resolved_soa_rr resolved))
          | Err _ => Err (EDeadEnd cq)
          | Panic => Panic
          | OutOfFuel => OutOfFuel
          end
        | Ok (LPartial _) => Err (EDeadEnd q)           (* no candidate answers *)
        | Ok (LDelegation _ _ _) => Err (EDeadEnd q)    (* the delegation's nameservers do not answer *)
        | Err _ => Err (EDeadEnd q)
        | Panic => Panic
        | OutOfFuel => OutOfFuel
        end
    end.

  (* lib.rs resolve(): (false, _) => resolve_local; (true, None) => resolve_recursive.
     Forwarding mode is not modelled. *)
  Definition resolve_dead_upstream (is_recursive : bool) (q : question) : res rerror resolved :=
    if is_recursive then resolve_recursive_dead LOCAL_FUEL [] q
    else resolve_authoritative_only zs cget q.
End Instances.
