(* Properties/C14.v -- property theorems for C14 (hosts files); statements only.
   Each is closed by [exact lemma] and followed by Print Assumptions.

   Model: Hosts/HostsModel.v (parse_line, deserialise, serialise, merge, Hosts <-> Zone),
   Ip/IpModel.v (std's IpAddr::from_str / Display).  Specification: Hosts/HostsSpec.v
   (syntax tree of a hosts file, its rendering and its meaning). *)
From RV Require Import Base.Prelude Name.NameModel Name.NameSpec Wire.WireTypes Zone.ZoneModel
  Ip.IpModel Ip.IpProofs Hosts.HostsModel Hosts.HostsSpec Hosts.HostsProofs.
From Coq Require Import Permutation.

(* ---- the address codec (IPv4) ---- *)

(* what Display prints for an IPv4 address reads back as that address ... *)
Theorem C14_ipv4_roundtrip : forall a, a < 4294967296 -> parse_v4 (show_v4 a) = Some a.
Proof. exact ipv4_roundtrip. Qed.
Print Assumptions C14_ipv4_roundtrip.

Theorem C14_ipv4_roundtrip_ip : forall a, a < 4294967296 -> parse_ip (show_v4 a) = Some (V4 a).
Proof. exact ipv4_roundtrip_ip. Qed.
Print Assumptions C14_ipv4_roundtrip_ip.

(* ... and consists of decimal digits and dots only *)
Theorem C14_ipv4_chars : forall a, Forall (fun c => is_digit c = true \/ c = 46) (show_v4 a).
Proof. exact show_v4_chars. Qed.
Print Assumptions C14_ipv4_chars.

(* ---- the address codec (IPv6) ---- *)

(* what Display prints for an IPv6 address (eight u16 segments) -- the first longest run of
   two or more zero segments written "::", lower-case hex without leading zeros, the
   IPv4-mapped form ::ffff:a.b.c.d with a dotted quad -- reads back as that address ... *)
Theorem C14_ipv6_roundtrip : forall g, wf_v6 g -> parse_ip (show_v6 g) = Some (V6 g).
Proof. exact ipv6_roundtrip. Qed.
Print Assumptions C14_ipv6_roundtrip.

(* ... and consists of [0-9a-f], ':' and '.' only *)
Theorem C14_ipv6_chars : forall g, wf_v6 g -> Forall addrc (show_v6 g) /\ show_v6 g <> [].
Proof. exact show_v6_chars. Qed.
Print Assumptions C14_ipv6_chars.

(* ---- reading ---- *)

(* Every file described by a syntax tree whose lines are valid -- blank lines, comments,
   lines with an interface suffix on the address, and mapping lines
       ws* address (ws+ name)* ws* [# comment]
   with arbitrary ASCII white space, a well-formed address if any name follows it (an
   address-only line is valid whatever its field is: since 25db594 the reader ignores
   "zzz ", "zzz #c" like "zzz" and "zzz#c"), and well-formed names -- reads as its meaning:
   each mapping line maps its
   address to every name after it (relative to the root, lower case), '#' anywhere starts a
   comment, blank / comment / address-only lines and lines with an interface suffix
   contribute nothing, a later line replaces an earlier one per (name, family).
   [agrees h d]: the maps of h, looked up at any name, give what the functions d give;
   [nodup_keys]: the maps have one entry per name. *)
Theorem C14_hosts_parse_denotes : forall f : file,
  Forall (fun le => valid_line (fst le)) f ->
  exists h, deserialise (render f) = Ok h /\ agrees h (denote f) /\ nodup_keys h.
Proof. exact hosts_parse_denotes. Qed.
Print Assumptions C14_hosts_parse_denotes.

(* the same when the last line has no terminator (e.g. the whole file is "1.2.3.4 foo#c") *)
Theorem C14_hosts_parse_denotes_open : forall (f : file) (last : line),
  Forall (fun le => valid_line (fst le)) f -> valid_line last ->
  exists h, deserialise (render_open f last) = Ok h /\ agrees h (denote (f ++ [(last, LF)])) /\ nodup_keys h.
Proof. exact hosts_parse_denotes_open. Qed.
Print Assumptions C14_hosts_parse_denotes_open.

(* one valid line, as parse_line sees it *)
Theorem C14_parse_valid_line : forall l, wf_shape l -> line_contrib l <> CBad ->
  parse_line (render_line l) = Ok (contrib_result (line_contrib l)).
Proof. exact parse_valid_line. Qed.
Print Assumptions C14_parse_valid_line.

(* a line that maps no names is ignored whatever its address field is (well-formed or not,
   white space / a comment after it or not): the former finding
   address-only-malformed-line-rejected, fixed by 25db594 *)
Theorem C14_address_only_ignored : forall m, wf_mline m -> m_names m = [] ->
  parse_line (render_line (Map m)) = Ok None.
Proof. exact address_only_ignored. Qed.
Print Assumptions C14_address_only_ignored.

(* its witness "zzz \n1.2.3.4 foo" reads as the one mapping foo -> 1.2.3.4 *)
Theorem C14_address_only_witness :
  deserialise [122;122;122;32;10; 49;46;50;46;51;46;52;32;102;111;111]
  = Ok {| h_v4 := [(ex_foo, 16909060)]; h_v6 := [] |}.
Proof. exact ex_bad_address_only_ignored. Qed.
Print Assumptions C14_address_only_witness.

(* the first line that maps at least one name but has a malformed address is an error,
   whatever the names are (the address error wins over a name error on the same line) ... *)
Theorem C14_hosts_errors_address : forall f m e rest p names,
  Forall (fun le => valid_line (fst le)) f -> wf_line (Map m) -> Forall (fun le => wf_line (fst le)) rest ->
  m_names m = p :: names -> parse_ip (m_addr m) = None ->
  deserialise (render (f ++ (Map m, e) :: rest)) = Err (CouldNotParseAddress (m_addr m)).
Proof. exact hosts_errors_address. Qed.
Print Assumptions C14_hosts_errors_address.

(* ... and so is the first line with a well-formed address and a malformed name *)
Theorem C14_hosts_errors_name : forall f m e rest a good ws bad more dn,
  Forall (fun le => valid_line (fst le)) f -> wf_line (Map m) -> Forall (fun le => wf_line (fst le)) rest ->
  m_names m = good ++ (ws, bad) :: more -> parse_ip (m_addr m) = Some a ->
  all_some (map (fun p => abs_name (snd p)) good) = Some dn -> abs_name bad = None ->
  deserialise (render (f ++ (Map m, e) :: rest)) = Err (CouldNotParseName bad).
Proof. exact hosts_errors_name. Qed.
Print Assumptions C14_hosts_errors_name.

(* for every text whatsoever the reader returns Ok or Err: no slice of parse_line is
   taken off a character boundary or out of range (C17's parse_hosts_total) *)
Theorem C14_parse_hosts_total : forall data : list N,
  deserialise data <> Panic /\ deserialise data <> OutOfFuel.
Proof. exact parse_hosts_total. Qed.
Print Assumptions C14_parse_hosts_total.

(* ---- writing and reading back ---- *)

(* hosts data with unique keys, well-formed text-safe names (label octets ASCII other than
   white space, '#', '.': exactly what names read from a hosts file are), IPv4 addresses
   below 2^32 and IPv6 addresses of eight u16 segments is written as text that reads back
   as the same mappings *)
Theorem C14_hosts_roundtrip : forall h, text_safe_wf h ->
  exists h', deserialise (serialise h) = Ok h'
             /\ (forall k, alookup dname_eqb k (h_v4 h') = alookup dname_eqb k (h_v4 h)
                           /\ alookup dname_eqb k (h_v6 h') = alookup dname_eqb k (h_v6 h))
             /\ nodup_keys h'.
Proof. exact hosts_roundtrip_wf. Qed.
Print Assumptions C14_hosts_roundtrip.

(* ---- Hosts <-> Zone ---- *)

(* Zone::from(hosts): one A record per IPv4 mapping, one AAAA record per IPv6 mapping,
   TTL 5, nothing else; root apex, no SOA, no wildcard records.  [zone_pairs z] = all
   (owner, record) pairs of z.all_records() *)
Theorem C14_hosts_zone_exact : forall h, wf_hosts h ->
  exists z, hosts_to_zone h = Ok z
            /\ z_apex z = root_domain /\ z_soa z = None /\ zone_all_wildcard_records z = []
            /\ Permutation (zone_pairs z) (map rec_v4 (h_v4 h) ++ map rec_v6 (h_v6 h)).
Proof. exact hosts_zone_exact. Qed.
Print Assumptions C14_hosts_zone_exact.

(* TryFrom<Zone> and from_zone_lossy give back the same hosts data (the same entries; the
   order of a HashMap's entries is not observable) *)
Theorem C14_hosts_zone_back : forall h, wf_hosts h ->
  exists z h', hosts_to_zone h = Ok z
               /\ hosts_try_from z = Ok h' /\ from_zone_lossy z = Ok h'
               /\ Permutation (h_v4 h') (h_v4 h) /\ Permutation (h_v6 h') (h_v6 h).
Proof. exact hosts_zone_back. Qed.
Print Assumptions C14_hosts_zone_back.

(* ... and every mapped name resolves in that zone to exactly its address: a single A
   record (class IN, TTL 5) for an IPv4 mapping, a single AAAA record for an IPv6 mapping *)
Theorem C14_hosts_zone_resolves : forall h, wf_hosts h ->
  exists z, hosts_to_zone h = Ok z
            /\ (forall n a, In (n, a) (h_v4 h) -> zone_resolve z n RT_A = Some (Ok (ZAnswer [rr_v4 n a])))
            /\ (forall n a, In (n, a) (h_v6 h) -> zone_resolve z n RT_AAAA = Some (Ok (ZAnswer [rr_v6 n a]))).
Proof. exact hosts_zone_resolves. Qed.
Print Assumptions C14_hosts_zone_resolves.

(* the hypotheses are satisfiable *)
Example C14_example_hosts : wf_hosts ex_hosts /\ text_safe_wf ex_hosts.
Proof. split; [exact ex_hosts_wf|exact ex_hosts_text_safe_wf]. Qed.
Example C14_example_file : Forall (fun le => valid_line (fst le)) ex_file.
Proof. exact ex_file_valid. Qed.
