(* Properties/C09.v -- property theorems for C09 (the server answers every message, correctly
   framed); statements only.

   [ao] is ListenArgs.authoritative_only, [resolve] the resolver of the running server
   (abstract: any function), [resolve_returns] says that it returns (a panic inside the
   resolver kills the task handling that message).  Replies are the messages
   handle_raw_message returns.  Every such reply reaches the wire
   (C09_udp_served_or_silence, C09_tcp_served: no premise about `to_octets`): when it cannot
   be serialised the listeners send its SERVFAIL stand-in (unserialisable_fallback, /repo
   commit 35946be), which always can (C09_fallback_encodes);
   C09_unserialisable_reply_servfail_witness shows the configuration of the former finding
   unserialisable-reply-silence answered that way.  C09_udp_512_tc_exact /
   C09_tcp_prefix_exact / C09_framing_never_panics describe the framing of whatever was
   serialised.  "Does not crash and keeps serving" is observed on the real binary by the
   check, not proved here. *)
From RV Require Import Base.Prelude Base.Cursor Name.NameModel Wire.WireTypes Wire.WireModel
     Wire.WireDecodeProofs Zone.ZoneModel Resolver.LocalModel
     Server.ServerModel Server.ServerSpec Server.ServerProofs.

(* no reply iff the input is too short to hold an ID or decodes to a message flagged as a
   response; otherwise exactly one reply (the function returns one message), QR set, same ID *)
Theorem C09_reply_or_silence :
  forall (ao : bool) (resolve : bool -> question -> res rerror resolved),
    (forall r q, resolve r q <> Panic /\ resolve r q <> OutOfFuel) ->
    forall bs, bytes_ok bs ->
      (silent_input bs /\ handle_raw_message ao resolve bs = Ok None)
      \/ (~ silent_input bs
          /\ exists r, handle_raw_message ao resolve bs = Ok (Some r)
                       /\ h_qr (m_header r) = true
                       /\ wire_id bs = Some (h_id (m_header r))).
Proof. exact reply_or_silence. Qed.
Print Assumptions C09_reply_or_silence.

(* the same at the level of datagrams, with NO premise that the reply can be serialised: a
   datagram (as cut by the 512-octet receive buffer) that is not silent input gets exactly one
   datagram back; it is the framing of the serialisation of the reply [r] handle_raw_message
   built -- QR set, same ID -- or, when `to_octets` refuses [r] (an RDATA or a section count
   above 65535), of its SERVFAIL stand-in: same id / QR / opcode / TC / RD / RA / questions, AA
   clear, RCODE SERVFAIL, no records ([sent_for], [servfail_of] in ServerSpec.v) *)
Theorem C09_udp_served_or_silence :
  forall (ao : bool) (resolve : bool -> question -> res rerror resolved),
    (forall r q, resolve r q <> Panic /\ resolve r q <> OutOfFuel) ->
    forall datagram, bytes_ok datagram ->
      let bs := firstn (N.to_nat 512) datagram in
      (silent_input bs /\ serve_udp ao resolve datagram = Ok None)
      \/ (~ silent_input bs
          /\ exists r sent wire out,
               handle_raw_message ao resolve bs = Ok (Some r)
               /\ h_qr (m_header r) = true /\ wire_id bs = Some (h_id (m_header r))
               /\ sent_for r sent /\ encode sent = Ok wire /\ send_udp_bytes_to wire = Ok out
               /\ serve_udp ao resolve datagram = Ok (Some out)).
Proof. exact udp_served_or_silence. Qed.
Print Assumptions C09_udp_served_or_silence.

(* ... and for one TCP connection: whenever a reply message is determined (by
   C09_tcp_short_read / C09_reply_or_silence) something is written, the reply or its stand-in;
   otherwise nothing is *)
Theorem C09_tcp_served :
  forall (ao : bool) (resolve : bool -> question -> res rerror resolved),
    (forall r q, resolve r q <> Panic /\ resolve r q <> OutOfFuel) ->
    forall stream e, bytes_ok stream ->
      (tcp_reply_message ao resolve stream e = Ok None -> serve_tcp ao resolve stream e = Ok None)
      /\ (forall r, tcp_reply_message ao resolve stream e = Ok (Some r) ->
            exists sent wire out,
              sent_for r sent /\ encode sent = Ok wire /\ send_tcp_bytes wire = Ok out
              /\ serve_tcp ao resolve stream e = Ok (Some out)).
Proof. exact tcp_served. Qed.
Print Assumptions C09_tcp_served.

(* why the stand-in can always be sent: it has no records, and the id, opcode and questions of a
   reply come out of a decoded message or are those of a FORMERR reply ([fallback_ok]: 16-bit
   id, 4-bit opcode, well-formed questions, fewer than 65536 of them) *)
Theorem C09_fallback_encodes :
  (forall bs m, bytes_ok bs -> decode bs = Ok m -> fallback_ok m)
  /\ (forall ao resolve, (forall r q, resolve r q <> Panic /\ resolve r q <> OutOfFuel) ->
        forall bs r, bytes_ok bs -> handle_raw_message ao resolve bs = Ok (Some r) -> fallback_ok r)
  /\ (forall r, fallback_ok r ->
        servfail_of r (unserialisable_fallback r)
        /\ exists wire, encode (unserialisable_fallback r) = Ok wire
                        /\ bytes_ok wire /\ decode wire = Ok (unserialisable_fallback r)).
Proof.
  split; [exact decoded_fallback_ok|]. split; [exact handle_fallback_ok|].
  intros r H. split; [apply fallback_shape|].
  destruct (fallback_encodes r H) as (wire & E). exists wire. split; [exact E|].
  exact (fallback_roundtrip r wire H E).
Qed.
Print Assumptions C09_fallback_encodes.

Theorem C09_reply_echo :
  forall ao resolve, (forall r q, resolve r q <> Panic /\ resolve r q <> OutOfFuel) ->
    forall bs m r, query_of bs m -> handle_raw_message ao resolve bs = Ok (Some r) ->
      h_opcode (m_header r) = h_opcode (m_header m)
      /\ h_rd (m_header r) = h_rd (m_header m)
      /\ m_questions r = m_questions m.
Proof. exact reply_echo. Qed.
Print Assumptions C09_reply_echo.

Theorem C09_formerr_on_garbage :
  forall ao resolve bs e, decode bs = Err e -> 2 <= llen bs ->
    exists r, handle_raw_message ao resolve bs = Ok (Some r)
              /\ h_rcode (m_header r) = RCODE_FormatError
              /\ h_qr (m_header r) = true
              /\ wire_id bs = Some (h_id (m_header r))
              /\ m_questions r = [] /\ m_answers r = [] /\ m_authority r = [] /\ m_additional r = [].
Proof. exact formerr_on_garbage. Qed.
Print Assumptions C09_formerr_on_garbage.

Theorem C09_notimp_on_opcode :
  forall ao resolve bs m, query_of bs m -> h_opcode (m_header m) <> OPCODE_Standard ->
    exists r, handle_raw_message ao resolve bs = Ok (Some r)
              /\ h_rcode (m_header r) = RCODE_NotImplemented
              /\ m_answers r = [] /\ m_authority r = [] /\ m_additional r = [].
Proof. exact notimp_on_opcode. Qed.
Print Assumptions C09_notimp_on_opcode.

(* REFUSED exactly for several questions or an unknown type or class (standard queries) *)
Theorem C09_refused_rules :
  forall ao resolve, (forall r q, resolve r q <> Panic /\ resolve r q <> OutOfFuel) ->
    forall bs m r, query_of bs m -> h_opcode (m_header m) = OPCODE_Standard ->
      handle_raw_message ao resolve bs = Ok (Some r) ->
      (h_rcode (m_header r) = RCODE_Refused <-> must_refuse m)
      /\ (must_refuse m -> m_answers r = [] /\ m_authority r = [] /\ h_aa (m_header r) = false).
Proof. exact refused_rules. Qed.
Print Assumptions C09_refused_rules.

(* RA on replies to standard queries: set exactly when recursion is offered *)
Theorem C09_ra_iff_recursion :
  forall ao resolve, (forall r q, resolve r q <> Panic /\ resolve r q <> OutOfFuel) ->
    forall bs m r, query_of bs m -> h_opcode (m_header m) = OPCODE_Standard ->
      handle_raw_message ao resolve bs = Ok (Some r) ->
      h_ra (m_header r) = negb ao.
Proof. exact ra_iff_recursion. Qed.
Print Assumptions C09_ra_iff_recursion.

(* answers, authority, AA, RCODE are the table spec_outcome of the resolver's result; the
   resolver is asked to recurse iff RD is set and recursion is offered *)
Theorem C09_sections_are_resolver_output :
  forall ao resolve, (forall r q, resolve r q <> Panic /\ resolve r q <> OutOfFuel) ->
    forall bs m q r, query_of bs m -> h_opcode (m_header m) = OPCODE_Standard ->
      m_questions m = [q] -> ~ must_refuse m ->
      handle_raw_message ao resolve bs = Ok (Some r) ->
      outcome_of r = spec_outcome (resolve (h_rd (m_header m) && negb ao) q).
Proof. exact sections_are_resolver_output. Qed.
Print Assumptions C09_sections_are_resolver_output.

Theorem C09_udp_512_tc_exact :
  forall bs, bytes_ok bs -> 12 <= llen bs ->
    exists out, send_udp_bytes_to bs = Ok out /\ udp_framed bs out.
Proof. exact udp_512_tc_exact. Qed.
Print Assumptions C09_udp_512_tc_exact.

Theorem C09_tcp_prefix_exact :
  forall bs, bytes_ok bs -> 12 <= llen bs ->
    exists out, send_tcp_bytes bs = Ok out /\ tcp_framed bs out.
Proof. exact tcp_prefix_exact. Qed.
Print Assumptions C09_tcp_prefix_exact.

(* every serialised message has at least 12 octets, so the panic!() sites of util/net.rs are
   unreachable from the listen loops and every such reply is framed as specified *)
Theorem C09_framing_never_panics :
  forall m bs, encode m = Ok bs -> bytes_ok bs ->
    (exists out, send_udp_bytes_to bs = Ok out /\ udp_framed bs out)
    /\ (exists out, send_tcp_bytes bs = Ok out /\ tcp_framed bs out).
Proof. exact framing_never_panics. Qed.
Print Assumptions C09_framing_never_panics.

Theorem C09_tcp_short_read :
  forall ao resolve,
    (forall hi lo rest, llen rest < hi * 256 + lo ->
       tcp_reply_message ao resolve (hi :: lo :: rest) EndEof
       = Ok (option_map make_format_error_response (wire_id rest))
       /\ tcp_reply_message ao resolve (hi :: lo :: rest) EndIoError
          = Ok (option_map make_format_error_response (wire_id rest))
       /\ tcp_reply_message ao resolve (hi :: lo :: rest) EndOpen = Ok None)
    /\ (forall stream e, llen stream < 2 -> tcp_reply_message ao resolve stream e = Ok None)
    /\ (forall hi lo rest e, hi * 256 + lo <= llen rest ->
          tcp_reply_message ao resolve (hi :: lo :: rest) e
          = handle_raw_message ao resolve (firstn (N.to_nat (hi * 256 + lo)) rest)).
Proof. exact tcp_short_read. Qed.
Print Assumptions C09_tcp_short_read.

(* the answer section holds only records on the question's CNAME chain -- for every question
   outside the known class (F12), in authoritative-only mode, given the chain property of the
   local resolver (C10) as a premise *)
Theorem C09_answers_on_chain_unless_referral :
  forall (zs : zones) (cget : dname -> N -> list rr),
    (forall q l, resolve_local zs cget LOCAL_FUEL [] q = Ok l ->
                 (forall a b c, l <> LDelegation a b c) -> answers_on_chain q (lresult_rrs l)) ->
    (forall q, resolve_authoritative_only zs cget q <> Panic /\ resolve_authoritative_only zs cget q <> OutOfFuel) ->
    forall bs m q r,
      query_of bs m -> h_opcode (m_header m) = OPCODE_Standard ->
      m_questions m = [q] -> ~ must_refuse m ->
      ~ Known_referral zs q ->
      handle_raw_message true (fun _ => resolve_authoritative_only zs cget) bs = Ok (Some r) ->
      answers_on_chain q (m_answers r).
Proof. exact answers_on_chain_unless_referral. Qed.
Print Assumptions C09_answers_on_chain_unless_referral.

Theorem C09_known_referral_witness :
  exists zs cget bs m q r,
    query_of bs m /\ h_opcode (m_header m) = OPCODE_Standard /\ m_questions m = [q] /\ ~ must_refuse m
    /\ Known_referral zs q
    /\ handle_raw_message true (fun _ => resolve_authoritative_only zs cget) bs = Ok (Some r)
    /\ h_aa (m_header r) = true
    /\ ~ answers_on_chain q (m_answers r).
Proof. exact known_referral_witness. Qed.
Print Assumptions C09_known_referral_witness.

(* the configuration of the former finding unserialisable-reply-silence (example.com with
   big.example.com TXT of 65536 octets; query `big.example.com TXT`, id 7): the reply cannot be
   serialised and both listeners answer with SERVFAIL -- id 7, QR set, the question echoed, no
   records; over UDP the serialisation itself, over TCP behind its length prefix *)
Theorem C09_unserialisable_reply_servfail_witness :
  exists zs cget bs q r e f wire,
    handle_raw_message true (fun _ => resolve_authoritative_only zs cget) bs = Ok (Some r)
    /\ encode r = Err e
    /\ servfail_of r f /\ encode f = Ok wire /\ decode wire = Ok f
    /\ wire_id bs = Some 7 /\ h_id (m_header f) = 7 /\ h_qr (m_header f) = true
    /\ h_rcode (m_header f) = RCODE_ServerFailure /\ h_aa (m_header f) = false
    /\ m_questions f = [q] /\ m_answers f = [] /\ m_authority f = [] /\ m_additional f = []
    /\ serve_udp true (fun _ => resolve_authoritative_only zs cget) bs = Ok (Some wire)
    /\ serve_tcp true (fun _ => resolve_authoritative_only zs cget) (u16_bytes (llen bs) ++ bs) EndEof
       = Ok (Some (u16_bytes (llen wire) ++ wire)).
Proof. exact unserialisable_reply_servfail_witness. Qed.
Print Assumptions C09_unserialisable_reply_servfail_witness.

(* ====================================================================== *)
(* the server composed with the local resolver, authoritative-only mode     *)
(* (ties C09 to C01 / C02; lemmas: Server/ServerLocal.v)                    *)
(* ====================================================================== *)
From RV Require Import Resolver.LocalSpec Resolver.LocalProofs Server.ServerLocal.

(* With `--authoritative-only` the resolver is only ever asked with is_recursive = false (RD && RA,
   RA = false): two resolvers that agree there give the same reply to EVERY input, whatever they
   would do when asked to recurse -- so ServerModel's dead-upstream recursive instance is the local
   resolver here; the reply is a function of the zones and the cache READ function, and not even
   of that for names inside authoritative zones (C01_cache_noninterference_local lifted to
   replies); and RA = 0 on every reply to a standard query. *)
Theorem C09_authoritative_only_never_recurses :
  (forall (resolve resolve' : bool -> question -> res rerror resolved) bs,
     (forall q, resolve false q = resolve' false q) ->
     handle_raw_message true resolve bs = handle_raw_message true resolve' bs)
  /\ (forall zs cget bs,
        handle_raw_message true (resolve_dead_upstream zs cget) bs
        = handle_raw_message true (fun _ => resolve_authoritative_only zs cget) bs)
  /\ (forall zs c1 c2 bs, cache_agree_outside (in_auth_zone zs) c1 c2 ->
        handle_raw_message true (fun _ => resolve_authoritative_only zs c1) bs
        = handle_raw_message true (fun _ => resolve_authoritative_only zs c2) bs)
  /\ (forall zs cget bs m r, query_of bs m -> h_opcode (m_header m) = OPCODE_Standard ->
        handle_raw_message true (fun _ => resolve_authoritative_only zs cget) bs = Ok (Some r) ->
        h_ra (m_header r) = false).
Proof.
  split; [exact ao_never_recurses|]. split; [exact ao_dead_upstream_is_local|].
  split; [exact ao_reply_cache_noninterference|exact ao_ra_clear].
Qed.
Print Assumptions C09_authoritative_only_never_recurses.

(* A standard query with one question of known type and class about a name an authoritative zone
   OWNS ([owned_by], Resolver/LocalSpec.v: the zone Zones::get selects, it has a SOA, the name is not
   at/beneath one of its delegation points) is answered -- no premise that the resolver returns --
   from that zone alone (C01_auth_zone_alone_local):
   the zone has an Answer: AA = 1, NOERROR, the answer section is EXACTLY the zone's records for
   that name and type (what they are is C02's subject), the authority section the zone's SOA;
   the zone says NameError: AA = 1, RCODE 3, empty answer, the zone's SOA.
   Whatever the cache holds; RA = 0, the id and the question echoed, no additional records. *)
Theorem C09_owned_name_reply : forall zs cget bs m q z,
  query_of bs m -> h_opcode (m_header m) = OPCODE_Standard -> m_questions m = [q] -> ~ must_refuse m ->
  owned_by zs (q_name q) z ->
  (forall rrs, zones_resolve zs (q_name q) (q_type q) = Some (z, Ok (ZAnswer rrs)) ->
     exists r soa_rr,
       handle_raw_message true (fun _ => resolve_authoritative_only zs cget) bs = Ok (Some r)
       /\ zone_soa_rr z = Some soa_rr
       /\ h_aa (m_header r) = true /\ h_rcode (m_header r) = RCODE_NoError
       /\ m_answers r = rrs /\ m_authority r = [soa_rr] /\ m_additional r = []
       /\ h_ra (m_header r) = false /\ h_id (m_header r) = h_id (m_header m) /\ m_questions r = [q])
  /\ (zones_resolve zs (q_name q) (q_type q) = Some (z, Ok ZNameError) ->
     exists r soa_rr,
       handle_raw_message true (fun _ => resolve_authoritative_only zs cget) bs = Ok (Some r)
       /\ zone_soa_rr z = Some soa_rr
       /\ h_aa (m_header r) = true /\ h_rcode (m_header r) = RCODE_NameError
       /\ m_answers r = [] /\ m_authority r = [soa_rr] /\ m_additional r = []
       /\ h_ra (m_header r) = false /\ h_id (m_header r) = h_id (m_header m) /\ m_questions r = [q]).
Proof.
  intros zs cget bs m q z Hq Ho Hqs Hnr Hown. split.
  - intros rrs Hz. exact (owned_answer_reply zs cget bs m q z rrs Hq Ho Hqs Hnr Hown Hz).
  - intro Hz. exact (owned_nxdomain_reply zs cget bs m q z Hq Ho Hqs Hnr Hown Hz).
Qed.
Print Assumptions C09_owned_name_reply.

(* RCODE 3 leaves the server only on the word of an authoritative zone: for EVERY input (any
   octets) answered with RCODE 3, the input is a standard query with exactly one question and the
   zone selected for the question NAME has a SOA and returned NameError for that name and type
   (C01_nxdomain_only_from_auth_zone_local); the reply has AA = 1, no answers and that zone's SOA.
   Never through an alias (a CNAME to a missing target is NOERROR), never from the cache. *)
Theorem C09_nxdomain_only_from_auth_zone : forall zs cget bs r,
  handle_raw_message true (fun _ => resolve_authoritative_only zs cget) bs = Ok (Some r) ->
  h_rcode (m_header r) = RCODE_NameError ->
  exists m q z s,
    query_of bs m /\ h_opcode (m_header m) = OPCODE_Standard /\ m_questions m = [q]
    /\ zones_resolve zs (q_name q) (q_type q) = Some (z, Ok ZNameError) /\ zone_soa_rr z = Some s
    /\ in_auth_zone zs (q_name q)
    /\ h_aa (m_header r) = true /\ m_answers r = [] /\ m_authority r = [s].
Proof. exact nxdomain_reply_only_from_auth_zone. Qed.
Print Assumptions C09_nxdomain_only_from_auth_zone.

(* the hypotheses are satisfiable, evaluated on the worked configuration of Resolver/LocalProofs.v
   (zone e.c. with w.e.c. A 1; the cache holds w.e.c. A 9): the query "w.e.c. A" meets the
   premises of C09_owned_name_reply and is answered AA / NOERROR with the zone's record and SOA;
   "n.e.c. A" is answered AA / NXDOMAIN with the SOA *)
Example C09_owned_name_example :
  (query_of (SLExample.bytes_for LocalExample.n_wec) (SLExample.query_for LocalExample.n_wec)
   /\ h_opcode (m_header (SLExample.query_for LocalExample.n_wec)) = OPCODE_Standard
   /\ m_questions (SLExample.query_for LocalExample.n_wec) = [LocalExample.qa LocalExample.n_wec]
   /\ ~ must_refuse (SLExample.query_for LocalExample.n_wec))
  /\ owned_by LocalExample.ex_zones LocalExample.n_wec LocalExample.z_ec
  /\ option_map (fun o => option_map (fun r => (outcome_of r, h_ra (m_header r), h_id (m_header r))) o)
       (match handle_raw_message true (fun _ => resolve_authoritative_only LocalExample.ex_zones LocalExample.ex_cget)
                (SLExample.bytes_for LocalExample.n_wec) with Ok o => Some o | _ => None end)
     = Some (Some (([{| rr_name := LocalExample.n_wec; rr_type := RT_A; rr_class := RC_IN; rr_ttl := 300; rr_data := RD_A 1 |}],
                    [LocalExample.soa_rr], true, RCODE_NoError), false, 7))
  /\ option_map (fun o => option_map outcome_of o)
       (match handle_raw_message true (fun _ => resolve_authoritative_only LocalExample.ex_zones LocalExample.ex_cget)
                (SLExample.bytes_for SLExample.n_nec) with Ok o => Some o | _ => None end)
     = Some (Some ([], [LocalExample.soa_rr], true, RCODE_NameError)).
Proof.
  split; [exact SLExample.ex_query_ok|]. split; [exact LocalExample.ex_owned|].
  split; [exact SLExample.ex_owned_answer|exact SLExample.ex_owned_nxdomain].
Qed.
