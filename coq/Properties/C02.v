(* Properties/C02.v -- zone lookup follows the authoritative-server algorithm.
   Statements only; each is closed by [exact lemma] and followed by Print Assumptions.

   Model: Zone/ZoneModel.v (the record tree of crates/dns-types/src/zones/types.rs).
   Specification: Zone/ZoneFlat.v ([flat_resolve]: RFC 1034 4.3.2 step 3 with the wildcard rules of
   RFC 4592 on two flat lists of (relative owner, record); [flat_of_ops]: the set of inserted records).
   [zres_equiv] is equality up to the order of the type groups of an ANY answer (HashMap order);
   for every other query type the results are equal.  [no_occlusion] is deviation D1 exactly. *)
From RV Require Import Base.Prelude Name.NameModel Name.NameSpec Wire.WireTypes
     Zone.ZoneModel Zone.ZoneFlat Zone.ZoneProofs.

(* Building a zone from any list of insertions (ordinary and wildcard, any order, any types) of
   well-formed names never panics, a lookup of a well-formed name never panics, and -- for zones
   satisfying D1 -- the lookup result is the flat specification's, for every query type code. *)
Theorem C02_resolve_refines_flat : forall apex s ops name qt,
  wf_name apex -> Forall op_ok ops -> wf_name name ->
  exists z, zone_build apex s ops = Ok z /\
    match rel_path (labels apex) name with
    | Some p =>
      exists r, zone_resolve z name qt = Some (Ok r) /\
        (no_occlusion (flat_of_ops apex s ops) ->
           zres_equiv r (flat_resolve (labels apex) (flat_of_ops apex s ops) name p qt) /\
           (qt <> QT_Wildcard -> r = flat_resolve (labels apex) (flat_of_ops apex s ops) name p qt))
    | None => zone_resolve z name qt = None
    end.
Proof. exact resolve_refines_flat. Qed.
Print Assumptions C02_resolve_refines_flat.

(* the flat zone of a list of insertions holds exactly the SOA record and the inserted records
   under the apex, with the TTL raised to the SOA minimum and nothing else changed *)
Theorem C02_flat_of_ops_sound : forall apex s ops (w : bool) q r,
  In (q, r) (if w then f_wild (flat_of_ops apex s ops) else f_norm (flat_of_ops apex s ops)) ->
  from_ops (labels apex) s ops w q r.
Proof. exact flat_of_ops_sound. Qed.
Print Assumptions C02_flat_of_ops_sound.

Theorem C02_flat_of_ops_complete : forall apex s ops o q,
  In o ops -> rel_path (labels apex) (op_name o) = Some q ->
  In (q, op_zrec s o) (if op_wild o then f_wild (flat_of_ops apex s ops) else f_norm (flat_of_ops apex s ops)).
Proof. exact flat_of_ops_complete. Qed.
Print Assumptions C02_flat_of_ops_complete.

(* the tree represents a flat zone ([R]) after Zone::new and after every insertion; insertions
   never panic within the 255-octet limit (the from_labels(..).unwrap() sites) *)
Theorem C02_insert_preserves : forall apexl w r z rp nd,
  R apexl nd z -> wf_labels (rev rp ++ apexl) ->
  exists nd', node_insert w rp r nd = Ok nd' /\ R apexl nd' (fz_add w (rev rp) r z).
Proof. intros apexl w r z rp nd. exact (insert_Rsub apexl w r z rp [] nd). Qed.
Print Assumptions C02_insert_preserves.

(* lookups in any tree representing a flat zone: no panic (with or without D1), and under D1
   agreement with the flat lookup -- this form is what the merge theorems of C12 compose with *)
Theorem C02_resolve_no_panic : forall apexl nd z name qt rp,
  R apexl nd z -> recs_ok z -> wf_labels (rev rp ++ apexl) ->
  exists r, node_resolve name qt rp nd true = Ok r.
Proof. exact resolve_no_panic. Qed.
Print Assumptions C02_resolve_no_panic.

Theorem C02_resolve_R : forall apexl nd z name qt rp,
  R apexl nd z -> no_occlusion z -> recs_ok z -> wf_labels (rev rp ++ apexl) ->
  exists r, node_resolve name qt rp nd true = Ok r /\
            zres_equiv r (flat_resolve apexl z name (rev rp) qt) /\
            (qt <> QT_Wildcard -> r = flat_resolve apexl z name (rev rp) qt).
Proof. exact resolve_R. Qed.
Print Assumptions C02_resolve_R.

(* ---- the sentences of the property, for a zone built from insertions ([lookup_ctx]: well-formed
   apex, operations and query name, query name = p ++ apex, D1, the zone was built) ---- *)

(* "... with the query name as owner" (answers and the CNAME; a referral is owned by the cut) *)
Theorem C02_owner_is_query_name : forall apex s ops name p z qt r,
  lookup_ctx apex s ops name p z -> zone_resolve z name qt = Some (Ok r) -> owner_is name r.
Proof. exact owner_is_query_name. Qed.
Print Assumptions C02_owner_is_query_name.

(* "An existing name (including an empty non-terminal and the apex, whatever NS records the apex
   carries) with no data of the asked type yields an empty answer, never a name error or a referral"
   -- for names not at or beneath a delegation point and not redirected by a CNAME *)
Theorem C02_ent_and_apex_give_empty_answer : forall apex s ops name p z qt r,
  lookup_ctx apex s ops name p z -> zone_resolve z name qt = Some (Ok r) ->
  let fz := flat_of_ops apex s ops in
  exists_node fz p ->
  (forall c, c <> [] -> is_suffix c p -> recs_at (f_norm fz) c RT_NS = []) ->
  (rtype_matches RT_CNAME qt = true \/ recs_at (f_norm fz) p RT_CNAME = []) ->
  (forall rec, In (p, rec) (f_norm fz) -> rtype_matches (zr_type rec) qt = false) ->
  r = ZAnswer [].
Proof. exact ent_and_apex_give_empty_answer. Qed.
Print Assumptions C02_ent_and_apex_give_empty_answer.

Theorem C02_apex_gives_empty_answer : forall apex s ops name z qt r,
  lookup_ctx apex s ops name [] z -> zone_resolve z name qt = Some (Ok r) ->
  let fz := flat_of_ops apex s ops in
  (rtype_matches RT_CNAME qt = true \/ recs_at (f_norm fz) [] RT_CNAME = []) ->
  (forall rec, In ([], rec) (f_norm fz) -> rtype_matches (zr_type rec) qt = false) ->
  r = ZAnswer [].
Proof. exact apex_gives_empty_answer. Qed.
Print Assumptions C02_apex_gives_empty_answer.

(* "a name error only when the name, everything beneath it and any covering wildcard are absent" *)
Theorem C02_nameerror_only_if_absent : forall apex s ops name p z qt,
  lookup_ctx apex s ops name p z -> zone_resolve z name qt = Some (Ok ZNameError) ->
  let fz := flat_of_ops apex s ops in
  ~ exists_node fz p /\ forall e, closest_encloser fz p e -> has_wild fz e = false.
Proof. exact nameerror_only_if_absent. Qed.
Print Assumptions C02_nameerror_only_if_absent.

(* "Every record returned is one the zone holds, with its configured TTL and data": each RR of
   an answer, CNAME result or referral is the SOA record or an inserted record (type, data
   unchanged, TTL = max(SOA minimum, configured TTL), class IN) *)
Theorem C02_records_are_zone_records : forall apex s ops name p z qt r,
  lookup_ctx apex s ops name p z -> zone_resolve z name qt = Some (Ok r) ->
  forall x, In x (result_rrs r) ->
    exists (w : bool) q rec, from_ops (labels apex) s ops w q rec /\ rr_of_rec x rec.
Proof. exact records_are_zone_records. Qed.
Print Assumptions C02_records_are_zone_records.

(* "an NS question at the delegation point itself is answered directly" *)
Theorem C02_ns_question_at_cut_answered_directly : forall apex s ops name p z r,
  lookup_ctx apex s ops name p z -> zone_resolve z name RT_NS = Some (Ok r) ->
  let fz := flat_of_ops apex s ops in
  recs_at (f_norm fz) p RT_NS <> [] -> recs_at (f_norm fz) p RT_CNAME = [] ->
  r = ZAnswer (map (fun rec => zr_to_rr rec name) (recs_at (f_norm fz) p RT_NS)).
Proof. exact ns_question_at_cut_answered_directly. Qed.
Print Assumptions C02_ns_question_at_cut_answered_directly.

(* "a referral carrying the delegation's NS set when the name is at or beneath a delegation point
   other than the zone apex" *)
Theorem C02_referral_at_or_beneath_cut : forall apex s ops name p z qt r c,
  lookup_ctx apex s ops name p z -> zone_resolve z name qt = Some (Ok r) ->
  let fz := flat_of_ops apex s ops in
  cut fz p qt c ->
  r = ZDelegation (map (fun rec => zr_to_rr rec (mkname (c ++ labels apex))) (recs_at (f_norm fz) c RT_NS)).
Proof. exact referral_at_or_beneath_cut. Qed.
Print Assumptions C02_referral_at_or_beneath_cut.

(* "the zone's records of the asked type at that name (all types for ANY) ...; the CNAME instead when
   one exists and neither CNAME nor ANY was asked": an existing name that is not a delegation point
   (or is asked for NS) is classified on its own records ([classify]: the first CNAME unless the
   question matches CNAME, else the records whose type matches the question) *)
Theorem C02_existing_name_classified : forall apex s ops name p z qt r,
  lookup_ctx apex s ops name p z -> zone_resolve z name qt = Some (Ok r) ->
  let fz := flat_of_ops apex s ops in
  exists_node fz p -> (p = [] \/ recs_at (f_norm fz) p RT_NS = [] \/ qt = RT_NS) ->
  zres_equiv r (classify name qt (all_at (f_norm fz) p)) /\
  (qt <> QT_Wildcard -> r = classify name qt (all_at (f_norm fz) p)).
Proof. exact existing_name_classified. Qed.
Print Assumptions C02_existing_name_classified.

(* "records synthesised from the wildcard at the closest existing ancestor when the name itself does
   not exist" *)
Theorem C02_missing_name_from_wildcard : forall apex s ops name x l e z qt r,
  lookup_ctx apex s ops name (x ++ l :: e) z -> zone_resolve z name qt = Some (Ok r) ->
  let fz := flat_of_ops apex s ops in
  closest_encloser fz (x ++ l :: e) e ->
  (e = [] \/ recs_at (f_norm fz) e RT_NS = []) ->
  has_wild fz e = true ->
  (recs_at (f_wild fz) e RT_NS = [] \/ qt = RT_NS) ->
  zres_equiv r (classify name qt (all_at (f_wild fz) e)) /\
  (qt <> QT_Wildcard -> r = classify name qt (all_at (f_wild fz) e)).
Proof. exact missing_name_from_wildcard. Qed.
Print Assumptions C02_missing_name_from_wildcard.

(* the hypotheses are satisfiable: a zone with NS at the apex, an empty non-terminal with a wildcard
   next to an existing child, a wildcard under two empty non-terminals, a delegation, a CNAME next
   to other data, a duplicate insertion and a TTL below the SOA minimum *)
Theorem C02_example_wildcard_synthesis : exists z,
  lookup_ctx Example.apex (Some Example.so) Example.ops (nm [[120]; [121]; [101]; [101]; [122]]) [[120]; [121]; [101]; [101]] z /\
  zone_resolve z (nm [[120]; [121]; [101]; [101]; [122]]) RT_A
  = Some (Ok (ZAnswer [Example.rr_at (nm [[120]; [121]; [101]; [101]; [122]]) RT_A 3600 (RD_A 3)])).
Proof. exact Example.wildcard_synthesis. Qed.
Print Assumptions C02_example_wildcard_synthesis.
