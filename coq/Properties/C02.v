(* Properties/C02.v -- placeholder while the proofs are being written *)
From RV Require Import Base.Prelude Name.NameModel Name.NameSpec Wire.WireTypes Zone.ZoneModel Zone.ZoneFlat.
