(* Properties/C06.v -- C06: upstream replies are filtered: only records relevant to
   the question are used.

   Model: Resolver/ValidateModel.v (validate_nameserver_response, follow_cnames,
   get_better_ns_names, get_nxdomain_nodata_soa, response_matches_request) and
   Resolver/GateModel.v (query_nameserver).  Specification: Resolver/ValidateSpec.v
   ([allowed], [vchain_ok], [gate_ok]).  Proofs: Resolver/ValidateProofs.v.

   The remaining sentence of the property text -- "only validated records reach
   the cache or the answer" ([only_validated_is_cached]: every argument of
   insert_all and every RR of the result of the recursive resolver comes from a
   result of validate_nameserver_response, or from local data) -- is a statement
   about resolve_with_nameserver_response / resolve_recursive and belongs to the
   recursive resolver model (Resolver/RecursiveModel.v and its proofs); it uses
   C06_filter_sound and C06_delegation_progress from here. *)
From RV Require Import Base.Prelude Name.NameModel Name.NameSpec Wire.WireTypes Wire.WireModel
     Resolver.LocalModel Resolver.LocalSpec Resolver.ValidateModel Resolver.GateModel
     Resolver.ValidateSpec Resolver.ValidateProofs.

(* the CNAME-following loop terminates: the fuel the model gives it (two more than
   the number of distinct CNAME owners) is never exhausted -- each step adds a new
   target to [seen], all of them targets of the map (pigeonhole) *)
Theorem C06_follow_terminates rrs target qtype :
  follow_cnames rrs target qtype <> OutOfFuel /\ exists o, follow_cnames rrs target qtype = Ok o.
Proof. split; [exact (follow_terminates rrs target qtype) | exact (follow_total rrs target qtype)]. Qed.

(* likewise the second loop over the same map (the `while let` in
   validate_nameserver_response that collects the CNAME records of the path): the
   model's fuel is never what ends it -- more fuel gives the same list *)
Theorem C06_path_fuel_suffices answers qname qt f m k :
  follow_cnames answers qname qt = Ok (Some (f, m)) ->
  path_cnames (S (length m) + k) answers m f qname = path_cnames (S (length m)) answers m f qname.
Proof. exact (path_fuel_suffices answers qname qt f m k). Qed.

(* the filter is total: no panic, no error, no fuel exhaustion, for every reply *)
Theorem C06_never_panics q resp mc :
  (exists o, validate_nameserver_response q resp mc = Ok o) /\
  (forall rrs target rtype, exists o, get_ip rrs target rtype = Ok o).
Proof. split; [exact (never_panics q resp mc) | exact get_ip_total]. Qed.

(* coverage note, as a theorem: inside the answer branch the arms "every RR is
   unknown -> None" and "no RRs for the query -> None" (the tracing::warn!("expected
   RRs") line) can never be taken -- whenever follow_cnames finds a name, the
   branch produces an Answer or a CNAME result.  No generator can hit those arms. *)
Theorem C06_answer_branch_live q resp mc f m :
  follow_cnames (m_answers resp) (q_name q) (q_type q) = Ok (Some (f, m)) ->
  exists r, validate_nameserver_response q resp mc = Ok (Some r).
Proof. exact (validate_answer_live q resp mc f m). Qed.

(* every record the filter lets through is allowed *)
Theorem C06_filter_sound q resp mc r :
  validate_nameserver_response q resp mc = Ok (Some r) ->
  Forall (allowed q mc resp) (result_rrs r) /\
  match r with
  | NRAnswer rrs None => Forall (allowed_answer q resp) rrs
  | NRAnswer rrs (Some s) => rrs = [] /\ allowed_soa q mc resp s
  | NRCname rrs _ => Forall (allowed_answer q resp) rrs
  | NRDelegation rrs _ => Forall (fun x => allowed_ns q mc resp x \/ allowed_glue q mc resp x) rrs
  end.
Proof. intro H. split; [exact (filter_sound _ _ _ _ H) | exact (filter_sound_strong _ _ _ _ H)]. Qed.

(* an accepted answer is the CNAME chain from the question name, in order, then
   records at the final name *)
Theorem C06_filter_chain_ok q resp mc r :
  validate_nameserver_response q resp mc = Ok (Some r) ->
  match r with
  | NRAnswer rrs None =>
    exists cn fin last, rrs = cn ++ fin /\ fin <> [] /\ vchain_ok (q_name q) (q_type q) cn fin last
  | NRAnswer rrs (Some _) => rrs = []
  | NRCname rrs c => rrs <> [] /\ vchain_ok (q_name q) (q_type q) rrs [] c
  | NRDelegation _ _ => True
  end.
Proof. exact (filter_chain_ok q resp mc r). Qed.

(* each referral is strictly closer to the question name (C07 uses this) *)
Theorem C06_delegation_progress q resp mc rrs d :
  validate_nameserver_response q resp mc = Ok (Some (NRDelegation rrs d)) ->
  mc < ns_match_count d /\ is_subdomain_of (q_name q) (ns_name d) = true /\
  ancestor_or_self (ns_name d) (q_name q).
Proof. exact (delegation_progress q resp mc rrs d). Qed.

Theorem C06_delegation_hostnames_named q resp mc rrs d :
  validate_nameserver_response q resp mc = Ok (Some (NRDelegation rrs d)) ->
  (forall h, In h (ns_hostnames d) -> exists r, allowed_ns q mc resp r /\ ns_rr r h) /\
  (Forall (fun r => wf_name (rr_name r)) (m_answers resp ++ m_authority resp) ->
   forall h, In h (ns_hostnames d) -> exists r, In r rrs /\ ns_rr r h /\ rr_name r = ns_name d).
Proof.
  intro H. split; [exact (delegation_hostnames_named_weak _ _ _ _ _ H)|].
  intro Hwf. exact (delegation_hostnames_named _ _ _ _ _ Hwf H).
Qed.

(* "Guaranteed to be non-empty" (util/types.rs, Nameservers::hostnames) *)
Theorem C06_delegation_hostnames_nonempty q resp mc rrs d :
  validate_nameserver_response q resp mc = Ok (Some (NRDelegation rrs d)) -> ns_hostnames d <> [].
Proof. exact (delegation_hostnames_nonempty q resp mc rrs d). Qed.

(* a reply is used iff id, QR, opcode and question match, TC is clear and the rcode
   is NoError or NameError *)
Theorem C06_header_gate request response :
  response_matches_request request response = true <-> gate_ok request response.
Proof. exact (header_gate request response). Qed.

(* whatever the peer sends over UDP and TCP, query_nameserver returns only a reply
   that passed the gate against its own request *)
Theorem C06_gate_sound id q rd t r :
  query_nameserver id q rd t = Ok (Some r) ->
  gate_ok (request_of id q rd) r /\
  h_id (m_header r) = id /\ h_opcode (m_header r) = OPCODE_Standard /\ m_questions r = [q].
Proof. exact (gate_sound id q rd t r). Qed.

Theorem C06_soa_sound q resp mc r :
  get_nxdomain_nodata_soa q resp mc = Some r -> allowed_soa q mc resp r.
Proof. exact (soa_sound q resp mc r). Qed.

(* for a concrete asked type the chain predicate is the one of C10 *)
Theorem C06_vchain_chain_ok qname qt cn fin last :
  qt <> QT_Wildcard -> vchain_ok qname qt cn fin last -> chain_ok qname qt (cn ++ fin).
Proof. exact (vchain_chain_ok qname qt cn fin last). Qed.

(* ---------------- the hypotheses are satisfiable: witnesses ---------------- *)

Definition nm (ls : list label) : dname :=
  {| labels := ls ++ [[]]; nlen := fold_right (fun l a => 1 + llen l + a) 1 ls |}.
Definition www := nm [[119;119;119]; [101;120]; [99;111;109]].        (* www.ex.com. *)
Definition zone := nm [[101;120]; [99;111;109]].                        (* ex.com. *)
Definition target := nm [[116]; [110;101;116]].                         (* t.net. *)
Definition other := nm [[111]; [111;114;103]].                          (* o.org. *)
Definition xname := nm [[120]; [111;114;103]].                          (* x.org. *)
Definition foreign := nm [[102]; [101;120]].                            (* f.ex. *)
Definition ns1 := nm [[110;115;49]; [101;120]; [99;111;109]].           (* ns1.ex.com. *)
Definition mk (n : dname) (t : N) (d : rdata) : rr :=
  {| rr_name := n; rr_type := t; rr_class := RC_IN; rr_ttl := 300; rr_data := d |}.
Definition qa : question := {| q_name := www; q_type := RT_A; q_class := RC_IN |}.
Definition reply (rcode : N) (an au ad : list rr) : message :=
  {| m_header := {| h_id := 4660; h_qr := true; h_opcode := OPCODE_Standard; h_aa := false; h_tc := false;
                    h_rd := false; h_ra := true; h_rcode := rcode |};
     m_questions := [qa]; m_answers := an; m_authority := au; m_additional := ad |}.

(* regression witness of fix 4fb31f1: an answer out of chain order comes back in chain order *)
Example C06_ex_reordered :
  validate_nameserver_response qa
    (reply RCODE_NoError [mk target RT_A (RD_A 16909060); mk www RT_CNAME (RD_Name target)] [] []) 2
  = Ok (Some (NRAnswer [mk www RT_CNAME (RD_Name target); mk target RT_A (RD_A 16909060)] None)).
Proof. vm_compute. reflexivity. Qed.

(* an off-path CNAME is not accepted *)
Example C06_ex_off_path :
  validate_nameserver_response qa
    (reply RCODE_NoError [mk www RT_CNAME (RD_Name target); mk other RT_CNAME (RD_Name xname);
                          mk target RT_A (RD_A 16909060)] [] []) 2
  = Ok (Some (NRAnswer [mk www RT_CNAME (RD_Name target); mk target RT_A (RD_A 16909060)] None)).
Proof. vm_compute. reflexivity. Qed.

(* regression witness of fix eed2feb: a delegation keeps only NS records owned by the delegated name *)
Example C06_ex_foreign_ns :
  validate_nameserver_response qa
    (reply RCODE_NoError [] [mk zone RT_NS (RD_Name ns1); mk foreign RT_NS (RD_Name ns1)]
           [mk ns1 RT_A (RD_A 167772161)]) 2
  = Ok (Some (NRDelegation [mk zone RT_NS (RD_Name ns1); mk ns1 RT_A (RD_A 167772161)]
                           {| ns_hostnames := [ns1]; ns_name := zone |})).
Proof. vm_compute. reflexivity. Qed.

(* regression witness of fix cbd301d: a question for the CNAME record itself is answered by
   that record (before: a CNAME result to be chased) *)
Example C06_ex_cname_question :
  validate_nameserver_response {| q_name := www; q_type := RT_CNAME; q_class := RC_IN |}
    (reply RCODE_NoError [mk www RT_CNAME (RD_Name target); mk target RT_CNAME (RD_Name other)] [] []) 2
  = Ok (Some (NRAnswer [mk www RT_CNAME (RD_Name target)] None)).
Proof. vm_compute. reflexivity. Qed.

(* a CNAME loop is no answer *)
Example C06_ex_loop :
  validate_nameserver_response qa
    (reply RCODE_NoError [mk www RT_CNAME (RD_Name target); mk target RT_CNAME (RD_Name www)] [] []) 2
  = Ok None.
Proof. vm_compute. reflexivity. Qed.

(* NXDOMAIN with its SOA *)
Example C06_ex_nxdomain :
  validate_nameserver_response qa
    (reply RCODE_NameError [] [mk zone RT_SOA (RD_SOA ns1 ns1 1 2 3 4 5)] []) 3
  = Ok (Some (NRAnswer [] (Some (mk zone RT_SOA (RD_SOA ns1 ns1 1 2 3 4 5))))).
Proof. vm_compute. reflexivity. Qed.

(* the names used are well formed, so the hypothesis of C06_delegation_hostnames_named can be met *)
Example C06_ex_wf : Forall (fun r => wf_name (rr_name r)) [mk zone RT_NS (RD_Name ns1); mk foreign RT_NS (RD_Name ns1)].
Proof.
  repeat constructor; cbn [mk rr_name].
  - exists [[101;120]; [99;111;109]]. split; [reflexivity|]. split; [|vm_compute; discriminate].
    repeat constructor; try discriminate; vm_compute; try discriminate; repeat constructor; try discriminate; reflexivity.
  - exists [[102]; [101;120]]. split; [reflexivity|]. split; [|vm_compute; discriminate].
    repeat constructor; try discriminate; vm_compute; try discriminate; repeat constructor; try discriminate; reflexivity.
Qed.

(* the gate: a matching reply passes, a reply with another id does not *)
Example C06_ex_gate :
  response_matches_request (from_question 4660 qa) (reply RCODE_NoError [mk www RT_A (RD_A 1)] [] []) = true /\
  response_matches_request (from_question 4661 qa) (reply RCODE_NoError [mk www RT_A (RD_A 1)] [] []) = false /\
  response_matches_request (from_question 4660 qa) (reply RCODE_ServerFailure [] [] []) = false.
Proof. vm_compute. auto. Qed.

Print Assumptions C06_follow_terminates.
Print Assumptions C06_path_fuel_suffices.
Print Assumptions C06_never_panics.
Print Assumptions C06_answer_branch_live.
Print Assumptions C06_filter_sound.
Print Assumptions C06_filter_chain_ok.
Print Assumptions C06_delegation_progress.
Print Assumptions C06_delegation_hostnames_named.
Print Assumptions C06_delegation_hostnames_nonempty.
Print Assumptions C06_header_gate.
Print Assumptions C06_gate_sound.
Print Assumptions C06_soa_sound.
Print Assumptions C06_vchain_chain_ok.

(* ====================================================================== *)
(* network modes: only validated records reach the cache (recursive model)  *)
(* (lemmas: Resolver/RecursiveProofs.v)                                     *)
(* ====================================================================== *)
From RV Require Import Zone.ZoneModel Resolver.TransportModel Resolver.RecursiveModel Resolver.RecursiveProofs.

(* only_validated_is_cached.  In the recursive model the cache is changed by nothing but
   `insert_all` of a PREFIX ([firstn i]) of the records ([nr_rrs]: the RRs of the Answer / CNAME /
   Delegation variant) of a result of validate_nameserver_response: all of them, unless
   cut_at_local_authority (fix b2bc3c2) cuts the answer before the first record whose owner an
   authoritative local zone owns -- then the records before it.  Said without instrumenting the model: the cache is an
   arbitrary type, and EVERY property of caches that such inserts preserve is preserved by a whole
   resolution -- for every oracle, zone set, mode and fuel.  (Instantiating the cache with one that
   records the arguments of insert_all gives the literal statement.)  With C06_filter_sound every
   record so inserted is [allowed]; that every record of the RESULT is local data or such a record
   is C08_answer_provenance_recursive. *)
Theorem C06_only_validated_is_cached :
  forall (cache : Type) (cache_get : cache -> dname -> N -> list rr) (cache_insert_all : cache -> list rr -> cache)
         (sort_names : list dname -> list dname) (zs : zones) (o : oracle) (pmode : protocol_mode) (port : N)
         (P : cache -> Prop),
  (forall c q resp mc nr i, P c -> validate_nameserver_response q resp mc = Ok (Some nr) ->
                            P (cache_insert_all c (firstn i (nr_rrs nr)))) ->
  forall fuel q st, P (fst st) ->
  P (fst (snd (resolve_recursive cache cache_get cache_insert_all sort_names zs o pmode port fuel q st))).
Proof. exact recursive_only_validated_cached. Qed.
Print Assumptions C06_only_validated_is_cached.

(* the literal reading, on a cache that remembers what was inserted: every argument of insert_all
   during a resolution is a prefix of [nr_rrs] of a validated reply (so every record inserted is
   a record of a validated reply: C06_only_validated_records_cached below) *)
Theorem C06_only_validated_is_cached_recorded :
  forall (cache : Type) (cache_get : cache -> dname -> N -> list rr) (cache_insert_all : cache -> list rr -> cache)
         (sort_names : list dname -> list dname) (zs : zones) (o : oracle) (pmode : protocol_mode) (port : N)
         fuel q (c : cache) ts,
  let get' (c : cache * list (list rr)) := cache_get (fst c) in
  let ins' (c : cache * list (list rr)) rrs := (cache_insert_all (fst c) rrs, snd c ++ [rrs]) in
  Forall (fun rrs => exists q' resp mc nr i, validate_nameserver_response q' resp mc = Ok (Some nr) /\ rrs = firstn i (nr_rrs nr))
         (snd (fst (snd (resolve_recursive (cache * list (list rr)) get' ins' sort_names zs o pmode port fuel q ((c, []), ts))))).
Proof.
  intros cache cache_get cache_insert_all sort_names zs o pmode port fuel q c ts get' ins'.
  apply (recursive_only_validated_cached (cache * list (list rr)) get' ins' sort_names zs o pmode port
           (fun c' => Forall (fun rrs => exists q' resp mc nr i, validate_nameserver_response q' resp mc = Ok (Some nr) /\ rrs = firstn i (nr_rrs nr)) (snd c'))).
  - intros c' q' resp mc nr i H Hv. subst ins'. cbn [snd]. apply Forall_app. split; [exact H|].
    constructor; [|constructor]. exists q', resp, mc, nr, i. auto.
  - constructor.
Qed.
Print Assumptions C06_only_validated_is_cached_recorded.

(* record by record: every RR given to insert_all during a resolution is one of the records of a
   result of validate_nameserver_response (hence [allowed], C06_filter_sound) *)
Theorem C06_only_validated_records_cached :
  forall (cache : Type) (cache_get : cache -> dname -> N -> list rr) (cache_insert_all : cache -> list rr -> cache)
         (sort_names : list dname -> list dname) (zs : zones) (o : oracle) (pmode : protocol_mode) (port : N)
         fuel q (c : cache) ts,
  let get' (c : cache * list (list rr)) := cache_get (fst c) in
  let ins' (c : cache * list (list rr)) rrs := (cache_insert_all (fst c) rrs, snd c ++ [rrs]) in
  forall rrs r,
    In rrs (snd (fst (snd (resolve_recursive (cache * list (list rr)) get' ins' sort_names zs o pmode port fuel q ((c, []), ts))))) ->
    In r rrs ->
    exists q' resp mc nr, validate_nameserver_response q' resp mc = Ok (Some nr) /\ In r (nr_rrs nr).
Proof.
  intros cache cache_get cache_insert_all sort_names zs o pmode port fuel q c ts get' ins' rrs r Hin Hr.
  pose proof (C06_only_validated_is_cached_recorded cache cache_get cache_insert_all sort_names zs o pmode port fuel q c ts) as H.
  cbv zeta in H. eapply Forall_forall in H; [|exact Hin].
  destruct H as (q' & resp & mc & nr & i & Hv & ->). exists q', resp, mc, nr. split; [exact Hv|].
  eapply firstn_incl, Hr.
Qed.
Print Assumptions C06_only_validated_records_cached.
