(* Properties/C08.v -- property theorems for C08 (every resolution terminates in
   bounded time whatever upstream does); statements only, each closed by
   [exact lemma] and followed by Print Assumptions.

   FIRST STEP.  What is proved here is the time clause at the level of the
   transport combinators, for EVERY oracle: each upstream exchange costs at most
   5 s per transport, query_nameserver at most 10 s, and no step moves the clock
   past the 60 s budget (the 60 s wrapper is the check inside [charge]).
   Not yet proved (follow-up): recursive_terminates / forwarding_terminates (a
   fuel bound for every oracle), no_panic, answer_provenance.  Until then those
   clauses are covered by the differential stream and the oracle of
   vlib/p_c08.py only. *)
From RV Require Import Base.Prelude Wire.WireTypes Resolver.TransportModel Resolver.ResolverFacts.

(* each exchange costs at most 5 s per transport, whatever the peer does *)
Theorem C08_udp_exchange_cost_bounded : forall r : treply, fst (udp_outcome r) <= UDP_TIMEOUT_MS.
Proof. exact udp_outcome_cost. Qed.
Print Assumptions C08_udp_exchange_cost_bounded.

Theorem C08_tcp_exchange_cost_bounded : forall r : treply, fst (tcp_outcome r) <= TCP_TIMEOUT_MS.
Proof. exact tcp_outcome_cost. Qed.
Print Assumptions C08_tcp_exchange_cost_bounded.

(* the clock never passes the budget: the result of the 60 s wrapper is produced at cost <= 60 s *)
Theorem C08_charge_within_budget : forall c s x s',
  ts_elapsed s <= BUDGET_MS -> charge c s = (x, s') -> ts_elapsed s' <= BUDGET_MS.
Proof. exact charge_within_budget. Qed.
Print Assumptions C08_charge_within_budget.

(* one UDP attempt: time moves forward by at most 5 s and stays within the budget, for every oracle *)
Theorem C08_udp_exchange_time : forall (o : oracle) a q rd req s x s',
  ts_elapsed s <= BUDGET_MS -> udp_exchange o a q rd req s = (x, s') ->
  ts_elapsed s <= ts_elapsed s' /\ ts_elapsed s' <= ts_elapsed s + UDP_TIMEOUT_MS /\ ts_elapsed s' <= BUDGET_MS.
Proof. exact udp_exchange_time. Qed.
Print Assumptions C08_udp_exchange_time.

Theorem C08_tcp_exchange_time : forall (o : oracle) a q rd req s x s',
  ts_elapsed s <= BUDGET_MS -> tcp_exchange o a q rd req s = (x, s') ->
  ts_elapsed s <= ts_elapsed s' /\ ts_elapsed s' <= ts_elapsed s + TCP_TIMEOUT_MS /\ ts_elapsed s' <= BUDGET_MS.
Proof. exact tcp_exchange_time. Qed.
Print Assumptions C08_tcp_exchange_time.

(* query_nameserver: at most 10 s in total *)
Theorem C08_query_nameserver_time : forall (o : oracle) a q rd s x s',
  ts_elapsed s <= BUDGET_MS -> query_nameserver o a q rd s = (x, s') ->
  ts_elapsed s <= ts_elapsed s' /\ ts_elapsed s' <= ts_elapsed s + (UDP_TIMEOUT_MS + TCP_TIMEOUT_MS)
  /\ ts_elapsed s' <= BUDGET_MS.
Proof. exact query_nameserver_time. Qed.
Print Assumptions C08_query_nameserver_time.

(* the hypotheses are satisfiable and the bounds are met: a peer that never answers costs exactly 5 s *)
Example C08_silent_peer_costs_5s :
  udp_outcome {| t_bytes := None; t_delay_ms := 0; t_close := false; t_refuse := false |} = (5000, None)
  /\ tcp_outcome {| t_bytes := None; t_delay_ms := 0; t_close := false; t_refuse := false |} = (5000, None)
  /\ udp_outcome {| t_bytes := Some [1; 2]; t_delay_ms := 5000; t_close := true; t_refuse := false |} = (5000, Some [1; 2])
  /\ udp_outcome {| t_bytes := Some [1; 2]; t_delay_ms := 5001; t_close := true; t_refuse := false |} = (5000, None).
Proof. vm_compute. repeat split. Qed.
