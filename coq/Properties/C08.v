(* Properties/C08.v -- property theorems for C08 (every resolution terminates in
   bounded time whatever upstream does); statements only, each closed by
   [exact lemma] and followed by Print Assumptions.

   FIRST STEP.  What is proved here is the time clause at the level of the
   transport combinators, for EVERY oracle: each upstream exchange costs at most
   5 s per transport, query_nameserver at most 10 s, and no step moves the clock
   past the 60 s budget (the 60 s wrapper is the check inside [charge]).
   FOLLOW-UP (second half of this file): recursive_terminates /
   forwarding_terminates for every oracle, no_panic, answer_provenance, and two
   worked oracles (circular referral, upstream alias loop).  Outside the model
   (runtime): that tokio's timeout fires, cancellation safety, real sockets. *)
From RV Require Import Base.Prelude Wire.WireTypes Resolver.TransportModel Resolver.ResolverFacts.

(* each exchange costs at most 5 s per transport, whatever the peer does *)
Theorem C08_udp_exchange_cost_bounded : forall r : treply, fst (udp_outcome r) <= UDP_TIMEOUT_MS.
Proof. exact udp_outcome_cost. Qed.
Print Assumptions C08_udp_exchange_cost_bounded.

Theorem C08_tcp_exchange_cost_bounded : forall r : treply, fst (tcp_outcome r) <= TCP_TIMEOUT_MS.
Proof. exact tcp_outcome_cost. Qed.
Print Assumptions C08_tcp_exchange_cost_bounded.

(* the clock never passes the budget: the result of the 60 s wrapper is produced at cost <= 60 s *)
Theorem C08_charge_within_budget : forall c s x s',
  ts_elapsed s <= BUDGET_MS -> charge c s = (x, s') -> ts_elapsed s' <= BUDGET_MS.
Proof. exact charge_within_budget. Qed.
Print Assumptions C08_charge_within_budget.

(* one UDP attempt: time moves forward by at most 5 s and stays within the budget, for every oracle *)
Theorem C08_udp_exchange_time : forall (o : oracle) a q rd req s x s',
  ts_elapsed s <= BUDGET_MS -> udp_exchange o a q rd req s = (x, s') ->
  ts_elapsed s <= ts_elapsed s' /\ ts_elapsed s' <= ts_elapsed s + UDP_TIMEOUT_MS /\ ts_elapsed s' <= BUDGET_MS.
Proof. exact udp_exchange_time. Qed.
Print Assumptions C08_udp_exchange_time.

Theorem C08_tcp_exchange_time : forall (o : oracle) a q rd req s x s',
  ts_elapsed s <= BUDGET_MS -> tcp_exchange o a q rd req s = (x, s') ->
  ts_elapsed s <= ts_elapsed s' /\ ts_elapsed s' <= ts_elapsed s + TCP_TIMEOUT_MS /\ ts_elapsed s' <= BUDGET_MS.
Proof. exact tcp_exchange_time. Qed.
Print Assumptions C08_tcp_exchange_time.

(* query_nameserver: at most 10 s in total *)
Theorem C08_query_nameserver_time : forall (o : oracle) a q rd s x s',
  ts_elapsed s <= BUDGET_MS -> query_nameserver o a q rd s = (x, s') ->
  ts_elapsed s <= ts_elapsed s' /\ ts_elapsed s' <= ts_elapsed s + (UDP_TIMEOUT_MS + TCP_TIMEOUT_MS)
  /\ ts_elapsed s' <= BUDGET_MS.
Proof. exact query_nameserver_time. Qed.
Print Assumptions C08_query_nameserver_time.

(* the hypotheses are satisfiable and the bounds are met: a peer that never answers costs exactly the
   time-out (5 s in the current source: the constants come from tools/tables.py); a reply arriving
   exactly at the time-out is still seen, one millisecond later it is not *)
Example C08_silent_peer_costs_5s :
  udp_outcome {| t_bytes := None; t_delay_ms := 0; t_close := false; t_refuse := false |} = (UDP_TIMEOUT_MS, None)
  /\ tcp_outcome {| t_bytes := None; t_delay_ms := 0; t_close := false; t_refuse := false |} = (TCP_TIMEOUT_MS, None)
  /\ udp_outcome {| t_bytes := Some [1; 2]; t_delay_ms := UDP_TIMEOUT_MS; t_close := true; t_refuse := false |} = (UDP_TIMEOUT_MS, Some [1; 2])
  /\ udp_outcome {| t_bytes := Some [1; 2]; t_delay_ms := UDP_TIMEOUT_MS + 1; t_close := true; t_refuse := false |} = (UDP_TIMEOUT_MS, None).
Proof. vm_compute. repeat split. Qed.

(* ====================================================================== *)
(* FOLLOW-UP: termination for every oracle, no panic, provenance            *)
(* (lemmas: Resolver/RecursiveProofs.v, Resolver/ForwardingProofs.v)        *)
(* ====================================================================== *)
From RV Require Import Name.NameModel Wire.WireModel Zone.ZoneModel Resolver.LocalModel Resolver.LocalProofs
     Resolver.ValidateModel Resolver.ValidateSpec Resolver.RecursiveModel Resolver.ForwardingModel Resolver.Universe
     Resolver.RecursiveProofs Resolver.ForwardingProofs.

(* The one thing assumed of the peer: what it sends are octets (the model's bytes are [N]). *)

(* recursive_terminates.  For EVERY oracle, every cache (an arbitrary type with arbitrary read and
   insert functions), every zone set, every candidate order [sort_names] (not even required to be a
   permutation), every protocol mode and every state there is a fuel F from which on the model's
   result no longer depends on the fuel and is not OutOfFuel.  The measure behind F is
   lexicographic: free slots of the question stack (every nested resolution pushes a question or
   fails the limit / duplicate guard; limit RECURSION_LIMIT = 32), labels of the question name still
   to be matched (every accepted referral strictly increases the match count, which never exceeds
   the number of labels of the question name: C06_delegation_progress), candidates left
   (2 * fast-pass candidates + deferred ones + 1, resp. the slow-pass candidates).  F depends on the
   oracle through the number of host names in the referrals it sends, so it is existential; the
   drivers pass RESOLVER_FUEL and the correspondence stream would show OutOfFuel if that were ever
   too little. *)
Theorem C08_recursive_terminates :
  forall (cache : Type) (cache_get : cache -> dname -> N -> list rr) (cache_insert_all : cache -> list rr -> cache)
         (sort_names : list dname -> list dname) (zs : zones) (o : oracle) (pmode : protocol_mode) (port : N),
  oracle_bytes_ok o -> forall q st,
  exists F,
    fst (resolve_recursive cache cache_get cache_insert_all sort_names zs o pmode port F q st) <> OutOfFuel
    /\ forall fuel, (F <= fuel)%nat ->
         resolve_recursive cache cache_get cache_insert_all sort_names zs o pmode port fuel q st
         = resolve_recursive cache cache_get cache_insert_all sort_names zs o pmode port F q st.
Proof. exact recursive_terminates. Qed.
Print Assumptions C08_recursive_terminates.

(* forwarding_terminates, with an explicit fuel: 34 = RECURSION_LIMIT + 2 nested calls always suffice *)
Theorem C08_forwarding_terminates :
  forall (cache : Type) (cache_get : cache -> dname -> N -> list rr) (cache_insert_all : cache -> list rr -> cache)
         (zs : zones) (o : oracle) (forwarder : addr),
  oracle_bytes_ok o -> forall q st,
  fst (resolve_forwarding cache cache_get cache_insert_all zs o forwarder 34 q st) <> OutOfFuel
  /\ forall fuel, (34 <= fuel)%nat ->
       resolve_forwarding cache cache_get cache_insert_all zs o forwarder fuel q st
       = resolve_forwarding cache cache_get cache_insert_all zs o forwarder 34 q st.
Proof. exact forwarding_terminates. Qed.
Print Assumptions C08_forwarding_terminates.

(* no_panic: the resolvers panic only if the zone model does (Zones::resolve's unwrap and the two
   panic sites of zone lookup -- C02's subject); nothing an upstream server sends can make them *)
Theorem C08_recursive_no_panic :
  forall (cache : Type) (cache_get : cache -> dname -> N -> list rr) (cache_insert_all : cache -> list rr -> cache)
         (sort_names : list dname -> list dname) (zs : zones) (o : oracle) (pmode : protocol_mode) (port : N),
  oracle_bytes_ok o -> ~ zone_panics zs -> forall fuel q st,
  fst (resolve_recursive cache cache_get cache_insert_all sort_names zs o pmode port fuel q st) <> Panic.
Proof. exact recursive_no_panic. Qed.
Print Assumptions C08_recursive_no_panic.

Theorem C08_forwarding_no_panic :
  forall (cache : Type) (cache_get : cache -> dname -> N -> list rr) (cache_insert_all : cache -> list rr -> cache)
         (zs : zones) (o : oracle) (forwarder : addr),
  oracle_bytes_ok o -> ~ zone_panics zs -> forall fuel q st,
  fst (resolve_forwarding cache cache_get cache_insert_all zs o forwarder fuel q st) <> Panic.
Proof. exact forwarding_no_panic. Qed.
Print Assumptions C08_forwarding_no_panic.

(* answer_provenance.  Every record of a successful result (answer records and the SOA) agrees in
   owner, type and data with
     - a record (or the SOA) of a configured zone, or
     - a record the cache held before the resolution, or
     - a record of a message the oracle SENT during it: some logged exchange delivered octets
       (after the 5 s time-out, the 512-octet receive buffer, the TCP length prefix) that decode to
       a message which passed the header gate against that exchange's request and in which the
       filter's specification [allowed] (C06) admits the record for that exchange's question.
   "Agrees in owner, type and data": the cache does not keep the class and hands back the remaining
   TTL.  The cache is abstract; what is assumed of it are the two laws below ([cache_content]: the
   records it holds), which SimpleCache meets (C08_simple_cache_laws). *)
Theorem C08_answer_provenance_recursive :
  forall (cache : Type) (cache_get : cache -> dname -> N -> list rr) (cache_insert_all : cache -> list rr -> cache)
         (sort_names : list dname -> list dname) (zs : zones) (o : oracle) (pmode : protocol_mode) (port : N)
         (cache_content : cache -> rr -> Prop),
  (forall c n t r, In r (cache_get c n t) -> exists r', cache_content c r' /\ rr_sim r r') ->
  (forall c rrs r, cache_content (cache_insert_all c rrs) r -> cache_content c r \/ exists r', In r' rrs /\ rr_sim r r') ->
  forall fuel q st res st',
  resolve_recursive cache cache_get cache_insert_all sort_names zs o pmode port fuel q st = (Ok res, st') ->
  forall r, In r (resolved_rrs res ++ opt_list (resolved_soa_rr res)) ->
  exists r0, rr_sim r r0 /\
    (((exists name qt z zr, zones_resolve zs name qt = Some (z, Ok zr) /\ In r0 (zresult_rrs zr))
      \/ (exists name qt z zr, zones_resolve zs name qt = Some (z, zr) /\ zone_soa_rr z = Some r0))
     \/ cache_content (fst st) r0
     \/ (exists e resp mc, In e (ts_rlog (snd st')) /\ reply_from o e /\ exchange_message e = Some resp
           /\ response_matches_request (make_request (x_question e) (x_rd e)) resp = true
           /\ allowed (x_question e) mc resp r0)).
Proof. exact recursive_provenance. Qed.
Print Assumptions C08_answer_provenance_recursive.

(* forwarding: the third source is a record of the ANSWER section of a reply of the forwarder that
   passed the gate (passed through unfiltered: deviation D6), or the single SOA of its authority
   section when it denies the name or type *)
Theorem C08_answer_provenance_forwarding :
  forall (cache : Type) (cache_get : cache -> dname -> N -> list rr) (cache_insert_all : cache -> list rr -> cache)
         (zs : zones) (o : oracle) (forwarder : addr) (cache_content : cache -> rr -> Prop),
  (forall c n t r, In r (cache_get c n t) -> exists r', cache_content c r' /\ rr_sim r r') ->
  (forall c rrs r, cache_content (cache_insert_all c rrs) r -> cache_content c r \/ exists r', In r' rrs /\ rr_sim r r') ->
  forall fuel q st res st',
  resolve_forwarding cache cache_get cache_insert_all zs o forwarder fuel q st = (Ok res, st') ->
  forall r, In r (resolved_rrs res ++ opt_list (resolved_soa_rr res)) ->
  exists r0, rr_sim r r0 /\
    (zone_src zs r0 \/ cache_content (fst st) r0
     \/ (exists e resp, In e (ts_rlog (snd st')) /\ reply_from o e /\ x_addr e = forwarder /\ exchange_message e = Some resp
           /\ response_matches_request (make_request (x_question e) (x_rd e)) resp = true
           /\ (In r0 (m_answers resp) \/ allowed_soa (x_question e) 0 resp r0))).
Proof. exact forwarding_provenance. Qed.
Print Assumptions C08_answer_provenance_forwarding.

(* the cache laws are satisfiable: SimpleCache (what the model driver runs) meets them *)
Theorem C08_simple_cache_laws :
  (forall c n t r, In r (sc_get c n t) -> exists r', sc_content c r' /\ rr_sim r r')
  /\ (forall c rrs r, sc_content (sc_insert_all c rrs) r -> sc_content c r \/ exists r', In r' rrs /\ rr_sim r r')
  /\ (forall r, ~ sc_content sc_empty r).
Proof.
  split; [exact sc_get_content|]. split; [intros c rrs r; apply sc_insert_all_content|exact sc_empty_content].
Qed.
Print Assumptions C08_simple_cache_laws.

(* ---- circular referrals and alias cycles are instances: two worked oracles ---- *)
Definition c08_nm (ls : list label) : dname :=
  {| labels := ls ++ [[]]; nlen := fold_right (fun l acc => 1 + llen l + acc) 1 ls |}.
Definition c08_root := c08_nm [].
Definition c08_a := c08_nm [[97]].                               (* a. *)
Definition c08_com := c08_nm [[99; 111; 109]].                   (* com. *)
Definition c08_ns_com := c08_nm [[110; 115]; [99; 111; 109]].    (* ns.com. *)
Definition c08_www_com := c08_nm [[119; 119; 119]; [99; 111; 109]].  (* www.com. *)
Definition c08_a_com := c08_nm [[97]; [99; 111; 109]].           (* a.com. *)
Definition c08_rr (n : dname) (t : N) (d : rdata) : rr :=
  {| rr_name := n; rr_type := t; rr_class := RC_IN; rr_ttl := 300; rr_data := d |}.
Definition c08_ip1 : N := 167772161.      (* 10.0.0.1 *)
Definition c08_ip2 : N := 167772162.      (* 10.0.0.2 *)

(* root hints: a non-authoritative `.` zone naming a. = 10.0.0.1 *)
Definition c08_hints : zones :=
  match (let* z1 := zone_insert false (zone_new c08_root None) c08_root RT_NS (RD_Name c08_a) 3600 in
         zone_insert false z1 c08_a RT_A (RD_A c08_ip1) 3600) with
  | Ok z => zones_insert [] z
  | _ => []
  end.

Definition c08_msg (q : question) (an au ad : list rr) : list byte :=
  match encode (reply_message q {| sr_answers := an; sr_authority := au; sr_additional := ad; sr_aa := false;
                                   sr_rcode := RCODE_NoError |}) with
  | Ok bs => bs
  | _ => []
  end.
Definition c08_q (n : dname) : question := {| q_name := n; q_type := RT_A; q_class := RC_IN |}.

(* 10.0.0.1 refers www.com. to ns.com. = 10.0.0.2, which refers it back to a. = 10.0.0.1 *)
Definition c08_circle : table :=
  [ ((inl c08_ip1, c08_q c08_www_com),
     c08_msg (c08_q c08_www_com) [] [c08_rr c08_com RT_NS (RD_Name c08_ns_com)] [c08_rr c08_ns_com RT_A (RD_A c08_ip2)]);
    ((inl c08_ip2, c08_q c08_www_com),
     c08_msg (c08_q c08_www_com) [] [c08_rr c08_com RT_NS (RD_Name c08_a)] [c08_rr c08_a RT_A (RD_A c08_ip1)]) ].

(* 10.0.0.1 answers www.com. with an alias to a.com. and a.com. with an alias to www.com. *)
Definition c08_alias_loop : table :=
  [ ((inl c08_ip1, c08_q c08_www_com),
     c08_msg (c08_q c08_www_com) [c08_rr c08_www_com RT_CNAME (RD_Name c08_a_com)] [] []);
    ((inl c08_ip1, c08_q c08_a_com),
     c08_msg (c08_q c08_a_com) [c08_rr c08_a_com RT_CNAME (RD_Name c08_www_com)] [] []) ].

Definition c08_run (t : table) :=
  resolve_simple (ModeRecursive PreferV4) 53 c08_hints (table_oracle t []) 200%nat (c08_q c08_www_com)
                 (sc_empty, tstate_init).

(* the model ends both with an error after two exchanges -- not with OutOfFuel: the second referral
   is not deeper than the first, so it is not followed; the second alias leads back to a question
   already on the stack *)
Example C08_circular_referral_ends :
  fst (c08_run c08_circle) = Err (EDeadEnd (c08_q c08_www_com))
  /\ length (ts_rlog (snd (snd (c08_run c08_circle)))) = 2%nat.
Proof. vm_compute. split; reflexivity. Qed.

Example C08_alias_loop_ends :
  fst (c08_run c08_alias_loop) = Err (EDeadEnd (c08_q c08_a_com))
  /\ length (ts_rlog (snd (snd (c08_run c08_alias_loop)))) = 2%nat.
Proof. vm_compute. split; reflexivity. Qed.

(* the oracles of these examples send octets, and the example zones do not panic: the hypotheses of
   the theorems above are satisfiable *)
Example C08_example_oracle_ok : oracle_bytes_ok (table_oracle c08_circle []) /\ oracle_bytes_ok (table_oracle c08_alias_loop []).
Proof.
  split; apply table_oracle_bytes_ok; vm_compute; repeat constructor.
Qed.
(* ... and so is "the zone model does not panic": e.g. a resolver configured without zones *)
Example C08_example_zones_ok : ~ zone_panics [].
Proof.
  intros (n & qt & z & H). unfold zones_resolve, zones_get in H.
  assert (E : forall sufs, zones_get_loop (@nil (dname * zone)) sufs = None).
  { induction sufs as [|ls rest IH]; [reflexivity|]. cbn [zones_get_loop alookup]. destruct (from_labels ls); exact IH. }
  rewrite E in H. discriminate.
Qed.

(* ... and so does the REAL cache model (Cache/CacheModel.v under its representation invariant, at
   any fixed virtual instant [now]; Resolver/ResolverCacheInstance.v): every theorem above stated for
   an abstract cache applies to it.  (The model driver of the correspondence stream still runs
   SimpleCache.) *)
From RV Require Import Resolver.LocalSpec Resolver.ResolverCacheInstance.
Theorem C08_real_cache_laws : forall now : N,
  (forall c n t r, In r (rc_get now c n t) -> exists r', rc_content c r' /\ rr_sim r r')
  /\ (forall c rrs r, rc_content (rc_insert_all now c rrs) r -> rc_content c r \/ exists r', In r' rrs /\ rr_sim r r')
  /\ (forall c, cget_ok (rc_get now c))
  /\ (forall r, ~ rc_content rc_new r).
Proof.
  intro now. split; [exact (rc_get_content now)|]. split; [exact (rc_insert_all_content now)|].
  split; [exact (rc_get_ok now)|exact rc_new_content].
Qed.
Print Assumptions C08_real_cache_laws.

(* for instance: provenance for the recursive resolver over the real cache model *)
Theorem C08_answer_provenance_recursive_real_cache :
  forall (now : N) (sort_names : list dname -> list dname) (zs : zones) (o : oracle) (pmode : protocol_mode) (port : N)
         fuel q st res st',
  resolve_recursive rcache (rc_get now) (rc_insert_all now) sort_names zs o pmode port fuel q st = (Ok res, st') ->
  forall r, In r (resolved_rrs res ++ opt_list (resolved_soa_rr res)) ->
  exists r0, rr_sim r r0 /\
    (zone_src zs r0 \/ rc_content (fst st) r0 \/ upstream_src o (ts_rlog (snd st')) r0).
Proof.
  intros now sort_names zs o pmode port.
  exact (recursive_provenance rcache (rc_get now) (rc_insert_all now) sort_names zs o pmode port rc_content
           (rc_get_content now) (rc_insert_all_content now)).
Qed.
Print Assumptions C08_answer_provenance_recursive_real_cache.
