(* Properties/C04.v -- property theorems for C04 (encode-then-decode is the identity).
   The lemmas are in Wire/WireEncodeProofs.v (encoder against the grammar) and
   Wire/WireDecodeProofs.v (the model's decoder against the same grammar); the
   corollaries that need both are proved here in a few lines.

   [Parses bs m] (Wire/WireGrammar.v) is RFC 1035 section 4.1 written as a relation: the
   "independent decoder" of the property text.  [decode] is the model of
   Message::from_octets, [encode] the model of Message::to_octets. *)
From RV Require Import Base.Prelude Base.Cursor Name.NameModel Name.NameSpec
  Wire.WireTypes Wire.WireModel Wire.WireGrammar Wire.WireEncodeProofs Wire.WireDecodeProofs.

(* ---- T1: the name -> pointer table ---- *)

(* [wb_ok] (buffer length recorded correctly, octets are octets, every table entry sound, one
   entry per name) holds of the empty buffer and is preserved by every step of the encoder *)
Theorem C04_enc_table_inv :
  wb_ok wb_empty
  /\ (forall os b, bytes os -> wb_ok b -> wb_ok (write_octets os b))
  /\ (forall v b, wb_ok b -> wb_ok (write_u16 v b))
  /\ (forall v b, wb_ok b -> wb_ok (write_u32 v b))
  /\ (forall n c b, wf_name n -> wb_ok b -> wb_ok (encode_name n c b))
  /\ (forall ty d b, wf_rdata ty d -> wb_ok b -> wb_ok (encode_rdata d b))
  /\ (forall q b, wf_question q -> wb_ok b -> wb_ok (encode_question q b))
  /\ (forall h, wf_header h -> wb_ok (encode_header h wb_empty))
  /\ (forall r b b', wf_rr r -> wb_ok b -> encode_rr r b = Ok b' -> wb_ok b')
  /\ (forall rs b b', Forall wf_rr rs -> wb_ok b -> encode_rrs rs b = Ok b' -> wb_ok b').
Proof. exact enc_table_inv. Qed.
Print Assumptions C04_enc_table_inv.

(* what the invariant says of each entry (n, p): p = 0xC000 + off with off < 2^14, and at
   [off], entirely inside the buffer, the labels of n are written out in full (no pointer
   inside), so a name starting at [off] parses to n *)
Theorem C04_enc_table_entry : forall b n p, wb_ok b -> In (n, p) (wb_ptrs b) ->
  exists off, p = 49152 + off /\ off < 16384 /\ off < wb_len b /\ off + nlen n <= wb_len b
    /\ wf_name n /\ is_root n = false
    /\ PlainAt (wb_octets b) off (labels n)
    /\ NameAt (wb_octets b) off off (labels n) (off + nlen n)
    /\ NameIs (wb_octets b) off n (off + nlen n).
Proof. exact enc_table_inv_entry. Qed.
Print Assumptions C04_enc_table_entry.

Theorem C04_enc_table_keys : forall b, wb_ok b -> NoDup (map fst (wb_ptrs b)).
Proof. exact enc_table_inv_keys. Qed.
Print Assumptions C04_enc_table_keys.

(* the table only ever describes octets already written: facts about a prefix survive
   appending ... *)
Theorem C04_NameAt_stable : forall bs more s p ls nx,
  NameAt bs s p ls nx -> NameAt (bs ++ more) s p ls nx.
Proof. exact NameAt_app. Qed.
Print Assumptions C04_NameAt_stable.

(* ... and RDLENGTH back-patching replaces the two octets at its position and nothing else *)
Theorem C04_patch_local : forall b p v, wb_ok b -> p + 2 <= wb_len b ->
  (forall i, i < p \/ p + 2 <= i -> nthN (wb_octets (patch_u16 p v b)) i = nthN (wb_octets b) i)
  /\ (v < 65536 -> u16At (wb_octets (patch_u16 p v b)) p v).
Proof.
  intros b p v Hok Hp. split; [intros i Hi; now apply patch_u16_nth | now apply patch_u16_written].
Qed.
Print Assumptions C04_patch_local.

(* so it is the same as having written the length in the first place: the model's encode_rr,
   which overwrites the two placeholder octets afterwards, equals the patch-free function *)
Theorem C04_patch_free : forall r b, wb_ok b -> wf_rr r ->
  encode_rr r b =
    if rdata_len (rr_data r) <? 65536
    then Ok (encode_rdata (rr_data r) (write_u16 (rdata_len (rr_data r)) (rr_fixed r b)))
    else Err (CounterTooLarge (rdata_len (rr_data r))).
Proof. exact encode_rr_unpatched. Qed.
Print Assumptions C04_patch_free.

(* every compression pointer emitted addresses the start of an identical name written earlier,
   in full, and ending before the pointer *)
Theorem C04_pointer_target : forall b n p, wb_ok b -> alookup dname_eqb n (wb_ptrs b) = Some p ->
  exists off,
    wb_octets (encode_name n true b) = wb_octets b ++ [192 + off / 256; off mod 256]
    /\ off < 16384 /\ off + nlen n <= wb_len b
    /\ PlainAt (wb_octets b) off (labels n)
    /\ NameIs (wb_octets b) off n (off + nlen n).
Proof. exact encode_name_pointer. Qed.
Print Assumptions C04_pointer_target.

(* ---- T2: what is written parses back ---- *)

Theorem C04_encode_name_parses : forall n c b, wb_ok b -> wf_name n ->
  wb_ok (encode_name n c b)
  /\ NameIs (wb_octets (encode_name n c b)) (wb_len b) n (wb_len (encode_name n c b)).
Proof. exact encode_name_parses. Qed.
Print Assumptions C04_encode_name_parses.

Theorem C04_encode_question_parses : forall q b, wb_ok b -> wf_question q ->
  wb_ok (encode_question q b)
  /\ QuestionAt (wb_octets (encode_question q b)) (wb_len b) q (wb_len (encode_question q b)).
Proof. exact encode_question_parses. Qed.
Print Assumptions C04_encode_question_parses.

Theorem C04_encode_rr_parses : forall r b b', wb_ok b -> wf_rr r -> encode_rr r b = Ok b' ->
  wb_ok b' /\ RRAt (wb_octets b') (wb_len b) r (wb_len b').
Proof. exact encode_rr_parses. Qed.
Print Assumptions C04_encode_rr_parses.

(* T4: the two flag octets, read as the RFC numbers the bits, give back the header fields *)
Theorem C04_header_parses : forall h, wf_header h ->
  wb_ok (encode_header h wb_empty) /\ wb_len (encode_header h wb_empty) = 4
  /\ HeaderIs (wb_octets (encode_header h wb_empty)) h.
Proof. exact encode_header_ok. Qed.
Print Assumptions C04_header_parses.

(* the independent decoder: any well-formed message of any size (no 64 KiB hypothesis) *)
Theorem C04_encode_parses : forall m bs, wf_message m -> encode m = Ok bs -> Parses bs m.
Proof. exact encode_parses. Qed.
Print Assumptions C04_encode_parses.

Theorem C04_encode_bytes : forall m bs,
  wf_message m -> encode m = Ok bs -> Forall (fun b => b < 256) bs.
Proof. exact encode_bytes. Qed.
Print Assumptions C04_encode_bytes.

(* ... and nothing else: the grammar reads at most one message out of a byte string *)
Theorem C04_parses_unique : forall bs m m',
  Forall (fun b => b < 256) bs -> Parses bs m -> Parses bs m' -> m = m'.
Proof.
  intros bs m m' Hb P P'.
  pose proof (decode_complete bs m Hb P) as E. rewrite (decode_complete bs m' Hb P') in E.
  congruence.
Qed.
Print Assumptions C04_parses_unique.

(* the server's own decoder *)
Theorem C04_roundtrip : forall m bs, wf_message m -> encode m = Ok bs -> decode bs = Ok m.
Proof.
  intros m bs Hwf E. apply decode_complete; [eapply encode_bytes | eapply encode_parses]; eauto.
Qed.
Print Assumptions C04_roundtrip.

(* when encoding succeeds: exactly when the four section counts and every opaque RDATA length
   fit 16 bits ([encodable]) *)
Theorem C04_encode_ok_iff : forall m, wf_message m -> ((exists bs, encode m = Ok bs) <-> encodable m).
Proof. exact encode_ok_iff. Qed.
Print Assumptions C04_encode_ok_iff.

(* ---- T3: re-encoding whatever decodes ---- *)

(* against the grammar *)
Theorem C04_reencode_parses : forall bs m, bytes bs -> Parses bs m -> wf_message m ->
  exists bs', encode m = Ok bs' /\ Parses bs' m /\ bytes bs'.
Proof. exact reencode_parses. Qed.
Print Assumptions C04_reencode_parses.

(* with the model's decoder.  No side condition: encoding a decoded message always succeeds
   (section counts and opaque RDATA lengths were read from 16-bit fields; RDATA holding names
   that were compressed in the input grows when written in full, but is at most 530 octets) *)
Theorem C04_reencode : forall bs m, Forall (fun b => b < 256) bs -> decode bs = Ok m ->
  exists bs', encode m = Ok bs' /\ decode bs' = Ok m.
Proof.
  intros bs m Hb Hd.
  destruct (reencode_parses bs m Hb (decode_sound bs m Hb Hd) (decode_wf bs m Hb Hd))
    as (bs' & E & P & B).
  exists bs'. split; [exact E|]. now apply decode_complete.
Qed.
Print Assumptions C04_reencode.

(* ---- the hypotheses are satisfiable ---- *)

(* every record shape, repeated names, a 255-octet name, empty RDATA *)
Example C04_example : wf_message ex_msg
  /\ exists bs, encode ex_msg = Ok bs /\ llen bs = 859 /\ decode bs = Ok ex_msg.
Proof. split; [exact ex_msg_wf | exact ex_msg_roundtrip]. Qed.
Print Assumptions C04_example.

(* a name first written beyond offset 16383: never memoised, written in full every time *)
Example C04_example_big : wf_message ex_big
  /\ exists bs, encode ex_big = Ok bs /\ decode bs = Ok ex_big
       /\ llen bs = 12 + (17 + 4) + (2 + 10 + 17000) + 2 * (16 + 10 + 4) + (2 + 10 + 16).
Proof. split; [exact ex_big_wf | exact ex_big_roundtrip]. Qed.
Print Assumptions C04_example_big.
