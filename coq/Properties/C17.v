(* Properties/C17.v -- property theorems for C17 (zone-file part); statements only.
   "Reading any text as a zone file ... terminates with either a result or an error; no input
   makes the parsers panic, loop or exhaust the stack."
   The hosts-file parser's totality (parse_hosts_total) is proved by the hosts subsystem
   (Hosts/HostsProofs.v) and belongs to the same property; it is referenced, not repeated,
   here. *)
From RV Require Import Base.Prelude Name.NameModel Name.NameSpec Wire.WireTypes Zone.ZoneModel
     ZoneFile.ZoneFileModel ZoneFile.ZoneFileProofs.

(* the tokeniser: for EVERY list of scalar values, an entry's tokens or an error *)
Theorem C17_tokenise_total : forall s : list N,
  match tokenise_entry s with Ok _ | Err _ => True | Panic | OutOfFuel => False end.
Proof. exact tokenise_entry_total. Qed.
Print Assumptions C17_tokenise_total.

(* linear step bound: the loop makes one iteration per character consumed, so any fuel list at
   least as long as the stream gives the same result as the stream itself as fuel -- from any
   state of the tokeniser -- and that result is never OutOfFuel / Panic *)
Theorem C17_tokenise_steps_linear : forall fuel s tokens acc st lc,
  (length s <= length fuel)%nat ->
  tok_loop fuel s tokens acc st lc = tok_loop s s tokens acc st lc
  /\ match tok_loop fuel s tokens acc st lc with Ok _ | Err _ => True | Panic | OutOfFuel => False end.
Proof.
  intros fuel s tokens acc st lc H. split; [apply T_fuel; exact H|apply tok_loop_total; exact H].
Qed.
Print Assumptions C17_tokenise_steps_linear.

(* the whole parser, whatever std's address parsers do: Ok or Err, never Panic (every index,
   slice, last-character access, and the from_labels(..).unwrap() of the tree insertion are
   unreachable under their panic conditions), never OutOfFuel (each of the three loops makes
   at most |text|+1 iterations) *)
Theorem C17_parse_zone_total : forall (ip : ipcodec) (data : list N),
  match deserialise ip data with Ok _ | Err _ => True | Panic | OutOfFuel => False end.
Proof. exact parse_zone_total. Qed.
Print Assumptions C17_parse_zone_total.

(* recursion depth: ZoneRecords::insert descends one level per label of the owner below the
   apex, and a well-formed name (all names the parser produces are) has at most 128 labels *)
Theorem C17_insert_depth_bound : forall (z : zone) (name : dname) (rp : list label),
  wf_name name -> relative_rp z name = Some rp -> (length rp <= 128)%nat.
Proof. exact relative_rp_depth. Qed.
Print Assumptions C17_insert_depth_bound.

(* ... and the names are well formed: what parse_domain / parse_domain_or_wildcard return *)
Theorem C17_parsed_names_wf : forall origin s,
  match origin with Some o => wf_name o | None => True end ->
  match parse_domain origin s with Ok n => wf_name n | Err _ => True | _ => False end.
Proof. exact parse_domain_good. Qed.
Print Assumptions C17_parsed_names_wf.

Example C17_total_ex : exists ip, deserialise ip [92; 50] = Err TokeniserUnexpectedEscape.
Proof. exists {| parse_v4 := fun _ => None; parse_v6 := fun _ => None; show_v4 := fun _ => []; show_v6 := fun _ => [] |}. reflexivity. Qed.
