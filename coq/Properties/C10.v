(* Properties/C10.v -- property theorems for C10 (CNAME chains are returned whole, in order, and
   loops end safely), LOCAL PART: chains whose links come from zones and the cache
   (local::resolve_local, dns_resolver::resolve in authoritative-only mode).  Statements only.

   Chains that continue upstream -- filter_chain_ok, recursive_chain_ok, forwarding_chain_ok
   (DESIGN section 5, C10; findings F8/F13) -- are added by the resolver subsystem
   (Resolver/RecursiveModel.v), whose models call [resolve_local] and concatenate its RRs with the
   filtered upstream answer; the theorems here are the local half they build on. *)
From RV Require Import Base.Prelude Name.NameModel Name.NameSpec Wire.WireTypes Zone.ZoneModel
     Resolver.LocalModel Resolver.LocalSpec Resolver.LocalProofs.

(* For a question of a type other than CNAME and ANY, every successful local result that is not a
   direct referral lists the CNAMEs in chain order starting at the question name, no owner twice,
   followed only by RRs of the asked type owned by the last target -- for every mix of
   authoritative zones, non-authoritative zones and cache, every stack and fuel.
   Hypotheses about the two sources: [zones_answers_ok] (discharged for typed zone trees by
   C10_zones_typed_answers_ok below; preservation of typedness by insertion is C02's),
   [cget_ok] (C05: a cache read returns RRs of the asked name and type only). *)
Theorem C10_local_chain_ok : forall zs cget,
  zones_answers_ok zs -> cget_ok cget ->
  forall f stack q l,
    q_type q <> RT_CNAME -> q_type q <> QT_Wildcard ->
    resolve_local zs cget f stack q = Ok l -> ~ is_referral l ->
    chain_ok (q_name q) (q_type q) (lresult_rrs l).
Proof. exact local_chain_ok. Qed.
Print Assumptions C10_local_chain_ok.

(* the same for what resolve() returns in authoritative-only mode *)
Theorem C10_authoritative_only_chain_ok : forall zs cget q r,
  zones_answers_ok zs -> cget_ok cget -> q_type q <> RT_CNAME -> q_type q <> QT_Wildcard ->
  (forall z ns, zones_resolve zs (q_name q) (q_type q) <> Some (z, Ok (ZDelegation ns))) ->
  resolve_authoritative_only zs cget q = Ok r ->
  chain_ok (q_name q) (q_type q) (resolved_rrs r).
Proof. exact authoritative_only_chain_ok. Qed.
Print Assumptions C10_authoritative_only_chain_ok.

(* The exception: a referral comes back only when the authoritative zone's own result for the
   question name is a delegation -- no alias is involved (an alias that runs into a delegation ends
   the chain with the CNAMEs so far).  That the NS RRs then sit in the answer is C09's finding F12. *)
Theorem C10_referral_only_direct_local : forall zs cget f stack q rrs soa d,
  resolve_local zs cget f stack q = Ok (LDelegation rrs soa d) ->
  exists z s, zones_resolve zs (q_name q) (q_type q) = Some (z, Ok (ZDelegation rrs))
              /\ zone_soa_rr z = Some s /\ soa = Some s.
Proof. exact referral_only_direct. Qed.
Print Assumptions C10_referral_only_direct_local.

Theorem C10_zones_typed_answers_ok : forall zs, zones_typedb zs = true -> zones_answers_ok zs.
Proof. exact zones_typed_answers_ok. Qed.
Print Assumptions C10_zones_typed_answers_ok.

(* Loops and over-long chains end safely.
   (a) The recursion has the shape "two guards, then one step whose recursive calls are made on the
       stack extended by the current question" ... *)
Theorem C10_recursion_shape : forall zs cget f stack q,
  resolve_local zs cget (S f) stack q =
  if at_recursion_limit stack then Err ERecursionLimit
  else if is_duplicate_question stack q then Err (EDuplicateQuestion q)
  else local_step zs cget q (fun name => resolve_local zs cget f (stack ++ [q]) (subq q name)).
Proof. exact resolve_local_eq. Qed.
Print Assumptions C10_recursion_shape.

(* (b) ... so the stack never holds a question twice nor more than RECURSION_LIMIT questions, *)
Theorem C10_stack_never_repeats : forall stack q,
  stack_ok stack -> guards_pass stack q -> stack_ok (stack ++ [q]).
Proof. exact stack_never_repeats. Qed.
Print Assumptions C10_stack_never_repeats.

(* (c) fuel RECURSION_LIMIT + 1 - |stack| always suffices (no hang, no unbounded recursion), *)
Theorem C10_fuel_suffices : forall zs cget f stack q,
  (length stack <= 32)%nat -> (33 <= f + length stack)%nat ->
  resolve_local zs cget f stack q <> OutOfFuel.
Proof. exact resolve_local_no_fuel. Qed.
Print Assumptions C10_fuel_suffices.

(* (d) and a loop or an over-long chain met *inside* a resolution never surfaces as an error: the
   only RecursionLimit / DuplicateQuestion errors are those of the question's own guards; deeper
   ones end the chain in a partial result ([LCname], which satisfies chain_ok by the theorem above,
   so no record is repeated). *)
Theorem C10_loops_end_local : forall zs cget f stack q e,
  resolve_local zs cget f stack q = Err e ->
  (e = ERecursionLimit /\ at_recursion_limit stack = true) \/
  (e = EDuplicateQuestion q /\ is_duplicate_question stack q = true) \/
  e = EDeadEnd q \/ (exists a, e = ELocalDelegationMissingNS a (q_name q)) \/
  (exists t, e = ECacheTypeMismatch RT_CNAME t).
Proof. exact loops_end. Qed.
Print Assumptions C10_loops_end_local.

Theorem C10_loops_end_top_local : forall zs cget f q e,
  resolve_local zs cget f [] q = Err e -> e <> ERecursionLimit /\ forall q', e <> EDuplicateQuestion q'.
Proof. exact loops_end_top. Qed.
Print Assumptions C10_loops_end_top_local.

(* the hypotheses are satisfiable, and the statements are about something: a worked configuration
   (LocalProofs.LocalExample) with an alias leaving an authoritative zone for the cache, and a loop *)
Example C10_example_hypotheses :
  zones_answers_ok LocalExample.ex_zones /\ cget_ok LocalExample.ex_cget.
Proof.
  split; [apply zones_typed_answers_ok, LocalExample.ex_zones_typed|apply LocalExample.cget_of_ok].
Qed.
Example C10_example_chain :
  chain_ok LocalExample.n_aec RT_A
    [{| rr_name := LocalExample.n_aec; rr_type := RT_CNAME; rr_class := RC_IN; rr_ttl := 300;
        rr_data := RD_Name LocalExample.n_tc |}; LocalExample.arr LocalExample.n_tc 7].
Proof.
  destruct C10_example_hypotheses as [Hz Hc].
  assert (H := fun h1 h2 => local_chain_ok _ _ Hz Hc _ _ _ _ h1 h2 LocalExample.ex_chain (fun H => H)).
  apply H; vm_compute; discriminate.
Qed.

(* ====================================================================== *)
(* network modes: chains that continue upstream                             *)
(* (lemmas: Resolver/RecursiveProofs.v, Resolver/ForwardingProofs.v)        *)
(* ====================================================================== *)
From RV Require Import Wire.WireModel Resolver.ValidateModel Resolver.TransportModel Resolver.RecursiveModel
     Resolver.ForwardingModel Resolver.Universe Resolver.RecursiveProofs Resolver.ForwardingProofs.

(* recursive_chain_ok.  For a question of a type other than CNAME and ANY every successful result of
   the recursive resolver lists the CNAMEs first, each owner the previous record's target, starting
   at the question name, followed only by records of the asked type owned by the last target
   ([chain_shape] = [chain_ok] without its "no owner twice" clause, see below) -- whatever mix of
   zones, cache and upstream replies supplied the links: every oracle, every fuel.  The
   concatenations in resolve_combined_recursive / resolve_with_nameserver_response preserve the shape
   because the filter CONSTRUCTS a chain for every reply (C06_filter_chain_ok) and because the
   records "combined" from a Partial local result are none unless the question is ANY
   (C10_partial_only_for_any).  Where cut_at_local_authority (fix b2bc3c2, C01) cuts a reply, the
   records kept are the chain from the question name to the owner of the first record cut
   ([cut_chain], Resolver/CutFacts.v: a cut inside the CNAMEs ends at the previous target; a cut at
   the final records is at the first of them, all owned by the last target) and the nested
   resolution starts at that owner -- the same concatenation as for a CNAME response; likewise in
   forwarding mode.  Hypotheses about the two local sources as in C10_local_chain_ok, for
   every cache state. *)
Theorem C10_recursive_chain_ok :
  forall (cache : Type) (cache_get : cache -> dname -> N -> list rr) (cache_insert_all : cache -> list rr -> cache)
         (sort_names : list dname -> list dname) (zs : zones) (o : oracle) (pmode : protocol_mode) (port : N),
  zones_answers_ok zs -> (forall c, cget_ok (cache_get c)) ->
  forall fuel q st res st', q_type q <> RT_CNAME -> q_type q <> QT_Wildcard ->
  resolve_recursive cache cache_get cache_insert_all sort_names zs o pmode port fuel q st = (Ok res, st') ->
  exists cn fin last, resolved_rrs res = cn ++ fin /\ chain_from (q_name q) cn = Some last
    /\ Forall (fun r => rr_name r = last /\ rr_type r = q_type q) fin.
Proof. exact recursive_chain_shape. Qed.
Print Assumptions C10_recursive_chain_ok.

(* forwarding_chain_ok.  The forwarder's answer section is passed through unfiltered (deviation D6),
   so its shape is a hypothesis: every reply of the forwarder that passes the header gate carries
   such a chain for its question. *)
Theorem C10_forwarding_chain_ok :
  forall (cache : Type) (cache_get : cache -> dname -> N -> list rr) (cache_insert_all : cache -> list rr -> cache)
         (zs : zones) (o : oracle) (forwarder : addr),
  zones_answers_ok zs -> (forall c, cget_ok (cache_get c)) ->
  (forall q ts resp ts', query_nameserver o forwarder q true ts = (Val (Some resp), ts') ->
     chain_shape (q_name q) (q_type q) (m_answers resp)) ->
  forall fuel q st res st', q_type q <> RT_CNAME -> q_type q <> QT_Wildcard ->
  resolve_forwarding cache cache_get cache_insert_all zs o forwarder fuel q st = (Ok res, st') ->
  exists cn fin last, resolved_rrs res = cn ++ fin /\ chain_from (q_name q) cn = Some last
    /\ Forall (fun r => rr_name r = last /\ rr_type r = q_type q) fin.
Proof. exact forwarding_chain_shape. Qed.
Print Assumptions C10_forwarding_chain_ok.

(* a Partial local result arises only for QTYPE * -- so for every other question the records merged
   in front of the upstream answer (prioritising_merge of combined_rrs) are none *)
Theorem C10_partial_only_for_any : forall zs cget f stack q rrs,
  q_type q <> QT_Wildcard -> resolve_local zs cget f stack q <> Ok (LPartial rrs).
Proof. exact no_partial. Qed.
Print Assumptions C10_partial_only_for_any.

(* an alias result of local resolution hands on exactly the chain so far: its records are the CNAME
   chain from the question name to the name still to be resolved *)
Theorem C10_local_alias_chain : forall zs cget, zones_answers_ok zs -> cget_ok cget ->
  forall f stack q rrs cq, q_type q <> QT_Wildcard ->
  resolve_local zs cget f stack q = Ok (LCname rrs cq) ->
  chain_from (q_name q) rrs = Some (q_name cq) /\ cq = subq q (q_name cq).
Proof. exact local_alias. Qed.
Print Assumptions C10_local_alias_chain.

(* SimpleCache meets the cache hypothesis *)
Theorem C10_simple_cache_ok : forall c, cget_ok (sc_get c).
Proof. exact sc_get_ok. Qed.
Print Assumptions C10_simple_cache_ok.

(* ---- the "no owner twice" clause is FALSE for the recursive resolver when upstream contradicts
   itself: a witness.  10.0.0.1 (the root hint) answers www.com. A with
       www.com. CNAME a.com.   a.com. CNAME b.com.
   and then b.com. A with
       b.com. CNAME a.com.     a.com. CNAME c.com.    c.com. A 1.2.3.4
   Each reply is a proper chain for its question and the question stack never repeats
   (www.com., b.com.), but the alias a.com. is followed twice, to two different targets, and the
   result lists the owner a.com. twice.  [chain_ok] (C10_local_chain_ok) therefore fails for it
   while the shape proved above holds. *)
Definition c10_nm (ls : list label) : dname :=
  {| labels := ls ++ [[]]; nlen := fold_right (fun l acc => 1 + llen l + acc) 1 ls |}.
Definition c10_root := c10_nm [].
Definition c10_ns := c10_nm [[110; 115]].                          (* ns. *)
Definition c10_n (c : N) := c10_nm [[c]; [99; 111; 109]].          (* <c>.com. *)
Definition c10_www := c10_nm [[119; 119; 119]; [99; 111; 109]].    (* www.com. *)
Definition c10_rr (n : dname) (t : N) (d : rdata) : rr :=
  {| rr_name := n; rr_type := t; rr_class := RC_IN; rr_ttl := 300; rr_data := d |}.
Definition c10_ip : N := 167772161.
Definition c10_hints : zones :=
  match (let* z1 := zone_insert false (zone_new c10_root None) c10_root RT_NS (RD_Name c10_ns) 3600 in
         zone_insert false z1 c10_ns RT_A (RD_A c10_ip) 3600) with
  | Ok z => zones_insert [] z
  | _ => []
  end.
Definition c10_q (n : dname) : question := {| q_name := n; q_type := RT_A; q_class := RC_IN |}.
Definition c10_msg (q : question) (an : list rr) : list byte :=
  match encode (reply_message q {| sr_answers := an; sr_authority := []; sr_additional := []; sr_aa := true;
                                   sr_rcode := RCODE_NoError |}) with
  | Ok bs => bs
  | _ => []
  end.
Definition c10_table : table :=
  [ ((inl c10_ip, c10_q c10_www),
     c10_msg (c10_q c10_www) [c10_rr c10_www RT_CNAME (RD_Name (c10_n 97)); c10_rr (c10_n 97) RT_CNAME (RD_Name (c10_n 98))]);
    ((inl c10_ip, c10_q (c10_n 98)),
     c10_msg (c10_q (c10_n 98)) [c10_rr (c10_n 98) RT_CNAME (RD_Name (c10_n 97)); c10_rr (c10_n 97) RT_CNAME (RD_Name (c10_n 99));
                                 c10_rr (c10_n 99) RT_A (RD_A 16909060)]) ].
Definition c10_run :=
  resolve_simple (ModeRecursive OnlyV4) 53 c10_hints (table_oracle c10_table []) 200%nat (c10_q c10_www) (sc_empty, tstate_init).
Definition c10_result : list rr :=
  [c10_rr c10_www RT_CNAME (RD_Name (c10_n 97)); c10_rr (c10_n 97) RT_CNAME (RD_Name (c10_n 98));
   c10_rr (c10_n 98) RT_CNAME (RD_Name (c10_n 97)); c10_rr (c10_n 97) RT_CNAME (RD_Name (c10_n 99));
   c10_rr (c10_n 99) RT_A (RD_A 16909060)].

Example C10_recursive_owner_twice :
  fst c10_run = Ok (NonAuthoritative c10_result None)
  /\ ~ chain_ok c10_www RT_A c10_result
  /\ chain_shape c10_www RT_A c10_result.
Proof.
  split; [vm_compute; reflexivity|]. split.
  - intro H. apply chain_ok_cname_owners in H; [|discriminate]. vm_compute in H. discriminate.
  - exists (firstn 4 c10_result), (skipn 4 c10_result), (c10_n 99).
    split; [reflexivity|]. split; [vm_compute; reflexivity|]. repeat constructor.
Qed.
Print Assumptions C10_recursive_owner_twice.
