(* Properties/C10.v -- property theorems for C10 (CNAME chains are returned whole, in order, and
   loops end safely), LOCAL PART: chains whose links come from zones and the cache
   (local::resolve_local, dns_resolver::resolve in authoritative-only mode).  Statements only.

   Chains that continue upstream -- filter_chain_ok, recursive_chain_ok, forwarding_chain_ok
   (DESIGN section 5, C10; findings F8/F13) -- are added by the resolver subsystem
   (Resolver/RecursiveModel.v), whose models call [resolve_local] and concatenate its RRs with the
   filtered upstream answer; the theorems here are the local half they build on. *)
From RV Require Import Base.Prelude Name.NameModel Name.NameSpec Wire.WireTypes Zone.ZoneModel
     Resolver.LocalModel Resolver.LocalSpec Resolver.LocalProofs.

(* For a question of a type other than CNAME and ANY, every successful local result that is not a
   direct referral lists the CNAMEs in chain order starting at the question name, no owner twice,
   followed only by RRs of the asked type owned by the last target -- for every mix of
   authoritative zones, non-authoritative zones and cache, every stack and fuel.
   Hypotheses about the two sources: [zones_answers_ok] (discharged for typed zone trees by
   C10_zones_typed_answers_ok below; preservation of typedness by insertion is C02's),
   [cget_ok] (C05: a cache read returns RRs of the asked name and type only). *)
Theorem C10_local_chain_ok : forall zs cget,
  zones_answers_ok zs -> cget_ok cget ->
  forall f stack q l,
    q_type q <> RT_CNAME -> q_type q <> QT_Wildcard ->
    resolve_local zs cget f stack q = Ok l -> ~ is_referral l ->
    chain_ok (q_name q) (q_type q) (lresult_rrs l).
Proof. exact local_chain_ok. Qed.
Print Assumptions C10_local_chain_ok.

(* the same for what resolve() returns in authoritative-only mode *)
Theorem C10_authoritative_only_chain_ok : forall zs cget q r,
  zones_answers_ok zs -> cget_ok cget -> q_type q <> RT_CNAME -> q_type q <> QT_Wildcard ->
  (forall z ns, zones_resolve zs (q_name q) (q_type q) <> Some (z, Ok (ZDelegation ns))) ->
  resolve_authoritative_only zs cget q = Ok r ->
  chain_ok (q_name q) (q_type q) (resolved_rrs r).
Proof. exact authoritative_only_chain_ok. Qed.
Print Assumptions C10_authoritative_only_chain_ok.

(* The exception: a referral comes back only when the authoritative zone's own result for the
   question name is a delegation -- no alias is involved (an alias that runs into a delegation ends
   the chain with the CNAMEs so far).  That the NS RRs then sit in the answer is C09's finding F12. *)
Theorem C10_referral_only_direct_local : forall zs cget f stack q rrs soa d,
  resolve_local zs cget f stack q = Ok (LDelegation rrs soa d) ->
  exists z s, zones_resolve zs (q_name q) (q_type q) = Some (z, Ok (ZDelegation rrs))
              /\ zone_soa_rr z = Some s /\ soa = Some s.
Proof. exact referral_only_direct. Qed.
Print Assumptions C10_referral_only_direct_local.

Theorem C10_zones_typed_answers_ok : forall zs, zones_typedb zs = true -> zones_answers_ok zs.
Proof. exact zones_typed_answers_ok. Qed.
Print Assumptions C10_zones_typed_answers_ok.

(* Loops and over-long chains end safely.
   (a) The recursion has the shape "two guards, then one step whose recursive calls are made on the
       stack extended by the current question" ... *)
Theorem C10_recursion_shape : forall zs cget f stack q,
  resolve_local zs cget (S f) stack q =
  if at_recursion_limit stack then Err ERecursionLimit
  else if is_duplicate_question stack q then Err (EDuplicateQuestion q)
  else local_step zs cget q (fun name => resolve_local zs cget f (stack ++ [q]) (subq q name)).
Proof. exact resolve_local_eq. Qed.
Print Assumptions C10_recursion_shape.

(* (b) ... so the stack never holds a question twice nor more than RECURSION_LIMIT questions, *)
Theorem C10_stack_never_repeats : forall stack q,
  stack_ok stack -> guards_pass stack q -> stack_ok (stack ++ [q]).
Proof. exact stack_never_repeats. Qed.
Print Assumptions C10_stack_never_repeats.

(* (c) fuel RECURSION_LIMIT + 1 - |stack| always suffices (no hang, no unbounded recursion), *)
Theorem C10_fuel_suffices : forall zs cget f stack q,
  (length stack <= 32)%nat -> (33 <= f + length stack)%nat ->
  resolve_local zs cget f stack q <> OutOfFuel.
Proof. exact resolve_local_no_fuel. Qed.
Print Assumptions C10_fuel_suffices.

(* (d) and a loop or an over-long chain met *inside* a resolution never surfaces as an error: the
   only RecursionLimit / DuplicateQuestion errors are those of the question's own guards; deeper
   ones end the chain in a partial result ([LCname], which satisfies chain_ok by the theorem above,
   so no record is repeated). *)
Theorem C10_loops_end_local : forall zs cget f stack q e,
  resolve_local zs cget f stack q = Err e ->
  (e = ERecursionLimit /\ at_recursion_limit stack = true) \/
  (e = EDuplicateQuestion q /\ is_duplicate_question stack q = true) \/
  e = EDeadEnd q \/ (exists a, e = ELocalDelegationMissingNS a (q_name q)) \/
  (exists t, e = ECacheTypeMismatch RT_CNAME t).
Proof. exact loops_end. Qed.
Print Assumptions C10_loops_end_local.

Theorem C10_loops_end_top_local : forall zs cget f q e,
  resolve_local zs cget f [] q = Err e -> e <> ERecursionLimit /\ forall q', e <> EDuplicateQuestion q'.
Proof. exact loops_end_top. Qed.
Print Assumptions C10_loops_end_top_local.

(* the hypotheses are satisfiable, and the statements are about something: a worked configuration
   (LocalProofs.LocalExample) with an alias leaving an authoritative zone for the cache, and a loop *)
Example C10_example_hypotheses :
  zones_answers_ok LocalExample.ex_zones /\ cget_ok LocalExample.ex_cget.
Proof.
  split; [apply zones_typed_answers_ok, LocalExample.ex_zones_typed|apply LocalExample.cget_of_ok].
Qed.
Example C10_example_chain :
  chain_ok LocalExample.n_aec RT_A
    [{| rr_name := LocalExample.n_aec; rr_type := RT_CNAME; rr_class := RC_IN; rr_ttl := 300;
        rr_data := RD_Name LocalExample.n_tc |}; LocalExample.arr LocalExample.n_tc 7].
Proof.
  destruct C10_example_hypotheses as [Hz Hc].
  assert (H := fun h1 h2 => local_chain_ok _ _ Hz Hc _ _ _ _ h1 h2 LocalExample.ex_chain (fun H => H)).
  apply H; vm_compute; discriminate.
Qed.
