(* Properties/C11.v -- property theorems for C11; statements only.
   "Parsing a zone file yields exactly the records it denotes ... Unsupported or inconsistent
   input ... is rejected with an error instead of being loaded in part."

   Proved here: tokenise_render (the tokeniser honours the layout family: quotes, \X and \DDD
   escapes, parentheses -- also touching tokens --, comments, white space), parse_rr_forms (the
   ten field shapes, owner / TTL inheritance, wildcard owners), one rejection lemma per listed
   fault, no partial load, and soa_raises_ttls.
   Not proved (the correspondence stream and the python denotation cover it):
     parse_denotes_partial -- the whole-file statement
       valid f -> deserialise (render f) = Ok z /\ z ~ denote f
     composing the three parts over a list of entries (origin tracking across entries and the
     final assembly) is not done in Coq. *)
From RV Require Import Base.Prelude Name.NameModel Name.NameSpec Wire.WireTypes Zone.ZoneModel
     ZoneFile.ZoneFileModel ZoneFile.ZoneFileSpec ZoneFile.ZoneFileProofs.

(* 1. tokenise (render items) = the tokens, for every entry written in the layout family *)
Theorem C11_tokenise_render : forall items t rest,
  layout_ok false false items = Some false -> terminator_ok t = true ->
  tokenise_entry (items_text items ++ terminator_text t rest)
  = Ok (map dup (map wtoken_octets (items_tokens items)), terminator_rest t rest).
Proof. exact tokenise_render. Qed.
Print Assumptions C11_tokenise_render.

Theorem C11_tokenise_render_simple : forall toks t rest,
  forallb plain_token toks = true -> terminator_ok t = true ->
  tokenise_entry (render_simple toks ++ terminator_text t rest) = Ok (map dup toks, terminator_rest t rest).
Proof. exact tokenise_render_simple. Qed.
Print Assumptions C11_tokenise_render_simple.

(* 2. the ten field shapes x every record type the RDATA tokens of which parse *)
Theorem C11_parse_rr_forms : forall ip sh origin pd pt o ttl ty rd n td,
  try_parse_rtype_with_data ip origin (ty :: rd) = Ok (Some td) ->
  (forall q, (type_pos sh < q <= 3)%nat -> try_from ip origin (shape_tokens sh o ttl ty rd) q = Ok None) ->
  all_digits (fst o) = false -> leqb (fst o) S_IN = false ->
  all_digits (fst ttl) = true -> uint_from_str U32_MAX (fst ttl) = Some n ->
  parse_rr ip origin pd pt (shape_tokens sh o ttl ty rd) = denote_rr sh origin pd pt o n td.
Proof. exact parse_rr_forms. Qed.
Print Assumptions C11_parse_rr_forms.

(* the "unambiguous" hypothesis has a simple decidable sufficient condition *)
Theorem C11_unambiguous_sufficient : forall ip origin (tokens : list token) q,
  match nth_error tokens q with Some t => rtype_from_str (fst t) = None | None => True end ->
  try_from ip origin tokens q = Ok None.
Proof. exact try_from_not_type. Qed.
Print Assumptions C11_unambiguous_sufficient.

(* 4. rejection, one lemma per listed fault *)
Theorem C11_reject_include : forall ip st s t0 toks rest f fuel,
  tokenise_entry s = Ok (t0 :: toks, rest) -> fst t0 = S_INCLUDE ->
  exists e, deser_loop ip (f :: fuel) st s = Err e.
Proof. exact reject_include. Qed.
Print Assumptions C11_reject_include.

Theorem C11_reject_class : forall ip origin pd pt o x y ty rd td,
  try_parse_rtype_with_data ip origin (ty :: rd) = Ok (Some td) ->
  (leqb (fst x) S_IN = false -> leqb (fst y) S_IN = false ->
   exists e, parse_rr ip origin pd pt (o :: x :: y :: ty :: rd) = Err e)
  /\ (try_from ip origin (o :: x :: ty :: rd) 3 = Ok None ->
      leqb (fst x) S_IN = false -> leqb (fst o) S_IN = false -> uint_from_str U32_MAX (fst x) = None ->
      exists e, parse_rr ip origin pd pt (o :: x :: ty :: rd) = Err e).
Proof.
  intros ip origin pd pt o x y ty rd td H. split.
  - intros. eapply reject_class_5; eassumption.
  - intros. eapply reject_class_4; eassumption.
Qed.
Print Assumptions C11_reject_class.

Theorem C11_reject_second_soa : forall st r m rn a b c d e x,
  rr_data r = RD_SOA m rn a b c d e -> d_apex_soa st = Some x -> deser_step st (ERR r) = Err MultipleSOA.
Proof. exact reject_second_soa. Qed.
Print Assumptions C11_reject_second_soa.

Theorem C11_reject_wildcard_soa : forall st n d ttl,
  match to_rr (MWildcard n) (RT_SOA, d) ttl with
  | EWildcardRR r => deser_step st (EWildcardRR r) = Err WildcardSOA
  | _ => False
  end.
Proof. exact reject_wildcard_soa. Qed.
Print Assumptions C11_reject_wildcard_soa.

Theorem C11_reject_outside_apex : forall st r,
  dstate_wf st -> In r (d_rrs st) \/ In r (d_wrrs st) ->
  is_subdomain_of (rr_name r) (state_apex st) = false ->
  exists e, assemble st = Err e.
Proof. exact reject_outside_apex. Qed.
Print Assumptions C11_reject_outside_apex.

Theorem C11_reject_relative_without_origin : forall s c,
  forallb is_ascii s = true -> last_opt s = Some c -> (c <> 46 \/ s = S_AT) ->
  parse_domain None s = Err ExpectedOrigin.
Proof. exact reject_relative_without_origin. Qed.
Print Assumptions C11_reject_relative_without_origin.

Theorem C11_reject_no_ttl : forall sh origin pd o n td,
  has_ttl sh = false -> (fst td =? RT_SOA) = false ->
  exists e, denote_rr sh origin pd None o n td = Err e.
Proof. exact reject_no_ttl. Qed.
Print Assumptions C11_reject_no_ttl.

(* an error of any entry is the result of the whole parse: the zone is only built at the end *)
Theorem C11_no_partial_load : forall ip data,
  (forall z, deserialise ip data = Ok z ->
             exists st, deser_loop ip (0 :: data) dstate_init data = Ok st /\ assemble st = Ok z)
  /\ (forall x, deser_loop ip (0 :: data) dstate_init data = Err x -> deserialise ip data = Err x)
  /\ (forall f fuel st s e rest x,
         parse_entry ip (d_origin st) (d_prev_domain st) (d_prev_ttl st) s = Ok (Some e, rest) ->
         deser_step st e = Err x -> deser_loop ip (f :: fuel) st s = Err x).
Proof.
  intros ip data. split; [apply no_partial_load|split; [apply loop_error_is_final|]].
  intros. eapply deser_loop_err; eassumption.
Qed.
Print Assumptions C11_no_partial_load.

(* a SOA raises every TTL of the zone to its MINIMUM *)
Theorem C11_soa_raises_ttls : forall ip data z s,
  deserialise ip data = Ok z -> z_soa z = Some s ->
  forall n zrs zr,
    In (n, zrs) (zone_all_records z) \/ In (n, zrs) (zone_all_wildcard_records z) ->
    In zr zrs -> soa_minimum s <= zr_ttl zr.
Proof. exact soa_raises_ttls. Qed.
Print Assumptions C11_soa_raises_ttls.

(* ---- the hypotheses are satisfiable: concrete files, evaluated ---- *)
Definition ip0 : ipcodec :=
  {| parse_v4 := fun _ => Some 7; parse_v6 := fun _ => None; show_v4 := fun _ => []; show_v6 := fun _ => [] |}.

(* "$ORIGIN e." / "@ IN SOA @ @ 1 2 3 4 60" / "w 5 IN TXT a" / "*.w 7 IN TXT b": both TTLs are raised to 60 *)
Definition ex_soa_text : list N := [36; 79; 82; 73; 71; 73; 78; 32; 101; 46; 10; 64; 32; 73; 78; 32; 83; 79; 65; 32; 64; 32; 64; 32; 49; 32; 50; 32; 51; 32; 52; 32; 54; 48; 10; 119; 32; 53; 32; 73; 78; 32; 84; 88; 84; 32; 97; 10; 42; 46; 119; 32; 55; 32; 73; 78; 32; 84; 88; 84; 32; 98; 10].
Example C11_soa_raises_ttls_ex :
  match deserialise ip0 ex_soa_text with
  | Ok z => match z_soa z with
            | Some s => soa_minimum s = 60
                        /\ map (fun p => map zr_ttl (snd p)) (zone_all_records z) = [[60]; [60]]
                        /\ map (fun p => map zr_ttl (snd p)) (zone_all_wildcard_records z) = [[60]]
            | None => False
            end
  | _ => False
  end.
Proof. vm_compute. repeat split; reflexivity. Qed.

(* "a. 5 IN A 1.2.3.4" / "$INCLUDE x": the record before the $INCLUDE is not loaded either *)
Definition ex_include_text : list N := [97; 46; 32; 53; 32; 73; 78; 32; 65; 32; 49; 46; 50; 46; 51; 46; 52; 10; 36; 73; 78; 67; 76; 85; 68; 69; 32; 120; 10].
Example C11_reject_include_ex : deserialise ip0 ex_include_text = Err IncludeNotSupported.
Proof. vm_compute. reflexivity. Qed.
