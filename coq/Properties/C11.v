(* Properties/C11.v -- property theorems for C11; statements only.
   "Parsing a zone file yields exactly the records it denotes ... Unsupported or inconsistent
   input ... is rejected with an error instead of being loaded in part."

   Proved here: tokenise_render (the tokeniser honours the layout family: quotes, \X and \DDD
   escapes, parentheses -- also touching tokens --, comments, white space), parse_rr_forms (the
   ten field shapes, owner / TTL inheritance, wildcard owners), one rejection lemma per listed
   fault, no partial load, and soa_raises_ttls.
   Second half of the file: C11_parse_denotes, the whole-file statement
       valid f -> deserialise (render f) = Ok z /\ z represents (denote f)
   for files of the abstract syntax of ZoneFile/ZoneParseDenotes.v laid out ANYHOW in the layout
   family (white space, \X and \DDD escapes, quoted tokens, parenthesised groups spanning lines,
   comments, blank lines), all ten field shapes, all owner forms, $ORIGIN changes, owner / TTL
   inheritance, the SOA, in canonical SPELLING (names lower-case, numbers and addresses as Display
   prints them).  What the spelling restriction leaves out is listed at C11_parse_denotes. *)
From RV Require Import Base.Prelude Name.NameModel Name.NameSpec Wire.WireTypes Zone.ZoneModel
     ZoneFile.ZoneFileModel ZoneFile.ZoneFileSpec ZoneFile.ZoneFileProofs.

(* 1. tokenise (render items) = the tokens, for every entry written in the layout family *)
Theorem C11_tokenise_render : forall items t rest,
  layout_ok false false items = Some false -> terminator_ok t = true ->
  tokenise_entry (items_text items ++ terminator_text t rest)
  = Ok (map dup (map wtoken_octets (items_tokens items)), terminator_rest t rest).
Proof. exact tokenise_render. Qed.
Print Assumptions C11_tokenise_render.

Theorem C11_tokenise_render_simple : forall toks t rest,
  forallb plain_token toks = true -> terminator_ok t = true ->
  tokenise_entry (render_simple toks ++ terminator_text t rest) = Ok (map dup toks, terminator_rest t rest).
Proof. exact tokenise_render_simple. Qed.
Print Assumptions C11_tokenise_render_simple.

(* 2. the ten field shapes x every record type the RDATA tokens of which parse *)
Theorem C11_parse_rr_forms : forall ip sh origin pd pt o ttl ty rd n td,
  try_parse_rtype_with_data ip origin (ty :: rd) = Ok (Some td) ->
  (forall q, (type_pos sh < q <= 3)%nat -> try_from ip origin (shape_tokens sh o ttl ty rd) q = Ok None) ->
  all_digits (fst o) = false -> leqb (fst o) S_IN = false ->
  all_digits (fst ttl) = true -> uint_from_str U32_MAX (fst ttl) = Some n ->
  parse_rr ip origin pd pt (shape_tokens sh o ttl ty rd) = denote_rr sh origin pd pt o n td.
Proof. exact parse_rr_forms. Qed.
Print Assumptions C11_parse_rr_forms.

(* the "unambiguous" hypothesis has a simple decidable sufficient condition *)
Theorem C11_unambiguous_sufficient : forall ip origin (tokens : list token) q,
  match nth_error tokens q with Some t => rtype_from_str (fst t) = None | None => True end ->
  try_from ip origin tokens q = Ok None.
Proof. exact try_from_not_type. Qed.
Print Assumptions C11_unambiguous_sufficient.

(* 4. rejection, one lemma per listed fault *)
Theorem C11_reject_include : forall ip st s t0 toks rest f fuel,
  tokenise_entry s = Ok (t0 :: toks, rest) -> fst t0 = S_INCLUDE ->
  exists e, deser_loop ip (f :: fuel) st s = Err e.
Proof. exact reject_include. Qed.
Print Assumptions C11_reject_include.

Theorem C11_reject_class : forall ip origin pd pt o x y ty rd td,
  try_parse_rtype_with_data ip origin (ty :: rd) = Ok (Some td) ->
  (leqb (fst x) S_IN = false -> leqb (fst y) S_IN = false ->
   exists e, parse_rr ip origin pd pt (o :: x :: y :: ty :: rd) = Err e)
  /\ (try_from ip origin (o :: x :: ty :: rd) 3 = Ok None ->
      leqb (fst x) S_IN = false -> leqb (fst o) S_IN = false -> uint_from_str U32_MAX (fst x) = None ->
      exists e, parse_rr ip origin pd pt (o :: x :: ty :: rd) = Err e).
Proof.
  intros ip origin pd pt o x y ty rd td H. split.
  - intros. eapply reject_class_5; eassumption.
  - intros. eapply reject_class_4; eassumption.
Qed.
Print Assumptions C11_reject_class.

Theorem C11_reject_second_soa : forall st r m rn a b c d e x,
  rr_data r = RD_SOA m rn a b c d e -> d_apex_soa st = Some x -> deser_step st (ERR r) = Err MultipleSOA.
Proof. exact reject_second_soa. Qed.
Print Assumptions C11_reject_second_soa.

Theorem C11_reject_wildcard_soa : forall st n d ttl,
  match to_rr (MWildcard n) (RT_SOA, d) ttl with
  | EWildcardRR r => deser_step st (EWildcardRR r) = Err WildcardSOA
  | _ => False
  end.
Proof. exact reject_wildcard_soa. Qed.
Print Assumptions C11_reject_wildcard_soa.

Theorem C11_reject_outside_apex : forall st r,
  dstate_wf st -> In r (d_rrs st) \/ In r (d_wrrs st) ->
  is_subdomain_of (rr_name r) (state_apex st) = false ->
  exists e, assemble st = Err e.
Proof. exact reject_outside_apex. Qed.
Print Assumptions C11_reject_outside_apex.

Theorem C11_reject_relative_without_origin : forall s c,
  forallb is_ascii s = true -> last_opt s = Some c -> (c <> 46 \/ s = S_AT) ->
  parse_domain None s = Err ExpectedOrigin.
Proof. exact reject_relative_without_origin. Qed.
Print Assumptions C11_reject_relative_without_origin.

Theorem C11_reject_no_ttl : forall sh origin pd o n td,
  has_ttl sh = false -> (fst td =? RT_SOA) = false ->
  exists e, denote_rr sh origin pd None o n td = Err e.
Proof. exact reject_no_ttl. Qed.
Print Assumptions C11_reject_no_ttl.

(* an error of any entry is the result of the whole parse: the zone is only built at the end *)
Theorem C11_no_partial_load : forall ip data,
  (forall z, deserialise ip data = Ok z ->
             exists st, deser_loop ip (0 :: data) dstate_init data = Ok st /\ assemble st = Ok z)
  /\ (forall x, deser_loop ip (0 :: data) dstate_init data = Err x -> deserialise ip data = Err x)
  /\ (forall f fuel st s e rest x,
         parse_entry ip (d_origin st) (d_prev_domain st) (d_prev_ttl st) s = Ok (Some e, rest) ->
         deser_step st e = Err x -> deser_loop ip (f :: fuel) st s = Err x).
Proof.
  intros ip data. split; [apply no_partial_load|split; [apply loop_error_is_final|]].
  intros. eapply deser_loop_err; eassumption.
Qed.
Print Assumptions C11_no_partial_load.

(* a SOA raises every TTL of the zone to its MINIMUM *)
Theorem C11_soa_raises_ttls : forall ip data z s,
  deserialise ip data = Ok z -> z_soa z = Some s ->
  forall n zrs zr,
    In (n, zrs) (zone_all_records z) \/ In (n, zrs) (zone_all_wildcard_records z) ->
    In zr zrs -> soa_minimum s <= zr_ttl zr.
Proof. exact soa_raises_ttls. Qed.
Print Assumptions C11_soa_raises_ttls.

(* ---- the hypotheses are satisfiable: concrete files, evaluated ---- *)
Definition ip0 : ipcodec :=
  {| parse_v4 := fun _ => Some 7; parse_v6 := fun _ => None; show_v4 := fun _ => []; show_v6 := fun _ => [] |}.

(* "$ORIGIN e." / "@ IN SOA @ @ 1 2 3 4 60" / "w 5 IN TXT a" / "*.w 7 IN TXT b": both TTLs are raised to 60 *)
Definition ex_soa_text : list N := [36; 79; 82; 73; 71; 73; 78; 32; 101; 46; 10; 64; 32; 73; 78; 32; 83; 79; 65; 32; 64; 32; 64; 32; 49; 32; 50; 32; 51; 32; 52; 32; 54; 48; 10; 119; 32; 53; 32; 73; 78; 32; 84; 88; 84; 32; 97; 10; 42; 46; 119; 32; 55; 32; 73; 78; 32; 84; 88; 84; 32; 98; 10].
Example C11_soa_raises_ttls_ex :
  match deserialise ip0 ex_soa_text with
  | Ok z => match z_soa z with
            | Some s => soa_minimum s = 60
                        /\ map (fun p => map zr_ttl (snd p)) (zone_all_records z) = [[60]; [60]]
                        /\ map (fun p => map zr_ttl (snd p)) (zone_all_wildcard_records z) = [[60]]
            | None => False
            end
  | _ => False
  end.
Proof. vm_compute. repeat split; reflexivity. Qed.

(* "a. 5 IN A 1.2.3.4" / "$INCLUDE x": the record before the $INCLUDE is not loaded either *)
Definition ex_include_text : list N := [97; 46; 32; 53; 32; 73; 78; 32; 65; 32; 49; 46; 50; 46; 51; 46; 52; 10; 36; 73; 78; 67; 76; 85; 68; 69; 32; 120; 10].
Example C11_reject_include_ex : deserialise ip0 ex_include_text = Err IncludeNotSupported.
Proof. vm_compute. reflexivity. Qed.

(* ====================================================================== *)
(* 3. parse_denotes                                                        *)
(* ====================================================================== *)
From RV Require Import Zone.ZoneFlat Zone.ZoneProofs ZoneFile.ZfInstance ZoneFile.ZoneRtLines ZoneFile.ZoneRtLoop
     ZoneFile.ZoneRtCodec ZoneFile.ZoneParseDenotes.

(* A file is a list of lines; a line holds an entry of the abstract syntax (or none: blank and
   comment-only lines), a layout -- ANY list of items of the layout family whose tokens are the
   entry's fields -- and a terminator (newline, comment, end of input; only the last line may end
   without a newline).  [lines_ok]: the layouts are in the family, the names are expressible
   (well formed, ASCII dot-free lower-case labels), numbers in range, the type one of the 18 with
   RDATA of its shape, an owner written as a name is not all digits and does not use the
   wildcard syntax; decidable: [lines_okb] is a sound checker.
   [denote]: origin tracking, "@" and relative names against the current origin, owner (with
   its wildcard-ness) and TTL inherited from the previous record -- the TTL as loaded, D3 --,
   class optional, TTL and class in either order, an owner "*" / "*.x" / expanding to "*.x" is
   a wildcard, the SOA makes the zone authoritative at its owner with TTL = MINIMUM; the result
   is (apex, SOA, insertions), its content flat_of_ops of Zone/ZoneFlat.v, which raises every TTL
   to the SOA minimum; None if an owner lies outside the apex, a second or a wildcard SOA, a
   relative name / @ / * without origin, no owner or no TTL to inherit.
   Then the parser returns a zone with that apex and SOA whose record tree represents (relation
   R of Zone/ZoneProofs.v, the one C02 is stated with) exactly those records; it is the zone
   Zone::new + insert / insert_wildcard build from them.

   NOT covered (spelling, not layout): upper-case letters in names (the parser folds them),
   numbers written with leading zeros or '+', addresses in non-canonical spelling, TYPE<n>
   mnemonics, the wildcard at the root written "*." and an owner NAME written with a leading
   "*." (write it as the wildcard it is).  parse_denotes_spelling_partial would quantify over
   these spellings too; the correspondence stream generates them. *)
Theorem C11_parse_denotes : forall ip, codec_rt ip -> forall ls apex so ops,
  lines_ok ip sp_init ls -> denote ls = Some (apex, so, ops) ->
  exists z, deserialise ip (render ls) = Ok z /\ z_apex z = apex /\ z_soa z = so /\
            zone_build apex so ops = Ok z /\ R (labels apex) (z_records z) (flat_of_ops apex so ops).
Proof. exact parse_denotes. Qed.
Print Assumptions C11_parse_denotes.

(* validity is checkable by computation *)
Theorem C11_lines_okb_sound : forall ip ls s, lines_okb ip s ls = true -> lines_ok ip s ls.
Proof. exact lines_okb_sound. Qed.
Print Assumptions C11_lines_okb_sound.

(* for the codec the model is run with nothing is assumed *)
Theorem C11_parse_denotes_zf : forall ls apex so ops,
  lines_okb zf_codec sp_init ls = true -> denote ls = Some (apex, so, ops) ->
  exists z, zf_deserialise (render ls) = Ok z /\ z_apex z = apex /\ z_soa z = so /\
            zone_build apex so ops = Ok z /\ R (labels apex) (z_records z) (flat_of_ops apex so ops).
Proof.
  intros ls apex so ops H. apply (parse_denotes zf_codec zf_codec_rt). apply lines_okb_sound. exact H.
Qed.
Print Assumptions C11_parse_denotes_zf.

(* ---- an instance: eight lines using most of the syntax ----
     $ORIGIN example.com.
     @ IN SOA ns h ( 1 2 3          <- parenthesised group over two lines, trailing comment
      4 60 ) ; the SOA
     www 300 A 1.2.3.4              <- relative owner, TTL, no class
     ; note                         <- comment-only line
     <TAB>IN TXT <quoted a b>       <- owner and TTL inherited, quoted token with a space
     * MX 10 @                      <- the wildcard at the origin, TTL inherited, @ in RDATA
     $ORIGIN sub                    <- relative change of origin
     @ 5 IN CNAME w\119w\.example.com.   <- @ = sub.example.com., \DDD and \X escapes, no final newline *)
Local Notation ex := ([101; 120; 97; 109; 112; 108; 101] : label).
Local Notation com := ([99; 111; 109] : label).
Local Notation www := ([119; 119; 119] : label).
Definition tk (s : list N) : item := ITok (rawtok s).
Definition qt (s : list N) : item := ITok {| wt_quoted := true; wt_pieces := map PRaw s |}.
Definition sp1 : item := IWs 32.
Definition frr0 o t c tf ty rd := {| f_owner := o; f_ttl := t; f_class := c; f_ttl_first := tf; f_type := ty; f_rd := rd |}.
Definition ex_lines : list fline :=
  [ {| l_entry := Some (FOrigin (NAbs (ZoneProofs.nm [ex; com])));
       l_items := [tk S_ORIGIN; sp1; tk [101;120;97;109;112;108;101;46;99;111;109;46]]; l_term := TNl |};
    {| l_entry := Some (FRR (frr0 (Some (OName NAt)) None true false RT_SOA (A_SOA (NRel [[110;115]]) (NRel [[104]]) 1 2 3 4 60)));
       l_items := [tk [64]; sp1; tk S_IN; sp1; tk [83;79;65]; sp1; tk [110;115]; sp1; tk [104]; sp1; IOpen; sp1; tk [49]; sp1; tk [50]; sp1; tk [51];
                   INl; sp1; tk [52]; sp1; tk [54;48]; sp1; IClose; sp1];
       l_term := TCommentNl [32;116;104;101;32;83;79;65] |};
    {| l_entry := Some (FRR (frr0 (Some (OName (NRel [www]))) (Some 300) false false RT_A (A_A 16909060)));
       l_items := [tk [119;119;119]; sp1; tk [51;48;48]; sp1; tk [65]; sp1; tk [49;46;50;46;51;46;52]]; l_term := TNl |};
    {| l_entry := None; l_items := []; l_term := TCommentNl [32;110;111;116;101] |};
    {| l_entry := Some (FRR (frr0 None None true false RT_TXT (A_Octets [97;32;98])));
       l_items := [IWs 9; tk S_IN; sp1; tk [84;88;84]; sp1; qt [97;32;98]]; l_term := TNl |};
    {| l_entry := Some (FRR (frr0 (Some OStar) None false false RT_MX (A_MX 10 NAt)));
       l_items := [tk [42]; sp1; tk [77;88]; sp1; tk [49;48]; sp1; tk [64]]; l_term := TNl |};
    {| l_entry := Some (FOrigin (NRel [[115;117;98]])); l_items := [tk S_ORIGIN; sp1; tk [115;117;98]]; l_term := TNl |};
    {| l_entry := Some (FRR (frr0 (Some (OName NAt)) (Some 5) true true RT_CNAME (A_Name (NAbs (ZoneProofs.nm [www; ex; com])))));
       l_items := [tk [64]; sp1; tk [53]; sp1; tk S_IN; sp1; tk [67;78;65;77;69]; sp1;
                   ITok {| wt_quoted := false; wt_pieces := [PRaw 119; PEscD 119; PRaw 119; PEscX 46] ++ map PRaw [101;120;97;109;112;108;101;46;99;111;109;46] |}];
       l_term := TEof |} ].

Example C11_parse_denotes_ex :
  lines_okb zf_codec sp_init ex_lines = true /\
  exists apex so ops z,
    denote ex_lines = Some (apex, so, ops) /\ apex = ZoneProofs.nm [ex; com] /\ length ops = 4%nat /\
    zf_deserialise (render ex_lines) = Ok z /\ z_apex z = apex /\ z_soa z = so /\
    R (labels apex) (z_records z) (flat_of_ops apex so ops) /\
    (* the TTLs 300 stay (>= 60), the CNAME's 5 is raised to the SOA minimum 60 *)
    map (fun p => map zr_ttl (snd p)) (zone_all_records z) = [[60]; [300; 300]; [60]] /\
    map (fun p => map zr_ttl (snd p)) (zone_all_wildcard_records z) = [[300]].
Proof.
  split; [vm_compute; reflexivity|].
  destruct (denote ex_lines) as [[[apex so] ops]|] eqn:Ed; [|vm_compute in Ed; discriminate].
  destruct (C11_parse_denotes_zf ex_lines apex so ops ltac:(vm_compute; reflexivity) Ed) as (z & Hz & Ha & Hs & _ & HR).
  exists apex, so, ops, z. split; [reflexivity|].
  assert (Hv : apex = ZoneProofs.nm [ex; com] /\ length ops = 4%nat) by (vm_compute in Ed; injection Ed as <- <- <-; split; reflexivity).
  destruct Hv as [Hv1 Hv2]. split; [exact Hv1|]. split; [exact Hv2|]. split; [exact Hz|]. split; [exact Ha|]. split; [exact Hs|].
  split; [exact HR|]. vm_compute in Hz. injection Hz as <-. split; reflexivity.
Qed.

(* ====================================================================== *)
(* 4. parse_denotes beyond the canonical spelling                           *)
(* ====================================================================== *)
From RV Require Import ZoneFile.ZoneSerialiseModel ZoneFile.ZoneParseSpelling.

(* upper-case letters in names: parse_domain and parse_domain_or_wildcard fold the ASCII case of
   EVERY text (absolute, relative, "@", "*", "*.x"): a name may be written in any letter case *)
Theorem C11_spelling_upper : forall o s,
  parse_domain o (map lower s) = parse_domain o s /\
  parse_domain_or_wildcard o (map lower s) = parse_domain_or_wildcard o s.
Proof. intros o s. split; [apply parse_domain_lower|apply pdw_lower]. Qed.
Print Assumptions C11_spelling_upper.

(* numbers: <u16/u32 as FromStr> reads the value from its decimal text preceded by any number of
   zeros and, before those, one '+' (max = 65535 / 4294967295); the first form is all digits, as a
   TTL field must be *)
Theorem C11_spelling_numbers : forall max n k, n < 4294967296 -> n <= max ->
  uint_from_str max (repeat 48 k ++ show_dec n) = Some n /\
  uint_from_str max (43 :: repeat 48 k ++ show_dec n) = Some n /\
  all_digits (repeat 48 k ++ show_dec n) = true.
Proof. intros max n k H1 H2. split; [apply uint_zeros; assumption|]. split; [apply uint_plus; assumption|apply zeros_all_digits]. Qed.
Print Assumptions C11_spelling_numbers.

(* the type written TYPE<n>, n the code of one of the 18 known types, is that type *)
Theorem C11_spelling_type : forall ty, rtype_known ty = true ->
  rtype_from_str (show_rtype ty) = Some ty /\ rtype_from_str (rtype_unknown_prefix ++ show_dec ty) = Some ty.
Proof. intros ty H. split; [apply show_rtype_parse|apply type_code_parse]; exact H. Qed.
Print Assumptions C11_spelling_type.

(* the wildcard at the root written "*." (canonically "*..": "*." before the root's text ".") *)
Theorem C11_spelling_root_wildcard : forall o,
  parse_domain_or_wildcard o [42; 46] = Ok (MWildcard root_domain) /\
  parse_domain_or_wildcard o (oref_text (OWild (NAbs root_domain))) = Ok (MWildcard root_domain).
Proof. intro o. split; reflexivity. Qed.
Print Assumptions C11_spelling_root_wildcard.

(* composed: C11_parse_denotes for files whose tokens are RESPELLED.  [lines_ok_sp] is [lines_ok]
   with "the tokens of the line are the entry's canonical tokens" replaced by "are a spelling of
   the entry" ([entry_spelled]): each name token is the canonical text in any letter case
   (map lower t = canonical); each number any text FromStr reads as the value (leading zeros, '+';
   the TTL field: all digits); an address any text the codec's FromStr reads as the value; the
   type token any text RecordType::from_str reads as the type (mnemonic or TYPE<n>); the owner of
   the wildcard at the root also "*."; PROVIDED the respelled entry stays unambiguous to parse_rr:
   the owner token is not "IN", "$ORIGIN", "$INCLUDE", and no RDATA token but the last reads as a
   type mnemonic (an owner "in" written "IN" is the class; "MINFO NS x." is an NS record owned by
   "MINFO": these are different entries, not spellings).  Layout stays arbitrary. *)
Theorem C11_parse_denotes_spelled : forall ip, codec_rt ip -> forall ls apex so ops,
  lines_ok_sp ip sp_init ls -> denote ls = Some (apex, so, ops) ->
  exists z, deserialise ip (render ls) = Ok z /\ z_apex z = apex /\ z_soa z = so /\
            zone_build apex so ops = Ok z /\ R (labels apex) (z_records z) (flat_of_ops apex so ops).
Proof. exact parse_denotes_spelled. Qed.
Print Assumptions C11_parse_denotes_spelled.

(* it generalises C11_parse_denotes: the canonical spelling is one of the spellings *)
Theorem C11_canonical_is_spelled : forall ip, codec_rt ip -> forall ls, lines_ok ip sp_init ls -> lines_ok_sp ip sp_init ls.
Proof. intros ip Hip ls. apply (lines_ok_spelled ip Hip ls sp_init). exact I. Qed.
Print Assumptions C11_canonical_is_spelled.

(* validity of a respelled file is checkable by computation; with the model's codec nothing is assumed *)
Theorem C11_lines_ok_spb_sound : forall ip ls s, lines_ok_spb ip s ls = true -> lines_ok_sp ip s ls.
Proof. exact lines_ok_spb_sound. Qed.
Print Assumptions C11_lines_ok_spb_sound.

Theorem C11_parse_denotes_spelled_zf : forall ls apex so ops,
  lines_ok_spb zf_codec sp_init ls = true -> denote ls = Some (apex, so, ops) ->
  exists z, zf_deserialise (render ls) = Ok z /\ z_apex z = apex /\ z_soa z = so /\
            zone_build apex so ops = Ok z /\ R (labels apex) (z_records z) (flat_of_ops apex so ops).
Proof.
  intros ls apex so ops H. apply (parse_denotes_spelled zf_codec zf_codec_rt). apply lines_ok_spb_sound. exact H.
Qed.
Print Assumptions C11_parse_denotes_spelled_zf.

(* ---- an instance: every respelling at once; the file is NOT canonical (lines_okb rejects it) ----
     $ORIGIN Example.COM.
     @ IN SOA Ns H 01 +2 003 4 +060        <- upper-case letters in names, leading zeros and '+' in RDATA numbers
                                              ("NS" there would be rejected by the checker: a type mnemonic before the last token)
     WWW 0300 TYPE1 1.2.3.4                <- upper-case owner, TTL with a leading zero, TYPE1 = A
     *.Sub 007 IN TYPE15 +010 Mail         <- wildcard owner in mixed case, TYPE15 = MX, '+' and zeros
   and, without a SOA (apex = the root), the wildcard at the root written "*.":
     *. 5 TXT x *)
Definition ex_sp_lines : list fline :=
  [ {| l_entry := Some (FOrigin (NAbs (ZoneProofs.nm [ex; com])));
       l_items := [tk S_ORIGIN; sp1; tk [69;120;97;109;112;108;101;46;67;79;77;46]]; l_term := TNl |};
    {| l_entry := Some (FRR (frr0 (Some (OName NAt)) None true false RT_SOA (A_SOA (NRel [[110;115]]) (NRel [[104]]) 1 2 3 4 60)));
       l_items := [tk [64]; sp1; tk S_IN; sp1; tk [83;79;65]; sp1; tk [78;115]; sp1; tk [72]; sp1; tk [48;49]; sp1; tk [43;50]; sp1;
                   tk [48;48;51]; sp1; tk [52]; sp1; tk [43;48;54;48]];
       l_term := TNl |};
    {| l_entry := Some (FRR (frr0 (Some (OName (NRel [www]))) (Some 300) false false RT_A (A_A 16909060)));
       l_items := [tk [87;87;87]; sp1; tk [48;51;48;48]; sp1; tk [84;89;80;69;49]; sp1; tk [49;46;50;46;51;46;52]]; l_term := TNl |};
    {| l_entry := Some (FRR (frr0 (Some (OWild (NRel [[115;117;98]]))) (Some 7) true true RT_MX (A_MX 10 (NRel [[109;97;105;108]]))));
       l_items := [tk [42;46;83;117;98]; sp1; tk [48;48;55]; sp1; tk S_IN; sp1; tk [84;89;80;69;49;53]; sp1; tk [43;48;49;48]; sp1;
                   tk [77;97;105;108]];
       l_term := TEof |} ].

Example C11_parse_denotes_spelled_ex :
  lines_ok_spb zf_codec sp_init ex_sp_lines = true /\ lines_okb zf_codec sp_init ex_sp_lines = false /\
  exists apex so ops z,
    denote ex_sp_lines = Some (apex, so, ops) /\ apex = ZoneProofs.nm [ex; com] /\ length ops = 2%nat /\
    zf_deserialise (render ex_sp_lines) = Ok z /\ z_apex z = apex /\ z_soa z = so /\
    R (labels apex) (z_records z) (flat_of_ops apex so ops) /\
    option_map soa_minimum (z_soa z) = Some 60 /\
    map (fun p => (labels (fst p), map (fun r => (zr_type r, zr_ttl r, zr_data r)) (snd p))) (zone_all_records z)
    = [ ([ex; com; []], [(RT_SOA, 60, RD_SOA (ZoneProofs.nm [[110;115]; ex; com]) (ZoneProofs.nm [[104]; ex; com]) 1 2 3 4 60)]);
        ([www; ex; com; []], [(RT_A, 300, RD_A 16909060)]) ] /\
    map (fun p => (labels (fst p), map (fun r => (zr_type r, zr_ttl r, zr_data r)) (snd p))) (zone_all_wildcard_records z)
    = [ ([[115;117;98]; ex; com; []], [(RT_MX, 60, RD_MX 10 (ZoneProofs.nm [[109;97;105;108]; ex; com]))]) ].
Proof.
  split; [vm_compute; reflexivity|]. split; [vm_compute; reflexivity|].
  destruct (denote ex_sp_lines) as [[[apex so] ops]|] eqn:Ed; [|vm_compute in Ed; discriminate].
  destruct (C11_parse_denotes_spelled_zf ex_sp_lines apex so ops ltac:(vm_compute; reflexivity) Ed) as (z & Hz & Ha & Hs & _ & HR).
  exists apex, so, ops, z. split; [reflexivity|].
  assert (Hv : apex = ZoneProofs.nm [ex; com] /\ length ops = 2%nat) by (vm_compute in Ed; injection Ed as <- <- <-; split; reflexivity).
  destruct Hv as [Hv1 Hv2]. split; [exact Hv1|]. split; [exact Hv2|]. split; [exact Hz|]. split; [exact Ha|]. split; [exact Hs|].
  split; [exact HR|]. vm_compute in Hz. injection Hz as <-. repeat split; reflexivity.
Qed.

Definition ex_root_wild_lines : list fline :=
  [ {| l_entry := Some (FRR (frr0 (Some (OWild (NAbs root_domain))) (Some 5) false false RT_TXT (A_Octets [120])));
       l_items := [tk [42;46]; sp1; tk [53]; sp1; tk [84;88;84]; sp1; tk [120]]; l_term := TNl |} ].

Example C11_spelling_root_wildcard_ex :
  lines_ok_spb zf_codec sp_init ex_root_wild_lines = true /\ lines_okb zf_codec sp_init ex_root_wild_lines = false /\
  match zf_deserialise (render ex_root_wild_lines) with
  | Ok z => z_apex z = root_domain /\ zone_all_records z = [] /\
            map (fun p => (fst p, map zr_data (snd p))) (zone_all_wildcard_records z) = [(root_domain, [RD_Octets [120]])]
  | _ => False
  end.
Proof. split; [vm_compute; reflexivity|]. split; [vm_compute; reflexivity|]. vm_compute. repeat split; reflexivity. Qed.

(* an owner NAME written with a leading "*." -- relative ("*.a.b" under an origin) or absolute
   ("*.a.b.") -- is textually the wildcard owner, and the syntax tree "name whose first label is *"
   has the text and (by the rule of fix 0286676, star_rule) the denotation of the tree OWild, which
   C11_parse_denotes(_spelled) covers: the restriction in oref_ok removes a duplicate tree, not a text *)
Theorem C11_star_owner_same : forall o,
  (forall pre, pre <> [] ->
     oref_text (OName (NRel (S_STAR :: pre))) = oref_text (OWild (NRel pre)) /\
     resolve_owner o (OName (NRel (S_STAR :: pre))) = resolve_owner o (OWild (NRel pre))) /\
  (forall front, NameProofs.good_front front -> front <> [] ->
     oref_text (OName (NAbs (mk (S_STAR :: front)))) = oref_text (OWild (NAbs (mk front))) /\
     resolve_owner o (OName (NAbs (mk (S_STAR :: front)))) = resolve_owner o (OWild (NAbs (mk front)))).
Proof. intro o. split; [apply star_owner_rel|apply star_owner_abs]. Qed.
Print Assumptions C11_star_owner_same.

(* What remains of parse_denotes_spelling -- kept as a statement, NOT proved:
   Theorem C11_parse_denotes_spelling_partial : C11_parse_denotes_spelled
     (a) with a '+' also in the TTL FIELD of the shapes that have an owner (parse_rr_4 and the last
         branch of parse_rr_3 call parse_u32 on it directly; in the owner-less shapes "+5" is not all
         digits and IS an owner name, so there it is not a spelling of a TTL): needs parse_rr_forms
         (ZoneFileProofs.v) restated with "all digits" only where the code tests it;
     (b) without the side conditions where they are not needed: an upper-case RDATA name that is a
         type mnemonic is harmless unless the tokens after it parse as that type's RDATA
         (inner_plain is sufficient, not necessary).
   Not a gap: "an owner NAME written with a leading '*.'" is the same TEXT as the wildcard owner
   OWild and is covered as such (oref_ok only excludes the second abstract syntax tree for one
   text; C11_star_owner_same below shows both trees have that text and that denotation).
   The correspondence stream generates all these spellings, judged by the python denotation. *)
