(* Properties/C18.v -- property theorems for C18 (address family and upstream port);
   statements only, each closed by [exact lemma] and followed by Print Assumptions.

   FIRST STEP.  Proved here, by construction of the transport model and for every
   oracle: every call that query_nameserver logs goes to exactly the socket
   address it was given (so to the configured port, and in forwarding mode to the
   forwarder, since these are the only addresses the resolver models pass), and
   the record types resolve_hostname_to_ip asks for are those of the protocol
   mode, preferred family first.
   Not yet proved (follow-up, by induction over the execution of the recursive
   model): only_v4 / only_v6 / prefer_* / port_fixed / forward_only_forwarder on
   the whole exchange log of resolve_recursive / resolve_forwarding.  Until then
   these are covered by the differential stream and the oracle of vlib/p_c18.py. *)
From RV Require Import Base.Prelude Wire.WireTypes Resolver.TransportModel Resolver.RecursiveModel
     Resolver.ResolverFacts.

Theorem C18_udp_exchange_dest : forall (o : oracle) a q rd req s x s',
  udp_exchange o a q rd req s = (x, s') ->
  exists new, ts_rlog s' = new ++ ts_rlog s
              /\ Forall (fun e => x_addr e = a /\ x_question e = q /\ x_rd e = rd) new.
Proof. exact udp_exchange_dest. Qed.
Print Assumptions C18_udp_exchange_dest.

Theorem C18_tcp_exchange_dest : forall (o : oracle) a q rd req s x s',
  tcp_exchange o a q rd req s = (x, s') ->
  exists new, ts_rlog s' = new ++ ts_rlog s
              /\ Forall (fun e => x_addr e = a /\ x_question e = q /\ x_rd e = rd) new.
Proof. exact tcp_exchange_dest. Qed.
Print Assumptions C18_tcp_exchange_dest.

Theorem C18_query_nameserver_dest : forall (o : oracle) a q rd s x s',
  query_nameserver o a q rd s = (x, s') ->
  exists new, ts_rlog s' = new ++ ts_rlog s
              /\ Forall (fun e => x_addr e = a /\ x_question e = q /\ x_rd e = rd) new.
Proof. exact query_nameserver_dest. Qed.
Print Assumptions C18_query_nameserver_dest.

(* every logged exchange of query_nameserver goes to the given address and port *)
Theorem C18_port_fixed : forall (o : oracle) i port q rd s x s',
  query_nameserver o (i, port) q rd s = (x, s') ->
  exists new, ts_rlog s' = new ++ ts_rlog s
              /\ Forall (fun e => fst (x_addr e) = i /\ snd (x_addr e) = port) new.
Proof. exact query_nameserver_port. Qed.
Print Assumptions C18_port_fixed.

(* only-v4 asks for A only, only-v6 for AAAA only; prefer-* ask for the preferred family first *)
Theorem C18_rtypes_of_mode : forall m,
  match m with
  | OnlyV4 => rtypes_of_mode m = [RT_A]
  | OnlyV6 => rtypes_of_mode m = [RT_AAAA]
  | PreferV4 => rtypes_of_mode m = [RT_A; RT_AAAA]
  | PreferV6 => rtypes_of_mode m = [RT_AAAA; RT_A]
  end.
Proof. exact rtypes_of_mode_spec. Qed.
Print Assumptions C18_rtypes_of_mode.
