(* Properties/C18.v -- property theorems for C18 (address family and upstream port);
   statements only, each closed by [exact lemma] and followed by Print Assumptions.

   FIRST STEP.  Proved here, by construction of the transport model and for every
   oracle: every call that query_nameserver logs goes to exactly the socket
   address it was given (so to the configured port, and in forwarding mode to the
   forwarder, since these are the only addresses the resolver models pass), and
   the record types resolve_hostname_to_ip asks for are those of the protocol
   mode, preferred family first.
   FOLLOW-UP (second half of this file), by induction over the execution of the
   resolver models: only_v4 / only_v6 / prefer_* / port_fixed /
   forward_only_forwarder on the whole exchange log of resolve_recursive /
   resolve_forwarding. *)
From RV Require Import Base.Prelude Wire.WireTypes Resolver.TransportModel Resolver.RecursiveModel
     Resolver.ResolverFacts.

Theorem C18_udp_exchange_dest : forall (o : oracle) a q rd req s x s',
  udp_exchange o a q rd req s = (x, s') ->
  exists new, ts_rlog s' = new ++ ts_rlog s
              /\ Forall (fun e => x_addr e = a /\ x_question e = q /\ x_rd e = rd) new.
Proof. exact udp_exchange_dest. Qed.
Print Assumptions C18_udp_exchange_dest.

Theorem C18_tcp_exchange_dest : forall (o : oracle) a q rd req s x s',
  tcp_exchange o a q rd req s = (x, s') ->
  exists new, ts_rlog s' = new ++ ts_rlog s
              /\ Forall (fun e => x_addr e = a /\ x_question e = q /\ x_rd e = rd) new.
Proof. exact tcp_exchange_dest. Qed.
Print Assumptions C18_tcp_exchange_dest.

Theorem C18_query_nameserver_dest : forall (o : oracle) a q rd s x s',
  query_nameserver o a q rd s = (x, s') ->
  exists new, ts_rlog s' = new ++ ts_rlog s
              /\ Forall (fun e => x_addr e = a /\ x_question e = q /\ x_rd e = rd) new.
Proof. exact query_nameserver_dest. Qed.
Print Assumptions C18_query_nameserver_dest.

(* every logged exchange of query_nameserver goes to the given address and port *)
Theorem C18_port_fixed : forall (o : oracle) i port q rd s x s',
  query_nameserver o (i, port) q rd s = (x, s') ->
  exists new, ts_rlog s' = new ++ ts_rlog s
              /\ Forall (fun e => fst (x_addr e) = i /\ snd (x_addr e) = port) new.
Proof. exact query_nameserver_port. Qed.
Print Assumptions C18_port_fixed.

(* only-v4 asks for A only, only-v6 for AAAA only; prefer-* ask for the preferred family first *)
Theorem C18_rtypes_of_mode : forall m,
  match m with
  | OnlyV4 => rtypes_of_mode m = [RT_A]
  | OnlyV6 => rtypes_of_mode m = [RT_AAAA]
  | PreferV4 => rtypes_of_mode m = [RT_A; RT_AAAA]
  | PreferV6 => rtypes_of_mode m = [RT_AAAA; RT_A]
  end.
Proof. exact rtypes_of_mode_spec. Qed.
Print Assumptions C18_rtypes_of_mode.

(* ====================================================================== *)
(* FOLLOW-UP: whole-log theorems on the resolver models                     *)
(* (lemmas: Resolver/RecursiveProofs.v, Resolver/ForwardingProofs.v)        *)
(* ====================================================================== *)
From RV Require Import Name.NameModel Zone.ZoneModel Resolver.LocalModel Resolver.ValidateModel
     Resolver.ForwardingModel Resolver.RecursiveProofs Resolver.ForwardingProofs.

(* port_fixed, for a whole resolution: every exchange the recursive resolver logs goes to the
   configured upstream port (and is sent without RD) -- every oracle, cache, zone set, mode, fuel *)
Theorem C18_port_fixed_whole_log :
  forall (cache : Type) (cache_get : cache -> dname -> N -> list rr) (cache_insert_all : cache -> list rr -> cache)
         (sort_names : list dname -> list dname) (zs : zones) (o : oracle) (pmode : protocol_mode) (port : N) fuel q st,
  exists new,
    ts_rlog (snd (snd (resolve_recursive cache cache_get cache_insert_all sort_names zs o pmode port fuel q st)))
    = new ++ ts_rlog (snd st)
    /\ Forall (fun e => snd (x_addr e) = port /\ x_rd e = false) new.
Proof. exact recursive_port_fixed. Qed.
Print Assumptions C18_port_fixed_whole_log.

(* forward_only_forwarder: in forwarding mode every exchange goes to the configured forwarder
   (address and port), with RD set *)
Theorem C18_forward_only_forwarder :
  forall (cache : Type) (cache_get : cache -> dname -> N -> list rr) (cache_insert_all : cache -> list rr -> cache)
         (zs : zones) (o : oracle) (forwarder : addr) fuel q st,
  exists new,
    ts_rlog (snd (snd (resolve_forwarding cache cache_get cache_insert_all zs o forwarder fuel q st)))
    = new ++ ts_rlog (snd st)
    /\ Forall (fun e => x_addr e = forwarder /\ x_rd e = true) new.
Proof. exact forwarding_only_forwarder. Qed.
Print Assumptions C18_forward_only_forwarder.

(* only_v4 / only_v6 ([v4] = true / false): every destination of a resolution has the configured
   family, never the other one.  What is needed is that record type and RDATA shape agree
   ([rr_typed]: an A record carries an IPv4 address, an AAAA record an IPv6 address -- in Rust this
   is the type RecordTypeWithData; in the model a record is a (type code, rdata) pair): of the
   configured zones, of what the cache holds at the start, and of the cache implementation (the two
   laws of C08_answer_provenance_recursive; SimpleCache meets them).  Upstream data is typed because
   it is decoded from octets (C03_decode_wf). *)
Theorem C18_only_family :
  forall (cache : Type) (cache_get : cache -> dname -> N -> list rr) (cache_insert_all : cache -> list rr -> cache)
         (sort_names : list dname -> list dname) (zs : zones) (o : oracle) (pmode : protocol_mode) (port : N)
         (cache_content : cache -> rr -> Prop),
  (forall c n t r, In r (cache_get c n t) -> exists r', cache_content c r' /\ rr_sim r r') ->
  (forall c rrs r, cache_content (cache_insert_all c rrs) r -> cache_content c r \/ exists r', In r' rrs /\ rr_sim r r') ->
  forall v4 : bool,
  oracle_bytes_ok o -> zones_rrs_ok zs rr_typed -> pmode = (if v4 then OnlyV4 else OnlyV6) ->
  forall fuel q st, (forall r, cache_content (fst st) r -> rr_typed r) ->
  exists new,
    ts_rlog (snd (snd (resolve_recursive cache cache_get cache_insert_all sort_names zs o pmode port fuel q st)))
    = new ++ ts_rlog (snd st)
    /\ Forall (fun e => ip_is_v4 (fst (x_addr e)) = v4) new.
Proof. exact recursive_only_family. Qed.
Print Assumptions C18_only_family.

(* prefer_family ([v4] = true: prefer-v4, false: prefer-v6), on the loop of resolve_hostname_to_ip
   -- a fold over [rtypes_of_mode] in order: when it yields an address of the OTHER family for a
   nameserver host, the question for the preferred family was asked first (of local data in the
   fast pass, recursively in the slow pass) and yielded no address; only then was the other family
   asked.  Same typing hypotheses as above. *)
Theorem C18_prefer_family :
  forall (cache : Type) (cache_get : cache -> dname -> N -> list rr) (cache_insert_all : cache -> list rr -> cache)
         (sort_names : list dname -> list dname) (zs : zones) (o : oracle) (pmode : protocol_mode) (port : N)
         (cache_content : cache -> rr -> Prop),
  (forall c n t r, In r (cache_get c n t) -> exists r', cache_content c r' /\ rr_sim r r') ->
  (forall c rrs r, cache_content (cache_insert_all c rrs) r -> cache_content c r \/ exists r', In r' rrs /\ rr_sim r r') ->
  oracle_bytes_ok o -> zones_rrs_ok zs rr_typed ->
  forall (v4 : bool) fuel stack locally host st a st',
  pmode = (if v4 then PreferV4 else PreferV6) ->
  (forall r, cache_content (fst st) r -> rr_typed r) ->
  resolve_hostname_to_ip cache cache_get zs pmode
    (resolve_recursive_notimeout cache cache_get cache_insert_all sort_names zs o pmode port fuel) stack locally host st
    = (Val (Some a), st') ->
  ip_is_v4 a = negb v4 ->
  exists st1,
    hostname_try cache cache_get zs
      (resolve_recursive_notimeout cache cache_get cache_insert_all sort_names zs o pmode port fuel) stack locally host
      (if v4 then RT_A else RT_AAAA) st = (Val None, st1)
    /\ hostname_try cache cache_get zs
      (resolve_recursive_notimeout cache cache_get cache_insert_all sort_names zs o pmode port fuel) stack locally host
      (if v4 then RT_AAAA else RT_A) st1 = (Val (Some a), st').
Proof. exact rhi_prefer_family. Qed.
Print Assumptions C18_prefer_family.

(* the loop itself, without any hypothesis: the second record type is asked only when the first
   yielded no address *)
Theorem C18_hostname_loop_order :
  forall (cache : Type) (cache_get : cache -> dname -> N -> list rr) (zs : zones)
         (rec : list question -> question -> RM cache rres) stack locally host t1 t2 st a st',
  hostname_loop cache cache_get zs rec stack locally host [t1; t2] st = (Val (Some a), st') ->
  hostname_try cache cache_get zs rec stack locally host t1 st = (Val (Some a), st')
  \/ exists st1, hostname_try cache cache_get zs rec stack locally host t1 st = (Val None, st1)
                 /\ hostname_try cache cache_get zs rec stack locally host t2 st1 = (Val (Some a), st').
Proof. exact hloop_two. Qed.
Print Assumptions C18_hostname_loop_order.

(* the address taken from a set of typed records has the family of the record type asked for *)
Theorem C18_get_ip_family : forall rrs host t a,
  Forall rr_typed rrs -> get_ip rrs host t = Ok (Some a) ->
  (t = RT_A -> ip_is_v4 a = true) /\ (t = RT_AAAA -> ip_is_v4 a = false).
Proof. exact get_ip_family. Qed.
Print Assumptions C18_get_ip_family.

(* the hypotheses are satisfiable: the records of a zone set built with Zone::insert are typed when
   the inserted records are -- here the root hints of C07's worked universe, checked record by
   record; SimpleCache meets the cache laws (C08_simple_cache_laws) and the empty cache holds
   nothing *)
Example C18_example_typed :
  rr_typed {| rr_name := root_domain; rr_type := RT_A; rr_class := RC_IN; rr_ttl := 1; rr_data := RD_A 167772161 |}
  /\ rr_typed {| rr_name := root_domain; rr_type := RT_AAAA; rr_class := RC_IN; rr_ttl := 1; rr_data := RD_AAAA [0;0;0;0;0;0;0;1] |}
  /\ ~ rr_typed {| rr_name := root_domain; rr_type := RT_A; rr_class := RC_IN; rr_ttl := 1; rr_data := RD_AAAA [0;0;0;0;0;0;0;1] |}
  /\ (forall r, sc_content sc_empty r -> rr_typed r)
  /\ zones_rrs_ok [] rr_typed.
Proof.
  split; [reflexivity|]. split; [reflexivity|]. split; [vm_compute; discriminate|].
  split; [intros r H; destruct (sc_empty_content r H)|].
  assert (E : forall n qt, zones_resolve [] n qt = None).
  { intros n qt. unfold zones_resolve, zones_get.
    assert (E : forall sufs, zones_get_loop (@nil (dname * zone)) sufs = None).
    { induction sufs as [|ls rest IH]; [reflexivity|]. cbn [zones_get_loop alookup]. destruct (from_labels ls); exact IH. }
    rewrite E. reflexivity. }
  split; intros name qt z zr r H; rewrite E in H; discriminate.
Qed.
